#!/usr/bin/env python3
"""Generates the seeded self-test variants (DESIGN.md section 7): small edits of the
reference tree, each breaking one rule while still compiling. Output: one context patch per
variant under /verif/selftest/variants/<property>/ and /verif/selftest/variants/index.json.
Development tool; the thorough tier only reads the generated files."""
import json, os, shutil, subprocess, sys, tempfile

REPO = "/repo"
OUT = "/verif/selftest/variants"

# (property, name, file, old, new, expected rules, what)
V = []
def v(prop, name, file, old, new, expect, what, mentions="", also=None):
    V.append(dict(prop=prop, name=name, file=file, old=old, new=new, expect=expect, what=what, mentions=mentions, also=also or []))

KV = "leader/kv_election.go"; HB = "leader/heartbeat.go"; W = "leader/watcher.go"; CN = "leader/connection.go"
ER = "leader/error.go"; RT = "leader/retry.go"; VA = "leader/validation.go"; EL = "leader/election.go"; FE = "leader/fencing.go"

# ---- C01
v("C01", "refresh-reads-revision-outside-snapshot", HB,
  "rev, updateErr := e.kv.Update(e.key, payloadBytes, currentRev, opts...)",
  "rev, updateErr := e.kv.Update(e.key, payloadBytes, e.revision.Load(), opts...)",
  ["C01-R3"], "the refresh goroutine re-reads the revision field without the mutex instead of using the snapshot")
v("C01", "delete-without-ownership-check", KV,
  "ownedRev, owned := e.ownsRecord(termToken)\n\t\tif !owned {", "ownedRev, owned := uint64(0), termToken != \"\"\n\t\tif !owned {", ["C01-R6"], "StopWithContext deletes the key without verifying ownership")
v("C01", "observe-leader-while-leader", KV,
  "\tif e.isLeader.Load() {\n\t\treturn\n\t}\n\te.leaderID.Store(id)", "\te.leaderID.Store(id)",
  ["C01-R4"], "observeLeader stores observed revisions even while the instance is leader")
v("C01", "key-from-bucket", KV, "key: cfg.Group,", "key: cfg.Bucket,", ["C01-R2"], "the record key is not derived from the group")
v("C01", "heartbeat-foreign-id", HB, "ID:       e.cfg.InstanceID,\n\t\t\t\tToken:    token,", "ID:       e.LeaderID(),\n\t\t\t\tToken:    token,",
  ["C01-R3"], "the refresh publishes the observed leader id instead of the configured instance id")
# ---- C02
v("C02", "no-liveness-guard", KV, "\tif e.ctx == nil || e.ctx.Err() != nil {\n\t\treturn false\n\t}\n\n\t// A term is already running",
  "\t// A term is already running", ["C02-R2"], "becomeLeader claims leadership without checking that the election still runs")
v("C08", "double-promotion", KV, "\tif e.isLeader.Load() {\n\t\treturn false\n\t}\n\n\t// Context of this term", "\t// Context of this term", ["C08-R1"], "becomeLeader promotes an instance that already leads")
v("C02", "claim-on-transient-update-error", KV, "\tnewRev, err := e.kv.Update(e.key, payloadBytes, entry.Revision())\n\tif err != nil {",
  "\tnewRev, err := e.kv.Update(e.key, payloadBytes, entry.Revision())\n\tif err != nil && IsPermanentError(err) {",
  ["C02-R1"], "after a transient takeover error the instance still claims leadership")
v("C02", "claim-with-other-token", KV, "if !e.becomeLeader(token, rev) {", "if !e.becomeLeader(uuid.New().String(), rev) {",
  ["C02-R1"], "the claimed token differs from the token written to the record")
# ---- C03
v("C03", "five-transient-failures", HB, "maxFailures := 3", "maxFailures := 5", ["C03-R2"], "demotion only after five failed refreshes")
v("C03", "permanent-error-not-special", HB, "if IsPermanentError(updateErr) {", "if false && IsPermanentError(updateErr) {",
  ["C03-R2"], "a revision conflict no longer demotes at once")
v("C03", "ten-second-attempt-timeout", HB, "if updateTimeout < 1*time.Second {\n\t\t\t\tupdateTimeout = 1 * time.Second", "if updateTimeout < 10*time.Second {\n\t\t\t\tupdateTimeout = 10 * time.Second",
  ["C03-R1"], "the per-attempt time-out floor is raised to 10 s")
v("C03", "counter-reset-on-unhealthy-tick", HB, "\t\t\t\t\tcontinue\n\t\t\t\t}\n\t\t\t\tif e.healthFailureCount.Load() > 0 {", "\t\t\t\t\tconsecutiveFailures = 0\n\t\t\t\t\tcontinue\n\t\t\t\t}\n\t\t\t\tif e.healthFailureCount.Load() > 0 {",
  ["C03-R2"], "the refresh-failure counter is reset by an unhealthy tick, not only by a success")
v("C03", "heartbeat-every-two-intervals", HB, "ticker := time.NewTicker(e.cfg.HeartbeatInterval)", "ticker := time.NewTicker(2 * e.cfg.HeartbeatInterval)", ["C03-R8"], "refreshes are issued every two heartbeat intervals")
v("C07", "heartbeat-every-ttl", HB, "ticker := time.NewTicker(e.cfg.HeartbeatInterval)", "ticker := time.NewTicker(e.cfg.TTL)", ["C07-R5"], "refreshes are issued once per TTL")
v("C06", "periodic-check-only-when-leader-known", W, "\tentry, err := e.kv.Get(e.key)\n\tif err != nil {\n\t\t// Key doesn't exist - trigger re-election", "\tif e.LeaderID() == \"\" {\n\t\treturn\n\t}\n\tentry, err := e.kv.Get(e.key)\n\tif err != nil {\n\t\t// Key doesn't exist - trigger re-election", ["C06-R2"], "the periodic check only reads the key once a leader id is known")
v("C09", "stop-with-context-ignores-timeout-option", KV, "\ttimeout := opts.Timeout\n\tif timeout == 0 {", "\ttimeout := time.Duration(0)\n\tif timeout == 0 {", ["C09-R3"], "StopWithContext ignores opts.Timeout")
# ---- C04
v("C04", "skip-id-comparison", KV, "\tif leaderID != e.cfg.InstanceID {", "\tif false && leaderID != e.cfg.InstanceID {", ["C04-R1"], "validation no longer compares the record's id")
v("C04", "decode-error-counts-as-valid", KV, "if err := json.Unmarshal(entry.Value(), &payload); err != nil {\n\t\treturn false, err\n\t}\n\n\tkvTokenInterface",
  "if err := json.Unmarshal(entry.Value(), &payload); err != nil {\n\t\treturn true, nil\n\t}\n\n\tkvTokenInterface", ["C04-R1"], "an undecodable record validates")
v("C04", "ordemote-does-not-demote", KV, "\t\tif e.IsLeader() {\n\t\t\te.handleValidationFailure(nil, err)\n\t\t}\n\t\treturn false", "\t\treturn false",
  ["C04-R4"], "ValidateTokenOrDemote returns false without demoting")
v("C04", "validate-without-leader-check", KV, "\tif !e.IsLeader() {\n\t\treturn false, ErrNotLeader\n\t}\n\n\treturn e.validateToken(ctx)", "\treturn e.validateToken(ctx)",
  ["C04-R2"], "ValidateToken validates for non-leaders")
# ---- C05
v("C05", "token-reused-across-terms", KV, "\ttoken := uuid.New().String()\n", "\ttoken := e.Token()\n\tif token == \"\" {\n\t\ttoken = uuid.New().String()\n\t}\n",
  ["C05-R1"], "an instance reuses its previous term's token")
v("C05", "refresh-mints-new-token", HB, "ID:       e.cfg.InstanceID,\n\t\t\t\tToken:    token,", "ID:       e.cfg.InstanceID,\n\t\t\t\tToken:    token + NewTimeoutError(\"\", 0, nil).Operation,",
  ["C05-R3", "C01-R3"], "every heartbeat publishes a new token", )
# ---- C06
v("C06", "five-second-periodic-check", W, "checkTicker := time.NewTicker(500 * time.Millisecond)", "checkTicker := time.NewTicker(5 * time.Second)", ["C06-R2"], "the periodic existence check runs every 5 s")
v("C06", "watch-loop-gives-up-as-leader", W, "\t\tif ctx.Err() != nil {\n\t\t\treturn\n\t\t}\n", "\t\tif ctx.Err() != nil || e.IsLeader() {\n\t\t\treturn\n\t\t}\n",
  ["C06-R3"], "the follower loop ends for good when it notices the instance leads")
v("C06", "watcher-only-after-demotion", KV, "if ctx := e.ctx; ctx != nil && e.watcherCtx != ctx {", "if ctx := e.ctx; ctx != nil && wasLeader && e.watcherCtx != ctx {",
  ["C06-R1"], "only a demoted leader starts the follower loop; a failed first acquisition does not")
v("C06", "read-error-ignored-by-periodic-check", W, "\t\te.startAcquireRound(ctx)\n\t\treturn\n\t}\n\n\tif entry == nil || len(entry.Value()) == 0 {", "\t\treturn\n\t}\n\n\tif entry == nil || len(entry.Value()) == 0 {",
  ["C06-R2"], "a missing key no longer triggers an acquisition round in the periodic check")
# ---- C07
v("C07", "watcher-ignores-revision", W, "if newLeaderID != e.cfg.InstanceID && entry.Revision() > e.revision.Load() {", "if newLeaderID != e.cfg.InstanceID {",
  ["C07-R1"], "a late event naming another instance demotes a leader whatever its revision")
v("C07", "retry-exhaustion-demotes", KV, "\t\t\te.stayFollower()\n\t\t\treturn\n\t\t}\n\n\t\tfinalBackoff", "\t\t\te.becomeFollower(nil)\n\t\t\treturn\n\t\t}\n\n\t\tfinalBackoff",
  ["C07-R1"], "an exhausted acquisition round demotes the instance even if it leads")
v("C07", "ttl-margin-two-intervals", VA, "minTTL := cfg.HeartbeatInterval * 3", "minTTL := cfg.HeartbeatInterval * 2", ["C07-R3"], "validation accepts TTL = 2 x heartbeat")
# ---- C08
v("C08", "notify-without-result", KV, "\tif !e.becomeFollower(term) {\n\t\treturn\n\t}\n", "\te.becomeFollower(term)\n", ["C08-R3"], "demote() notifies even if it did not end a term")
v("C08", "watcher-demotes-silently", W, "e.demote(\"leadership_lost_via_watcher\")", "e.becomeFollower(nil)", ["C08-R2"], "preemption seen by the watcher demotes without OnDemote")
v("C08", "promote-before-claim", KV, "\te.state.Store(StateLeader)\n\te.isLeader.Store(true)\n", "\te.state.Store(StateLeader)\n",
  ["C08-R1", "C02-R4"], "the claim is never set although OnPromote runs")
# ---- C09
v("C09", "untracked-acquisition-round", KV, "\te.wg.Add(1)\n\tgo func() {\n\t\tdefer e.wg.Done()\n\t\te.attemptAcquireWithRetry(ctx)\n\t}()", "\tgo func() {\n\t\te.attemptAcquireWithRetry(ctx)\n\t}()",
  ["C09-R2"], "acquisition rounds are not registered with the WaitGroup")
v("C09", "stop-waits-without-timeout", KV, "\tselect {\n\tcase <-done:\n\tcase <-time.After(5 * time.Second):\n\t}\n", "\tselect {\n\tcase <-done:\n\t}\n", ["C09-R3"], "Stop waits for background work without a time-out")
v("C09", "follower-transition-after-stop", KV, "\tif fromState == StateStopped {\n\t\treturn false\n\t}\n", "", ["C09-R1"], "a late becomeFollower turns STOPPED into FOLLOWER")
v("C09", "stop-clears-claim-after-unlock", KV, "\te.isLeader.Store(false)\n\te.state.Store(StateStopped)\n\te.lastTransition.Store(time.Now())\n\te.watcherCtx = nil\n\n\te.recordTransition(currentState, StateStopped)\n\te.updateIsLeaderMetric()\n\n\tif e.disconnectHandler != nil {\n\t\te.disconnectHandler.stop()\n\t}\n\n\te.mu.Unlock()\n\n\tlog := e.getLogger()",
  "\te.watcherCtx = nil\n\n\tif e.disconnectHandler != nil {\n\t\te.disconnectHandler.stop()\n\t}\n\n\te.mu.Unlock()\n\n\te.isLeader.Store(false)\n\te.state.Store(StateStopped)\n\te.lastTransition.Store(time.Now())\n\te.recordTransition(currentState, StateStopped)\n\te.updateIsLeaderMetric()\n\n\tlog := e.getLogger()",
  ["C09-R0"], "Stop clears the claim after releasing the mutex")
v("C09", "nil-unsafe-logging", "leader/logger.go", "\tif ctx != nil {\n\t\tif correlationID", "\t{\n\t\tif correlationID", ["C09-R6"], "logWithContext dereferences a nil context again")
# ---- C10
v("C10", "equal-priority-takes-over", KV, "if e.cfg.Priority <= currentPayload.Priority {", "if e.cfg.Priority < currentPayload.Priority {", ["C10-R1"], "an equal-priority instance preempts")
v("C10", "takeover-without-flag", KV, "if e.cfg.AllowPriorityTakeover && e.cfg.Priority > 0 {", "if e.cfg.Priority > 0 {", ["C10-R1"], "takeover is attempted although it is disabled")
v("C10", "takeover-with-revision-zero", KV, "newRev, err := e.kv.Update(e.key, payloadBytes, entry.Revision())", "_ = entry.Revision()\n\tnewRev, err := e.kv.Update(e.key, payloadBytes, 0)", ["C10-R1"], "the takeover Update does not present the read revision")
# ---- C11
v("C11", "default-grace-two-intervals", CN, "gracePeriod = 3 * d.election.cfg.HeartbeatInterval", "gracePeriod = 2 * d.election.cfg.HeartbeatInterval", ["C11-R1"], "default grace period 2 x heartbeat")
v("C11", "expiry-ignores-generation", CN, "\tif !current {\n", "\tif false && !current {\n",
  ["C11-R3"], "grace expiry demotes although a reconnect / newer disconnect arrived since the timer was armed")
v("C11", "expiry-decides-by-status", CN, "\tif !current {\n", "\t_ = current\n\tif d.election.connectionMonitor != nil && d.election.connectionMonitor.Status() != ConnectionStatusDisconnected {\n",
  ["C11-R3"], "grace expiry decides by the monitor's status again (overwritten by verification success / closed)")
v("C11", "stop-keeps-generation", CN, "\td.generation++\n\tif d.timer != nil {\n\t\td.timer.Stop()\n\t\td.timer = nil", "\tif d.timer != nil {\n\t\td.timer.Stop()\n\t\td.timer = nil",
  ["C11-R3"], "stopping the timer does not invalidate a callback that has already fired")
v("C11", "generation-compared-without-lock", CN, "\td.mu.Lock()\n\tcurrent := generation == d.generation\n\tdisconnectedAt := d.disconnectedAt\n\td.mu.Unlock()\n", "\tcurrent := generation == d.generation\n\td.mu.Lock()\n\tdisconnectedAt := d.disconnectedAt\n\td.mu.Unlock()\n",
  ["C11-R3", "C20-R1"], "the arming counter is read without the handler mutex")
v("C11", "reconnect-keeps-leadership-on-failed-validation", CN, "\t\te.handleReconnectVerificationFailed(err)\n\t\treturn\n\t}\n\n\t// Verification passed", "\t\treturn\n\t}\n\n\t// Verification passed",
  ["C11-R4"], "a failed token validation after reconnect does not demote")
v("C11", "demote-under-handler-mutex", CN, "\td.mu.Lock()\n\tcurrent := generation == d.generation\n\tdisconnectedAt := d.disconnectedAt\n\td.mu.Unlock()\n", "\td.mu.Lock()\n\tdefer d.mu.Unlock()\n\tcurrent := generation == d.generation\n\tdisconnectedAt := d.disconnectedAt\n",
  ["C11-R5"], "grace expiry demotes while holding the handler mutex (lock-order inversion with Stop)")
v("C11", "timer-armed-for-followers", CN, "\tif !d.election.isLeader.Load() {\n\t\treturn\n\t}\n\n\t// Calculate grace period", "\t// Calculate grace period", ["C11-R2"], "the grace timer is armed although the instance does not lead")
# ---- C12
v("C12", "threshold-strict", HB, "if failureCount >= int32(maxHealthFailures) {", "if failureCount > int32(maxHealthFailures) {", ["C12-R3"], "health demotion one tick late")
v("C12", "one-second-health-context", HB, "context.WithTimeout(ctx, 100*time.Millisecond)", "context.WithTimeout(ctx, time.Second)", ["C12-R1"], "health checks get a 1 s context")
v("C12", "no-reset-at-term-start", KV, "\te.healthFailureCount.Store(0)\n", "", ["C12-R4"], "the health counter is not reset when a term starts")
v("C12", "default-threshold-five", HB, "\t\tmaxHealthFailures = 3\n", "\t\tmaxHealthFailures = 5\n", ["C12-R2"], "default health threshold 5")
# ---- C13
v("C13", "recursion-on-unparsable-record", KV, "return fmt.Errorf(\"priority takeover skipped (unparsable leadership record): %w\", err)", "return e.attemptAcquire()", ["C13-R1"], "takeover recurses into acquisition on an unparsable record")
v("C13", "unchecked-token-assertion", KV, "\tkvToken, ok := kvTokenInterface.(string)\n\tif !ok {", "\tkvToken := kvTokenInterface.(string)\n\tif kvToken == \"\" {", ["C13-R3"], "a non-string token in the record panics")
v("C13", "watch-retry-without-pause", W, "\t\tselect {\n\t\tcase <-ctx.Done():\n\t\t\treturn\n\t\tcase <-time.After(watchRetryInterval):\n\t\t}\n", "", ["C13-R4"], "the watch is re-established in a tight loop")
v("C13", "decode-error-ignored", W, "\tif err := json.Unmarshal(valueBytes, &payload); err != nil {\n\t\treturn\n\t}\n", "\t_ = json.Unmarshal(valueBytes, &payload)\n", ["C13-R2"], "the watcher processes a record that failed to decode")
# ---- C14
v("C14", "adapter-update-unconditional", EL, "return a.kv.Update(key, value, rev)", "return a.kv.Put(key, value)", ["C14-R2"], "the adapter's Update ignores the revision")
v("C14", "updates-per-call", EL, "\ta.once.Do(func() {\n\t\tentryChan := make(chan Entry, 1)\n", "\tfunc() {\n\t\tentryChan := make(chan Entry, 1)\n", ["C14-R1"], "Updates() builds a channel and goroutine per call", also=[("\t\t}()\n\t})\n\treturn a.entryChan", "\t\t}()\n\t}()\n\treturn a.entryChan")])
v("C14", "forwarder-not-released", EL, "\t\t\t\tselect {\n\t\t\t\tcase entryChan <- entry:\n\t\t\t\tcase <-a.done:\n\t\t\t\t\treturn\n\t\t\t\t}\n", "\t\t\t\tentryChan <- entry\n", ["C14-R4"], "the forwarding goroutine blocks on its send after Stop")
v("C14", "stop-does-not-close-done", EL, "\ta.stopOnce.Do(func() { close(a.done) })\n\t_ = a.watcher.Stop()", "\t_ = a.watcher.Stop()", ["C14-R4"], "Stop does not release the forwarding goroutine")
v("C14", "adapter-create-swaps-arguments", EL, "return a.kv.Create(key, value)", "return a.kv.Create(string(value), []byte(key))", ["C14-R2"], "the adapter's Create swaps key and value")
# ---- C15
v("C15", "conflict-patterns-removed", ER, "\tif errors.Is(err, nats.ErrKeyExists) {\n\t\treturn true\n\t}\n\n\tpermanentPatterns := []string{\n\t\t\"revision mismatch\",\n\t\t\"wrong last sequence\",\n\t\t\"key exists\",\n", "\t_ = nats.ErrKeyExists\n\n\tpermanentPatterns := []string{\n\t\t\"revision mismatch\",\n", ["C15-R3"], "the client's conflict identities are dropped from the classifier")
v("C15", "timeout-by-type-assertion", ER, "\tvar timeoutErr *TimeoutError\n\tif errors.As(err, &timeoutErr) {\n\t\treturn false\n\t}", "\tif _, ok := err.(*TimeoutError); ok {\n\t\treturn false\n\t}", ["C15-R2"], "wrapped TimeoutErrors are classified by message")
v("C15", "nil-is-transient", ER, "func IsTransientError(err error) bool {\n\tif err == nil {\n\t\treturn false\n\t}\n", "func IsTransientError(err error) bool {\n", ["C15-R1"], "IsTransientError(nil) is true")
v("C15", "timeout-pattern-permanent", ER, "\t\t\"authentication\",\n", "\t\t\"authentication\",\n\t\t\"nats: timeout\",\n", ["C15-R3"], "the client's time-out error is classified permanent")
# ---- C16
v("C16", "ttl-boundary-inclusive", VA, "if cfg.TTL < minTTL {", "if cfg.TTL <= minTTL {", ["C16-R1"], "TTL == 3 x heartbeat is rejected")
v("C16", "negative-max-failures-accepted", VA, "\tif cfg.MaxConsecutiveFailures < 0 {\n\t\treturn NewValidationError(\"MaxConsecutiveFailures\", cfg.MaxConsecutiveFailures, \"must be >= 0\")\n\t}\n", "", ["C16-R1"], "negative MaxConsecutiveFailures is accepted")
v("C16", "store-contacted-before-validation", KV, "\tif err := validateConfig(cfg); err != nil {\n\t\treturn nil, err\n\t}\n\n\tjs, err := nc.JetStream()\n\tif err != nil {\n\t\treturn nil, fmt.Errorf(\"failed to get JetStream: %w\", err)\n\t}\n",
  "\tjs, err := nc.JetStream()\n\tif err != nil {\n\t\treturn nil, fmt.Errorf(\"failed to get JetStream: %w\", err)\n\t}\n\n\tif err := validateConfig(cfg); err != nil {\n\t\treturn nil, err\n\t}\n", ["C16-R2"], "the provider is contacted before the configuration is validated")
v("C16", "wrong-field-named", VA, "return NewValidationError(\"Group\", cfg.Group, \"group name is required\")", "return NewValidationError(\"Bucket\", cfg.Group, \"group name is required\")", ["C16-R1"], "the error for an empty group names Bucket")
# ---- rules added after the fifth seeding round
v("C17", "getter-refreshes-breaker-state", RT, "func (cb *CircuitBreaker) Call(fn func() error) error {",
  "// State reports the state the next Call will find.\nfunc (cb *CircuitBreaker) State() CircuitState {\n\tcb.mu.Lock()\n\tdefer cb.mu.Unlock()\n\tif cb.state == CircuitStateOpen && time.Since(cb.lastFailureTime) >= cb.cooldownPeriod {\n\t\tcb.state = CircuitStateHalfOpen\n\t\tcb.failures = 0\n\t}\n\treturn cb.state\n}\n\nfunc (cb *CircuitBreaker) Call(fn func() error) error {",
  ["C17-R6"], "a State() accessor moves the breaker to half-open and clears the count")
v("C16", "constructor-probes-bucket-first", EL, "func NewElection(nc JetStreamProvider, cfg ElectionConfig) (Election, error) {\n\treturn newKVElection(nc, cfg)",
  "func bucketReachable(nc JetStreamProvider, bucket string) bool {\n\tjs, err := nc.JetStream()\n\tif err != nil {\n\t\treturn false\n\t}\n\t_, err = js.KeyValue(bucket)\n\treturn err == nil\n}\n\nfunc NewElection(nc JetStreamProvider, cfg ElectionConfig) (Election, error) {\n\tif !bucketReachable(nc, cfg.Bucket) {\n\t\ttime.Sleep(10 * time.Millisecond)\n\t}\n\treturn newKVElection(nc, cfg)",
  ["C16-R2"], "NewElection probes the bucket through a helper before the configuration is validated")
v("C14", "watcher-stop-closes-only-on-success", EL, "\ta.stopOnce.Do(func() { close(a.done) })\n\t_ = a.watcher.Stop()",
  "\ta.stopOnce.Do(func() {\n\t\tif err := a.watcher.Stop(); err != nil {\n\t\t\treturn\n\t\t}\n\t\tclose(a.done)\n\t})",
  ["C14-R4"], "the watcher adapter releases its forwarding goroutine only if the unsubscribe succeeded")
v("C11", "monitor-drops-repeated-reconnect", CN, "func (m *natsConnectionMonitor) handleReconnect(nc *nats.Conn) {\n\tm.status.Store(ConnectionStatusReconnected)",
  "func (m *natsConnectionMonitor) handleReconnect(nc *nats.Conn) {\n\tif m.Status() != ConnectionStatusDisconnected {\n\t\treturn\n\t}\n\tm.status.Store(ConnectionStatusReconnected)",
  ["C11-R6"], "the connection monitor forwards a reconnect only if its own status word says disconnected")
v("C19", "onpromote-supervised-in-goroutine", KV, "\te.onPromote = fn\n}",
  "\tif fn == nil {\n\t\te.onPromote = nil\n\t\treturn\n\t}\n\tlimit := e.cfg.TTL\n\te.onPromote = func(ctx context.Context, token string) {\n\t\tdone := make(chan struct{})\n\t\tgo func() {\n\t\t\tdefer close(done)\n\t\t\tfn(ctx, token)\n\t\t}()\n\t\tselect {\n\t\tcase <-done:\n\t\tcase <-time.After(limit):\n\t\t}\n\t}\n}",
  ["C19-R3"], "OnPromote installs a wrapper that runs the callback on another goroutine and stops waiting after one TTL")
v("C04", "no-demotion-once-start-context-cancelled", KV, "\tif fromState == StateStopped {\n\t\treturn false\n\t}\n\n\te.isLeader.Store(false)",
  "\tif fromState == StateStopped || e.ctx == nil || e.ctx.Err() != nil {\n\t\treturn false\n\t}\n\n\te.isLeader.Store(false)",
  ["C04-R7"], "enterFollowerState refuses to clear the claim once the election context is done")
v("C05", "adopt-own-recreated-record", KV, "func (e *kvElection) discardUnclaimedRecord(rev uint64) {\n",
  "func (e *kvElection) discardUnclaimedRecord(rev uint64) {\n\te.mu.Lock()\n\tif e.isLeader.Load() && rev > e.revision.Load() {\n\t\te.revision.Store(rev)\n\t\te.mu.Unlock()\n\t\treturn\n\t}\n\te.mu.Unlock()\n",
  ["C05-R6"], "a running term adopts the revision of a record its own leftover acquisition re-created under another token")
v("C01", "observe-leader-check-and-store-in-two-holds", KV, "\tif e.isLeader.Load() {\n\t\treturn\n\t}\n\te.leaderID.Store(id)",
  "\tif e.isLeader.Load() {\n\t\treturn\n\t}\n\te.mu.Unlock()\n\te.getLogger().Debug(\"leader_observed\")\n\te.mu.Lock()\n\te.leaderID.Store(id)",
  ["C01-R4"], "observeLeader tests the claim in one lock hold and stores the observed revision in the next")
v("C13", "lenient-priority-decoder", KV, "func (e *kvElection) discardUnclaimedRecord(rev uint64) {\n",
  "// UnmarshalJSON accepts records of older writers.\nfunc (p *leadershipPayload) UnmarshalJSON(b []byte) error {\n\ttype plain leadershipPayload\n\tvar q plain\n\tif err := json.Unmarshal(b, &q); err != nil {\n\t\tvar loose struct {\n\t\t\tID    string `json:\"id\"`\n\t\t\tToken string `json:\"token\"`\n\t\t}\n\t\tif err2 := json.Unmarshal(b, &loose); err2 != nil {\n\t\t\treturn err\n\t\t}\n\t\tq.ID, q.Token = loose.ID, loose.Token\n\t}\n\t*p = leadershipPayload(q)\n\treturn nil\n}\n\nfunc (e *kvElection) discardUnclaimedRecord(rev uint64) {\n",
  ["C13-R8"], "the record type gets a lenient UnmarshalJSON that reads an unreadable priority as 0")
v("C10", "takeover-retry-without-recheck", KV, "\tnewRev, err := e.kv.Update(e.key, payloadBytes, entry.Revision())\n\tif err != nil {",
  "\tnewRev, err := e.kv.Update(e.key, payloadBytes, entry.Revision())\n\tif err != nil && !IsPermanentError(err) {\n\t\tif latest, gerr := e.kv.Get(e.key); gerr == nil && latest != nil {\n\t\t\tnewRev, err = e.kv.Update(e.key, payloadBytes, latest.Revision())\n\t\t}\n\t}\n\tif err != nil {",
  ["C10-R1"], "a failed takeover write is retried with a freshly read revision without repeating the priority comparison")
# ---- C17
v("C17", "six-attempts", KV, "maxRetries  = 3", "maxRetries  = 5", ["C17-R1"], "an acquisition round makes six attempts")
v("C17", "breaker-opens-late", RT, "if cb.failures >= cb.failureThreshold {", "if cb.failures > cb.failureThreshold {", ["C17-R2"], "the breaker opens one failure late")
v("C17", "attempt-counted-before-wait", RT, "\t\tcase <-time.After(backoff):\n\t\t\tattempt++\n\t\t}", "\t\tcase <-time.After(backoff):\n\t\t}\n\t\tattempt += 2", ["C17-R3"], "the attempt counter advances by two")
v("C17", "jitter-up-to-one-second", KV, "jitterMax   = 100 * time.Millisecond", "jitterMax   = time.Second", ["C17-R1"], "initial jitter up to 1 s")
v("C17", "breaker-calls-while-open", RT, "\t\tif time.Since(cb.lastFailureTime) < cb.cooldownPeriod {\n\t\t\treturn fmt.Errorf(\"circuit breaker is open\")\n\t\t}\n", "", ["C17-R2"], "the breaker invokes the operation while open")
# ---- C18
v("C18", "leader-state-candidate", KV, "\te.state.Store(StateLeader)\n", "\te.state.Store(StateCandidate)\n", ["C18-R1"], "a leader's state is CANDIDATE")
v("C18", "gauge-not-updated-on-demotion", KV, "\te.recordTransition(fromState, StateFollower)\n\te.updateIsLeaderMetric()\n", "\te.recordTransition(fromState, StateFollower)\n", ["C18-R2"], "the gauge stays 1 after a demotion")
v("C18", "transition-from-constant", KV, "e.recordTransition(fromState, StateFollower)", "e.recordTransition(StateLeader, StateFollower)", ["C18-R2"], "transitions are recorded with a constant from-state")
v("C18", "claim-store-outside-mutex", CN, "\tif e.isLeader.Load() {\n\t\tlog := e.getLogger()\n\t\tlog.Error(\"demoting_due_to_reconnect_verification_failure\",", "\tif e.isLeader.Load() {\n\t\te.isLeader.Store(false)\n\t\tlog := e.getLogger()\n\t\tlog.Error(\"demoting_due_to_reconnect_verification_failure\",",
  ["C18-R1"], "the claim is cleared outside the mutex without a state change")
# ---- rules added after the second seeding round
v("C03", "loops-on-election-context", KV, "\t\te.heartbeatLoop(termCtx)", "\t\te.heartbeatLoop(ctx)", ["C03-R9"], "the heartbeat loop runs on the election's context and outlives its term")
v("C12", "validation-loop-on-election-context", KV, "\t\te.validationLoop(termCtx)", "\t\te.validationLoop(ctx)", ["C12-R6"], "the validation loop runs on the election's context and outlives its term")
v("C03", "context-end-keeps-claim", HB, "func (e *kvElection) handleHeartbeatContextDone(ctx context.Context) {\n\te.demoteTerm(ctx, \"context_cancelled\")\n}", "func (e *kvElection) handleHeartbeatContextDone(ctx context.Context) {\n}", ["C03-R4"], "a cancelled Start context ends the heartbeat loop but leaves the claim")
v("C03", "diagnostic-get-inline", HB, "\t\t\t\t\t\te.wg.Add(1)\n\t\t\t\t\t\tgo func() {\n\t\t\t\t\t\t\tdefer e.wg.Done()\n\t\t\t\t\t\t\te.logTakeover(ctx)\n\t\t\t\t\t\t}()", "\t\t\t\t\t\te.logTakeover(ctx)", ["C03-R10"], "the heartbeat loop reads the store synchronously")
v("C17", "nan-blind-clamp", RT, "\tif !(backoff <= float64(cfg.MaxBackoff)) {", "\tif backoff > float64(cfg.MaxBackoff) {", ["C17-R4"], "the cap lets NaN (0 * +Inf) through to the conversion")
v("C17", "clamp-by-builtin-min", RT, "\tif !(backoff <= float64(cfg.MaxBackoff)) {\n\t\tbackoff = float64(cfg.MaxBackoff)\n\t}", "\tbackoff = min(backoff, float64(cfg.MaxBackoff))", ["C17-R4"], "the builtin min propagates NaN")
v("C17", "negative-limit-unbounded", RT, "\tif cfg.MaxAttempts < 0 {\n\t\treturn fmt.Errorf(\"%w: MaxAttempts must not be negative (got %d)\", ErrInvalidConfig, cfg.MaxAttempts)\n\t}\n", "", ["C17-R3"], "a negative MaxAttempts retries without bound")
v("C10", "takeover-decision-memoised", W, "\tif e.cfg.AllowPriorityTakeover && e.cfg.Priority > payload.Priority {\n", "\tif e.cfg.AllowPriorityTakeover && e.cfg.Priority > payload.Priority && e.lastTransition.Load() != nil && time.Since(e.lastTransition.Load().(time.Time)) > time.Second {\n", ["C10-R5"], "the watch-triggered takeover attempt is rate limited by unrelated state")
v("C14", "adapter-get-swallows-error", EL, "\tnatsEntry, err := a.kv.Get(key)\n\tif err != nil {\n\t\treturn nil, err\n\t}", "\tnatsEntry, err := a.kv.Get(key)\n\tif err != nil {\n\t\treturn nil, nil\n\t}", ["C14-R2"], "the adapter's Get turns a store error into 'no value'")
v("C06", "watch-retry-backoff", W, "\t\tcase <-time.After(watchRetryInterval):", "\t\tcase <-time.After(watchRetryInterval * time.Duration(1+e.healthFailureCount.Load())):", ["C06-R2"], "the pause before the next existence check is computed and can grow")
v("C03", "result-channel-shared", HB, "\t\t\tresultChan := make(chan updateResult, 1)\n", "", ["C03-R1"], "one result channel is shared by all refresh attempts", also=[("\tfor {\n\t\tselect {\n\t\tcase <-ctx.Done():\n\t\t\te.handleHeartbeatContextDone(ctx)", "\ttype updateResult struct {\n\t\trev uint64\n\t\terr error\n\t}\n\tresultChan := make(chan updateResult, 1)\n\tfor {\n\t\tselect {\n\t\tcase <-ctx.Done():\n\t\t\te.handleHeartbeatContextDone(ctx)"), ("\t\t\ttype updateResult struct {\n\t\t\t\trev uint64\n\t\t\t\terr error\n\t\t\t}\n", "")])
v("C06", "no-check-at-watch-establishment", W, "\tif !e.IsLeader() {\n\t\te.checkKeyAndReelect(ctx)\n\t}\n\n\tfor {\n\t\tselect {\n\t\tcase <-ctx.Done():\n\t\t\treturn\n\t\tcase entry, ok := <-watcher.Updates():", "\tfor {\n\t\tselect {\n\t\tcase <-ctx.Done():\n\t\t\treturn\n\t\tcase entry, ok := <-watcher.Updates():", ["C06-R2"], "two periods between existence checks around a watch re-establishment")
v("C07", "validation-timeout-fixed", FE, "\tif half := e.cfg.HeartbeatInterval / 2; half > validationTimeout {\n\t\tvalidationTimeout = half\n\t}\n", "", ["C07-R7"], "the background validation read times out after a fixed 2 s")
v("C08", "demotion-result-lost", KV, "\tif ctx := e.ctx; ctx != nil && e.watcherCtx != ctx {", "\tif e.ctx == nil {\n\t\treturn false\n\t}\n\tif ctx := e.ctx; ctx != nil && e.watcherCtx != ctx {", ["C08-R2"], "enterFollowerState returns false after it cleared a standing claim")
v("C13", "preempts-nameless-record", KV, "\tif currentPayload.ID == \"\" {\n\t\treturn fmt.Errorf(\"priority takeover skipped (record names no leader)\")\n\t}\n", "", ["C13-R6"], "a record that is valid JSON but no leadership payload is preempted as priority 0")
v("C08", "failed-stop-silent", KV, "\t\tif wasLeader && hasOnDemote {\n\t\t\te.notifyDemotedByFailedStop()\n\t\t}\n\t\treturn fmt.Errorf(\"shutdown timeout exceeded: %v\", timeout)", "\t\treturn fmt.Errorf(\"shutdown timeout exceeded: %v\", timeout)", ["C08-R2"], "a StopWithContext that times out clears the claim without OnDemote")
v("C01", "shutdown-delete-unconditional", KV, "\tif rd, ok := e.kv.(RevisionDeleter); ok {\n\t\treturn rd.DeleteRevision(e.key, rev)\n\t}\n", "\t_ = rev\n", ["C01-R7"], "the shutdown deletion ignores the revision of the ownership read")
v("C14", "delete-revision-without-option", EL, "return a.kv.Delete(key, nats.LastRevision(rev))", "_ = rev\n\treturn a.kv.Delete(key)", ["C14-R2"], "the adapter's conditional delete is unconditional")
v("C09", "refused-claim-leaves-record", KV, "\t\te.discardUnclaimedRecord(rev)\n\t\treturn ErrAlreadyStopped", "\t\treturn ErrAlreadyStopped", ["C09-R7"], "an acquisition refused by a stop leaves the record it has just created")
v("C09", "deletion-on-the-stop-goroutine", KV, "\t\tdeleted := make(chan struct{})\n\t\tgo func() {\n\t\t\tdefer close(deleted)\n\t\t\te.deleteOwnRecord(ctx, termToken)\n\t\t}()\n", "\t\tdeleted := make(chan struct{})\n\t\te.deleteOwnRecord(ctx, termToken)\n\t\tclose(deleted)\n", ["C09-R8"], "StopWithContext reads and deletes on its own goroutine, unbounded")
v("C09", "ondemote-wait-full-timeout", KV, "\t\t\t\tcase <-time.After(time.Until(deadline)):\n\t\t\t\t\tlog.Warn(\"ondemote_callback_timeout\"", "\t\t\t\tcase <-time.After(timeout):\n\t\t\t\t\tlog.Warn(\"ondemote_callback_timeout\"", ["C09-R8", "C09-R3"], "the wait for OnDemote takes the full time-out again")
v("C01", "discard-without-shutdown-flag", KV, "\tif !e.deleteKeyOnStop.Load() {\n\t\treturn\n\t}\n\tif err := e.deleteRecordAt(rev); err != nil {", "\tif err := e.deleteRecordAt(rev); err != nil {", ["C01-R6"], "a refused acquisition deletes its record although no shutdown asked for it")
v("C02", "claim-published-first", KV, "\te.state.Store(StateLeader)\n\te.isLeader.Store(true)\n", "\te.state.Store(StateLeader)\n", ["C02-R5"], "the claim is stored before the term's token and revision", also=[("\te.leaderID.Store(e.cfg.InstanceID)\n\te.token.Store(token)\n", "\te.isLeader.Store(true)\n\te.leaderID.Store(e.cfg.InstanceID)\n\te.token.Store(token)\n")])
v("C07", "revision-published-after-claim", KV, "\te.revision.Store(rev)\n\tnow := time.Now()", "\tnow := time.Now()", ["C07-R8"], "the term's revision is stored after the claim: a late event of the predecessor passes the watcher's filter", also=[("\te.state.Store(StateLeader)\n\te.isLeader.Store(true)\n", "\te.state.Store(StateLeader)\n\te.isLeader.Store(true)\n\te.revision.Store(rev)\n")])
v("C17", "convert-before-clamp", RT, "\tbackoff := float64(cfg.InitialBackoff) * math.Pow(cfg.BackoffMultiplier, float64(attempt))\n", "\tbackoff := float64(time.Duration(float64(cfg.InitialBackoff) * math.Pow(cfg.BackoffMultiplier, float64(attempt))))\n", ["C17-R4"], "the exponential term is converted to an integer duration before the clamp (seed C17-1 on the current tree)")
v("C08", "stop-returns-before-ondemote", KV, "\tif wasLeader && hasOnDemote {\n\t\tlog := e.getLogger()\n\t\tlog.Info(\"leader_demoted\",\n\t\t\tappend(e.logWithContext(ctx),\n\t\t\t\tzap.String(\"reason\", \"stop_with_context\"),", "\tif opts.DeleteKey && !opts.WaitForDemote {\n\t\treturn nil\n\t}\n\tif wasLeader && hasOnDemote {\n\t\tlog := e.getLogger()\n\t\tlog.Info(\"leader_demoted\",\n\t\t\tappend(e.logWithContext(ctx),\n\t\t\t\tzap.String(\"reason\", \"stop_with_context\"),", ["C08-R2"], "an early successful return of StopWithContext skips OnDemote (seed C08-2 on the current tree)")
# ---- C19
v("C19", "demotion-does-not-cancel", KV, "\tif e.termCancel != nil {\n\t\te.termCancel()\n\t\te.termCancel = nil\n\t\te.termCtx = nil\n\t}\n", "\te.termCancel, e.termCtx = nil, nil\n", ["C19-R1"], "demotion no longer cancels the term context")
v("C19", "promotion-context-from-background", KV, "promoteCtx, cancel := context.WithCancel(termCtx)", "_ = termCtx\n\t\t\tpromoteCtx, cancel := context.WithCancel(context.Background())", ["C19-R1"], "the promotion context is detached from the term")
v("C19", "term-cancelled-by-heartbeat", HB, "\t\t\tif !stillLeader {\n\t\t\t\treturn\n\t\t\t}\n", "\t\t\tif !stillLeader {\n\t\t\t\treturn\n\t\t\t}\n\t\t\tif e.termCancel != nil && consecutiveFailures > 1 {\n\t\t\t\te.termCancel()\n\t\t\t}\n",
  ["C19-R2", "C20-R1"], "the heartbeat loop cancels the term context while the instance still leads")
# ---- C20
v("C20", "ondemote-registered-without-lock", KV, "func (e *kvElection) OnDemote(fn func()) {\n\te.mu.Lock()\n\tdefer e.mu.Unlock()\n\te.onDemote = fn", "func (e *kvElection) OnDemote(fn func()) {\n\te.onDemote = fn", ["C20-R1"], "OnDemote registers the callback without the mutex")
v("C20", "timer-stopped-without-lock", CN, "func (d *disconnectHandler) stop() {\n\td.mu.Lock()\n\tdefer d.mu.Unlock()\n", "func (d *disconnectHandler) stop() {\n", ["C20-R1", "C20-R3"], "the grace timer is accessed without the handler mutex")
v("C20", "term-cancel-read-unlocked", KV, "func (e *kvElection) IsLeader() bool {\n\treturn e.isLeader.Load()", "func (e *kvElection) IsLeader() bool {\n\tif e.termCancel == nil && e.cancel == nil {\n\t\treturn false\n\t}\n\treturn e.isLeader.Load()", ["C20-R1"], "IsLeader reads mutex-guarded fields without the mutex")

def run(cmd, cwd=None, check=True):
    for k in ("GOTOOLCHAIN", "GOFLAGS", "GOPROXY", "GOSUMDB"):
        os.environ.pop(k, None)
    r = subprocess.run(cmd, cwd=cwd, shell=isinstance(cmd, str), capture_output=True, text=True)
    if check and r.returncode != 0:
        raise RuntimeError("%s failed: %s %s" % (cmd, r.stdout[-2000:], r.stderr[-2000:]))
    return r


# ---- round 3
v("C03", "context-end-demotes-only-if-election-ended", HB, "func (e *kvElection) handleHeartbeatContextDone(ctx context.Context) {\n\te.demoteTerm(ctx, \"context_cancelled\")\n}", "func (e *kvElection) handleHeartbeatContextDone(ctx context.Context) {\n\te.mu.RLock()\n\trunning := e.ctx != nil && e.ctx.Err() == nil\n\te.mu.RUnlock()\n\tif running {\n\t\treturn\n\t}\n\te.demoteTerm(ctx, \"context_cancelled\")\n}", ["C03-R4"], "the loop's final demotion is skipped while the election context is live: cancel + Start again leaves the claim without heartbeats")
v("C03", "ticker-reset-after-attempt", HB, "\t\t\theartbeatStartTime := time.Now()\n\t\t\tif updateErr != nil {", "\t\t\tticker.Reset(e.cfg.HeartbeatInterval)\n\t\t\theartbeatStartTime := time.Now()\n\t\t\tif updateErr != nil {", ["C03-R8", "C07-R5"], "attempts start one interval after the END of the previous attempt")
v("C07", "heartbeat-failure-demotion-unbound", HB, "\te.demoteTerm(ctx, \"heartbeat_failure\")", "\te.demote(\"heartbeat_failure\")", ["C07-R9", "C12-R7"], "a heartbeat loop that outlived its term demotes the next term")
v("C07", "validation-demotion-unbound", FE, "\t\t\t\te.handleValidationFailure(ctx, ErrTokenInvalid)", "\t\t\t\te.handleValidationFailure(nil, ErrTokenInvalid)", ["C07-R9", "C12-R7"], "a validation loop that outlived its term demotes the next term")
v("C07", "term-identity-test-dropped", KV, "\tif term != nil && e.termCtx != term {\n\t\treturn false\n\t}\n", "", ["C07-R9", "C12-R7"], "demotions bound to a term are no longer compared with the current term")
v("C12", "stale-health-result-counted", HB, "\t\t\t\tif ctx.Err() != nil {\n\t\t\t\t\tcontinue\n\t\t\t\t}\n\t\t\t\tif !healthy {", "\t\t\t\tif !healthy {", ["C12-R8"], "the result of a health check that outlasted the term is counted against the next term")
v("C12", "acquisition-gated-by-health-count", KV, "func (e *kvElection) attemptAcquire() error {\n", "func (e *kvElection) attemptAcquire() error {\n\tif e.cfg.HealthChecker != nil && e.healthFailureCount.Load() >= 3 {\n\t\treturn ErrNotLeader\n\t}\n", ["C12-R9"], "a follower demoted for health reasons never campaigns again")
v("C06", "round-flag-not-cleared-on-cancel", KV, "func (e *kvElection) startAcquireRound(ctx context.Context) {\n", "func (e *kvElection) startAcquireRound(ctx context.Context) {\n\tif !e.deleteKeyOnStop.CompareAndSwap(false, false) {\n\t\treturn\n\t}\n", ["C06-R6"], "an atomic flag that is never cleared by the round decides whether a round starts")
v("C09", "reconnect-samples-claim-before-lock", CN, "func (e *kvElection) handleReconnect() {\n\te.mu.Lock()\n\tdefer e.mu.Unlock()\n", "func (e *kvElection) handleReconnect() {\n\twasLeader := e.isLeader.Load()\n\te.mu.Lock()\n\tdefer e.mu.Unlock()\n", ["C09-R9"], "the reconnect verification is started on a claim read before the mutex: after a Stop in between", also=[("\tif !e.isLeader.Load() {\n\t\treturn\n\t}\n\n\tlog.Info(\"verifying_leadership_after_reconnect\"", "\tif !wasLeader {\n\t\treturn\n\t}\n\n\tlog.Info(\"verifying_leadership_after_reconnect\"")])
v("C11", "reconnect-as-follower-keeps-timer", CN, "\tif e.disconnectHandler != nil {\n\t\te.disconnectHandler.stop()\n\t}\n\n\tif !e.isLeader.Load() {\n\t\treturn\n\t}\n\n\tlog.Info(\"verifying_leadership_after_reconnect\"", "\tif !e.isLeader.Load() {\n\t\treturn\n\t}\n\n\tif e.disconnectHandler != nil {\n\t\te.disconnectHandler.stop()\n\t}\n\n\tlog.Info(\"verifying_leadership_after_reconnect\"", ["C11-R4"], "a reconnect notification received as follower does not cancel the pending expiry")
v("C11", "verification-success-cancels-timer", CN, "\tlog.Info(\"reconnect_verification_success\",", "\tif e.disconnectHandler != nil {\n\t\te.disconnectHandler.stop()\n\t}\n\tlog.Info(\"reconnect_verification_success\",", ["C11-R4"], "the asynchronous verification cancels whatever expiry is pending when it ends, also a newer disconnect's")
v("C14", "watch-wrapper-reused", EL, "\t\t\tfor natsEntry := range a.watcher.Updates() {\n\t\t\t\tvar entry Entry\n\t\t\t\tif natsEntry != nil {\n\t\t\t\t\tentry = &natsEntryAdapter{entry: natsEntry}\n\t\t\t\t}", "\t\t\twrapped := &natsEntryAdapter{}\n\t\t\tfor natsEntry := range a.watcher.Updates() {\n\t\t\t\tvar entry Entry\n\t\t\t\tif natsEntry != nil {\n\t\t\t\t\twrapped.entry = natsEntry\n\t\t\t\t\tentry = wrapped\n\t\t\t\t}", ["C14-R3"], "one entry wrapper is refilled for every watch event")
v("C15", "adapter-error-names-the-key", EL, "func (a *natsKeyValueAdapter) Delete(key string) error {\n\treturn a.kv.Delete(key)\n}", "func (a *natsKeyValueAdapter) Delete(key string) error {\n\tif err := a.kv.Delete(key); err != nil {\n\t\treturn NewElectionError(\"kv_delete\", key, \"delete failed\", err)\n\t}\n\treturn nil\n}", ["C15-R5", "C14-R2"], "the adapter adds the key (the group name) to the client's error text")

v("C12", "health-demotion-unbound", HB, "\te.demoteTerm(ctx, \"health_check_failure\")", "\te.demote(\"health_check_failure\")", ["C12-R7"], "a health demotion issued by a loop that outlived its term ends the next term")
v("C15", "adapter-error-wrapped-with-operation", EL, "\tnatsEntry, err := a.kv.Get(key)\n\tif err != nil {\n\t\treturn nil, err\n\t}", "\tnatsEntry, err := a.kv.Get(key)\n\tif err != nil {\n\t\treturn nil, NewElectionError(\"kv_get\", key, \"get failed\", err)\n\t}", ["C15-R5"], "the adapter wraps the client's error with the key")

v("C02", "context-end-demotes-only-if-election-ended", HB, "func (e *kvElection) handleHeartbeatContextDone(ctx context.Context) {\n\te.demoteTerm(ctx, \"context_cancelled\")\n}", "func (e *kvElection) handleHeartbeatContextDone(ctx context.Context) {\n\te.mu.RLock()\n\trunning := e.ctx != nil && e.ctx.Err() == nil\n\te.mu.RUnlock()\n\tif running {\n\t\treturn\n\t}\n\te.demoteTerm(ctx, \"context_cancelled\")\n}", ["C02-R6"], "the loop's final demotion is skipped while the election context is live: a claim without heartbeats after cancel + Start")

v("C09", "refused-delete-not-retried", KV, "\tfor attempt := 0; attempt < ownRecordDeleteAttempts; attempt++ {", "\tfor attempt := 0; attempt < 1; attempt++ {", ["C09-R10"], "a conditional delete refused because the own heartbeat landed is not retried")
v("C17", "jittered-value-converted-unbounded", RT, "\tif finalBackoff >= float64(math.MaxInt64) {\n\t\treturn time.Duration(math.MaxInt64)\n\t}\n", "", ["C17-R5"], "the jittered value can exceed 2^63 before the conversion")
v("C17", "nan-blind-lower-bound", RT, "\tif !(finalBackoff >= 0) {\n\t\tfinalBackoff = backoff\n\t}\n\tif !(finalBackoff >= 0) {", "\tif finalBackoff < 0 {\n\t\tfinalBackoff = backoff\n\t}\n\tif finalBackoff < 0 {", ["C17-R5"], "a NaN jitter passes the lower bound")
v("C18", "periodic-check-needs-known-leader", W, "\tif currentLeaderID != newLeaderID {\n\t\tif currentLeaderID != \"\" {", "\tif currentLeaderID != \"\" && currentLeaderID != newLeaderID {\n\t\tif currentLeaderID != \"\" {", ["C18-R5"], "a follower without a known leader never records the one the periodic check reads")

# ---- rules that had no exercising variant
v("C01", "refresh-ignores-snapshot-claim", HB, "\t\t\tif !stillLeader {\n\t\t\t\treturn\n\t\t\t}\n", "\t\t\t_ = stillLeader\n", ["C01-R3"], "the refresh uses the revision of a snapshot in which the claim was not tested: a deposed leader presents its successor's revision")
v("C03", "refresh-without-claim-check", HB, "\t\t\tif !stillLeader {\n\t\t\t\treturn\n\t\t\t}\n", "\t\t\t_ = stillLeader\n", ["C03-R3"], "the refresh Update is issued without the claim having been read true in this iteration", also=[("\t\t\tif !e.IsLeader() {\n\t\t\t\treturn\n\t\t\t}\n\n\t\t\tif e.cfg.HealthChecker != nil {", "\t\t\tif e.cfg.HealthChecker != nil {")])
v("C04", "validation-loop-ignores-negative-verdict", FE, "\t\t\t\te.handleValidationFailure(ctx, ErrTokenInvalid)\n\t\t\t\treturn", "\t\t\t\tcontinue", ["C04-R5"], "the background validation logs a negative verdict and goes on")
v("C05", "status-token-is-leader-id", KV, "\t\tToken:          token,\n", "\t\tToken:          leaderID + token[:0],\n", ["C05-R4"], "Status().Token does not show the term token")
v("C15", "heartbeat-retries-permanent-errors", HB, "\t\t\t\tif IsPermanentError(updateErr) {", "\t\t\t\tif updateErr == ErrNotLeader {", ["C15-R4", "C03-R2"], "the heartbeat no longer classifies its error: a revision conflict is retried three times")
v("C18", "undocumented-state-value", KV, "\te.state.Store(StateCandidate)", "\te.state.Store(\"STARTING\")", ["C18-R4"], "an undocumented state value is stored")
v("C20", "key-rewritten-in-start", KV, "\te.ctx, e.cancel = context.WithCancel(ctx)\n", "\te.ctx, e.cancel = context.WithCancel(ctx)\n\te.key = e.cfg.Group\n", ["C20-R1", "C20-R2"], "an init-only field that is read without the mutex everywhere gets a writer")

# ---- round 4
v("C04", "ordemote-bound-to-a-captured-term", KV, "\t\t\te.handleValidationFailure(nil, err)", "\t\t\te.handleValidationFailure(e.termCtx, err)", ["C04-R4"], "ValidateTokenOrDemote demotes only the term it read before: false without demotion after a re-election")
v("C06", "tick-channel-nil-for-a-leader", W, "\tcheckTicker := time.NewTicker(500 * time.Millisecond)\n\tdefer checkTicker.Stop()\n", "\tcheckTicker := time.NewTicker(500 * time.Millisecond)\n\tdefer checkTicker.Stop()\n\ttickC := checkTicker.C\n\tif e.IsLeader() {\n\t\ttickC = nil\n\t}\n", ["C06-R2"], "the watch session of a leader has no tick channel; after a demotion the periodic check never runs", also=[("\t\tcase <-checkTicker.C:", "\t\tcase <-tickC:")])
v("C06", "watcher-marker-boolean", KV, "\tif ctx := e.ctx; ctx != nil && e.watcherCtx != ctx {\n\t\te.watcherCtx = ctx\n", "\tif ctx := e.ctx; ctx != nil && e.watcherCtx == nil {\n\t\te.watcherCtx = ctx\n", ["C06-R1"], "the watcher marker no longer identifies the run: a still-finishing watcher of an earlier run suppresses the new run's")
v("C14", "forwarded-entry-carried-over", EL, "\t\t\tfor natsEntry := range a.watcher.Updates() {\n\t\t\t\tvar entry Entry\n", "\t\t\tvar entry Entry\n\t\t\tfor natsEntry := range a.watcher.Updates() {\n", ["C14-R3"], "the client's nil marker forwards the previous entry again")
v("C17", "half-open-success-keeps-the-count", RT, "\tcb.failures = 0\n\tcb.state = CircuitStateClosed\n", "\tif cb.state == CircuitStateClosed {\n\t\tcb.failures = 0\n\t}\n\tcb.state = CircuitStateClosed\n", ["C17-R2"], "a successful half-open probe closes the breaker but keeps the failure count")
v("C18", "leader-id-stored-only-when-cache-differs", KV, "\te.leaderID.Store(id)\n\te.revision.Store(rev)\n}", "\tif e.lastTransition.Load() != nil {\n\t\te.leaderID.Store(id)\n\t}\n\te.revision.Store(rev)\n}", ["C18-R5"], "the observed leader id is stored only under a condition on other state of the election")
v("C20", "append-to-shared-slice", KV, "func (e *kvElection) getMetricsLabels() prometheus.Labels {", "func (e *kvElection) sharedFields() []string {\n\te.mu.RLock()\n\tfields := e.cfgFields\n\te.mu.RUnlock()\n\treturn append(fields, e.key)\n}\n\nfunc (e *kvElection) getMetricsLabels() prometheus.Labels {", ["C20-R4"], "append to a slice kept in the election object", also=[("\ttermCtx context.Context\n\n", "\ttermCtx context.Context\n\tcfgFields []string\n\n")])

v("C13", "takeover-uses-entry-without-nil-test", KV, "\tif entry == nil {\n\t\t// The adapters answer (nil, nil) for a key that holds no entry: the\n\t\t// record was deleted between the refused Create and this read. There is\n\t\t// nothing to preempt; the caller's retry creates the key.\n\t\treturn fmt.Errorf(\"priority takeover skipped: the leadership record is gone\")\n\t}\n", "", ["C13-R7"], "a record deleted between the refused Create and the Get crashes the takeover candidate")

# ---- round 6
v("C06", "ticker-rearmed-on-every-watch-event", W, "\t\t\te.handleWatchEvent(entry)\n\t\tcase <-checkTicker.C:", "\t\t\te.handleWatchEvent(entry)\n\t\t\tcheckTicker.Reset(500 * time.Millisecond)\n\t\tcase <-checkTicker.C:", ["C06-R2"], "every watch event re-arms the existence-check ticker: a leader that refreshes faster than the period starves the check")
v("C11", "default-grace-resolved-in-the-constructor", KV, "\te := &kvElection{\n\t\tcfg: cfg,", "\tif cfg.DisconnectGracePeriod == 0 {\n\t\tcfg.DisconnectGracePeriod = 3 * cfg.HeartbeatInterval\n\t}\n\te := &kvElection{\n\t\tcfg: cfg,", ["C11-R1"], "the constructor resolves the default grace period to 3 x H: the 5 s floor applied where the timer is armed becomes dead code")
v("C18", "transition-labels-cached-by-target-state", KV, "\tlabels := e.getMetricsLabels()\n\tlabels[\"from_state\"] = fromState\n\tlabels[\"to_state\"] = toState\n\te.cfg.Metrics.IncTransitions(labels)\n", "\tlabels, ok := e.transitionLabels[toState]\n\tif !ok {\n\t\tlabels = e.getMetricsLabels()\n\t\tlabels[\"from_state\"] = fromState\n\t\tlabels[\"to_state\"] = toState\n\t\tif e.transitionLabels == nil {\n\t\t\te.transitionLabels = map[string]prometheus.Labels{}\n\t\t}\n\t\te.transitionLabels[toState] = labels\n\t}\n\te.cfg.Metrics.IncTransitions(labels)\n", ["C18-R2"], "label sets cached by target state only: the second transition into a state is recorded with the first one's from-state", also=[("\ttermCtx context.Context\n\n", "\ttermCtx context.Context\n\ttransitionLabels map[string]prometheus.Labels\n\n")])

def main():
    only = set(sys.argv[1:])
    work = tempfile.mkdtemp(prefix="mkvariants-")
    try:
        run("rsync -a --exclude .git %s/ %s/" % (REPO, work))
        run("git init -q && git add -A && git -c user.email=a@b -c user.name=x commit -qm base", cwd=work)
        index = []
        if os.path.exists(OUT + "/index.json") and only:
            index = [e for e in json.load(open(OUT + "/index.json"))["variants"] if e["property"] + "/" + e["name"] not in only and e["property"] not in only]
        failed = []
        for x in V:
            key = x["prop"] + "/" + x["name"]
            if only and key not in only and x["prop"] not in only:
                continue
            path = os.path.join(work, x["file"])
            src = open(path).read()
            if src.count(x["old"]) != 1:
                failed.append((key, "anchor text occurs %d times" % src.count(x["old"])))
                continue
            src = src.replace(x["old"], x["new"])
            bad = [o for o, n in x["also"] if src.count(o) != 1]
            if bad:
                failed.append((key, "secondary anchor text not unique: %r" % bad[0][:40]))
                continue
            for o, n in x["also"]:
                src = src.replace(o, n)
            open(path, "w").write(src)
            run("gofmt -w %s" % path, check=False)
            b = run("go build ./... ", cwd=work, check=False)
            if b.returncode != 0:
                failed.append((key, "does not compile: " + b.stderr[-400:]))
                run("git checkout -q -- .", cwd=work)
                continue
            d = run("git diff", cwd=work).stdout
            run("git checkout -q -- .", cwd=work)
            os.makedirs(os.path.join(OUT, x["prop"]), exist_ok=True)
            rel = "selftest/variants/%s/%s.diff" % (x["prop"], x["name"])
            open("/verif/" + rel, "w").write(d)
            index.append({"property": x["prop"], "name": x["name"], "patch": rel, "expect": x["expect"], "mentions": x["mentions"], "what": x["what"], "source": "selftest"})
        index.sort(key=lambda e: (e["property"], e["name"]))
        json.dump({"variants": index}, open(OUT + "/index.json", "w"), indent=1)
        print("wrote", len(index), "variants;", len(failed), "failed")
        for k, why in failed:
            print("  FAILED", k, why)
    finally:
        shutil.rmtree(work, ignore_errors=True)

main()
