#!/bin/bash
# Runs the pinned baseline suite of /repo (or $1) and compares with /root/.vp/BASELINE.json.
unset GOTOOLCHAIN GOFLAGS GOPROXY GOSUMDB
# Development helper only: no registered check calls this (the checks are static).
R=${1:-/repo}
cd "$R" || exit 2
go test -mod=mod -json -vet=off -count=1 -timeout 25m ./... > /tmp/suite.$$.json 2>/tmp/suite.$$.err
python3 - /tmp/suite.$$.json <<'PY'
import json,sys
base=set(json.load(open('/root/.vp/BASELINE.json'))['stable_pass'])
ok=set();bad=set()
for l in open(sys.argv[1]):
    try: e=json.loads(l)
    except Exception: continue
    if e.get('Test') and e.get('Action') in('pass','fail'):
        n=e['Package']+'::'+e['Test']
        (ok if e['Action']=='pass' else bad).add(n)
if bad or (base-ok):
    out=open('/tmp/suite_fail.log','a')
    for l in open(sys.argv[1]):
        try: e=json.loads(l)
        except Exception:
            out.write(l); continue
        n=(e.get('Package') or '')+'::'+(e.get('Test') or '')
        if (n in bad or not e.get('Test')) and e.get('Action')=='output': out.write(e['Output'])
    out.write('=====\n')
print('passed',len(ok&base),'of',len(base),'failed',sorted(bad),'missing',sorted(base-ok-bad))
sys.exit(0 if base<=ok else 1)
PY
rc=$?
rm -f /tmp/suite.$$.json /tmp/suite.$$.err
exit $rc
