#!/usr/bin/env python3
"""Generates /verif/MANIFEST.json from the property specifications registered in the checker
(./bin/electlint -specs). Run after building the checker; the result is committed."""
import json, subprocess, sys
specs = json.loads(subprocess.check_output(["/verif/bin/electlint", "-specs"]))
technique = {
 "C01": "static analysis: store-operation inventory, key/revision/token provenance (value-flow over go/ssa), lockset + guard facts",
 "C02": "static analysis: guard-fact dataflow (success edge of own write), provenance of claimed revision/token, lockset + run-liveness guard",
 "C03": "static analysis: CFG shape of the refresh loop (select cases, gated time-out expression, counter phi leaves, must-demote-then-exit edges)",
 "C04": "static analysis: dominance/guard facts on every return of the validation function, origins of compared values, edge-cut reachability",
 "C05": "static analysis: value provenance (uuid freshness through Marshal/Unmarshal and parameters)",
 "C06": "static analysis: goroutine tracking, constant folding of periods, exit classification of the follower loop",
 "C07": "static analysis: edge-cut reachability of every demotion chain against enumerated justification literals",
 "C08": "static analysis: interprocedural must-follow of callback invocations, returns-previous-claim summaries, guard facts",
 "C09": "static analysis: lockset analysis, goroutine inventory/typestate (tracked, bounded-detached), select-shape and nil-safety rules",
 "C10": "static analysis: guard facts inherited over call sites (strict comparison literal), revision provenance, call-graph reachability",
 "C11": "static analysis: interprocedural may-lockset / lock-order graph, gated-phi expression of the grace duration, edge reachability",
 "C12": "static analysis: guard facts and gated threshold expression, edge reachability avoiding the next tick, per-term reset site",
 "C13": "static analysis: call-graph SCCs (VTA), decode-error edge reachability, taint of record-derived values, CFG-cycle blocking rule",
 "C14": "static analysis: once-guard / call-in-loop rule for Watcher.Updates, positional forwarding check of adapter methods (store semantics: not applicable)",
 "C15": "static analysis: return-guard facts of the classifiers, constant extraction from the pinned nats.go / nats-server sources and substring folding",
 "C16": "static analysis: reject-cube extraction from the validator's CFG compared with the documented table; dominance in the constructor",
 "C17": "static analysis: constant folding and loop-bound extraction, edge reachability in the breaker, exit classification of the retry loop (numeric backoff range: not decided)",
 "C18": "static analysis: lockset at every claim/state store, per-section constant pairing, metrics call arguments, owner-side field stores",
 "C19": "static analysis: context ancestry (value-flow), must-follow of the term cancel after every claim clear, who-may-call of the cancel field",
 "C20": "static analysis: lockset discipline per field (must-lockset intersection), init-only and sync.Once idioms",
}
checks = []
for s in specs:
    pid = s["id"]
    text = s["explanation"] + " NOT decided by this check: " + "; ".join(s["not_decided"]) + "."
    checks.append({
        "property_id": pid,
        "quick_cmd": "./bin/electlint -p %s -tier quick" % pid,
        "thorough_cmd": "./bin/electlint -p %s -tier thorough" % pid,
        "evidence_file": "/verif/evidence/%s.json" % pid,
        "replay_cmd_template": "./bin/electlint -replay {path}",
        "engine": "electlint",
        "level_claimed": {"category": s["level"], "text": text, "design_ref": "DESIGN.md section 5 (%s)" % pid},
        "level_note": "Trusted base: go/types, go/ssa and the VTA call graph of golang.org/x/tools v0.50.0; the rule definitions, accepted idioms and instance floors in /verif/checker; objects identified by type. Assumes: " + "; ".join(s["assumptions"]) + ". A structural verdict, not a behavioural one: the check decides the stated necessary/sufficient conditions on every path of the current source, it executes nothing.",
        "technique": technique[pid],
    })
manifest = {
 "version": 1,
 "setup_cmd": "cd /verif/checker && env GOFLAGS=-mod=mod GOPROXY=off GOSUMDB=off GOTOOLCHAIN=local GOWORK=off /opt/veriftools/go1.26.8/bin/go build -o /verif/bin/electlint .",
 "hooks": {
  "guard": "verif",
  "enable": "no hooks exist: the checker only reads /repo's source (go/packages + go/ssa, nothing is instrumented or executed). The thorough tier additionally loads /repo with -tags verif so that a guarded file, should one ever be added, is analysed too.",
  "baseline_off_cmd": "cd /repo && go test -mod=mod -json -vet=off -count=1 -timeout 25m ./...",
  "source_commits": [],
  "add_only": True
 },
 "engines": [{"name": "electlint", "path": "/verif/checker", "serves_properties": [s["id"] for s in specs],
   "kind_free_text": "repository-specific static analyser over the type-checked program in SSA form: anchors derived from the public API, guard-fact dataflow, interprocedural locksets, value provenance, call-graph rules; one obligation per (rule, construct)"}],
 "checks": checks,
 "not_applicable": [],
 "notes": "Every property is claimed only for its structural clauses; the clauses that quantify over time, schedules or the external store are listed per check under 'NOT decided' (and in each evidence file under coverage.not_decided). C14's store-semantics clauses are not applicable to static analysis of this repository; C14 is claimed for the two clauses that are in this repository's text. Genuine defects found are in /verif/known_findings.json: 28 'fixed:' entries (18 fix: commits in /repo) and one open finding (C20, field kvElection.ctx)."
}
json.dump(manifest, open("/verif/MANIFEST.json", "w"), indent=1)
print("wrote MANIFEST.json with", len(checks), "checks")
