#!/usr/bin/env python3
"""Re-evaluates every confirmed seeded change with the current checker, on the /repo commit it was
written at, and records in its meta.json which properties/rules report it (obligations that fail
with the change and hold on that commit without it). Run after rules change."""
import json, glob, os, subprocess, tempfile, shutil, sys, concurrent.futures as cf
for k in ("GOTOOLCHAIN", "GOFLAGS", "GOPROXY", "GOSUMDB"):
    os.environ.pop(k, None)
BIN = os.environ.get("BIN", "/verif/bin/electlint")
OPEN_RULES = set(f["rule"] for f in json.load(open("/verif/known_findings.json"))["findings"] if f.get("status") != "fixed")

def alarms(d):
    out = subprocess.run([BIN, "-p", "all", "-repo", d, "-no-evidence"], capture_output=True, text=True).stdout
    keys = set()
    for l in out.splitlines():
        if l.startswith(("VIOLATION ", "UNDECIDED ")) and not l.startswith("VIOLATION property="):
            parts = l.split(None, 2)
            if len(parts) == 3:
                keys.add(parts[2].strip())
    return keys

_base = {}
def base_alarms(commit):
    if commit not in _base:
        d = tempfile.mkdtemp(prefix="reeval-")
        subprocess.run("git clone -q --shared /repo %s/r && cd %s/r && git checkout -q %s && rm -rf .git" % (d, d, commit), shell=True, check=True)
        _base[commit] = alarms(d + "/r")
        shutil.rmtree(d)
    return _base[commit]

def one(meta):
    m = json.load(open(meta))
    commit = m.get("repo_commit", "762b7af")
    d = tempfile.mkdtemp(prefix="reeval-")
    try:
        r = subprocess.run("git clone -q --shared /repo %s/r && cd %s/r && git checkout -q %s && git apply --whitespace=nowarn %s && rm -rf .git" % (d, d, commit, os.path.join(os.path.dirname(meta), "patch.diff")), shell=True, capture_output=True, text=True)
        if r.returncode != 0:
            return meta, None
        got, base = alarms(d + "/r"), base_alarms(commit)
        new = got - base
        from collections import Counter
        import re
        # a construct that is merely renumbered (#2 -> #3) is not a new alarm: compare the
        # constructs without their ordinals, as multisets
        norm = lambda k: re.sub(r"#\d+", "#", k)
        cg = Counter(norm(k) for k in got)
        cb = Counter(norm(k) for k in base)
        # a rule with an open known finding fails on every tree (as KNOWN-FINDING or, where the
        # construct is renamed, as an alarm): it reports a seeded change only of its own property
        sid = os.path.basename(os.path.dirname(meta))[:3]
        rb = Counter(k.split(" :: ")[0] for k in base)
        # ... and a rule of another property that already fails on the unpatched commit (a defect
        # repaired since) is not what reports this change
        rules = sorted(set(k.split(" :: ")[0] for k in new if cg[norm(k)] > cb.get(norm(k), 0) and not (k.split(" :: ")[0] in OPEN_RULES and not k.startswith(sid + "-"))))
        if not rules and m.get("note_rules"):
            # the reporting rule also fails on the (unrepaired) commit the patch applies to: the
            # recorded rules are those of the equivalent current-tree variant named in note_rules
            return meta, m.get("rules_reporting_it", [])
        m["rules_reporting_it"] = rules
        m["static_checks_reporting_it"] = sorted(set(r.split("-")[0] for r in rules))
        json.dump(m, open(meta, "w"), indent=1)
        return meta, rules
    finally:
        shutil.rmtree(d, ignore_errors=True)

metas = sorted(glob.glob("/verif/seeded/*/meta.json"))
only = sys.argv[1:]
if only:
    metas = [m for m in metas if os.path.basename(os.path.dirname(m)) in only]
for c in sorted(set(json.load(open(m)).get("repo_commit", "762b7af") for m in metas)):
    base_alarms(c)
with cf.ThreadPoolExecutor(max_workers=8) as ex:
    for meta, rules in ex.map(one, metas):
        name = os.path.basename(os.path.dirname(meta))
        print(name, "NOT APPLICABLE" if rules is None else (" ".join(rules) or "** NOT REPORTED **"))
