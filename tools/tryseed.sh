#!/bin/bash
# usage: tryseed.sh <seed-id> [props...]  - applies seeded/<id>/patch.diff to the /repo commit it was written at
# (meta.repo_commit) in a scratch directory and prints the alarms of the current checker (BIN overrides the binary).
S=$1; shift
C=$(python3 -c "import json;print(json.load(open('/verif/seeded/$S/meta.json')).get('repo_commit','762b7af'))")
D=$(mktemp -d /tmp/tryseed.XXXXXX)
git -C /repo archive $C | tar -x -C $D
( cd $D && git init -q && git apply --whitespace=nowarn /verif/seeded/$S/patch.diff ) || { echo "patch does not apply"; rm -rf $D; exit 3; }
${BIN:-/verif/bin/electlint} -p ${1:-all} -repo $D -no-evidence 2>&1 | grep -E "^(VIOLATION|UNDECIDED) " | grep -v "^VIOLATION property=" | cut -c1-${COLS:-260}
rm -rf $D
