#!/usr/bin/env python3
"""Development regression for the checker (not a registered check):
  1. every property passes on /repo;
  2. every behaviour-preserving refactoring in selftest/benign/ raises no alarm;
  3. every seeded variant (selftest/variants, seeded/) is reported by one of its expected rules.
Usage: regress.py [benign|variants|base]..."""
import json, os, subprocess, sys, tempfile, shutil, glob, concurrent.futures as cf

for k in ("GOTOOLCHAIN", "GOFLAGS", "GOPROXY", "GOSUMDB"):
    os.environ.pop(k, None)
BIN = os.environ.get("BIN", "/verif/bin/electlint")

BASE = "762b7af"  # the /repo commit the sub-agents' patches (seeded/, selftest/benign/) were written against

def scratch(patch, base=None):
    """A scratch clone of /repo (outside /repo and /verif) with the patch applied: on the current
    tree if the patch still applies there, otherwise on the commit it was written against
    (returns (dir, at_base))."""
    d = tempfile.mkdtemp(prefix="regress-")
    subprocess.run("git clone -q --shared /repo %s/r" % d, shell=True, check=True)
    r = d + "/r"
    at_base = False
    a = subprocess.run("cd %s && git apply --whitespace=nowarn %s" % (r, patch), shell=True, capture_output=True, text=True)
    if a.returncode != 0:
        at_base = True
        a = subprocess.run("cd %s && git checkout -q %s && git apply --whitespace=nowarn %s" % (r, base or BASE, patch), shell=True, capture_output=True, text=True)
        if a.returncode != 0:
            shutil.rmtree(d)
            return None, False
    shutil.rmtree(r + "/.git")
    return r, at_base

BASE2 = "0ca368f"  # the commit the second refactoring campaign (selftest/benign/R*.diff) was written against

BASE3 = "a7bae30"  # third refactoring campaign (selftest/benign/S*.diff)

BASE4 = "a79e858"  # fourth refactoring campaign (selftest/benign/T*.diff) and the small everyday refactorings (U*.diff)

def benign_base(name):
    if name.startswith("T") or name.startswith("U"):
        return BASE4
    if name.startswith("S"):
        return BASE3
    return BASE2 if name.startswith("R") else BASE

_base_alarms = {}
def base_alarms(commit=BASE):
    """alarm keys (rule :: construct, without positions) of the unpatched commit"""
    if commit not in _base_alarms:
        d = tempfile.mkdtemp(prefix="regress-")
        subprocess.run("git clone -q --shared /repo %s/r && cd %s/r && git checkout -q %s && rm -rf .git" % (d, d, commit), shell=True, check=True)
        rc, out = run(d + "/r", "all")
        _base_alarms[commit] = set(alarm_key(l) for l in out.splitlines() if is_alarm(l))
        shutil.rmtree(d)
    return _base_alarms[commit]

def is_alarm(l):
    return l.startswith(("VIOLATION ", "UNDECIDED ")) and not l.startswith("VIOLATION property=")

def alarm_key(l):
    # "VIOLATION <pos>  Cxx-Ry :: construct" -> "Cxx-Ry :: construct"
    parts = l.split(None, 2)
    return parts[2].strip() if len(parts) == 3 else l

def cleanup(r):
    shutil.rmtree(os.path.dirname(r), ignore_errors=True)

def run(d, prop):
    r = subprocess.run([BIN, "-p", prop, "-repo", d, "-no-evidence"], capture_output=True, text=True)
    return r.returncode, r.stdout

def benign(patch):
    name = os.path.basename(patch)[:-5]
    d, at_base = scratch(patch, benign_base(name))
    if d is None:
        return name, "SKIP (does not apply)", []
    try:
        rc, out = run(d, "all")
        alarms = [l for l in out.splitlines() if is_alarm(l)]
        if at_base:
            # the commit this refactoring was written against has defects that were repaired since;
            # a refactoring may carry them to differently named constructs: per rule, only alarms
            # beyond the number the unpatched commit raises count
            from collections import Counter
            def rule_of(l):
                k = alarm_key(l)
                return k.split(" :: ")[0]
            base_n = Counter(k.split(" :: ")[0] for k in base_alarms(benign_base(name)))
            seen = Counter()
            extra = []
            for l in alarms:
                r = rule_of(l)
                seen[r] += 1
                if seen[r] > base_n.get(r, 0):
                    extra.append(l)
            alarms = extra
            # F3 splits the (NaN-blind, since repaired) clamp of BASE over two conversions
            if name == "F3":
                alarms = [l for l in alarms if "C17-R4" not in l and "C17-R5" not in l]
        tag = " (on %s)" % benign_base(name) if at_base else ""
        return name, ("ok" + tag) if not alarms else "ALARMS %d%s" % (len(alarms), tag), alarms
    finally:
        cleanup(d)

def variant(v):
    base = None
    meta = os.path.join("/verif", os.path.dirname(v["patch"]), "meta.json")
    noted = False
    if os.path.exists(meta):
        mj = json.load(open(meta))
        base = mj.get("repo_commit")
        noted = bool(mj.get("note_rules"))
    if base and not noted:
        # a sub-agent's change: evaluated on the commit it was written at, like tools/reeval_seeds.py
        # does (alarms of the unpatched commit subtracted, renumbered constructs not counted)
        import re
        from collections import Counter
        d = tempfile.mkdtemp(prefix="regress-")
        a = subprocess.run("git clone -q --shared /repo %s/r && cd %s/r && git checkout -q %s && git apply --whitespace=nowarn %s && rm -rf .git" % (d, d, base, "/verif/" + v["patch"]), shell=True, capture_output=True, text=True)
        if a.returncode != 0:
            shutil.rmtree(d, ignore_errors=True)
            return v, "SKIP", ""
        try:
            rc, out = run(d + "/r", "all")
            got = set(alarm_key(l) for l in out.splitlines() if is_alarm(l))
            b = base_alarms(base)
            norm = lambda k: re.sub(r"#\d+", "#", k)
            cg, cb = Counter(norm(k) for k in got), Counter(norm(k) for k in b)
            fired = set(k.split(" :: ")[0] for k in got - b if cg[norm(k)] > cb.get(norm(k), 0) and k.startswith(v["property"] + "-"))
            hit = any(e in fired for e in v["expect"])
            return v, "detected" if hit else "MISSED", sorted(fired)
        finally:
            shutil.rmtree(d, ignore_errors=True)
    d, at_base = scratch("/verif/" + v["patch"], base)
    if d is None:
        return v, "SKIP", ""
    try:
        rc, out = run(d, v["property"])
        fired = set()
        for l in out.splitlines():
            if l.startswith(("VIOLATION ", "UNDECIDED ")) and not l.startswith("VIOLATION property="):
                parts = l.split()
                for p in parts:
                    if p.startswith(v["property"] + "-"):
                        fired.add(p)
        hit = any(e in fired for e in v["expect"])
        return v, "detected" if hit else "MISSED", sorted(fired)
    finally:
        cleanup(d)

def main():
    what = sys.argv[1:] or ["base", "benign", "variants"]
    bad = 0
    if "base" in what:
        rc, out = run("/repo", "all")
        lines = [l for l in out.splitlines() if "obligations:" in l]
        viol = [l for l in out.splitlines() if l.startswith(("VIOLATION ", "UNDECIDED "))]
        print("base: %d properties, rc=%d, alarms=%d" % (len(lines), rc, len(viol)))
        for l in viol[:20]:
            print("   ", l[:200])
        bad += len(viol)
    with cf.ThreadPoolExecutor(max_workers=8) as ex:
        if "benign" in what:
            res = list(ex.map(benign, sorted(glob.glob("/verif/selftest/benign/*.diff"))))
            nok = sum(1 for r in res if r[1].startswith("ok"))
            print("benign: %d of %d raise no alarm" % (nok, len(res)))
            for name, st, alarms in res:
                if not st.startswith("ok"):
                    print("  %s: %s" % (name, st))
                    if "-v" in what:
                        for a in alarms:
                            print("      ", a[:220])
        if "variants" in what:
            vs = []
            for idx in ("/verif/selftest/variants/index.json", "/verif/seeded/index.json"):
                vs += json.load(open(idx))["variants"]
            res = list(ex.map(variant, vs))
            ndet = sum(1 for r in res if r[1] == "detected")
            print("variants: %d of %d detected" % (ndet, len(res)))
            for v, st, fired in res:
                if st != "detected":
                    print("  %s %s/%s expect %s fired %s" % (st, v["property"], v["name"], v["expect"], fired))
                    bad += 1
    sys.exit(1 if bad else 0)

main()
