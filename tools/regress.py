#!/usr/bin/env python3
"""Development regression for the checker (not a registered check):
  1. every property passes on /repo;
  2. every behaviour-preserving refactoring in selftest/benign/ raises no alarm;
  3. every seeded variant (selftest/variants, seeded/) is reported by one of its expected rules.
Usage: regress.py [benign|variants|base]..."""
import json, os, subprocess, sys, tempfile, shutil, glob, concurrent.futures as cf

for k in ("GOTOOLCHAIN", "GOFLAGS", "GOPROXY", "GOSUMDB"):
    os.environ.pop(k, None)
BIN = "/verif/bin/electlint"

def scratch(patch):
    d = tempfile.mkdtemp(prefix="regress-")
    subprocess.run("rsync -a --exclude .git --exclude _out /repo/ %s/ && cd %s && git init -q" % (d, d), shell=True, check=True)
    r = subprocess.run("cd %s && git apply --whitespace=nowarn %s" % (d, patch), shell=True, capture_output=True, text=True)
    if r.returncode != 0:
        r = subprocess.run("cd %s && patch -p1 --fuzz=3 --no-backup-if-mismatch < %s" % (d, patch), shell=True, capture_output=True, text=True)
        if r.returncode != 0:
            shutil.rmtree(d)
            return None
    return d

def run(d, prop):
    r = subprocess.run([BIN, "-p", prop, "-repo", d, "-no-evidence"], capture_output=True, text=True)
    return r.returncode, r.stdout

def benign(patch):
    name = os.path.basename(patch)[:-5]
    d = scratch(patch)
    if d is None:
        return name, "SKIP (does not apply)", []
    try:
        rc, out = run(d, "all")
        alarms = [l for l in out.splitlines() if l.startswith(("VIOLATION ", "UNDECIDED ")) and not l.startswith("VIOLATION property=")]
        return name, "ok" if not alarms else "ALARMS %d" % len(alarms), alarms
    finally:
        shutil.rmtree(d)

def variant(v):
    d = scratch("/verif/" + v["patch"])
    if d is None:
        return v, "SKIP", ""
    try:
        rc, out = run(d, v["property"])
        fired = set()
        for l in out.splitlines():
            if l.startswith(("VIOLATION ", "UNDECIDED ")) and not l.startswith("VIOLATION property="):
                parts = l.split()
                for p in parts:
                    if p.startswith(v["property"] + "-"):
                        fired.add(p)
        hit = any(e in fired for e in v["expect"])
        return v, "detected" if hit else "MISSED", sorted(fired)
    finally:
        shutil.rmtree(d)

def main():
    what = sys.argv[1:] or ["base", "benign", "variants"]
    bad = 0
    if "base" in what:
        rc, out = run("/repo", "all")
        lines = [l for l in out.splitlines() if "obligations:" in l]
        viol = [l for l in out.splitlines() if l.startswith(("VIOLATION ", "UNDECIDED "))]
        print("base: %d properties, rc=%d, alarms=%d" % (len(lines), rc, len(viol)))
        for l in viol[:20]:
            print("   ", l[:200])
        bad += len(viol)
    with cf.ThreadPoolExecutor(max_workers=8) as ex:
        if "benign" in what:
            res = list(ex.map(benign, sorted(glob.glob("/verif/selftest/benign/*.diff"))))
            nok = sum(1 for r in res if r[1] == "ok")
            print("benign: %d of %d raise no alarm" % (nok, len(res)))
            for name, st, alarms in res:
                if st != "ok":
                    print("  %s: %s" % (name, st))
                    if "-v" in what:
                        for a in alarms:
                            print("      ", a[:220])
        if "variants" in what:
            vs = []
            for idx in ("/verif/selftest/variants/index.json", "/verif/seeded/index.json"):
                vs += json.load(open(idx))["variants"]
            res = list(ex.map(variant, vs))
            ndet = sum(1 for r in res if r[1] == "detected")
            print("variants: %d of %d detected" % (ndet, len(res)))
            for v, st, fired in res:
                if st != "detected":
                    print("  %s %s/%s expect %s fired %s" % (st, v["property"], v["name"], v["expect"], fired))
                    bad += 1
    sys.exit(1 if bad else 0)

main()
