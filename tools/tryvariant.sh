#!/bin/bash
# usage: tryvariant.sh <patch> <prop>...   (development helper: applies a patch to a scratch copy and runs the checker on it)
unset GOTOOLCHAIN GOFLAGS GOPROXY GOSUMDB
P=$1; shift
D=$(mktemp -d /tmp/tryvar.XXXXXX)
rsync -a --exclude .git --exclude _out /repo/ $D/
(cd $D && git init -q && git apply --whitespace=nowarn $P) || { echo "patch does not apply"; rm -rf $D; exit 3; }
for p in "$@"; do /verif/bin/electlint -p $p -repo $D -no-evidence | grep -v "^VIOLATION prop" | cut -c1-${COLS:-420}; done
rm -rf $D
