#!/bin/bash
# usage: confirm_seed.sh <PROP> <i>
unset GOTOOLCHAIN GOFLAGS GOPROXY GOSUMDB
# Confirms a sub-agent's seeded change in a scratch copy outside /repo and /verif:
#  patch applies + builds; unedited suite passes with it; demo fails with it; demo passes without it.
# Then runs every static check against the changed tree. Writes /verif/seeded/<PROP>-<i>/.
set -u
P=$1; I=$2; WT=${3:-$1}
SRC=/tmp/wt_$WT/_out/$I
DST=/verif/seeded/$P-$I
[ -f $SRC/patch.diff ] || { echo "$P-$I: no patch"; exit 2; }
mkdir -p $DST
cp $SRC/patch.diff $DST/patch.diff
cp $SRC/demo_test.go $DST/demo_test.go.txt 2>/dev/null
cp $SRC/notes.md $DST/notes.md 2>/dev/null
D=$(mktemp -d /tmp/confirm.XXXXXX)
if [ -n "${COMMIT:-}" ]; then git -C /repo archive $COMMIT | tar -x -C $D; else rsync -a --exclude .git --exclude _out /repo/ $D/; fi
cd $D && git init -q
applies=no; builds=no; suite=unknown; demo_with=unknown; demo_without=unknown
git add -A >/dev/null 2>&1; git -c user.email=a@b -c user.name=x commit -qm base >/dev/null 2>&1
if git apply --whitespace=nowarn $DST/patch.diff 2>/dev/null; then applies=yes
elif patch -p1 --fuzz=3 --no-backup-if-mismatch < $DST/patch.diff >/dev/null 2>&1; then
  # the reference tree moved on since the change was written: re-base the patch
  find . -name '*.orig' -delete; find . -name '*.rej' -delete
  git diff > $DST/patch.diff; applies=rebased
  git checkout -q -- . ; git apply --whitespace=nowarn $DST/patch.diff
else git checkout -q -- . 2>/dev/null; fi
if [ $applies != no ] && go build ./... 2>/dev/null; then builds=yes; fi
if [ $builds = yes ]; then
  if /verif/tools/suite.sh $D > $DST/suite.log 2>&1; then suite=pass; else suite=FAIL; fi
  cp $SRC/demo_test.go leader/zz_demo_test.go
  if go test -mod=mod -vet=off -count=1 -run 'Demo|ZZ' -timeout 120s ./leader/ > $DST/demo_with.log 2>&1; then demo_with=pass; else demo_with=fail; fi
  # static checks against the changed tree
  rm -f leader/zz_demo_test.go
  ${BIN:-/verif/bin/electlint} -p all -repo $D -no-evidence > $DST/checks.log 2>&1
  git apply -R --whitespace=nowarn $DST/patch.diff
  cp $SRC/demo_test.go leader/zz_demo_test.go
  if go test -mod=mod -vet=off -count=1 -run 'Demo|ZZ' -timeout 120s ./leader/ > $DST/demo_without.log 2>&1; then demo_without=pass; else demo_without=fail; fi
fi
cd /; rm -rf $D
caught=$(grep -o "^VIOLATION property=C[0-9]*" $DST/checks.log 2>/dev/null | sort -u | sed 's/VIOLATION property=//' | tr '\n' ' ')
rules=$(grep -E "^(VIOLATION|UNDECIDED) " $DST/checks.log 2>/dev/null | grep -o "C[0-9]*-R[0-9]*" | sort -u | tr '\n' ' ')
echo "$P-$I applies=$applies builds=$builds suite=$suite demo_with=$demo_with demo_without=$demo_without caught_by=[$caught] rules=[$rules]"
python3 - "$P" "$I" "$applies" "$builds" "$suite" "$demo_with" "$demo_without" "$caught" "$rules" <<'PY'
import json,sys
P,I,applies,builds,suite,dw,dwo,caught,rules=sys.argv[1:10]
import subprocess
import os
commit=os.environ.get("COMMIT") or subprocess.run("git -C /repo log --format=%h -1",shell=True,capture_output=True,text=True).stdout.strip()
json.dump({"property":P,"index":int(I),"repo_commit":commit,"patch":"patch.diff","demonstration":"demo_test.go.txt (place as leader/zz_demo_test.go)",
 "confirmed":{"patch_applies":applies,"builds":builds,"unedited_suite_with_change":suite,"demo_with_change":dw,"demo_on_clean_tree":dwo},
 "what_it_needs":"see notes.md (written by the sub-agent that produced the change)",
 "ran":["git apply patch.diff in a scratch copy of /repo","go build ./...","/verif/tools/suite.sh <copy> (155 baseline tests)","go test -run 'Demo|ZZ' ./leader/ with and without the change","/verif/bin/electlint -p all -repo <copy>"],
 "static_checks_reporting_it":caught.split(),"rules_reporting_it":rules.split()},open("/verif/seeded/%s-%s/meta.json"%(P,I),"w"),indent=1)
PY
