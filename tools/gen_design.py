#!/usr/bin/env python3
"""Regenerates the machine-derived parts of DESIGN.md (between <!-- gen:NAME --> and <!-- /gen:NAME -->):
  summary   - the table of section 0 (from `electlint -specs` and /verif/evidence)
  rules     - section 5 (from `electlint -specs`)
  findings  - the table of section 6 (from known_findings.json)
  seeds     - the table of section 10 (from seeded/*/meta.json)
The prose around them is written by hand."""
import json, subprocess, re, glob, os

specs = json.loads(subprocess.run(["/verif/bin/electlint", "-specs"], capture_output=True, text=True, check=True).stdout)

def clip(s, n):
    s = " ".join(s.split())
    return s if len(s) <= n else s[:n].rstrip() + " …"

def rule_key(r):
    return int(r[1:])

def summary():
    out = ["| id | level | structural part that is decided | rules | result on the current tree |",
           "|----|-------|----------------------------------|-------|----------------------------|"]
    for sp in specs:
        ev = {}
        try:
            ev = json.load(open("/verif/evidence/%s.json" % sp["id"]))
        except Exception:
            pass
        res = ""
        cov = ev.get("coverage", {}) if isinstance(ev, dict) else {}
        n = cov.get("obligations", "")
        kf = cov.get("known_findings_matched") or 0
        if n != "":
            res = "%s obligations, %s hold" % (n, cov.get("discharged", n))
            if kf:
                res += ", %d known finding" % kf
        first = sp["explanation"].split(": (R")[0].split(" (R1)")[0]
        out.append("| %s | %s | %s | %s | %s |" % (sp["id"], sp["level"], clip(first, 160), ", ".join(sorted(sp["rules"], key=rule_key)), res))
    return "\n".join(out)

def rules():
    out = []
    for sp in specs:
        out.append("### %s\n" % sp["id"])
        out.append("*Decided.* %s\n" % sp["explanation"])
        out.append("*Rules.*\n")
        for r in sorted(sp["rules"], key=rule_key):
            out.append("* **%s** %s" % (r, sp["rules"][r]))
        out.append("")
        out.append("*Not decided.* %s.\n" % "; ".join(sp["not_decided"]))
        out.append("*Assumes.* %s.\n" % "; ".join(sp["assumptions"]))
    return "\n".join(out).rstrip()

def findings():
    k = json.load(open("/verif/known_findings.json"))["findings"]
    out = ["| # | property/rule | what failed (failing input, schedule or history) | disposition |",
           "|---|---------------|--------------------------------------------------|-------------|"]
    opens = [f for f in k if f.get("status") != "fixed"]
    fixed = [f for f in k if f.get("status") == "fixed"]
    i = 0
    for f in opens + fixed:
        i += 1
        disp = "fix: %s" % f.get("commit") if f.get("status") == "fixed" else 'OPEN known finding (construct "%s")' % f.get("construct", "")
        out.append("| %d | %s %s | %s | %s |" % (i, f["property"], f.get("rule", ""), clip(f["what"].replace("|", "/"), 420), disp))
    return "\n".join(out)

def seeds():
    out = ["| seed | written at | breaks | needs (short) | reported by |",
           "|------|------------|--------|---------------|-------------|"]
    n = 0
    own = 0
    for meta in sorted(glob.glob("/verif/seeded/*/meta.json")):
        m = json.load(open(meta))
        sid = os.path.basename(os.path.dirname(meta))
        rules = m.get("rules_reporting_it", [])
        n += 1
        if any(r.startswith(sid[:3] + "-") for r in rules):
            own += 1
        out.append("| %s | %s | %s | %s | %s |" % (sid, m.get("repo_commit", ""), m.get("breaks_property", sid[:3]), m.get("needs_short", "see notes.md"), ", ".join(rules) or "**not reported**"))
    out.append("")
    out.append("%d changes; %d reported by a rule of the property they were written against, the others by a rule of a neighbouring property that owns the mechanism." % (n, own))
    return "\n".join(out)

gen = {"summary": summary, "rules": rules, "findings": findings, "seeds": seeds}
s = open("/verif/DESIGN.md").read()
for name, fn in gen.items():
    pat = re.compile(r"(<!-- gen:%s -->\n).*?(\n<!-- /gen:%s -->)" % (name, name), re.S)
    if not pat.search(s):
        print("marker gen:%s not found" % name)
        continue
    body = fn()
    s = pat.sub(lambda m: m.group(1) + body + m.group(2), s)
open("/verif/DESIGN.md", "w").write(s)
print("DESIGN.md regenerated: %d properties" % len(specs))
