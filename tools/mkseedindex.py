#!/usr/bin/env python3
"""Rebuilds seeded/index.json from the meta.json of every confirmed seeded change:
one entry per (change, property whose check reports it), expecting the rules of that property
that were observed to report it when the change was confirmed."""
import json, glob, os
out = []
for meta in sorted(glob.glob('/verif/seeded/*/meta.json')):
    d = os.path.dirname(meta)
    name = os.path.basename(d)
    m = json.load(open(meta))
    conf = m.get('confirmed', {})
    if conf.get('unedited_suite_with_change') != 'pass' or conf.get('demo_with_change') != 'fail' or conf.get('demo_on_clean_tree') != 'pass':
        continue
    rules = m.get('rules_reporting_it', [])
    for prop in m.get('static_checks_reporting_it', []):
        exp = sorted(r for r in rules if r.startswith(prop + '-'))
        if not exp:
            continue
        out.append({'property': prop, 'name': 'seed-' + name, 'patch': 'seeded/%s/patch.diff' % name, 'expect': exp, 'mentions': '',
                    'what': 'change produced independently by a sub-agent to break %s (see seeded/%s/notes.md)' % (m.get('property'), name),
                    'source': 'seeded/' + name})
json.dump({'variants': out}, open('/verif/seeded/index.json', 'w'), indent=1)
print(len(out), 'entries from', len(glob.glob('/verif/seeded/*/meta.json')), 'seeded changes')
