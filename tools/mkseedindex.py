#!/usr/bin/env python3
"""Rebuilds seeded/index.json from the meta.json of every confirmed seeded change:
one entry per (change, property whose check reports it), expecting the rules of that property
that were observed to report it when the change was confirmed.

The thorough tier (T3) applies these patches to the CURRENT tree.  A rule of ANOTHER property may have
reported a change only because the commit the change was written at still had a defect that has been
repaired since (e.g. the change copies an unchecked use of a Get result next to the original one): such an
entry is kept only if that rule also reports the change on the current tree.  Entries of the change's own
property are never dropped: if its rule stops reporting the change, T3 must say so."""
import json, glob, os, re, subprocess, tempfile, shutil, concurrent.futures as cf
from collections import Counter
for k in ("GOTOOLCHAIN", "GOFLAGS", "GOPROXY", "GOSUMDB"):
    os.environ.pop(k, None)
BIN = os.environ.get("BIN", "/verif/bin/electlint")
norm = lambda k: re.sub(r"#\d+", "#", k)

def alarms(d):
    out = subprocess.run([BIN, "-p", "all", "-repo", d, "-no-evidence"], capture_output=True, text=True).stdout
    keys = set()
    for l in out.splitlines():
        if l.startswith(("VIOLATION ", "UNDECIDED ")) and not l.startswith("VIOLATION property="):
            parts = l.split(None, 2)
            if len(parts) == 3:
                keys.add(parts[2].strip())
    return keys

def scratch():
    d = tempfile.mkdtemp(prefix="seedidx-")
    subprocess.run("rsync -a --exclude .git /repo/ %s/r/ && cd %s/r && git init -q" % (d, d), shell=True, check=True)
    return d

d0 = scratch()
BASE = alarms(d0 + "/r")
shutil.rmtree(d0)
CB = Counter(norm(k) for k in BASE)

def current_rules(name):
    """rules that report the change when its patch is applied to the current tree; None: does not apply"""
    d = scratch()
    try:
        r = subprocess.run(["git", "-C", d + "/r", "apply", "--whitespace=nowarn", "/verif/seeded/%s/patch.diff" % name], capture_output=True)
        if r.returncode != 0:
            return None
        got = alarms(d + "/r")
        cg = Counter(norm(k) for k in got)
        return set(k.split(" :: ")[0] for k in got - BASE if cg[norm(k)] > CB.get(norm(k), 0))
    finally:
        shutil.rmtree(d, ignore_errors=True)

metas = []
for meta in sorted(glob.glob('/verif/seeded/*/meta.json')):
    m = json.load(open(meta))
    conf = m.get('confirmed', {})
    if conf.get('unedited_suite_with_change') != 'pass' or conf.get('demo_with_change') != 'fail' or conf.get('demo_on_clean_tree') != 'pass':
        continue
    metas.append((os.path.basename(os.path.dirname(meta)), m))
need = [n for n, m in metas if any(p != m.get('property') for p in m.get('static_checks_reporting_it', []))]
with cf.ThreadPoolExecutor(max_workers=8) as ex:
    cur = dict(zip(need, ex.map(current_rules, need)))
out, dropped = [], []
for name, m in metas:
    rules = m.get('rules_reporting_it', [])
    for prop in m.get('static_checks_reporting_it', []):
        exp = sorted(r for r in rules if r.startswith(prop + '-'))
        if prop != m.get('property') and cur.get(name) is not None:
            keep = [r for r in exp if r in cur[name]]
            if not keep:
                dropped.append((name, prop, exp))
                continue
            exp = keep
        if not exp:
            continue
        out.append({'property': prop, 'name': 'seed-' + name, 'patch': 'seeded/%s/patch.diff' % name, 'expect': exp, 'mentions': '',
                    'what': 'change produced independently by a sub-agent to break %s (see seeded/%s/notes.md)' % (m.get('property'), name),
                    'source': 'seeded/' + name})
json.dump({'variants': out}, open('/verif/seeded/index.json', 'w'), indent=1)
print(len(out), 'entries from', len(glob.glob('/verif/seeded/*/meta.json')), 'seeded changes')
for d in dropped:
    print('  not an entry (rule of another property, reports it only on the commit it was written at):', *d)
