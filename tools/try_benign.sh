#!/bin/bash
# usage: try_benign.sh <patch> [name]   - applies a behaviour-preserving refactoring to a scratch copy,
unset GOTOOLCHAIN GOFLAGS GOPROXY GOSUMDB
# checks that it builds and that the unedited suite passes, then lists every alarm the checks raise on it.
P=$1; N=${2:-$(basename $(dirname $P))}
D=$(mktemp -d /tmp/benign.XXXXXX)
rsync -a --exclude .git --exclude _out /repo/ $D/
cd $D && git init -q
if ! git apply --whitespace=nowarn $P 2>/dev/null; then
  if ! patch -p1 --fuzz=3 --no-backup-if-mismatch < $P >/dev/null 2>&1; then echo "$N: patch does not apply"; cd /; rm -rf $D; exit 3; fi
fi
if ! go build ./... 2>/dev/null; then echo "$N: does not build"; cd /; rm -rf $D; exit 3; fi
suite=skipped
if [ "${SUITE:-1}" = 1 ]; then if /verif/tools/suite.sh $D >/dev/null 2>&1; then suite=pass; else suite=FAIL; fi; fi
${BIN:-/verif/bin/electlint} -p all -repo $D -no-evidence > $D/checks.log 2>&1
n=$(grep -c "^VIOLATION property=" $D/checks.log)
echo "$N: suite=$suite alarms=$n"
grep -E "^(VIOLATION|UNDECIDED) " -A1 $D/checks.log | grep -v "^--" | cut -c1-${COLS:-330}
cd /; rm -rf $D
