package leader

import (
	"context"
	"sync"
	"testing"
	"time"

	"github.com/ali-assar/NATS-Leader-Election/internal/natsmock"
)

// demo9KV wraps the election's store. It remembers the revision returned by the
// last successful write (Create/Update) of the instance, and it can hold back the
// SECOND read that follows arm() until one more heartbeat write has landed: that
// is the schedule "the connectivity probe of the reconnect verification is
// answered, a heartbeat lands, then the token validation read is answered".
type demo9KV struct {
	KeyValue

	mu           sync.Mutex
	lastWriteRev uint64
	writes       int
	armed        bool
	readsSeen    int
	writesAtArm  int
}

func (k *demo9KV) Create(key string, value []byte, opts ...interface{}) (uint64, error) {
	rev, err := k.KeyValue.Create(key, value, opts...)
	if err == nil {
		k.mu.Lock()
		k.lastWriteRev = rev
		k.writes++
		k.mu.Unlock()
	}
	return rev, err
}

func (k *demo9KV) Update(key string, value []byte, rev uint64, opts ...interface{}) (uint64, error) {
	newRev, err := k.KeyValue.Update(key, value, rev, opts...)
	if err == nil {
		k.mu.Lock()
		k.lastWriteRev = newRev
		k.writes++
		k.mu.Unlock()
	}
	return newRev, err
}

func (k *demo9KV) arm() {
	k.mu.Lock()
	k.armed = true
	k.readsSeen = 0
	k.writesAtArm = k.writes
	k.mu.Unlock()
}

func (k *demo9KV) Get(key string) (Entry, error) {
	k.mu.Lock()
	hold := false
	if k.armed {
		k.readsSeen++
		hold = k.readsSeen == 2
	}
	k.mu.Unlock()

	if hold {
		// A slow (not failing) read: answered once one more heartbeat has landed.
		deadline := time.Now().Add(2 * time.Second)
		for time.Now().Before(deadline) {
			k.mu.Lock()
			landed := k.writes > k.writesAtArm
			k.mu.Unlock()
			if landed {
				break
			}
			time.Sleep(2 * time.Millisecond)
		}
	}
	return k.KeyValue.Get(key)
}

func (k *demo9KV) lastWrite() uint64 {
	k.mu.Lock()
	defer k.mu.Unlock()
	return k.lastWriteRev
}

// TestDemoC18_9_ReconnectKeepsLeaderRevisionTruthful: a leader whose connection
// comes back verifies its leadership against a healthy store. Throughout, every
// Status() snapshot taken while it leads must show the revision of its latest
// successful write, and - the store never refused anything - it must still lead
// afterwards.
func TestDemoC18_9_ReconnectKeepsLeaderRevisionTruthful(t *testing.T) {
	cfg := ElectionConfig{
		Bucket:            "leaders",
		Group:             "demo9-group",
		InstanceID:        "instance-1",
		TTL:               10 * time.Second,
		HeartbeatInterval: 150 * time.Millisecond,
	}

	nc := natsmock.NewMockConn()
	election, err := NewElection(NewMockConnAdapter(nc), cfg)
	if err != nil {
		t.Fatal(err)
	}
	e := election.(*kvElection)
	kv := &demo9KV{KeyValue: e.kv}
	e.kv = kv

	demoted := make(chan struct{}, 4)
	election.OnDemote(func() { demoted <- struct{}{} })

	if err := election.Start(context.Background()); err != nil {
		t.Fatal(err)
	}
	defer func() { _ = election.Stop() }()

	WaitForLeader(t, election, true, 2*time.Second)
	// let a couple of heartbeats land
	WaitForCondition(t, func() bool { return kv.lastWrite() >= 3 }, 2*time.Second, "heartbeats")

	// The connection comes back: the library verifies the leadership.
	kv.arm()
	e.handleReconnect()

	// Observe for a while: the verification takes ~100ms + one heartbeat period.
	staleSince := time.Time{}
	var staleSnap ElectionStatus
	var staleWant uint64
	end := time.Now().Add(1200 * time.Millisecond)
	for time.Now().Before(end) {
		want := kv.lastWrite()
		st := election.Status()
		again := kv.lastWrite()
		if st.IsLeader && want == again && st.Revision != want {
			// Between the store's answer and the library recording it there is
			// a window of microseconds: only a mismatch that persists counts.
			if staleSince.IsZero() {
				staleSince = time.Now()
				staleSnap, staleWant = st, want
			} else if time.Since(staleSince) > 40*time.Millisecond {
				t.Fatalf("leader snapshot shows revision %d for more than 40ms although its latest successful write is revision %d (state=%s isLeader=%v)",
					staleSnap.Revision, staleWant, staleSnap.State, staleSnap.IsLeader)
			}
		} else {
			staleSince = time.Time{}
		}
		time.Sleep(3 * time.Millisecond)
	}

	select {
	case <-demoted:
		t.Fatalf("leader was demoted after a reconnect although the store never refused a write or a read")
	default:
	}
	st := election.Status()
	if !st.IsLeader || st.State != StateLeader {
		t.Fatalf("expected to be still leader after the reconnect verification, got state=%s isLeader=%v", st.State, st.IsLeader)
	}
	WaitForCondition(t, func() bool {
		want := kv.lastWrite()
		return election.Status().Revision == want && kv.lastWrite() == want
	}, 500*time.Millisecond, "settled leader snapshot shows the revision of the latest successful write")
}
