package leader

import (
	"context"
	"encoding/json"
	"errors"
	"fmt"
	"sync"
	"testing"
	"time"

	"github.com/ali-assar/NATS-Leader-Election/internal/natsmock"
	"github.com/prometheus/client_golang/prometheus"
)

// demo10Metrics records the transition stream and the is-leader gauge.
type demo10Metrics struct {
	mu          sync.Mutex
	transitions [][2]string
	gauge       float64
}

func (m *demo10Metrics) SetIsLeader(v float64, _ prometheus.Labels) {
	m.mu.Lock()
	m.gauge = v
	m.mu.Unlock()
}
func (m *demo10Metrics) SetConnectionStatus(float64, prometheus.Labels) {}
func (m *demo10Metrics) IncTransitions(l prometheus.Labels) {
	m.mu.Lock()
	m.transitions = append(m.transitions, [2]string{l["from_state"], l["to_state"]})
	m.mu.Unlock()
}
func (m *demo10Metrics) IncFailures(prometheus.Labels)                              {}
func (m *demo10Metrics) IncAcquireAttempts(prometheus.Labels)                       {}
func (m *demo10Metrics) IncTokenValidationFailures(prometheus.Labels)               {}
func (m *demo10Metrics) ObserveHeartbeatDuration(time.Duration, prometheus.Labels) {}
func (m *demo10Metrics) ObserveLeaderDuration(time.Duration, prometheus.Labels)    {}

func (m *demo10Metrics) snapshot() ([][2]string, float64) {
	m.mu.Lock()
	defer m.mu.Unlock()
	return append([][2]string(nil), m.transitions...), m.gauge
}

// checkChain: the first transition starts at CANDIDATE (right after Start), every
// later one starts where the previous one ended.
func demo10CheckChain(tr [][2]string) error {
	for i, x := range tr {
		if i == 0 {
			if x[0] != StateCandidate {
				return fmt.Errorf("first transition starts at %s, not CANDIDATE: %v", x[0], tr)
			}
			continue
		}
		if x[0] != tr[i-1][1] {
			return fmt.Errorf("transition %d is %s->%s but the previous one ended in %s: %v", i, x[0], x[1], tr[i-1][1], tr)
		}
	}
	return nil
}

func demo10Election(t *testing.T, group string) (*kvElection, *natsmock.MockKeyValue, *demo10Metrics) {
	t.Helper()
	m := &demo10Metrics{}
	cfg := ElectionConfig{
		Bucket:            "leaders",
		Group:             group,
		InstanceID:        "instance-1",
		TTL:               10 * time.Second,
		HeartbeatInterval: 100 * time.Millisecond,
		Metrics:           m,
	}
	nc := natsmock.NewMockConn()
	election, err := NewElection(NewMockConnAdapter(nc), cfg)
	if err != nil {
		t.Fatal(err)
	}
	js, err := nc.JetStream()
	if err != nil {
		t.Fatal(err)
	}
	mockKV, err := js.KeyValue("leaders")
	if err != nil {
		t.Fatal(err)
	}
	return election.(*kvElection), mockKV, m
}

// TestDemoC18_10_StopDuringOnDemoteStaysStopped: the leader's record is taken over
// by another instance; its heartbeat is refused, it steps down and runs the
// application's OnDemote callback, which takes a while. The application stops the
// election during that time. After Stop has returned the snapshot must say STOPPED
// with IsLeader false, and the recorded transitions must form a chain.
func TestDemoC18_10_StopDuringOnDemoteStaysStopped(t *testing.T) {
	e, mockKV, m := demo10Election(t, "demo10-a")

	entered := make(chan struct{}, 1)
	release := make(chan struct{})
	e.OnDemote(func() {
		select {
		case entered <- struct{}{}:
		default:
		}
		<-release
	})

	if err := e.Start(context.Background()); err != nil {
		t.Fatal(err)
	}
	WaitForLeader(t, e, true, 2*time.Second)

	// Another instance takes the record over: the next heartbeat is refused.
	entry, err := mockKV.Get("demo10-a")
	if err != nil {
		t.Fatal(err)
	}
	other, _ := json.Marshal(leadershipPayload{ID: "instance-2", Token: "other-token"})
	for {
		if _, err := mockKV.Update("demo10-a", other, entry.Revision()); err == nil {
			break
		}
		// lost the race against a heartbeat: read again
		if entry, err = mockKV.Get("demo10-a"); err != nil {
			t.Fatal(err)
		}
	}

	select {
	case <-entered:
	case <-time.After(3 * time.Second):
		t.Fatal("OnDemote was not called after the takeover")
	}

	// The application stops the election while its OnDemote callback is still busy.
	stopped := make(chan error, 1)
	go func() { stopped <- e.Stop() }()
	WaitForCondition(t, func() bool { return e.Status().State == StateStopped }, 2*time.Second, "Stop to mark the election stopped")
	time.Sleep(50 * time.Millisecond)
	close(release)

	select {
	case err := <-stopped:
		if err != nil {
			t.Fatalf("Stop: %v", err)
		}
	case <-time.After(7 * time.Second):
		t.Fatal("Stop did not return")
	}
	time.Sleep(100 * time.Millisecond) // quiescent

	st := e.Status()
	tr, gauge := m.snapshot()
	if st.State != StateStopped || st.IsLeader {
		t.Errorf("after Stop returned: state=%s isLeader=%v, want STOPPED/false (transitions %v)", st.State, st.IsLeader, tr)
	}
	if gauge != 0 {
		t.Errorf("is-leader gauge is %v after Stop", gauge)
	}
	if err := demo10CheckChain(tr); err != nil {
		t.Errorf("transition chain broken: %v", err)
	}
	if n := len(tr); n == 0 || tr[n-1][1] != StateStopped {
		t.Errorf("last recorded transition does not end in STOPPED: %v", tr)
	}
}

// TestDemoC18_10_FailedAcquireDuringOnDemoteKeepsChain: the record is deleted by an
// outside party while the store refuses new records; the leader steps down and its
// OnDemote callback takes a while. Meanwhile the watcher starts an acquisition
// round, which fails. The recorded transitions must still form a chain.
func TestDemoC18_10_FailedAcquireDuringOnDemoteKeepsChain(t *testing.T) {
	e, mockKV, m := demo10Election(t, "demo10-b")

	entered := make(chan struct{}, 1)
	release := make(chan struct{})
	e.OnDemote(func() {
		select {
		case entered <- struct{}{}:
		default:
		}
		<-release
	})

	if err := e.Start(context.Background()); err != nil {
		t.Fatal(err)
	}
	WaitForLeader(t, e, true, 2*time.Second)
	before, _ := m.snapshot()

	mockKV.SetCreateFunc(func(string, []byte, ...natsmock.KVOption) (uint64, error) {
		return 0, errors.New("store unavailable")
	})
	if err := mockKV.Delete("demo10-b"); err != nil {
		t.Fatal(err)
	}

	select {
	case <-entered:
	case <-time.After(3 * time.Second):
		t.Fatal("OnDemote was not called after the record was deleted")
	}

	// Hold the callback until a failed acquisition round has been recorded
	// (LEADER->FOLLOWER is the first new transition; wait for one that was
	// recorded by the failed round).
	WaitForCondition(t, func() bool {
		tr, _ := m.snapshot()
		for _, x := range tr[len(before):] {
			if x[0] != StateLeader && x[1] == StateFollower {
				return true
			}
		}
		return false
	}, 5*time.Second, "a failed acquisition round during OnDemote")
	close(release)
	time.Sleep(200 * time.Millisecond)

	if err := e.Stop(); err != nil {
		t.Fatalf("Stop: %v", err)
	}
	time.Sleep(100 * time.Millisecond) // quiescent

	st := e.Status()
	tr, _ := m.snapshot()
	if st.State != StateStopped || st.IsLeader {
		t.Errorf("after Stop returned: state=%s isLeader=%v, want STOPPED/false", st.State, st.IsLeader)
	}
	if err := demo10CheckChain(tr); err != nil {
		t.Errorf("transition chain broken: %v", err)
	}
}
