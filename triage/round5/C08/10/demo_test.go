package leader

import (
	"context"
	"encoding/json"
	"sync"
	"testing"
	"time"

	"github.com/ali-assar/NATS-Leader-Election/internal/natsmock"
	"go.uber.org/zap"
)

// demoGateLogger is a Logger that parks the goroutine that logs one chosen
// message until the test releases it: a forced schedule without touching the
// library.
type demoGateLogger struct {
	gateMsg string
	once    sync.Once
	reached chan struct{}
	release chan struct{}
}

func (l *demoGateLogger) hit(msg string) {
	if msg != l.gateMsg {
		return
	}
	first := false
	l.once.Do(func() { first = true })
	if first {
		close(l.reached)
		<-l.release
	}
}
func (l *demoGateLogger) Debug(msg string, _ ...zap.Field) { l.hit(msg) }
func (l *demoGateLogger) Info(msg string, _ ...zap.Field)  { l.hit(msg) }
func (l *demoGateLogger) Warn(msg string, _ ...zap.Field)  { l.hit(msg) }
func (l *demoGateLogger) Error(msg string, _ ...zap.Field) { l.hit(msg) }
func (l *demoGateLogger) Fatal(msg string, _ ...zap.Field) { l.hit(msg) }

type demoC08e10Log struct {
	mu     sync.Mutex
	events []string
}

func (l *demoC08e10Log) add(ev string) {
	l.mu.Lock()
	l.events = append(l.events, ev)
	l.mu.Unlock()
}

func (l *demoC08e10Log) counts() (p, d int, events []string) {
	l.mu.Lock()
	defer l.mu.Unlock()
	for _, ev := range l.events {
		if ev == "D" {
			d++
		} else {
			p++
		}
	}
	return p, d, append([]string(nil), l.events...)
}

// TestDemoC08e10_ResignWhileTermIsLost: the application asks the leader to step
// aside (Election.Resign, where the library offers it) at the moment another
// instance takes the record over. The term is lost once - whoever notices first -
// so OnDemote must run exactly once.
//
// On a tree without Resign the same take-over is played without the voluntary
// step-down (one cause instead of two), so the test is meaningful there too.
func TestDemoC08e10_ResignWhileTermIsLost(t *testing.T) {
	const bucketName, group = "leaders", "demo-c08e10"

	nc := natsmock.NewMockConn()
	logger := &demoGateLogger{
		gateMsg: "leader_resigning",
		reached: make(chan struct{}),
		release: make(chan struct{}),
	}
	cfg := ElectionConfig{
		Bucket:            bucketName,
		Group:             group,
		InstanceID:        "instance-1",
		TTL:               10 * time.Second,
		HeartbeatInterval: 50 * time.Millisecond,
		Logger:            logger,
	}
	el, err := NewElection(NewMockConnAdapter(nc), cfg)
	if err != nil {
		t.Fatal(err)
	}

	cb := &demoC08e10Log{}
	el.OnPromote(func(ctx context.Context, token string) { cb.add("P:" + token) })
	el.OnDemote(func() { cb.add("D") })

	if err := el.Start(context.Background()); err != nil {
		t.Fatal(err)
	}
	defer el.Stop()
	WaitForLeader(t, el, true, 2*time.Second)
	WaitForCondition(t, func() bool { p, _, _ := cb.counts(); return p == 1 }, 2*time.Second, "first promotion")

	// Cause 1 (where available): the voluntary step-down, parked right after it
	// has decided to go ahead.
	type resigner interface {
		Resign(ctx context.Context) error
	}
	resignDone := make(chan error, 1)
	r, hasResign := interface{}(el).(resigner)
	if hasResign {
		go func() { resignDone <- r.Resign(context.Background()) }()
		select {
		case <-logger.reached:
		case <-time.After(2 * time.Second):
			t.Fatal("Resign never reached its 'leader_resigning' log line")
		}
	} else {
		t.Log("this tree has no Election.Resign: playing the take-over alone")
	}

	// Cause 2: another instance takes the record over (revision-checked write, as
	// a priority take-over does). The leader's next heartbeat is refused with a
	// revision mismatch and ends the term.
	js, _ := nc.JetStream()
	store, _ := js.KeyValue(bucketName)
	usurper, _ := json.Marshal(leadershipPayload{ID: "instance-2", Token: "usurper-token", Priority: 5})
	for attempt := 0; ; attempt++ {
		entry, err := store.Get(group)
		if err != nil {
			t.Fatalf("record vanished: %v", err)
		}
		if _, err := store.Update(group, usurper, entry.Revision()); err == nil {
			break
		}
		if attempt > 50 {
			t.Fatal("could not overwrite the record")
		}
	}
	WaitForCondition(t, func() bool { _, d, _ := cb.counts(); return d >= 1 && !el.IsLeader() },
		2*time.Second, "demotion by the refused heartbeat")

	// Now the step-down continues.
	if hasResign {
		close(logger.release)
		select {
		case err := <-resignDone:
			t.Logf("Resign returned: %v", err)
		case <-time.After(3 * time.Second):
			t.Fatal("Resign did not return")
		}
	}

	// Quiescent point: instance-2's record stands, so this instance stays follower.
	time.Sleep(300 * time.Millisecond)
	p, d, events := cb.counts()
	t.Logf("callbacks: %v IsLeader=%v", events, el.IsLeader())
	if p != 1 || d != 1 {
		t.Errorf("one term was held and lost once: want 1 promotion and 1 demotion, got %d and %d (%v)", p, d, events)
	}
	if el.IsLeader() != (p-d == 1) {
		t.Errorf("IsLeader()=%v with promotions=%d demotions=%d", el.IsLeader(), p, d)
	}
}
