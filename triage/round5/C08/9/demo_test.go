package leader

import (
	"context"
	"sync"
	"sync/atomic"
	"testing"
	"time"

	"github.com/ali-assar/NATS-Leader-Election/internal/natsmock"
)

// demoGateChecker is a HealthChecker that answers "healthy" at once, except that
// the test can make the next check park (ignoring its context, as a checker that
// talks to a database with its own time-out would) until it is released.
type demoGateChecker struct {
	armed   atomic.Bool
	entered chan struct{}
	release chan struct{}
}

func (c *demoGateChecker) Check(ctx context.Context) bool {
	if c.armed.CompareAndSwap(true, false) {
		close(c.entered)
		<-c.release
	}
	return true
}

type demoCallbackLog struct {
	mu     sync.Mutex
	events []string
}

func (l *demoCallbackLog) add(ev string) {
	l.mu.Lock()
	l.events = append(l.events, ev)
	l.mu.Unlock()
}

func (l *demoCallbackLog) snapshot() (promotions, demotions int, events []string) {
	l.mu.Lock()
	defer l.mu.Unlock()
	for _, ev := range l.events {
		if ev == "D" {
			demotions++
		} else {
			promotions++
		}
	}
	return promotions, demotions, append([]string(nil), l.events...)
}

// TestDemoC08e9_RestartWhileTermEnds: the context given to Start is cancelled
// while the heartbeat loop of the running term is inside a health check, and the
// application starts the election again (with a fresh context) before the loop
// has noticed. The term that was running must still end with exactly one
// OnDemote, and IsLeader must mirror promotions-demotions at every quiescent
// point.
func TestDemoC08e9_RestartWhileTermEnds(t *testing.T) {
	nc := natsmock.NewMockConn()
	checker := &demoGateChecker{entered: make(chan struct{}), release: make(chan struct{})}
	cfg := ElectionConfig{
		Bucket:            "leaders",
		Group:             "demo-c08e9",
		InstanceID:        "instance-1",
		TTL:               10 * time.Second,
		HeartbeatInterval: 50 * time.Millisecond,
		HealthChecker:     checker,
	}
	el, err := NewElection(NewMockConnAdapter(nc), cfg)
	if err != nil {
		t.Fatal(err)
	}

	cb := &demoCallbackLog{}
	el.OnPromote(func(ctx context.Context, token string) { cb.add("P:" + token) })
	el.OnDemote(func() { cb.add("D") })

	ctx1, cancel1 := context.WithCancel(context.Background())
	defer cancel1()
	if err := el.Start(ctx1); err != nil {
		t.Fatal(err)
	}
	defer el.Stop()
	WaitForLeader(t, el, true, 2*time.Second)
	WaitForCondition(t, func() bool { p, _, _ := cb.snapshot(); return p == 1 }, 2*time.Second, "first promotion")

	// Park the heartbeat loop of term 1 inside its next health check.
	checker.armed.Store(true)
	select {
	case <-checker.entered:
	case <-time.After(2 * time.Second):
		t.Fatal("heartbeat loop never reached the health check")
	}

	// The run ends (its context is cancelled) and the application restarts it.
	cancel1()
	ctx2, cancel2 := context.WithCancel(context.Background())
	defer cancel2()
	if err := el.Start(ctx2); err != nil {
		t.Fatalf("restart refused: %v", err)
	}

	// The health check returns; the loop of term 1 now notices that its term is over.
	close(checker.release)

	// Quiescent point: the instance is a follower of the new run (its old record is
	// still in the store, so it cannot re-acquire yet).
	WaitForCondition(t, func() bool {
		return el.Status().State == StateFollower && !el.IsLeader()
	}, 2*time.Second, "instance to settle as follower after the restart")
	time.Sleep(200 * time.Millisecond)

	p, d, events := cb.snapshot()
	t.Logf("callbacks so far: %v, IsLeader=%v", events, el.IsLeader())
	if el.IsLeader() != (p-d == 1) {
		t.Errorf("IsLeader()=%v but promotions=%d demotions=%d (events %v): the term that ended was never reported by OnDemote",
			el.IsLeader(), p, d, events)
	}

	// Let the new run acquire: remove the old record, the follower's periodic
	// check finds the key gone and creates it.
	kv, _ := nc.JetStream()
	bucket, _ := kv.KeyValue("leaders")
	_ = bucket.Delete("demo-c08e9")
	WaitForLeader(t, el, true, 5*time.Second)
	WaitForCondition(t, func() bool { p, _, _ := cb.snapshot(); return p == 2 }, 2*time.Second, "second promotion")

	_, _, events = cb.snapshot()
	t.Logf("callbacks at the end: %v", events)
	for i, ev := range events {
		wantDemote := i%2 == 1
		if (ev == "D") != wantDemote {
			t.Fatalf("promotions and demotions do not alternate: %v", events)
		}
	}
}
