package leader

import (
	"context"
	"encoding/json"
	"fmt"
	"sync"
	"testing"
	"time"

	"github.com/ali-assar/NATS-Leader-Election/internal/natsmock"
)

// demo10Reaper plays the store's TTL on the mock KV (which ignores TTLs): a
// record that has kept the same revision for a whole TTL is removed. The age is
// counted from the moment the reaper first saw the revision, i.e. never earlier
// than the real write, so the emulated expiry is never premature.
type demo10Reaper struct {
	kv  *natsmock.MockKeyValue
	key string
	ttl time.Duration

	mu      sync.Mutex
	rev     uint64
	seen    time.Time
	expired int

	stop chan struct{}
	done chan struct{}
}

func startDemo10Reaper(kv *natsmock.MockKeyValue, key string, ttl time.Duration) *demo10Reaper {
	r := &demo10Reaper{kv: kv, key: key, ttl: ttl, stop: make(chan struct{}), done: make(chan struct{})}
	go func() {
		defer close(r.done)
		tick := time.NewTicker(2 * time.Millisecond)
		defer tick.Stop()
		for {
			select {
			case <-r.stop:
				return
			case <-tick.C:
			}
			entry, err := kv.Get(key)
			r.mu.Lock()
			switch {
			case err != nil || entry == nil:
				r.rev = 0
			case entry.Revision() != r.rev:
				r.rev = entry.Revision()
				r.seen = time.Now()
			case time.Since(r.seen) >= ttl:
				_ = kv.Delete(key)
				r.rev = 0
				r.expired++
			}
			r.mu.Unlock()
		}
	}()
	return r
}

func (r *demo10Reaper) Stop() { close(r.stop); <-r.done }

// expiresAt: when the record seen now lapses unless it is refreshed.
func (r *demo10Reaper) expiresAt() (time.Time, bool) {
	r.mu.Lock()
	defer r.mu.Unlock()
	if r.rev == 0 {
		return time.Time{}, false
	}
	return r.seen.Add(r.ttl), true
}

func (r *demo10Reaper) expiredCount() int {
	r.mu.Lock()
	defer r.mu.Unlock()
	return r.expired
}

func demo10Record(kv *natsmock.MockKeyValue, key string) (id, token string, ok bool) {
	entry, err := kv.Get(key)
	if err != nil || entry == nil {
		return "", "", false
	}
	var p leadershipPayload
	if json.Unmarshal(entry.Value(), &p) != nil {
		return "", "", true
	}
	return p.ID, p.Token, true
}

// TestDemoC02e10_RestartNearExpiryResumesLapsingRecord:
// A leads and is stopped with Stop() (the record stays, nobody refreshes it).
// A is started again shortly before the record's TTL runs out. The record then
// lapses and follower B acquires the vacant key. C02: at no instant may two
// instances claim, and a claim must be backed by the live record.
func TestDemoC02e10_RestartNearExpiryResumesLapsingRecord(t *testing.T) {
	const (
		hb  = 1 * time.Second
		ttl = 3 * time.Second // the minimum the library accepts for this heartbeat
		key = "demo-group"
	)

	nc := natsmock.NewMockConn()
	js, err := nc.JetStream()
	if err != nil {
		t.Fatal(err)
	}
	kv, err := js.KeyValue("leaders")
	if err != nil {
		t.Fatal(err)
	}
	reaper := startDemo10Reaper(kv, key, ttl)
	defer reaper.Stop()

	mk := func(id string) Election {
		el, err := NewElection(NewMockConnAdapter(nc), ElectionConfig{
			Bucket: "leaders", Group: key, InstanceID: id, TTL: ttl, HeartbeatInterval: hb,
		})
		if err != nil {
			t.Fatal(err)
		}
		return el
	}
	a, b := mk("A"), mk("B")
	defer func() { _ = a.Stop(); _ = b.Stop() }()

	if err := a.Start(context.Background()); err != nil {
		t.Fatal(err)
	}
	WaitForLeader(t, a, true, 2*time.Second)
	if err := b.Start(context.Background()); err != nil {
		t.Fatal(err)
	}
	WaitForCondition(t, func() bool { return b.Status().State == StateFollower }, 2*time.Second, "B to follow")

	// Plain Stop: the record stays where it is and ages.
	if err := a.Stop(); err != nil {
		t.Fatal(err)
	}
	if a.IsLeader() {
		t.Fatal("A claims after Stop")
	}
	expiry, ok := reaper.expiresAt()
	if !ok {
		t.Fatal("no record after Stop()")
	}

	// Restart A 100ms before its old record lapses.
	time.Sleep(time.Until(expiry.Add(-100 * time.Millisecond)))
	if err := a.Start(context.Background()); err != nil {
		t.Fatal(err)
	}

	// Observe until well after the lapse and the re-election.
	els := map[string]Election{"A": a, "B": b}
	violations := map[string]string{}
	note := func(kind, msg string) {
		if _, seen := violations[kind]; !seen {
			violations[kind] = fmt.Sprintf("%s (at expiry+%v)", msg, time.Since(expiry).Round(time.Millisecond))
		}
	}
	end := expiry.Add(2500 * time.Millisecond)
	for time.Now().Before(end) {
		var claimants []string
		for _, id := range []string{"A", "B"} {
			if els[id].IsLeader() {
				claimants = append(claimants, id)
			}
		}
		if len(claimants) > 1 {
			note("two-leaders", fmt.Sprintf("%v report IsLeader()==true at once", claimants))
		}
		if len(claimants) == 1 {
			id := claimants[0]
			tok := els[id].Token()
			recID, recTok, present := demo10Record(kv, key)
			if els[id].IsLeader() && els[id].Token() == tok { // claim stood during the read
				if !present {
					note("no-record", fmt.Sprintf("%s reports IsLeader()==true but there is no live record", id))
				} else if recID != id || recTok != tok {
					note("foreign-record", fmt.Sprintf("%s claims with token %s, the live record is %s/%s", id, tok, recID, recTok))
				}
			}
		}
		time.Sleep(2 * time.Millisecond)
	}

	if reaper.expiredCount() == 0 {
		t.Logf("note: the old record never lapsed (it was refreshed in time)")
	}
	if !a.IsLeader() && !b.IsLeader() {
		t.Errorf("nobody leads 2.5s after the lapse")
	}
	for kind, msg := range violations {
		t.Errorf("C02 violated [%s]: %s", kind, msg)
	}
}
