package leader

import (
	"context"
	"encoding/json"
	"sync"
	"sync/atomic"
	"testing"
	"time"

	"github.com/ali-assar/NATS-Leader-Election/internal/natsmock"
)

// demo9Checker is a health checker that is healthy all the time. When armed, its
// next Check blocks (ignoring its context, as the library documents a checker
// may) until released: this pins the heartbeat goroutine in a known place.
type demo9Checker struct {
	armed   atomic.Bool
	entered chan struct{}
	release chan struct{}
}

func (c *demo9Checker) Check(ctx context.Context) bool {
	if c.armed.CompareAndSwap(true, false) {
		close(c.entered)
		<-c.release
	}
	return true
}

// demo9Record reads the live record of the group: (id, token, revision, present).
func demo9Record(kv *natsmock.MockKeyValue, key string) (string, string, uint64, bool) {
	entry, err := kv.Get(key)
	if err != nil || entry == nil {
		return "", "", 0, false
	}
	var p leadershipPayload
	if json.Unmarshal(entry.Value(), &p) != nil {
		return "", "", entry.Revision(), true
	}
	return p.ID, p.Token, entry.Revision(), true
}

// demo9Expire plays the store's TTL: the record is removed only after it has not
// been refreshed (same revision) for a whole TTL.
func demo9Expire(t *testing.T, kv *natsmock.MockKeyValue, key string, ttl time.Duration) {
	t.Helper()
	_, _, rev0, ok := demo9Record(kv, key)
	if !ok {
		return
	}
	deadline := time.Now().Add(ttl)
	for time.Now().Before(deadline) {
		_, _, rev, ok := demo9Record(kv, key)
		if !ok {
			return
		}
		if rev != rev0 {
			// refreshed: restart the TTL clock
			rev0 = rev
			deadline = time.Now().Add(ttl)
		}
		time.Sleep(5 * time.Millisecond)
	}
	_ = kv.Delete(key)
}

// demo9CheckClaims checks C02 for a while: at most one instance claims, and a
// claim is backed by the record (id and token).
func demo9CheckClaims(t *testing.T, kv *natsmock.MockKeyValue, key string, d time.Duration, els map[string]Election) {
	t.Helper()
	deadline := time.Now().Add(d)
	for time.Now().Before(deadline) {
		var claimants []string
		for id, el := range els {
			if el.IsLeader() {
				claimants = append(claimants, id)
			}
		}
		if len(claimants) > 1 {
			t.Fatalf("C02 violated: %d instances report IsLeader()==true at once: %v", len(claimants), claimants)
		}
		if len(claimants) == 1 {
			id := claimants[0]
			tok := els[id].Token()
			recID, recTok, _, ok := demo9Record(kv, key)
			// re-check the claim after the read (the claim may have ended meanwhile)
			if els[id].IsLeader() && els[id].Token() == tok {
				if !ok {
					t.Fatalf("C02 violated: %s reports IsLeader()==true but there is no live record", id)
				}
				if recID != id || recTok != tok {
					t.Fatalf("C02 violated: %s claims with token %s but the record names %s/%s", id, tok, recID, recTok)
				}
			}
		}
		time.Sleep(5 * time.Millisecond)
	}
}

// TestDemoC02e9_RestartAfterContextCancelKeepsStaleClaim:
// A leads. The context given to A.Start is cancelled and A is started again at
// once (restart through the context), while A's heartbeat goroutine has not yet
// handled the cancellation (it is inside a health check). The old term's loops
// are gone, nobody refreshes the record; A must therefore drop its claim. Then
// the record lapses and B takes over.
func TestDemoC02e9_RestartAfterContextCancelKeepsStaleClaim(t *testing.T) {
	const (
		hb  = 50 * time.Millisecond
		ttl = 200 * time.Millisecond
		key = "demo-group"
	)

	nc := natsmock.NewMockConn()
	js, err := nc.JetStream()
	if err != nil {
		t.Fatal(err)
	}
	kv, err := js.KeyValue("leaders")
	if err != nil {
		t.Fatal(err)
	}

	checker := &demo9Checker{entered: make(chan struct{}), release: make(chan struct{})}

	mk := func(id string, hc HealthChecker) Election {
		el, err := NewElection(NewMockConnAdapter(nc), ElectionConfig{
			Bucket:            "leaders",
			Group:             key,
			InstanceID:        id,
			TTL:               ttl,
			HeartbeatInterval: hb,
			HealthChecker:     hc,
		})
		if err != nil {
			t.Fatal(err)
		}
		return el
	}
	a := mk("A", checker)
	b := mk("B", nil)

	var demotions atomic.Int32
	a.OnDemote(func() { demotions.Add(1) })

	ctx1, cancel1 := context.WithCancel(context.Background())
	if err := a.Start(ctx1); err != nil {
		t.Fatal(err)
	}
	WaitForLeader(t, a, true, 2*time.Second)

	// Pin A's heartbeat goroutine inside the health check of its next tick.
	checker.armed.Store(true)
	select {
	case <-checker.entered:
	case <-time.After(2 * time.Second):
		t.Fatal("heartbeat goroutine never reached the health check")
	}

	// Restart through the context: cancel the run, start a new one.
	cancel1()
	ctx2, cancel2 := context.WithCancel(context.Background())
	defer cancel2()
	if err := a.Start(ctx2); err != nil {
		t.Fatalf("restart after context cancellation refused: %v", err)
	}
	close(checker.release)

	var stopOnce sync.Once
	stopAll := func() {
		stopOnce.Do(func() {
			_ = a.Stop()
			_ = b.Stop()
		})
	}
	defer stopAll()

	// The old term ended with its context: the claim has to go.
	deadline := time.Now().Add(1 * time.Second)
	for a.IsLeader() && time.Now().Before(deadline) {
		time.Sleep(5 * time.Millisecond)
	}
	stale := a.IsLeader()
	if stale {
		t.Logf("A still reports IsLeader()==true 1s after its term's context was cancelled (OnDemote calls: %d)", demotions.Load())
	}

	// Nobody refreshes the record any more: it lapses. B joins.
	demo9Expire(t, kv, key, ttl)
	if err := b.Start(context.Background()); err != nil {
		t.Fatal(err)
	}
	WaitForCondition(t, func() bool {
		_, _, _, ok := demo9Record(kv, key)
		return ok && (a.IsLeader() || b.IsLeader())
	}, 3*time.Second, "somebody to acquire the lapsed record")

	demo9CheckClaims(t, kv, key, 1*time.Second, map[string]Election{"A": a, "B": b})

	if stale {
		t.Fatalf("A kept the claim of a term whose loops have ended")
	}
}

// TestDemoC02e9_RestartWithoutForcedSchedule is the same restart without any
// pinning: cancel the run's context and call Start again straight away, as an
// application would. The caller's goroutine reaches Start before the heartbeat
// goroutine has been woken by the cancellation.
func TestDemoC02e9_RestartWithoutForcedSchedule(t *testing.T) {
	const (
		hb  = 50 * time.Millisecond
		ttl = 200 * time.Millisecond
		key = "demo-group-2"
	)
	nc := natsmock.NewMockConn()
	js, _ := nc.JetStream()
	kv, _ := js.KeyValue("leaders")

	mk := func(id string) Election {
		el, err := NewElection(NewMockConnAdapter(nc), ElectionConfig{
			Bucket: "leaders", Group: key, InstanceID: id, TTL: ttl, HeartbeatInterval: hb,
		})
		if err != nil {
			t.Fatal(err)
		}
		return el
	}
	a, b := mk("A"), mk("B")
	defer func() { _ = a.Stop(); _ = b.Stop() }()

	ctx1, cancel1 := context.WithCancel(context.Background())
	if err := a.Start(ctx1); err != nil {
		t.Fatal(err)
	}
	WaitForLeader(t, a, true, 2*time.Second)
	// keep clear of a heartbeat tick
	hbAt := a.Status().LastHeartbeat
	WaitForHeartbeat(t, a, hbAt, 2*time.Second)
	time.Sleep(hb / 5)

	ctx2, cancel2 := context.WithCancel(context.Background())
	defer cancel2()
	cancel1()
	if err := a.Start(ctx2); err != nil {
		t.Fatalf("restart refused: %v", err)
	}

	time.Sleep(500 * time.Millisecond)
	stale := a.IsLeader()

	demo9Expire(t, kv, key, ttl)
	if err := b.Start(context.Background()); err != nil {
		t.Fatal(err)
	}
	WaitForCondition(t, func() bool {
		_, _, _, ok := demo9Record(kv, key)
		return ok && (a.IsLeader() || b.IsLeader())
	}, 3*time.Second, "somebody to acquire the lapsed record")
	demo9CheckClaims(t, kv, key, 1*time.Second, map[string]Election{"A": a, "B": b})
	if stale {
		t.Fatalf("A kept the claim of a term whose loops have ended")
	}
}
