package leader

import (
	"context"
	"reflect"
	"sync/atomic"
	"testing"
	"time"

	"github.com/ali-assar/NATS-Leader-Election/internal/natsmock"
)

type demoC19Health struct{ healthy atomic.Bool }

func (h *demoC19Health) Check(ctx context.Context) bool { return h.healthy.Load() }

// TestDemoC19PromoteContextCancelledOnHealthDemotion: when a leader demotes itself
// because its health checks fail, the context its OnPromote callback works under
// must be cancelled promptly - whatever the configuration says about what the
// instance does next. (Every optional duration field of the configuration that a
// later version may add for the time after a demotion is set through reflection,
// so the test compiles against versions that do not have it.)
func TestDemoC19PromoteContextCancelledOnHealthDemotion(t *testing.T) {
	health := &demoC19Health{}
	health.healthy.Store(true)

	cfg := ElectionConfig{
		Bucket:                 "leaders",
		Group:                  "demo-c19-10",
		InstanceID:             "instance-1",
		TTL:                    600 * time.Millisecond,
		HeartbeatInterval:      100 * time.Millisecond,
		ValidationInterval:     5 * time.Second,
		HealthChecker:          health,
		MaxConsecutiveFailures: 1,
	}
	if f := reflect.ValueOf(&cfg).Elem().FieldByName("DemotionCooldown"); f.IsValid() && f.CanSet() {
		f.SetInt(int64(3 * time.Second))
	}

	nc := natsmock.NewMockConn()
	election, err := NewElection(NewMockConnAdapter(nc), cfg)
	if err != nil {
		t.Fatalf("NewElection: %v", err)
	}

	var firstTerm atomic.Bool
	promoted := make(chan string, 1)
	cancelled := make(chan time.Time, 1)
	election.OnPromote(func(ctx context.Context, token string) {
		if !firstTerm.CompareAndSwap(false, true) {
			return // later terms (re-election on the clean tree) are not observed
		}
		promoted <- token
		<-ctx.Done() // leader work bound to the term
		cancelled <- time.Now()
	})
	demoted := make(chan time.Time, 16)
	election.OnDemote(func() {
		select {
		case demoted <- time.Now():
		default:
		}
	})

	if err := election.Start(context.Background()); err != nil {
		t.Fatalf("Start: %v", err)
	}
	defer func() { _ = election.Stop() }()

	select {
	case <-promoted:
	case <-time.After(2 * time.Second):
		t.Fatal("never promoted")
	}

	// The instance becomes unhealthy: one failed check demotes it.
	health.healthy.Store(false)

	var demotedAt time.Time
	select {
	case demotedAt = <-demoted:
	case <-time.After(2 * time.Second):
		t.Fatal("never demoted")
	}
	if election.IsLeader() {
		t.Fatal("OnDemote ran but IsLeader is still true")
	}

	// The term is over: its context must be done promptly.
	select {
	case at := <-cancelled:
		if d := at.Sub(demotedAt); d > 300*time.Millisecond {
			t.Fatalf("promotion context cancelled only %v after the demotion", d)
		}
	case <-time.After(time.Second):
		t.Fatalf("promotion context still live 1s after the term ended (IsLeader=%v, state=%s): leader work outlives the leadership",
			election.IsLeader(), election.Status().State)
	}
}
