package leader

import (
	"context"
	"testing"
	"time"

	"github.com/ali-assar/NATS-Leader-Election/internal/natsmock"
)

// TestDemoC19PromoteContextSurvivesLongTerm: a healthy leader whose OnPromote
// callback blocks on its context (the intended way to bind leader work to the
// term) must not see that context cancelled while the term goes on - however
// long the term lasts. The context is cancelled only when the term ends.
func TestDemoC19PromoteContextSurvivesLongTerm(t *testing.T) {
	cfg := ElectionConfig{
		Bucket:             "leaders",
		Group:              "demo-c19-9",
		InstanceID:         "instance-1",
		TTL:                600 * time.Millisecond,
		HeartbeatInterval:  100 * time.Millisecond,
		ValidationInterval: 100 * time.Millisecond,
	}

	nc := natsmock.NewMockConn()
	election, err := NewElection(NewMockConnAdapter(nc), cfg)
	if err != nil {
		t.Fatalf("NewElection: %v", err)
	}

	promoted := make(chan string, 4)
	cancelled := make(chan time.Time, 4)
	election.OnPromote(func(ctx context.Context, token string) {
		promoted <- token
		<-ctx.Done() // leader work bound to the term
		cancelled <- time.Now()
	})

	if err := election.Start(context.Background()); err != nil {
		t.Fatalf("Start: %v", err)
	}
	defer func() { _ = election.Stop() }()

	var token string
	select {
	case token = <-promoted:
	case <-time.After(2 * time.Second):
		t.Fatal("never promoted")
	}
	start := time.Now()

	// Observe the term for several TTLs: the instance must keep leading the same
	// term (same token) and the term's context must stay live all along.
	deadline := time.After(4 * cfg.TTL)
observe:
	for {
		select {
		case at := <-cancelled:
			t.Fatalf("promotion context cancelled %v after promotion while IsLeader=%v token unchanged=%v",
				at.Sub(start).Round(time.Millisecond), election.IsLeader(), election.Token() == token)
		case <-deadline:
			break observe
		case <-time.After(20 * time.Millisecond):
			if !election.IsLeader() || election.Token() != token {
				t.Fatalf("term ended unexpectedly (IsLeader=%v)", election.IsLeader())
			}
		}
	}

	// And it is cancelled promptly when the term ends.
	if err := election.Stop(); err != nil {
		t.Fatalf("Stop: %v", err)
	}
	select {
	case <-cancelled:
	case <-time.After(500 * time.Millisecond):
		t.Fatal("promotion context not cancelled after Stop")
	}
}
