package leader

import (
	"context"
	"sync"
	"testing"
	"time"

	"github.com/ali-assar/NATS-Leader-Election/internal/natsmock"
)

type demoCheckCall struct {
	n        int
	result   bool
	budget   time.Duration // time left on the context when the call began
	hasLimit bool
}

// demoSlowFirstChecker: the first call is slow (it takes 200 ms and does not look
// at its context) and reports unhealthy; from then on the calls answer at once,
// alternating healthy / unhealthy (call 2 healthy, 3 unhealthy, 4 healthy ...).
// No two consecutive calls report unhealthy.
type demoSlowFirstChecker struct {
	mu    sync.Mutex
	calls []demoCheckCall
}

func (c *demoSlowFirstChecker) Check(ctx context.Context) bool {
	c.mu.Lock()
	n := len(c.calls) + 1
	call := demoCheckCall{n: n}
	if dl, ok := ctx.Deadline(); ok {
		call.hasLimit = true
		call.budget = time.Until(dl)
	}
	call.result = n%2 == 0
	c.calls = append(c.calls, call)
	c.mu.Unlock()

	if n == 1 {
		time.Sleep(200 * time.Millisecond)
	}
	return call.result
}

func (c *demoSlowFirstChecker) log() []demoCheckCall {
	c.mu.Lock()
	defer c.mu.Unlock()
	return append([]demoCheckCall(nil), c.calls...)
}

// TestDemoHealthResultBelongsToItsTick: threshold 2; the checker's answers are
// unhealthy(slow), healthy, unhealthy, healthy, ... - never two unhealthy results
// in a row, so the health mechanism must never demote.
func TestDemoHealthResultBelongsToItsTick(t *testing.T) {
	checker := &demoSlowFirstChecker{}

	cfg := ElectionConfig{
		Bucket:                 "leaders",
		Group:                  "demo-c12e10",
		InstanceID:             "instance-1",
		TTL:                    5 * time.Second,
		HeartbeatInterval:      400 * time.Millisecond,
		HealthChecker:          checker,
		MaxConsecutiveFailures: 2,
	}

	nc := natsmock.NewMockConn()
	election, err := NewElection(NewMockConnAdapter(nc), cfg)
	if err != nil {
		t.Fatalf("NewElection: %v", err)
	}

	var demoteMu sync.Mutex
	var demotedAfterCalls []int
	election.OnDemote(func() {
		demoteMu.Lock()
		demotedAfterCalls = append(demotedAfterCalls, len(checker.log()))
		demoteMu.Unlock()
	})

	if err := election.Start(context.Background()); err != nil {
		t.Fatalf("Start: %v", err)
	}
	WaitForLeader(t, election, true, 2*time.Second)

	// Five checks (unhealthy, healthy, unhealthy, healthy, unhealthy) - or an
	// earlier loss of leadership.
	WaitForCondition(t, func() bool {
		return len(checker.log()) >= 5 || !election.IsLeader()
	}, 6*time.Second, "five health checks or a demotion")

	calls := checker.log()
	for _, c := range calls {
		if !c.hasLimit || c.budget > 100*time.Millisecond {
			t.Errorf("check %d: context without deadline or with more than 100ms left (%v)", c.n, c.budget)
		}
	}

	stillLeader := election.IsLeader()
	demoteMu.Lock()
	demotes := append([]int(nil), demotedAfterCalls...)
	demoteMu.Unlock()

	// Stop before judging, so that the OnDemote of Stop cannot be mistaken.
	_ = election.Stop()

	if !stillLeader || len(demotes) != 0 {
		seq := ""
		for _, c := range calls {
			if c.result {
				seq += "H"
			} else {
				seq += "U"
			}
		}
		t.Fatalf("demoted by the health mechanism although the checker never reported unhealthy on 2 "+
			"consecutive ticks: results so far %q (call 1 slow), OnDemote after %v call(s), leader=%v",
			seq, demotes, stillLeader)
	}
}
