package leader

import (
	"context"
	"sync"
	"sync/atomic"
	"testing"
	"time"

	"github.com/ali-assar/NATS-Leader-Election/internal/natsmock"
)

// demoScriptedChecker answers the n-th call (1-based) with script(n) and reports
// every finished call on done.
type demoScriptedChecker struct {
	mu     sync.Mutex
	calls  int
	script func(n int) bool
	done   chan int
}

func (c *demoScriptedChecker) Check(ctx context.Context) bool {
	c.mu.Lock()
	c.calls++
	n := c.calls
	c.mu.Unlock()
	res := c.script(n)
	select {
	case c.done <- n:
	default:
	}
	return res
}

func (c *demoScriptedChecker) count() int {
	c.mu.Lock()
	defer c.mu.Unlock()
	return c.calls
}

// TestDemoHealthCountRestartsWithNewTermAfterStop: the instance leads a first
// term in which the checker reports unhealthy twice (threshold 3, so no
// demotion), is stopped and started again, and leads a second term in which the
// checker reports unhealthy ONCE and healthy from then on. One unhealthy tick in
// the current term must not demote with a threshold of 3.
func TestDemoHealthCountRestartsWithNewTermAfterStop(t *testing.T) {
	checker := &demoScriptedChecker{
		done: make(chan int, 64),
		// calls 1,2: unhealthy (term 1); call 3: unhealthy (first tick of term 2);
		// afterwards healthy.
		script: func(n int) bool { return n > 3 },
	}

	cfg := ElectionConfig{
		Bucket:                 "leaders",
		Group:                  "demo-c12e9",
		InstanceID:             "instance-1",
		TTL:                    3 * time.Second,
		HeartbeatInterval:      300 * time.Millisecond,
		HealthChecker:          checker,
		MaxConsecutiveFailures: 3,
	}

	nc := natsmock.NewMockConn()
	election, err := NewElection(NewMockConnAdapter(nc), cfg)
	if err != nil {
		t.Fatalf("NewElection: %v", err)
	}

	var demotes atomic.Int32
	election.OnDemote(func() { demotes.Add(1) })

	if err := election.Start(context.Background()); err != nil {
		t.Fatalf("Start: %v", err)
	}
	WaitForLeader(t, election, true, 2*time.Second)

	// Term 1: wait until the second unhealthy result has been delivered.
	deadline := time.After(5 * time.Second)
	for seen := 0; seen < 2; {
		select {
		case seen = <-checker.done:
		case <-deadline:
			t.Fatalf("term 1: checker was called %d times only", checker.count())
		}
	}
	if !election.IsLeader() {
		t.Fatalf("term 1: demoted after 2 unhealthy ticks with threshold 3")
	}

	// End term 1 by stopping the election (the record is deleted so that the
	// instance can be elected again at once).
	stopCtx, cancel := context.WithTimeout(context.Background(), 3*time.Second)
	err = election.StopWithContext(stopCtx, StopOptions{DeleteKey: true, WaitForDemote: true})
	cancel()
	if err != nil {
		t.Fatalf("StopWithContext: %v", err)
	}
	if got := checker.count(); got != 2 {
		t.Skipf("schedule not reached: %d checks ran in term 1 (want 2)", got)
	}
	demotesAfterStop := demotes.Load()

	// Term 2.
	if err := election.Start(context.Background()); err != nil {
		t.Fatalf("restart: %v", err)
	}
	defer func() { _ = election.Stop() }()
	WaitForLeader(t, election, true, 2*time.Second)

	// Let the checker answer unhealthy once (call 3) and healthy twice (4, 5) -
	// or stop waiting as soon as the leadership is gone.
	WaitForCondition(t, func() bool {
		return checker.count() >= 5 || !election.IsLeader()
	}, 5*time.Second, "term 2: three health checks or a demotion")

	if !election.IsLeader() || demotes.Load() != demotesAfterStop {
		t.Fatalf("term 2: demoted by the health mechanism after %d unhealthy tick(s) of the current term "+
			"(threshold 3; checker calls so far: %d, OnDemote calls since restart: %d)",
			checker.count()-2, checker.count(), demotes.Load()-demotesAfterStop)
	}
}
