package leader

import (
	"context"
	"encoding/json"
	"testing"
	"time"

	"github.com/ali-assar/NATS-Leader-Election/internal/natsmock"
)

// TestDemoC13_9_UnreadablePriorityIsNotPreempted: a takeover-enabled candidate
// (priority 10) meets a live record that another participant wrote with a
// priority this library cannot read as an int (here 100.0, what a Python or
// JavaScript client produces for a float; the same holds for 1e2, "high",
// true, [100], 99999999999999999999). The record's priority is unknown, so the
// candidate must never preempt it: the record must stay as written and the
// candidate must stay a follower.
func TestDemoC13_9_UnreadablePriorityIsNotPreempted(t *testing.T) {
	records := map[string]string{
		"float":    `{"id":"dc-primary","token":"tok-primary","priority":100.0}`,
		"exponent": `{"id":"dc-primary","token":"tok-primary","priority":1e2}`,
		"word":     `{"id":"dc-primary","token":"tok-primary","priority":"highest"}`,
		"overflow": `{"id":"dc-primary","token":"tok-primary","priority":99999999999999999999}`,
	}

	for name, record := range records {
		record := record
		t.Run(name, func(t *testing.T) {
			nc := natsmock.NewMockConn()
			js, err := nc.JetStream()
			if err != nil {
				t.Fatal(err)
			}
			mockKV, err := js.KeyValue("leaders")
			if err != nil {
				t.Fatal(err)
			}
			if _, err := mockKV.Create("demo-group", []byte(record)); err != nil {
				t.Fatal(err)
			}

			el, err := NewElection(NewMockConnAdapter(nc), ElectionConfig{
				Bucket:                "leaders",
				Group:                 "demo-group",
				InstanceID:            "candidate",
				TTL:                   3 * time.Second,
				HeartbeatInterval:     100 * time.Millisecond,
				Priority:              10,
				AllowPriorityTakeover: true,
			})
			if err != nil {
				t.Fatal(err)
			}
			if err := el.Start(context.Background()); err != nil {
				t.Fatal(err)
			}
			defer func() { _ = el.Stop() }()

			// Start's acquisition, the watcher's first event and three periodic
			// checks all fall into this window.
			deadline := time.Now().Add(1500 * time.Millisecond)
			for time.Now().Before(deadline) {
				if el.IsLeader() {
					break
				}
				time.Sleep(10 * time.Millisecond)
			}

			entry, err := mockKV.Get("demo-group")
			if err != nil {
				t.Fatalf("record vanished: %v", err)
			}
			var owner struct {
				ID string `json:"id"`
			}
			_ = json.Unmarshal(entry.Value(), &owner)

			if el.IsLeader() || owner.ID != "dc-primary" {
				t.Fatalf("candidate (priority 10) preempted a live record whose priority it cannot read: IsLeader=%v, record now %s",
					el.IsLeader(), entry.Value())
			}
		})
	}
}
