package leader

import (
	"context"
	"encoding/json"
	"sync/atomic"
	"testing"
	"time"

	"github.com/ali-assar/NATS-Leader-Election/internal/natsmock"
)

// TestDemoC13_10_LeaderWhoseRecordWasRewrittenDemotes: a leader that also runs a
// watcher (it was a follower first) has its record rewritten by an outside party
// with a well-formed payload that carries the leader's instance id but a foreign
// token. The record is no longer the leader's own write: its next heartbeat must
// be refused (revision mismatch), the instance must step down with OnDemote, and
// it must not overwrite the outside party's record.
func TestDemoC13_10_LeaderWhoseRecordWasRewrittenDemotes(t *testing.T) {
	const key = "demo-group"

	nc := natsmock.NewMockConn()
	js, err := nc.JetStream()
	if err != nil {
		t.Fatal(err)
	}
	mockKV, err := js.KeyValue("leaders")
	if err != nil {
		t.Fatal(err)
	}

	// A predecessor holds the key, so that the instance starts as a follower
	// and gets its watcher.
	if _, err := mockKV.Create(key, []byte(`{"id":"predecessor","token":"tok-0"}`)); err != nil {
		t.Fatal(err)
	}

	updates := make(chan natsmock.Entry, 10)
	watcher := &natsmock.MockWatcher{UpdatesChan: updates, StopChan: make(chan struct{})}
	mockKV.SetWatchFunc(func(string, ...natsmock.WatchOption) (natsmock.Watcher, error) {
		return watcher, nil
	})

	el, err := NewElection(NewMockConnAdapter(nc), ElectionConfig{
		Bucket:             "leaders",
		Group:              key,
		InstanceID:         "instance-1",
		TTL:                6 * time.Second,
		HeartbeatInterval:  500 * time.Millisecond,
		ValidationInterval: 5 * time.Second,
	})
	if err != nil {
		t.Fatal(err)
	}
	var demotions atomic.Int32
	el.OnDemote(func() { demotions.Add(1) })

	if err := el.Start(context.Background()); err != nil {
		t.Fatal(err)
	}
	defer func() { _ = el.Stop() }()

	WaitForCondition(t, func() bool { return el.Status().State == StateFollower },
		2*time.Second, "instance to become follower")

	// The predecessor goes away: the follower acquires the key and leads, its
	// watcher keeps running.
	if err := mockKV.Delete(key); err != nil {
		t.Fatal(err)
	}
	updates <- nil
	WaitForLeader(t, el, true, 3*time.Second)

	// Right after a heartbeat (the next one is a whole interval away) the outside
	// party rewrites the record, and the watch reports the rewrite to the leader.
	WaitForHeartbeat(t, el, el.Status().LastHeartbeat, 2*time.Second)

	forged := []byte(`{"id":"instance-1","token":"forged-by-outside-party"}`)
	var forgedRev uint64
	for attempt := 0; ; attempt++ {
		cur, err := mockKV.Get(key)
		if err != nil {
			t.Fatal(err)
		}
		forgedRev, err = mockKV.Update(key, forged, cur.Revision())
		if err == nil {
			break
		}
		if attempt > 5 {
			t.Fatalf("outside party cannot rewrite the record: %v", err)
		}
	}
	updates <- &natsmock.MockEntryImpl{KeyVal: key, ValueVal: forged, RevVal: forgedRev}

	// Three heartbeat intervals are ample for the refused heartbeat.
	deadline := time.Now().Add(1500 * time.Millisecond)
	for time.Now().Before(deadline) && el.IsLeader() {
		time.Sleep(10 * time.Millisecond)
	}
	time.Sleep(100 * time.Millisecond)

	cur, err := mockKV.Get(key)
	if err != nil {
		t.Fatalf("record vanished: %v", err)
	}
	var rec struct {
		Token string `json:"token"`
	}
	_ = json.Unmarshal(cur.Value(), &rec)

	if el.IsLeader() || demotions.Load() != 1 || rec.Token != "forged-by-outside-party" {
		t.Fatalf("leader whose record was rewritten by an outside party (rev %d) was not demoted: IsLeader=%v, OnDemote calls=%d, leader's revision=%d, record now rev %d %s",
			forgedRev, el.IsLeader(), demotions.Load(), el.Status().Revision, cur.Revision(), cur.Value())
	}
}
