package leader

import (
	"context"
	"sync"
	"sync/atomic"
	"testing"
	"time"

	"github.com/ali-assar/NATS-Leader-Election/internal/natsmock"
	"github.com/nats-io/nats.go"
	"go.uber.org/zap"
)

// demo10Provider is a JetStreamProvider over the mock store that also exposes an
// (unconnected) *nats.Conn, so that newKVElection wires connection monitoring.
type demo10Provider struct {
	*MockConnAdapter
	conn *nats.Conn
}

func (p *demo10Provider) NATSConnection() *nats.Conn { return p.conn }

// demo10Logger forces a schedule: it parks the grace-period callback at its
// "demoting_due_to_connection_loss" log line (after the generation check, right
// before the demotion) until the test releases it.
type demo10Logger struct {
	gated   atomic.Bool
	reached chan struct{}
	release chan struct{}
	once    sync.Once
}

func newDemo10Logger() *demo10Logger {
	return &demo10Logger{reached: make(chan struct{}), release: make(chan struct{})}
}

func (l *demo10Logger) Debug(string, ...zap.Field) {}
func (l *demo10Logger) Info(string, ...zap.Field)  {}
func (l *demo10Logger) Warn(string, ...zap.Field)  {}
func (l *demo10Logger) Fatal(string, ...zap.Field) {}
func (l *demo10Logger) Error(msg string, _ ...zap.Field) {
	if msg == "demoting_due_to_connection_loss" && l.gated.Load() {
		l.once.Do(func() { close(l.reached) })
		<-l.release
	}
}

type demo10Env struct {
	election Election
	conn     *nats.Conn
	log      *demo10Logger
	hung     atomic.Bool
}

const demo10Grace = 300 * time.Millisecond

func newDemo10Env(t *testing.T) *demo10Env {
	t.Helper()
	env := &demo10Env{conn: &nats.Conn{}, log: newDemo10Logger()}
	cfg := ElectionConfig{
		Bucket:                "leaders",
		Group:                 "demo10-group",
		InstanceID:            "instance-1",
		TTL:                   10 * time.Second,
		HeartbeatInterval:     100 * time.Millisecond,
		DisconnectGracePeriod: demo10Grace,
		Logger:                env.log,
	}
	nc := natsmock.NewMockConn()
	el, err := NewElection(&demo10Provider{MockConnAdapter: NewMockConnAdapter(nc), conn: env.conn}, cfg)
	if err != nil {
		t.Fatalf("NewElection: %v", err)
	}
	if el.(*kvElection).connectionMonitor == nil {
		t.Fatalf("connection monitoring not wired")
	}
	env.election = el
	t.Cleanup(func() {
		// A deadlocked election holds its mutex for ever: do not block on it.
		if !env.hung.Load() {
			_ = el.Stop()
		}
	})
	return env
}

func (e *demo10Env) start(t *testing.T) {
	t.Helper()
	if err := e.election.Start(context.Background()); err != nil {
		t.Fatalf("Start: %v", err)
	}
	WaitForLeader(t, e.election, true, 2*time.Second)
}

// Notifications are injected through the callbacks the monitor registered on the
// nats.Conn, as the NATS client would deliver them.
func (e *demo10Env) disconnect() { e.conn.Opts.DisconnectedCB(e.conn) }
func (e *demo10Env) reconnect()  { e.conn.Opts.ReconnectedCB(e.conn) }

// within runs fn in its own goroutine and reports whether it returned in time.
func within(d time.Duration, fn func()) bool {
	done := make(chan struct{})
	go func() {
		fn()
		close(done)
	}()
	select {
	case <-done:
		return true
	case <-time.After(d):
		return false
	}
}

// The application stops the election from its OnDemote callback (it lost the
// connection, it shuts the component down). The grace period expires, the leader
// is demoted, OnDemote runs, Stop is called: it must return.
func TestDemoC11e10_StopFromOnDemoteAfterGraceExpiry(t *testing.T) {
	env := newDemo10Env(t)

	stopReturned := make(chan error, 1)
	env.election.OnDemote(func() {
		stopReturned <- env.election.Stop()
	})
	env.start(t)

	env.disconnect()

	select {
	case err := <-stopReturned:
		if err != nil {
			t.Errorf("Stop: %v", err)
		}
	case <-time.After(demo10Grace + 8*time.Second):
		env.hung.Store(true)
		t.Fatalf("Stop() called from OnDemote after the grace period expired never returned: the election is deadlocked")
	}
	if env.election.IsLeader() {
		t.Errorf("still leader after grace expiry and Stop")
	}
	if !within(2*time.Second, func() { _ = env.election.Status() }) {
		env.hung.Store(true)
		t.Fatalf("Status() blocks: the election mutex is held for ever")
	}
}

// Stop arrives while the grace-period callback is between its generation check
// and the demotion.
func TestDemoC11e10_StopRacesGraceExpiry(t *testing.T) {
	env := newDemo10Env(t)
	var demotes atomic.Int32
	env.election.OnDemote(func() { demotes.Add(1) })
	env.start(t)

	env.log.gated.Store(true)
	env.disconnect()
	select {
	case <-env.log.reached:
	case <-time.After(demo10Grace + 2*time.Second):
		t.Fatalf("grace period did not expire")
	}

	stopped := make(chan error, 1)
	go func() { stopped <- env.election.Stop() }()
	time.Sleep(150 * time.Millisecond) // Stop is past (or inside) its locked section
	close(env.log.release)             // the callback goes on to demote

	select {
	case err := <-stopped:
		if err != nil {
			t.Errorf("Stop: %v", err)
		}
	case <-time.After(8 * time.Second):
		env.hung.Store(true)
		t.Fatalf("Stop() racing the expiry of the grace period never returned: the election is deadlocked")
	}
	if !within(2*time.Second, func() { _ = env.election.Status() }) {
		env.hung.Store(true)
		t.Fatalf("Status() blocks: the election mutex is held for ever")
	}
	if env.election.IsLeader() {
		t.Errorf("still leader after Stop")
	}
	if n := demotes.Load(); n != 1 {
		t.Errorf("OnDemote invoked %d time(s); want exactly 1", n)
	}
}

// A reconnect notification arrives while the grace-period callback is between
// its generation check and the demotion.
func TestDemoC11e10_ReconnectRacesGraceExpiry(t *testing.T) {
	env := newDemo10Env(t)
	var demotes atomic.Int32
	env.election.OnDemote(func() { demotes.Add(1) })
	env.start(t)

	env.log.gated.Store(true)
	env.disconnect()
	select {
	case <-env.log.reached:
	case <-time.After(demo10Grace + 2*time.Second):
		t.Fatalf("grace period did not expire")
	}

	reconnected := make(chan struct{})
	go func() {
		env.reconnect()
		close(reconnected)
	}()
	time.Sleep(150 * time.Millisecond)
	close(env.log.release)

	select {
	case <-reconnected:
	case <-time.After(5 * time.Second):
		env.hung.Store(true)
		t.Fatalf("the reconnect notification racing the expiry of the grace period never returned: the election is deadlocked")
	}
	if !within(2*time.Second, func() { _ = env.election.Status() }) {
		env.hung.Store(true)
		t.Fatalf("Status() blocks: the election mutex is held for ever")
	}
	if n := demotes.Load(); n > 1 {
		t.Errorf("OnDemote invoked %d times for one term", n)
	}
}
