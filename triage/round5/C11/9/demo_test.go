package leader

import (
	"context"
	"encoding/json"
	"sync/atomic"
	"testing"
	"time"

	"github.com/ali-assar/NATS-Leader-Election/internal/natsmock"
	"github.com/nats-io/nats.go"
)

// demo9Provider is a JetStreamProvider over the mock store that also exposes an
// (unconnected) *nats.Conn, so that newKVElection wires connection monitoring.
type demo9Provider struct {
	*MockConnAdapter
	conn *nats.Conn
}

func (p *demo9Provider) NATSConnection() *nats.Conn { return p.conn }

type demo9Env struct {
	election Election
	conn     *nats.Conn
	kv       *natsmock.MockKeyValue
	demotes  atomic.Int32
}

func newDemo9Env(t *testing.T, grace time.Duration) *demo9Env {
	t.Helper()
	cfg := ElectionConfig{
		Bucket:                "leaders",
		Group:                 "demo9-group",
		InstanceID:            "instance-1",
		TTL:                   10 * time.Second,
		HeartbeatInterval:     100 * time.Millisecond,
		DisconnectGracePeriod: grace,
	}
	nc := natsmock.NewMockConn()
	env := &demo9Env{conn: &nats.Conn{}}
	el, err := NewElection(&demo9Provider{MockConnAdapter: NewMockConnAdapter(nc), conn: env.conn}, cfg)
	if err != nil {
		t.Fatalf("NewElection: %v", err)
	}
	if el.(*kvElection).connectionMonitor == nil {
		t.Fatalf("connection monitoring not wired")
	}
	js, _ := nc.JetStream()
	env.kv, _ = js.KeyValue("leaders")
	env.election = el
	el.OnDemote(func() { env.demotes.Add(1) })
	if err := el.Start(context.Background()); err != nil {
		t.Fatalf("Start: %v", err)
	}
	t.Cleanup(func() { _ = el.Stop() })
	WaitForLeader(t, el, true, 2*time.Second)
	return env
}

// The notifications are injected through the callbacks the monitor registered
// on the nats.Conn, exactly as the NATS client would deliver them.
func (e *demo9Env) disconnect() { e.conn.Opts.DisconnectedCB(e.conn) }
func (e *demo9Env) reconnect()  { e.conn.Opts.ReconnectedCB(e.conn) }

func (e *demo9Env) recordIsOurs(t *testing.T) bool {
	t.Helper()
	entry, err := e.kv.Get("demo9-group")
	if err != nil || entry == nil {
		return false
	}
	var p leadershipPayload
	if json.Unmarshal(entry.Value(), &p) != nil {
		return false
	}
	return p.ID == "instance-1" && p.Token == e.election.Token()
}

// A flapping connection: disconnect, reconnect, disconnect again while the
// verification started by the first reconnect is still running, reconnect again.
// The store is reachable all the time and the record never changes hands, so the
// second reconnect notification must cancel the second grace period and the
// leader must keep its leadership.
func TestDemoC11e9_ReconnectAfterFlapKeepsLeadership(t *testing.T) {
	const grace = 400 * time.Millisecond
	env := newDemo9Env(t, grace)

	env.disconnect() // outage 1
	time.Sleep(20 * time.Millisecond)
	env.reconnect() // verification 1 starts (sleeps 100ms, then reads the record)
	time.Sleep(30 * time.Millisecond)
	env.disconnect() // outage 2, grace period 2 starts now
	t1 := time.Now()
	time.Sleep(200 * time.Millisecond) // verification 1 has succeeded meanwhile
	env.reconnect()                    // end of outage 2, well inside the grace period

	// Well past the end of grace period 2.
	time.Sleep(time.Until(t1.Add(grace + 300*time.Millisecond)))

	if !env.recordIsOurs(t) {
		t.Fatalf("test setup: the record no longer belongs to the instance")
	}
	if !env.election.IsLeader() {
		t.Errorf("leader was demoted although a reconnect notification arrived %v into a %v grace period and the record is still its own",
			200*time.Millisecond, grace)
	}
	if n := env.demotes.Load(); n != 0 {
		t.Errorf("OnDemote invoked %d time(s); want 0", n)
	}
}

// Two disconnect notifications without a reconnect in between: the grace period
// counts from the latest one.
func TestDemoC11e9_GraceCountsFromLatestDisconnect(t *testing.T) {
	const grace = 400 * time.Millisecond
	env := newDemo9Env(t, grace)

	env.disconnect()
	time.Sleep(250 * time.Millisecond)
	env.disconnect()
	t1 := time.Now()

	// 250ms after the latest notification (500ms after the first): the grace
	// period of the latest notification has 150ms to go.
	time.Sleep(time.Until(t1.Add(250 * time.Millisecond)))
	if !env.election.IsLeader() {
		t.Errorf("leader demoted %v after the latest disconnect notification; grace period is %v",
			time.Since(t1).Round(10*time.Millisecond), grace)
	}

	// ... and it does demote when that grace period ends.
	WaitForCondition(t, func() bool { return !env.election.IsLeader() },
		time.Until(t1.Add(grace+400*time.Millisecond)), "leader should be demoted when the grace period ends")
	if n := env.demotes.Load(); n != 1 {
		t.Errorf("OnDemote invoked %d time(s); want 1", n)
	}
}
