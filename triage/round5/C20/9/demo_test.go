package leader

// Demo for seeded change 9 (C20, indirect): natsConnectionMonitor.Stop resets
// m.ctx after it has released m.mu, while Start reads m.ctx under m.mu.
//
// Run with the race detector:
//
//	go test -race -vet=off -count=1 -run 'TestDemo' ./leader/
//
// Both tests assert nothing but race freedom (the race detector fails a test in
// which it reported a race), so they pass on the clean tree and - trivially -
// without -race.

import (
	"context"
	"sync"
	"testing"
	"time"

	"github.com/ali-assar/NATS-Leader-Election/internal/natsmock"
	"github.com/nats-io/nats.go"
	"github.com/prometheus/client_golang/prometheus"
)

// TestDemoMonitorStopConcurrentWithStart drives the monitor the way an election
// does when one goroutine stops it while another starts it again: Stop() calls
// connectionMonitor.Stop() after it has released the election mutex, Start() calls
// connectionMonitor.Start() under it.
func TestDemoMonitorStopConcurrentWithStart(t *testing.T) {
	// A zero Conn is enough: the monitor only installs callbacks on it.
	mon := NewNATSConnectionMonitor(&nats.Conn{})
	ctx := context.Background()

	for i := 0; i < 50; i++ {
		_ = mon.Start(ctx) // clean tree: refused from the second iteration on; irrelevant here

		var wg sync.WaitGroup
		wg.Add(2)
		go func() {
			defer wg.Done()
			_ = mon.Stop()
		}()
		go func() {
			defer wg.Done()
			_ = mon.Start(ctx)
		}()
		wg.Wait()
		_ = mon.Stop()
	}
}

// demoConnProvider is a JetStreamProvider that also hands out a connection, so
// that the election creates its connection monitor and disconnect handler.
type demoConnProvider struct {
	*MockConnAdapter
	conn *nats.Conn
}

func (p *demoConnProvider) NATSConnection() *nats.Conn { return p.conn }

// demoStopSignalMetrics closes stopping when the election reports "not leader"
// (StopWithContext does so while it still holds the election mutex).
type demoStopSignalMetrics struct {
	noOpMetrics
	once     sync.Once
	armed    chan struct{}
	stopping chan struct{}
}

func (m *demoStopSignalMetrics) SetIsLeader(value float64, labels prometheus.Labels) {
	select {
	case <-m.armed:
		if value == 0 {
			m.once.Do(func() { close(m.stopping) })
		}
	default:
	}
}

// TestDemoElectionRestartWhileStopping: one goroutine stops a leader with
// StopWithContext, another restarts it as soon as the stop has released the
// election mutex. A promotion callback that is still running keeps the
// election's WaitGroup busy, so the stop times out (and never touches e.ctx
// again) and the restart's wg.Add does not start from zero.
func TestDemoElectionRestartWhileStopping(t *testing.T) {
	metrics := &demoStopSignalMetrics{armed: make(chan struct{}), stopping: make(chan struct{})}
	cfg := ElectionConfig{
		Bucket:            "leaders",
		Group:             "demo-c20e9",
		InstanceID:        "instance-1",
		TTL:               10 * time.Second,
		HeartbeatInterval: 100 * time.Millisecond,
		Metrics:           metrics,
	}
	provider := &demoConnProvider{
		MockConnAdapter: NewMockConnAdapter(natsmock.NewMockConn()),
		conn:            &nats.Conn{},
	}
	election, err := NewElection(provider, cfg)
	if err != nil {
		t.Fatal(err)
	}

	release := make(chan struct{})
	election.OnPromote(func(ctx context.Context, token string) {
		<-release // leader work that takes its time to wind down
	})
	defer close(release)

	if err := election.Start(context.Background()); err != nil {
		t.Fatal(err)
	}
	WaitForLeader(t, election, true, 2*time.Second)
	close(metrics.armed)

	var wg sync.WaitGroup
	wg.Add(2)
	go func() {
		defer wg.Done()
		_ = election.StopWithContext(context.Background(), StopOptions{Timeout: 300 * time.Millisecond})
	}()
	go func() {
		defer wg.Done()
		<-metrics.stopping
		_ = election.Start(context.Background()) // blocks on the mutex until the stop releases it
	}()
	wg.Wait()

	_ = election.StopWithContext(context.Background(), StopOptions{Timeout: 300 * time.Millisecond})
}
