package leader

// Demo for seeded change 10 (C20, additive): OnPromote delivers the running term
// to a callback that is registered late. The delivery goroutine reads e.termCtx
// after OnPromote has released the election mutex; enterFollowerState (every
// demotion) and becomeLeader (the next term) write that field under the mutex.
//
// Run with the race detector:
//
//	go test -race -vet=off -count=1 -run 'TestDemo' ./leader/
//
// The schedule that exposes the access pair is "the delivery goroutine gets to run
// only after the demotion": if it runs first, registering its child context locks
// the term context's internal mutex, which the demotion's termCancel() locks as
// well, and that accidental edge orders the read before the write. The test
// forces the late schedule by running on one P: a goroutine that has just been
// spawned waits until the spawning goroutine blocks. (Under -race the scheduler
// randomises the order in which the goroutines made runnable meanwhile are run, so
// one round exposes the pair about every other time; the test plays 16 rounds,
// each with an election of its own.)
//
// In that schedule the goroutine also finds e.termCtx == nil, context.WithCancel
// panics ("cannot create context from nil parent"), the panic is swallowed by the
// goroutine's recover and logged - the test checks for that log entry too, so it
// fails with the change even without -race. On the clean tree a late callback is
// simply not invoked for the running term and nothing is logged.

import (
	"context"
	"encoding/json"
	"fmt"
	"runtime"
	"sync"
	"testing"
	"time"

	"github.com/ali-assar/NATS-Leader-Election/internal/natsmock"
	"go.uber.org/zap"
)

type demoC20e10Logger struct {
	mu     sync.Mutex
	errors []string
}

func (l *demoC20e10Logger) Debug(msg string, fields ...zap.Field) {}
func (l *demoC20e10Logger) Info(msg string, fields ...zap.Field)  {}
func (l *demoC20e10Logger) Warn(msg string, fields ...zap.Field)  {}
func (l *demoC20e10Logger) Fatal(msg string, fields ...zap.Field) {}
func (l *demoC20e10Logger) Error(msg string, fields ...zap.Field) {
	l.mu.Lock()
	defer l.mu.Unlock()
	l.errors = append(l.errors, msg)
}

func (l *demoC20e10Logger) has(msg string) bool {
	l.mu.Lock()
	defer l.mu.Unlock()
	for _, m := range l.errors {
		if m == msg {
			return true
		}
	}
	return false
}

// TestDemoLateOnPromoteThenFencingDemotion uses the public API only: the
// application starts the election, registers its promotion callback once the
// instance leads, and right afterwards a fencing check (ValidateTokenOrDemote)
// finds that the record was taken over and demotes.
func TestDemoLateOnPromoteThenFencingDemotion(t *testing.T) {
	defer runtime.GOMAXPROCS(runtime.GOMAXPROCS(1))

	for round := 0; round < 16; round++ {
		demoC20e10Round(t, fmt.Sprintf("demo-c20e10-%d", round))
		if t.Failed() {
			return
		}
	}
}

// TestDemoLateOnPromoteThenBackgroundDemotion is the same scenario with the
// demotion coming from the library's own background activity instead of an API
// call: the step the heartbeat loop takes when its update is refused
// (handleHeartbeatFailure -> demoteTerm) is executed directly on the test
// goroutine. Nothing on that path blocks, so on one P the delivery goroutine
// cannot run before the demotion has written e.termCtx, whatever the scheduler's
// tie-breaking: this test exposes the pair in every run, also under -race.
func TestDemoLateOnPromoteThenBackgroundDemotion(t *testing.T) {
	defer runtime.GOMAXPROCS(runtime.GOMAXPROCS(1))
	demoC20e10RoundWith(t, "demo-c20e10-bg", func(e *kvElection) {
		e.demote("heartbeat_failure")
	})
}

func demoC20e10Round(t *testing.T, group string) {
	t.Helper()
	demoC20e10RoundWith(t, group, func(e *kvElection) {
		if e.ValidateTokenOrDemote(context.Background()) {
			t.Fatal("fencing check passed although the record belongs to instance-2")
		}
	})
}

func demoC20e10RoundWith(t *testing.T, group string, loseLeadership func(e *kvElection)) {
	t.Helper()
	logger := &demoC20e10Logger{}
	cfg := ElectionConfig{
		Bucket:            "leaders",
		Group:             group,
		InstanceID:        "instance-1",
		TTL:               10 * time.Second,
		HeartbeatInterval: 1 * time.Second,
		Logger:            logger,
	}
	nc := natsmock.NewMockConn()
	election, err := NewElection(NewMockConnAdapter(nc), cfg)
	if err != nil {
		t.Fatal(err)
	}
	js, err := nc.JetStream()
	if err != nil {
		t.Fatal(err)
	}
	mockKV, err := js.KeyValue(cfg.Bucket)
	if err != nil {
		t.Fatal(err)
	}

	if err := election.Start(context.Background()); err != nil {
		t.Fatal(err)
	}
	defer func() { _ = election.Stop() }()
	WaitForLeader(t, election, true, 2*time.Second)

	// Another instance takes the record over (priority takeover, expiry and
	// re-creation, an operator's repair ...).
	entry, err := mockKV.Get(group)
	if err != nil {
		t.Fatal(err)
	}
	usurper, _ := json.Marshal(leadershipPayload{ID: "instance-2", Token: "other-token"})
	if _, err := mockKV.Update(group, usurper, entry.Revision()); err != nil {
		t.Fatal(err)
	}

	var cbMu sync.Mutex
	var gotNilCtx bool
	election.OnPromote(func(ctx context.Context, token string) {
		cbMu.Lock()
		defer cbMu.Unlock()
		if ctx == nil {
			gotNilCtx = true
		}
	})
	loseLeadership(election.(*kvElection))
	if election.IsLeader() {
		t.Fatal("still leader after the demotion")
	}

	time.Sleep(50 * time.Millisecond) // let every goroutine of the ended term finish

	cbMu.Lock()
	defer cbMu.Unlock()
	if gotNilCtx {
		t.Errorf("%s: OnPromote callback was invoked with a nil context", group)
	}
	if logger.has("onpromote_callback_panic") {
		t.Errorf("%s: a panic was recovered in the OnPromote delivery goroutine (nil term context)", group)
	}
}
