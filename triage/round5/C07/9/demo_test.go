package leader

import (
	"context"
	"sync/atomic"
	"testing"
	"time"

	"github.com/ali-assar/NATS-Leader-Election/internal/natsmock"
)

// slowReadKV delays every Get by a fixed latency; all other operations are
// passed through unchanged. It models a store that is slow but healthy.
type slowReadKV struct {
	KeyValue
	latency time.Duration
}

func (s *slowReadKV) Get(key string) (Entry, error) {
	time.Sleep(s.latency)
	return s.KeyValue.Get(key)
}

// TestDemoC07e9_SlowButHealthyReadsKeepLeader: fault-free operation with a store
// that answers reads after 2.25s while the heartbeat interval is 5s, i.e. within
// half a heartbeat interval (2.5s). No outside writer, no other instance, no
// connection events. The leader must keep its term (same token, no OnDemote)
// over two background validations.
func TestDemoC07e9_SlowButHealthyReadsKeepLeader(t *testing.T) {
	const (
		heartbeat = 5 * time.Second
		latency   = 2250 * time.Millisecond // < heartbeat/2
	)

	nc := natsmock.NewMockConn()
	el, err := NewElection(NewMockConnAdapter(nc), ElectionConfig{
		Bucket:             "leaders",
		Group:              "demo-c07e9",
		InstanceID:         "instance-1",
		TTL:                3 * heartbeat,
		HeartbeatInterval:  heartbeat,
		ValidationInterval: heartbeat,
	})
	if err != nil {
		t.Fatalf("NewElection: %v", err)
	}
	e := el.(*kvElection)
	e.kv = &slowReadKV{KeyValue: e.kv, latency: latency}

	var demotions atomic.Int32
	e.OnDemote(func() { demotions.Add(1) })

	if err := e.Start(context.Background()); err != nil {
		t.Fatalf("Start: %v", err)
	}
	defer func() { _ = e.Stop() }()

	WaitForLeader(t, e, true, 2*time.Second)
	token := e.Token()

	// Two validation ticks (5s, 10s), each followed by a 2.25s read: observe a
	// little longer than that.
	deadline := time.Now().Add(2*heartbeat + latency + 750*time.Millisecond)
	for time.Now().Before(deadline) {
		if !e.IsLeader() {
			t.Fatalf("leader was demoted %v into a fault-free term (reads answered in %v, heartbeat interval %v)",
				time.Since(deadline.Add(-(2*heartbeat + latency + 750*time.Millisecond))).Round(10*time.Millisecond), latency, heartbeat)
		}
		time.Sleep(20 * time.Millisecond)
	}

	if n := demotions.Load(); n != 0 {
		t.Fatalf("OnDemote called %d times in a fault-free term", n)
	}
	if got := e.Token(); got != token {
		t.Fatalf("token changed during the term: %q -> %q", token, got)
	}
}
