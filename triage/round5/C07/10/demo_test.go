package leader

import (
	"context"
	"encoding/json"
	"errors"
	"sync"
	"sync/atomic"
	"testing"
	"time"

	"github.com/ali-assar/NATS-Leader-Election/internal/natsmock"
)

// demoC07e10Store is a single-key, revision-checked store with per-operation
// response latencies (all far below half a heartbeat interval). It never fails,
// never loses a write and is written by nobody but the election under test
// (apart from the test's set-up: a predecessor's record that is then deleted,
// as a predecessor that stops with DeleteKey does).
type demoC07e10Store struct {
	mu     sync.Mutex
	exists bool
	val    []byte
	rev    uint64
	seq    uint64

	// holdCreate: the response of the next successful Create is delayed by
	// createLatency (the write itself is applied at once), or until released.
	holdCreate    atomic.Bool
	createLatency time.Duration
	release       chan struct{}
	releaseOnce   sync.Once
	held          atomic.Bool

	// isLeader lets the store delay one Update request on its way to the server
	// until the held Create response has been processed by the client.
	isLeader func() bool
	slowOnce sync.Once

	updates chan Entry
	watched chan struct{}
	wOnce   sync.Once
}

type demoC07e10Entry struct {
	val []byte
	rev uint64
}

func (e *demoC07e10Entry) Key() string      { return "demo-c07e10" }
func (e *demoC07e10Entry) Value() []byte    { return e.val }
func (e *demoC07e10Entry) Revision() uint64 { return e.rev }

type demoC07e10Watcher struct{ ch chan Entry }

func (w *demoC07e10Watcher) Updates() <-chan Entry { return w.ch }
func (w *demoC07e10Watcher) Stop()                 {}

func (s *demoC07e10Store) put(val []byte) uint64 {
	s.mu.Lock()
	defer s.mu.Unlock()
	s.seq++
	s.exists, s.val, s.rev = true, val, s.seq
	return s.rev
}

func (s *demoC07e10Store) remove() {
	s.mu.Lock()
	defer s.mu.Unlock()
	s.seq++
	s.exists, s.val = false, nil
}

func (s *demoC07e10Store) current() (leadershipPayload, uint64, bool) {
	s.mu.Lock()
	defer s.mu.Unlock()
	var p leadershipPayload
	if !s.exists {
		return p, 0, false
	}
	_ = json.Unmarshal(s.val, &p)
	return p, s.rev, true
}

func (s *demoC07e10Store) Create(key string, value []byte, opts ...interface{}) (uint64, error) {
	s.mu.Lock()
	if s.exists {
		s.mu.Unlock()
		return 0, errors.New("wrong last sequence: key exists")
	}
	s.seq++
	s.exists, s.val, s.rev = true, value, s.seq
	rev := s.rev
	s.mu.Unlock()

	if s.holdCreate.CompareAndSwap(true, false) {
		// The write is applied; its acknowledgement travels for createLatency.
		s.held.Store(true)
		select {
		case <-s.release:
		case <-time.After(s.createLatency):
		}
	}
	return rev, nil
}

func (s *demoC07e10Store) Update(key string, value []byte, rev uint64, opts ...interface{}) (uint64, error) {
	if s.held.Load() {
		// One request that is slow on its way to the server: it arrives right after
		// the pending Create acknowledgement has reached the client.
		s.slowOnce.Do(func() {
			s.releaseOnce.Do(func() { close(s.release) })
			deadline := time.Now().Add(400 * time.Millisecond)
			for !s.isLeader() && time.Now().Before(deadline) {
				time.Sleep(time.Millisecond)
			}
		})
	}

	s.mu.Lock()
	defer s.mu.Unlock()
	if !s.exists {
		return 0, errors.New("key not found")
	}
	if s.rev != rev {
		return 0, errors.New("revision mismatch")
	}
	s.seq++
	s.val, s.rev = value, s.seq
	return s.rev, nil
}

func (s *demoC07e10Store) Get(key string) (Entry, error) {
	s.mu.Lock()
	defer s.mu.Unlock()
	if !s.exists {
		return nil, errors.New("key not found")
	}
	return &demoC07e10Entry{val: s.val, rev: s.rev}, nil
}

func (s *demoC07e10Store) Delete(key string) error {
	s.remove()
	return nil
}

func (s *demoC07e10Store) Watch(key string, opts ...interface{}) (Watcher, error) {
	s.wOnce.Do(func() { close(s.watched) })
	return &demoC07e10Watcher{ch: s.updates}, nil
}

// TestDemoC07e10_DuplicateVacancyNotificationsKeepNewLeader: a follower is told
// twice that the key is vacant (duplicated deletion notification; the periodic
// check is a third source). Its acquisition rounds overlap. One of them creates
// the record and the instance becomes leader. From then on, in fault-free
// operation, it must keep that term: same token, record owned with that token,
// no OnDemote.
func TestDemoC07e10_DuplicateVacancyNotificationsKeepNewLeader(t *testing.T) {
	const heartbeat = 1 * time.Second

	store := &demoC07e10Store{
		createLatency: 300 * time.Millisecond, // < heartbeat/2
		release:       make(chan struct{}),
		updates:       make(chan Entry, 10),
		watched:       make(chan struct{}),
	}
	other, _ := json.Marshal(leadershipPayload{ID: "instance-0", Token: "predecessor-token"})
	store.put(other)

	nc := natsmock.NewMockConn()
	el, err := NewElection(NewMockConnAdapter(nc), ElectionConfig{
		Bucket:            "leaders",
		Group:             "demo-c07e10",
		InstanceID:        "instance-1",
		TTL:               3 * heartbeat,
		HeartbeatInterval: heartbeat,
	})
	if err != nil {
		t.Fatalf("NewElection: %v", err)
	}
	e := el.(*kvElection)
	e.kv = store
	store.isLeader = e.IsLeader

	var demotions atomic.Int32
	e.OnDemote(func() { demotions.Add(1) })

	if err := e.Start(context.Background()); err != nil {
		t.Fatalf("Start: %v", err)
	}
	defer func() { _ = e.Stop() }()

	// The key is held by instance-0: instance-1 follows and watches.
	select {
	case <-store.watched:
	case <-time.After(2 * time.Second):
		t.Fatal("follower did not start watching")
	}
	if e.IsLeader() {
		t.Fatal("set-up: instance-1 must start as a follower")
	}

	// instance-0 stops and deletes its record; the deletion is notified twice.
	store.holdCreate.Store(true)
	store.remove()
	store.updates <- nil
	store.updates <- nil

	WaitForLeader(t, e, true, 2*time.Second)
	token := e.Token()

	// Two and a half heartbeat intervals of fault-free leadership.
	end := time.Now().Add(2*heartbeat + heartbeat/2)
	for time.Now().Before(end) {
		if !e.IsLeader() {
			rec, rev, _ := store.current()
			t.Fatalf("leader lost its term in fault-free operation (OnDemote calls: %d; term token %q at revision %d, record now: id=%q token=%q revision %d)",
				demotions.Load(), token, e.Status().Revision, rec.ID, rec.Token, rev)
		}
		time.Sleep(10 * time.Millisecond)
	}

	if n := demotions.Load(); n != 0 {
		t.Fatalf("OnDemote called %d times in a fault-free term", n)
	}
	if got := e.Token(); got != token {
		t.Fatalf("token changed during the term: %q -> %q", token, got)
	}
	rec, _, ok := store.current()
	if !ok || rec.ID != "instance-1" || rec.Token != token {
		t.Fatalf("record is not the leader's: exists=%v id=%q token=%q, leader token %q", ok, rec.ID, rec.Token, token)
	}
}
