package leader

import (
	"context"
	"sync/atomic"
	"testing"
	"time"

	"github.com/ali-assar/NATS-Leader-Election/internal/natsmock"
)

// TestDemoC04_9_ValidateOrDemoteAfterStartContextCancelled:
// the context handed to Start is cancelled while the instance leads (the
// application shuts its root context down without calling Stop). Afterwards
// another instance owns the record. ValidateTokenOrDemote must answer false AND
// leave the instance not reporting leadership, with OnDemote invoked.
func TestDemoC04_9_ValidateOrDemoteAfterStartContextCancelled(t *testing.T) {
	cfg := ElectionConfig{
		Bucket:             "leaders",
		Group:              "demo-group",
		InstanceID:         "instance-1",
		TTL:                10 * time.Second,
		HeartbeatInterval:  100 * time.Millisecond,
		ValidationInterval: 1 * time.Second,
	}

	nc := natsmock.NewMockConn()
	election, err := NewElection(NewMockConnAdapter(nc), cfg)
	if err != nil {
		t.Fatal(err)
	}
	var demotes atomic.Int32
	election.OnDemote(func() { demotes.Add(1) })

	runCtx, cancelRun := context.WithCancel(context.Background())
	if err := election.Start(runCtx); err != nil {
		t.Fatal(err)
	}
	defer func() { _ = election.Stop() }()
	WaitForLeader(t, election, true, 2*time.Second)

	// The application cancels the context it gave to Start.
	cancelRun()
	// Let the term's loops notice (the heartbeat loop selects on ctx.Done()).
	time.Sleep(400 * time.Millisecond)

	// A successor owns the record now.
	js, _ := nc.JetStream()
	kv, _ := js.KeyValue("leaders")
	entry, err := kv.Get("demo-group")
	if err != nil {
		t.Fatalf("record should still be there: %v", err)
	}
	if _, err := kv.Update("demo-group", []byte(`{"id":"instance-2","token":"successor-token"}`), entry.Revision()); err != nil {
		t.Fatalf("takeover write failed: %v", err)
	}

	ok := election.ValidateTokenOrDemote(context.Background())
	if ok {
		t.Fatalf("ValidateTokenOrDemote returned true although the record belongs to instance-2")
	}
	if election.IsLeader() {
		t.Errorf("ValidateTokenOrDemote returned false but IsLeader() is still true after the call returned")
	}
	if demotes.Load() == 0 {
		t.Errorf("ValidateTokenOrDemote returned false for an instance that was leader, but OnDemote was never invoked")
	}

	// And it stays that way: a second call must not find a leader either.
	_ = election.ValidateTokenOrDemote(context.Background())
	if election.IsLeader() {
		t.Errorf("instance still reports leadership after two negative verdicts")
	}
}
