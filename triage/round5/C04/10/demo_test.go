package leader

import (
	"context"
	"sync"
	"sync/atomic"
	"testing"
	"time"

	"github.com/ali-assar/NATS-Leader-Election/internal/natsmock"
)

// TestDemoC04_10_ValidateTokenStartedAfterTakeover:
// a ValidateToken call that STARTS after a successor has replaced the record must
// answer false - at no moment during that call did the record contain the
// caller's token. The store is slow to deliver the answer of an earlier read
// (issued by another ValidateToken call of the same instance before the
// takeover); the later call must not be answered from it.
func TestDemoC04_10_ValidateTokenStartedAfterTakeover(t *testing.T) {
	cfg := ElectionConfig{
		Bucket:     "leaders",
		Group:      "demo-group",
		InstanceID: "instance-1",
		// Long intervals: no heartbeat / background validation inside the test window,
		// so the instance does not learn about the takeover by itself.
		TTL:               60 * time.Second,
		HeartbeatInterval: 20 * time.Second,
	}

	nc := natsmock.NewMockConn()
	election, err := NewElection(NewMockConnAdapter(nc), cfg)
	if err != nil {
		t.Fatal(err)
	}
	if err := election.Start(context.Background()); err != nil {
		t.Fatal(err)
	}
	defer func() { _ = election.Stop() }()
	WaitForLeader(t, election, true, 2*time.Second)

	js, _ := nc.JetStream()
	kv, _ := js.KeyValue("leaders")
	own, err := kv.Get("demo-group")
	if err != nil {
		t.Fatal(err)
	}

	// The store as seen through Get: the record is read at once (linearisation
	// point), the answer of the FIRST read is then held back "in the network"
	// until the test releases it. Later reads are answered immediately.
	var current atomic.Value // natsmock.Entry
	current.Store(natsmock.Entry(&natsmock.MockEntryImpl{KeyVal: "demo-group", ValueVal: own.Value(), RevVal: own.Revision()}))
	var calls atomic.Int32
	firstRead := make(chan struct{})
	release := make(chan struct{})
	var releaseOnce sync.Once
	releaseFirst := func() { releaseOnce.Do(func() { close(release) }) }
	defer releaseFirst()
	kv.SetGetFunc(func(key string) (natsmock.Entry, error) {
		snapshot := current.Load().(natsmock.Entry)
		if calls.Add(1) == 1 {
			close(firstRead)
			<-release
		}
		return snapshot, nil
	})

	type verdict struct {
		valid bool
		err   error
	}

	// Call A starts while instance-1's record is live.
	aDone := make(chan verdict, 1)
	go func() {
		v, err := election.ValidateToken(context.Background())
		aDone <- verdict{v, err}
	}()
	select {
	case <-firstRead:
	case <-time.After(2 * time.Second):
		t.Fatal("call A never reached the store")
	}

	// Takeover: instance-2 replaces the record (real store and the view through Get).
	newRev, err := kv.Update("demo-group", []byte(`{"id":"instance-2","token":"successor-token"}`), own.Revision())
	if err != nil {
		t.Fatalf("takeover write failed: %v", err)
	}
	current.Store(natsmock.Entry(&natsmock.MockEntryImpl{KeyVal: "demo-group",
		ValueVal: []byte(`{"id":"instance-2","token":"successor-token"}`), RevVal: newRev}))

	// Call B starts strictly after the takeover has completed.
	if !election.IsLeader() {
		t.Fatal("precondition: instance-1 has not noticed the takeover yet")
	}
	bDone := make(chan verdict, 1)
	go func() {
		v, err := election.ValidateToken(context.Background())
		bDone <- verdict{v, err}
	}()

	var b verdict
	select {
	case b = <-bDone: // answered by its own read
	case <-time.After(500 * time.Millisecond):
		// B is waiting for something other than its own read: let the delayed
		// answer of A's read arrive and see what B makes of it.
		releaseFirst()
		select {
		case b = <-bDone:
		case <-time.After(2 * time.Second):
			t.Fatal("call B did not return")
		}
	}
	releaseFirst()
	<-aDone

	if b.valid {
		t.Fatalf("ValidateToken started after instance-2's takeover returned true (err=%v): "+
			"the record never contained instance-1's token during that call (store reads issued: %d)",
			b.err, calls.Load())
	}
}
