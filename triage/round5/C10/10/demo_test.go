package leader

import (
	"context"
	"encoding/json"
	"sync/atomic"
	"testing"
	"time"

	"github.com/ali-assar/NATS-Leader-Election/internal/natsmock"
	"github.com/stretchr/testify/require"
)

// TestDemoTakeoverNeverReplacesHigherPriorityRecord: three instances, A (priority
// 10) leads, B (priority 20) and D (priority 30) both preempt it. D's conditional
// write lands between B's read of A's record and B's own conditional write, so
// B's write is refused (revision mismatch). The record now belongs to D, whose
// priority is higher than B's: B must leave it alone.
func TestDemoTakeoverNeverReplacesHigherPriorityRecord(t *testing.T) {
	const (
		bucket = "leaders"
		group  = "demo-group"
	)

	nc := natsmock.NewMockConn()
	js, err := nc.JetStream()
	require.NoError(t, err)
	store, err := js.KeyValue(bucket)
	require.NoError(t, err)

	recA, _ := json.Marshal(leadershipPayload{ID: "A", Token: "token-A", Priority: 10})
	recD, _ := json.Marshal(leadershipPayload{ID: "D", Token: "token-D", Priority: 30})

	// A leads and has sent a heartbeat.
	rev, err := store.Create(group, recA)
	require.NoError(t, err)
	_, err = store.Update(group, recA, rev)
	require.NoError(t, err)

	// The first conditional write that reaches the store is B's takeover. Just
	// before it is applied, D's takeover (same read revision) lands.
	var hooked atomic.Bool
	var bWriteErr atomic.Value
	store.SetUpdateFunc(func(key string, value []byte, rev uint64, opts ...natsmock.KVOption) (uint64, error) {
		store.SetUpdateFunc(nil)
		hooked.Store(true)
		if _, err := store.Update(key, recD, rev); err != nil {
			t.Errorf("D's takeover of A should succeed: %v", err)
		}
		newRev, err := store.Update(key, value, rev)
		if err != nil {
			bWriteErr.Store(err.Error())
		}
		return newRev, err
	})

	b, err := NewElection(NewMockConnAdapter(nc), ElectionConfig{
		Bucket:                bucket,
		Group:                 group,
		InstanceID:            "B",
		TTL:                   10 * time.Second,
		HeartbeatInterval:     200 * time.Millisecond,
		Priority:              20,
		AllowPriorityTakeover: true,
	})
	require.NoError(t, err)
	require.NoError(t, b.Start(context.Background()))
	defer func() { _ = b.Stop() }()

	WaitForCondition(t, hooked.Load, 2*time.Second, "B's takeover write")
	// Let B finish its acquisition attempt and settle.
	time.Sleep(400 * time.Millisecond)

	require.Equal(t, "revision mismatch", bWriteErr.Load(), "B's first write must have lost against D's")

	entry, err := store.Get(group)
	require.NoError(t, err)
	var current leadershipPayload
	require.NoError(t, json.Unmarshal(entry.Value(), &current))

	if current.ID != "D" {
		t.Errorf("record of D (priority 30) was replaced by %q (priority %d): a takeover needs a strictly higher priority",
			current.ID, current.Priority)
	}
	if b.IsLeader() {
		t.Errorf("B (priority 20) claims leadership over D (priority 30)")
	}
}
