package leader

import (
	"context"
	"encoding/json"
	"errors"
	"sync"
	"testing"
	"time"

	"github.com/ali-assar/NATS-Leader-Election/internal/natsmock"
	"github.com/prometheus/client_golang/prometheus"
	"github.com/stretchr/testify/require"
)

// demoSlowMetrics is a Metrics implementation whose transition counter is slow
// for the transition to LEADER (a metrics backend taking its time): it reports
// that the call was entered and returns when released. Nothing else is special.
type demoSlowMetrics struct {
	noOpMetrics
	once    sync.Once
	entered chan struct{}
	release chan struct{}
}

func (m *demoSlowMetrics) IncTransitions(labels prometheus.Labels) {
	if labels["to_state"] != StateLeader {
		return
	}
	m.once.Do(func() {
		close(m.entered)
		<-m.release
	})
}

// TestDemoTakeoverSurvivesIncumbentsLastHeartbeatEvent: B (priority 20, takeover
// enabled) follows X (priority 30). X is then replaced by A (priority 10), which
// heartbeats. B's watcher sees A twice and preempts it. The watch event of A's
// last heartbeat (written before the takeover, revision lower than the takeover's)
// reaches B's watcher while B's promotion is still in progress. B's own write is
// the newest record in the store: the event is stale, B must stay leader and
// leadership must stay with B, the highest-priority instance.
func TestDemoTakeoverSurvivesIncumbentsLastHeartbeatEvent(t *testing.T) {
	const (
		bucket = "leaders"
		group  = "demo-group"
	)

	nc := natsmock.NewMockConn()
	js, err := nc.JetStream()
	require.NoError(t, err)
	store, err := js.KeyValue(bucket)
	require.NoError(t, err)

	recX, _ := json.Marshal(leadershipPayload{ID: "X", Token: "token-X", Priority: 30})
	recA, _ := json.Marshal(leadershipPayload{ID: "A", Token: "token-A", Priority: 10})

	rev, err := store.Create(group, recX)
	require.NoError(t, err)

	metrics := &demoSlowMetrics{entered: make(chan struct{}), release: make(chan struct{})}
	el, err := NewElection(NewMockConnAdapter(nc), ElectionConfig{
		Bucket:                bucket,
		Group:                 group,
		InstanceID:            "B",
		TTL:                   10 * time.Second,
		HeartbeatInterval:     1 * time.Second,
		Priority:              20,
		AllowPriorityTakeover: true,
		Metrics:               metrics,
	})
	require.NoError(t, err)
	b := el.(*kvElection)

	require.NoError(t, b.Start(context.Background()))
	defer func() { _ = b.Stop() }()

	// B cannot preempt X (30 >= 20): it becomes a follower with a watcher.
	WaitForCondition(t, func() bool { return b.Status().State == StateFollower }, 2*time.Second, "B to follow X")
	require.False(t, b.IsLeader())

	// X goes away and A (priority 10) holds the record and heartbeats. One more
	// heartbeat of A lands just before B reads the record for its takeover (B's
	// Create is refused, then B reads): B reads that heartbeat's record directly
	// from the store, while the watch event announcing it is still on its way.
	var lastHeartbeatOfA *MockEntryAdapter
	var hbMu sync.Mutex
	rev, err = store.Update(group, recA, rev)
	require.NoError(t, err)
	revA := rev
	store.SetCreateFunc(func(key string, value []byte, opts ...natsmock.KVOption) (uint64, error) {
		store.SetCreateFunc(nil)
		hbMu.Lock()
		defer hbMu.Unlock()
		hbRev, err := store.Update(group, recA, revA)
		if err != nil {
			t.Errorf("heartbeat of A: %v", err)
		}
		lastHeartbeatOfA = &MockEntryAdapter{Entry: &natsmock.MockEntryImpl{KeyVal: group, ValueVal: recA, RevVal: hbRev}}
		return 0, errors.New("key already exists")
	})

	// B's watcher notices A and preempts it; the promotion is now in progress
	// (inside the slow metrics call, B's conditional write has succeeded).
	select {
	case <-metrics.entered:
	case <-time.After(5 * time.Second):
		t.Fatal("B never attempted the takeover of A")
	}
	hbMu.Lock()
	defer hbMu.Unlock()
	require.NotNil(t, lastHeartbeatOfA)
	entry, err := store.Get(group)
	require.NoError(t, err)
	var current leadershipPayload
	require.NoError(t, json.Unmarshal(entry.Value(), &current))
	require.Equal(t, "B", current.ID, "B's takeover write must be in the store")
	require.Greater(t, entry.Revision(), lastHeartbeatOfA.Revision())

	// The watch event of A's last heartbeat is delivered now.
	delivered := make(chan struct{})
	go func() {
		defer close(delivered)
		b.handleWatchEvent(lastHeartbeatOfA)
	}()
	time.Sleep(100 * time.Millisecond)
	close(metrics.release)
	<-delivered

	// Three heartbeat intervals after the takeover at the latest B must lead -
	// and nothing may have demoted it in between.
	deadline := time.Now().Add(3 * time.Second)
	for time.Now().Before(deadline) {
		if !b.IsLeader() {
			break
		}
		time.Sleep(50 * time.Millisecond)
	}
	entry, err = store.Get(group)
	require.NoError(t, err)
	require.NoError(t, json.Unmarshal(entry.Value(), &current))
	if !b.IsLeader() {
		t.Errorf("B (priority 20) preempted A (priority 10) but does not lead: state=%s, record in the store names %q (priority %d)",
			b.Status().State, current.ID, current.Priority)
	}
}
