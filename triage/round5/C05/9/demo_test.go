package leader

import (
	"context"
	"encoding/json"
	"sync"
	"testing"
	"time"

	"github.com/ali-assar/NATS-Leader-Election/internal/natsmock"
)

// demo9Version is one record version written to the store.
type demo9Version struct {
	op    string // "create" or "update"
	rev   uint64
	id    string
	token string
}

// demo9RecordingKV logs every record version that was actually written.
type demo9RecordingKV struct {
	KeyValue
	mu  sync.Mutex
	log []demo9Version
}

func (r *demo9RecordingKV) record(op string, rev uint64, value []byte) {
	var p leadershipPayload
	_ = json.Unmarshal(value, &p)
	r.mu.Lock()
	r.log = append(r.log, demo9Version{op: op, rev: rev, id: p.ID, token: p.Token})
	r.mu.Unlock()
}

func (r *demo9RecordingKV) Create(key string, value []byte, opts ...interface{}) (uint64, error) {
	rev, err := r.KeyValue.Create(key, value, opts...)
	if err == nil {
		r.record("create", rev, value)
	}
	return rev, err
}

func (r *demo9RecordingKV) Update(key string, value []byte, rev uint64, opts ...interface{}) (uint64, error) {
	newRev, err := r.KeyValue.Update(key, value, rev, opts...)
	if err == nil {
		r.record("update", newRev, value)
	}
	return newRev, err
}

func (r *demo9RecordingKV) versions() []demo9Version {
	r.mu.Lock()
	defer r.mu.Unlock()
	return append([]demo9Version(nil), r.log...)
}

// TestDemoC05e9_RecreatedRecordKeepsItsToken: the key of a running term is
// deleted by an outside party and re-created by an acquisition round of the same
// instance that was left over from its follower days (here: called directly).
// The creation publishes a fresh token; every later version of that record must
// carry exactly that token, and an instance that reports leadership must report
// the token stored in its record.
func TestDemoC05e9_RecreatedRecordKeepsItsToken(t *testing.T) {
	cfg := ElectionConfig{
		Bucket:             "leaders",
		Group:              "demo-c05e9",
		InstanceID:         "instance-1",
		TTL:                2 * time.Second,
		HeartbeatInterval:  100 * time.Millisecond,
		ValidationInterval: 10 * time.Second, // keep the validation loop out of the picture
	}

	nc := natsmock.NewMockConn()
	el, err := NewElection(NewMockConnAdapter(nc), cfg)
	if err != nil {
		t.Fatalf("NewElection: %v", err)
	}
	e := el.(*kvElection)
	rec := &demo9RecordingKV{KeyValue: e.kv}
	e.kv = rec

	var promoteMu sync.Mutex
	var promoted []string
	e.OnPromote(func(ctx context.Context, token string) {
		promoteMu.Lock()
		promoted = append(promoted, token)
		promoteMu.Unlock()
	})

	if err := e.Start(context.Background()); err != nil {
		t.Fatalf("Start: %v", err)
	}
	defer func() { _ = e.Stop() }()

	WaitForLeader(t, e, true, 2*time.Second)
	// let the term refresh its record at least once
	WaitForCondition(t, func() bool { return len(rec.versions()) >= 2 }, 2*time.Second, "first heartbeat")
	t1 := e.Token()

	js, _ := nc.JetStream()
	mockKV, _ := js.KeyValue("leaders")

	// Outside party deletes the key; a left-over acquisition round of this
	// instance re-creates it before the term's next heartbeat.
	if err := mockKV.Delete(cfg.Group); err != nil {
		t.Fatalf("delete: %v", err)
	}
	acquireErr := e.attemptAcquire()
	t.Logf("left-over acquisition returned: %v", acquireErr)

	// Several heartbeat intervals: whatever the term does with the record, it has done it.
	time.Sleep(6 * cfg.HeartbeatInterval)

	vs := rec.versions()
	for i, v := range vs {
		t.Logf("version %d: %s rev=%d id=%s token=%s", i, v.op, v.rev, v.id, v.token)
	}

	// 1. Every refresh republishes the token of the acquisition that created the record.
	current := ""
	seen := map[string]bool{}
	for _, v := range vs {
		switch v.op {
		case "create":
			if seen[v.token] {
				t.Errorf("creation at rev %d reuses token %s", v.rev, v.token)
			}
			seen[v.token] = true
			current = v.token
		case "update":
			if v.token != current {
				t.Errorf("refresh at rev %d publishes token %s, but the record was acquired with token %s",
					v.rev, v.token, current)
			}
		}
	}

	// 2. While the instance leads, Token()/Status().Token is the token in its record.
	if e.IsLeader() {
		entry, err := mockKV.Get(cfg.Group)
		if err != nil {
			t.Fatalf("instance leads but the record cannot be read: %v", err)
		}
		var p leadershipPayload
		_ = json.Unmarshal(entry.Value(), &p)
		lastCreated := ""
		for _, v := range vs {
			if v.op == "create" {
				lastCreated = v.token
			}
		}
		if e.Token() != lastCreated {
			t.Errorf("instance leads with token %s (term began with %s) but its record was acquired with token %s",
				e.Token(), t1, lastCreated)
		}
		if st := e.Status(); st.Token != p.Token {
			t.Errorf("Status().Token=%s differs from the record's token %s", st.Token, p.Token)
		}
	}

	// 3. Every token handed to OnPromote is the token of a creation.
	promoteMu.Lock()
	defer promoteMu.Unlock()
	for _, tok := range promoted {
		if !seen[tok] {
			t.Errorf("OnPromote got token %s that no acquisition published", tok)
		}
	}
}
