package leader

import (
	"context"
	"encoding/json"
	"sync"
	"testing"
	"time"

	"github.com/ali-assar/NATS-Leader-Election/internal/natsmock"
)

// demo10RecordingKV logs the token of every record version that was written.
type demo10RecordingKV struct {
	KeyValue
	mu  sync.Mutex
	log []string // "<op> rev=<n> token=<t>"
	tok []string
}

func (r *demo10RecordingKV) record(op string, rev uint64, value []byte) {
	var p leadershipPayload
	_ = json.Unmarshal(value, &p)
	r.mu.Lock()
	r.tok = append(r.tok, p.Token)
	r.log = append(r.log, op+" token="+p.Token)
	r.mu.Unlock()
}

func (r *demo10RecordingKV) Create(key string, value []byte, opts ...interface{}) (uint64, error) {
	rev, err := r.KeyValue.Create(key, value, opts...)
	if err == nil {
		r.record("create", rev, value)
	}
	return rev, err
}

func (r *demo10RecordingKV) Update(key string, value []byte, rev uint64, opts ...interface{}) (uint64, error) {
	newRev, err := r.KeyValue.Update(key, value, rev, opts...)
	if err == nil {
		r.record("update", newRev, value)
	}
	return newRev, err
}

// TestDemoC05e10_RestartedElectionGetsFreshToken: one election object leads, is
// stopped without deleting its key, and is started again while its old record is
// still live (no other instance around). Whenever it is promoted again - at once,
// or after the old record has expired - that is a new leadership term: the token
// handed to OnPromote and reported by Token() must not be the token of the term
// that ended with the Stop.
func TestDemoC05e10_RestartedElectionGetsFreshToken(t *testing.T) {
	cfg := ElectionConfig{
		Bucket:             "leaders",
		Group:              "demo-c05e10",
		InstanceID:         "instance-1",
		TTL:                2 * time.Second,
		HeartbeatInterval:  100 * time.Millisecond,
		ValidationInterval: 10 * time.Second,
	}

	nc := natsmock.NewMockConn()
	el, err := NewElection(NewMockConnAdapter(nc), cfg)
	if err != nil {
		t.Fatalf("NewElection: %v", err)
	}
	e := el.(*kvElection)
	rec := &demo10RecordingKV{KeyValue: e.kv}
	e.kv = rec

	var mu sync.Mutex
	var promoted []string
	demotions := 0
	e.OnPromote(func(ctx context.Context, token string) {
		mu.Lock()
		promoted = append(promoted, token)
		mu.Unlock()
	})
	e.OnDemote(func() {
		mu.Lock()
		demotions++
		mu.Unlock()
	})
	promotions := func() int {
		mu.Lock()
		defer mu.Unlock()
		return len(promoted)
	}

	js, _ := nc.JetStream()
	mockKV, _ := js.KeyValue("leaders")

	// Term 1.
	if err := e.Start(context.Background()); err != nil {
		t.Fatalf("Start: %v", err)
	}
	WaitForLeader(t, e, true, 2*time.Second)
	WaitForCondition(t, func() bool { return promotions() == 1 }, 2*time.Second, "first OnPromote")
	term1Token := e.Token()
	time.Sleep(150 * time.Millisecond) // at least one refresh

	// Stop without deleting the key: term 1 is over (OnDemote runs), the record stays.
	if err := e.Stop(); err != nil {
		t.Fatalf("Stop: %v", err)
	}
	if e.IsLeader() {
		t.Fatalf("still leader after Stop")
	}
	mu.Lock()
	if demotions != 1 {
		t.Fatalf("expected one OnDemote after Stop, got %d", demotions)
	}
	mu.Unlock()

	// Restart within the TTL of the old record.
	if err := e.Start(context.Background()); err != nil {
		t.Fatalf("restart: %v", err)
	}
	defer func() { _ = e.Stop() }()

	time.Sleep(300 * time.Millisecond)
	if !e.IsLeader() {
		// The old record blocks the key; the mock store has no TTL, so let it
		// "expire" now. The follower's periodic check then re-acquires.
		if err := mockKV.Delete(cfg.Group); err != nil {
			t.Fatalf("expire old record: %v", err)
		}
	}
	WaitForLeader(t, e, true, 3*time.Second)
	WaitForCondition(t, func() bool { return promotions() == 2 }, 2*time.Second, "second OnPromote")
	time.Sleep(150 * time.Millisecond)

	rec.mu.Lock()
	for i, l := range rec.log {
		t.Logf("version %d: %s", i, l)
	}
	rec.mu.Unlock()

	mu.Lock()
	defer mu.Unlock()
	t.Logf("tokens handed to OnPromote: %v", promoted)
	if promoted[0] != term1Token {
		t.Fatalf("first OnPromote token %s differs from Token() %s", promoted[0], term1Token)
	}
	if promoted[1] == promoted[0] {
		t.Errorf("term 2 (after restart) was promoted with the token of term 1: %s", promoted[1])
	}
	if got := e.Token(); got == term1Token {
		t.Errorf("Token() in term 2 is the token of term 1: %s", got)
	}
	if st := e.Status(); st.Token != promoted[1] {
		t.Errorf("Status().Token=%s differs from the token handed to OnPromote %s", st.Token, promoted[1])
	}
}
