package leader

import (
	"context"
	"sync"
	"testing"
	"time"

	"github.com/ali-assar/NATS-Leader-Election/internal/natsmock"
	"go.uber.org/zap"
)

// demoGateLogger parks the goroutine that logs the message `gateMsg` until
// release is closed, and reports that it is parked on `parked`.
type demoGateLogger struct {
	gateMsg string
	once    sync.Once
	parked  chan struct{}
	release chan struct{}
}

func (l *demoGateLogger) gate(msg string) {
	if msg != l.gateMsg {
		return
	}
	l.once.Do(func() {
		close(l.parked)
		<-l.release
	})
}

func (l *demoGateLogger) Debug(msg string, fields ...zap.Field) {}
func (l *demoGateLogger) Info(msg string, fields ...zap.Field)  {}
func (l *demoGateLogger) Warn(msg string, fields ...zap.Field)  { l.gate(msg) }
func (l *demoGateLogger) Error(msg string, fields ...zap.Field) {}
func (l *demoGateLogger) Fatal(msg string, fields ...zap.Field) {}

// TestDemoStopDuringDisconnectNotification: a disconnect notification is being
// handled (the handler is inside its log call, holding its own mutex) when Stop
// is called. Stop must return within 5 s (+ OnDemote, which is instantaneous
// here); it must not deadlock with the notification.
func TestDemoStopDuringDisconnectNotification(t *testing.T) {
	logger := &demoGateLogger{
		gateMsg: "connection_disconnected",
		parked:  make(chan struct{}),
		release: make(chan struct{}),
	}
	cfg := ElectionConfig{
		Bucket:                "leaders",
		Group:                 "test-group",
		InstanceID:            "instance-1",
		TTL:                   10 * time.Second,
		HeartbeatInterval:     100 * time.Millisecond,
		DisconnectGracePeriod: 10 * time.Second,
		Logger:                logger,
	}

	nc := natsmock.NewMockConn()
	el, err := NewElection(NewMockConnAdapter(nc), cfg)
	if err != nil {
		t.Fatal(err)
	}
	e := el.(*kvElection)

	// The mock connection has no *nats.Conn, so newKVElection installs no
	// disconnect handler; install one the way newKVElection does (before Start,
	// nothing runs yet).
	handler := &disconnectHandler{election: e}
	e.disconnectHandler = handler

	if err := el.Start(context.Background()); err != nil {
		t.Fatal(err)
	}
	WaitForLeader(t, el, true, 2*time.Second)

	// 1. The connection monitor delivers a disconnect notification.
	notified := make(chan struct{})
	go func() {
		defer close(notified)
		handler.handleDisconnect()
	}()
	select {
	case <-logger.parked:
	case <-time.After(3 * time.Second):
		t.Fatal("disconnect notification did not reach its log call")
	}

	// 2. Stop is called while the notification is being handled.
	stopped := make(chan error, 1)
	start := time.Now()
	go func() { stopped <- el.Stop() }()

	// Wait until Stop holds the election mutex (it then waits for the handler's).
	deadline := time.Now().Add(3 * time.Second)
	for {
		if e.mu.TryRLock() {
			e.mu.RUnlock()
		} else {
			break
		}
		if time.Now().After(deadline) {
			t.Fatal("Stop never took the election mutex")
		}
		time.Sleep(time.Millisecond)
	}

	// 3. The notification handler goes on.
	close(logger.release)

	select {
	case err := <-stopped:
		if err != nil {
			t.Fatalf("Stop: %v", err)
		}
		t.Logf("Stop returned after %v", time.Since(start))
	case <-time.After(7 * time.Second):
		t.Fatalf("Stop has not returned after %v (bound: 5 s): deadlock between Stop and the disconnect notification", time.Since(start))
	}
	select {
	case <-notified:
	case <-time.After(2 * time.Second):
		t.Fatal("disconnect notification handler never returned")
	}
	if el.IsLeader() {
		t.Fatal("leader after Stop")
	}
}
