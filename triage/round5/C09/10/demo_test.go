package leader

import (
	"context"
	"sync/atomic"
	"testing"
	"time"

	"github.com/ali-assar/NATS-Leader-Election/internal/natsmock"
)

// After Stop (or a successful StopWithContext) has returned, the promotion
// callback must never be invoked again - also not when the application re-wires
// its callbacks on the stopped instance (typically before starting it again).
func demoStopThenRegister(t *testing.T, stop func(el Election) error) {
	cfg := ElectionConfig{
		Bucket:             "leaders",
		Group:              "test-group",
		InstanceID:         "instance-1",
		TTL:                10 * time.Second,
		HeartbeatInterval:  100 * time.Millisecond,
		ValidationInterval: 200 * time.Millisecond,
	}

	nc := natsmock.NewMockConn()
	el, err := NewElection(NewMockConnAdapter(nc), cfg)
	if err != nil {
		t.Fatal(err)
	}

	var firstCalls atomic.Int32
	el.OnPromote(func(ctx context.Context, token string) { firstCalls.Add(1) })

	if err := el.Start(context.Background()); err != nil {
		t.Fatal(err)
	}
	WaitForLeader(t, el, true, 2*time.Second)
	WaitForCondition(t, func() bool { return firstCalls.Load() == 1 }, 2*time.Second, "OnPromote of the term")

	if err := stop(el); err != nil {
		t.Fatalf("stop: %v", err)
	}
	if el.IsLeader() {
		t.Fatal("leader after stop")
	}

	// The stop call has returned. The application replaces its callback.
	var lateCalls atomic.Int32
	var lateToken atomic.Value
	el.OnPromote(func(ctx context.Context, token string) {
		lateToken.Store(token)
		lateCalls.Add(1)
	})

	time.Sleep(300 * time.Millisecond)
	if n := lateCalls.Load(); n != 0 {
		t.Fatalf("promotion callback invoked %d time(s) after the stop call had returned (token %v, IsLeader=%v, state=%s)",
			n, lateToken.Load(), el.IsLeader(), el.Status().State)
	}
	if n := firstCalls.Load(); n != 1 {
		t.Fatalf("first callback invoked %d times, want 1", n)
	}
}

func TestDemoNoPromotionCallbackAfterStop(t *testing.T) {
	demoStopThenRegister(t, func(el Election) error { return el.Stop() })
}

func TestDemoNoPromotionCallbackAfterStopWithContext(t *testing.T) {
	demoStopThenRegister(t, func(el Election) error {
		ctx, cancel := context.WithTimeout(context.Background(), 5*time.Second)
		defer cancel()
		return el.StopWithContext(ctx, StopOptions{DeleteKey: true, WaitForDemote: true})
	})
}
