package leader

import (
	"context"
	"errors"
	"strings"
	"testing"
	"time"
)

// pollBreaker does what a health endpoint or a metrics exporter does: it reads
// the breaker's state through the public observability API, if the tree under
// test has one. (On a tree without State() there is nothing to poll and the
// breaker is left alone; the assertions below are the same either way.)
func pollBreaker(cb *CircuitBreaker) {
	if s, ok := interface{}(cb).(interface{ State() CircuitState }); ok {
		_ = s.State()
	}
	if s, ok := interface{}(cb).(interface{ Failures() int }); ok {
		_ = s.Failures()
	}
}

func isOpenErr(err error) bool {
	return err != nil && strings.Contains(err.Error(), "circuit breaker is open")
}

// After failureThreshold consecutive failures the breaker is open. When the
// cooldown is over, ONE probe is admitted; if it fails the breaker is open
// again at once and must not invoke the operation within the new cooldown.
// Merely observing the breaker in between must not change that.
func TestDemoBreakerReopensAfterFailedProbeWhenObserved(t *testing.T) {
	const threshold = 3
	const cooldown = 300 * time.Millisecond
	cb := NewCircuitBreaker(threshold, cooldown)

	invoked := 0
	failing := func() error { invoked++; return errors.New("dependency down") }

	for i := 0; i < threshold; i++ {
		if err := cb.Call(failing); err == nil || isOpenErr(err) {
			t.Fatalf("failure %d: unexpected result %v", i+1, err)
		}
	}
	if invoked != threshold {
		t.Fatalf("setup: %d invocations, want %d", invoked, threshold)
	}
	if err := cb.Call(failing); !isOpenErr(err) || invoked != threshold {
		t.Fatalf("breaker not open after %d consecutive failures (err=%v, invoked=%d)", threshold, err, invoked)
	}

	time.Sleep(cooldown + 100*time.Millisecond)

	// the exporter scrapes between the end of the cooldown and the next call
	pollBreaker(cb)

	// the probe: admitted, fails
	if err := cb.Call(failing); err == nil || isOpenErr(err) {
		t.Fatalf("probe after the cooldown: unexpected result %v", err)
	}
	if invoked != threshold+1 {
		t.Fatalf("probe: %d invocations, want %d", invoked, threshold+1)
	}

	// threshold+1 consecutive failures, the last one a moment ago: open, within cooldown
	for i := 0; i < threshold; i++ {
		before := invoked
		err := cb.Call(failing)
		if invoked != before {
			t.Fatalf("call %d right after the failed probe invoked the operation (%d consecutive failures, "+
				"last failure < cooldown ago): the breaker did not re-open", i+1, invoked)
		}
		if !isOpenErr(err) {
			t.Fatalf("call %d right after the failed probe: got %v, want \"circuit breaker is open\"", i+1, err)
		}
	}
}

// The same seen through RetryWithBackoff: with a breaker whose probe fails, the
// retry loop invokes the operation exactly once and then gives up with the
// breaker's error.
func TestDemoRetryWithObservedBreakerInvokesOnlyTheProbe(t *testing.T) {
	const threshold = 3
	const cooldown = 300 * time.Millisecond
	cb := NewCircuitBreaker(threshold, cooldown)

	for i := 0; i < threshold; i++ {
		_ = cb.Call(func() error { return errors.New("dependency down") })
	}
	time.Sleep(cooldown + 100*time.Millisecond)
	pollBreaker(cb)

	cfg := RetryConfig{
		MaxAttempts:    10,
		CircuitBreaker: cb,
		BackoffConfig: BackoffConfig{
			InitialBackoff:    time.Millisecond,
			MaxBackoff:        2 * time.Millisecond,
			BackoffMultiplier: 2,
		},
	}
	invoked := 0
	err := RetryWithBackoff(context.Background(), cfg, func() error {
		invoked++
		return errors.New("dependency still down")
	})
	if invoked != 1 {
		t.Fatalf("operation invoked %d times; only the single half-open probe may run before the breaker is open again", invoked)
	}
	if !isOpenErr(err) {
		t.Fatalf("got %v, want the breaker's \"circuit breaker is open\"", err)
	}
}
