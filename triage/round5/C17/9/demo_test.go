package leader

import (
	"context"
	"errors"
	"fmt"
	"testing"
	"time"
)

// A permanent error must end RetryWithBackoff after the invocation that
// returned it, however the error is worded by the layers that wrap it. The
// errors below ARE permanent by the library's own contract (errors.Is finds
// ErrPermissionDenied / ErrBucketNotFound / ErrInvalidConfig, or the text says
// "wrong last sequence"); the wrapping text merely mentions a word that also
// occurs in the list of transient patterns.
func TestDemoRetryStopsAfterPermanentErrorWhateverTheWrapping(t *testing.T) {
	cases := []struct {
		name string
		err  error
	}{
		{"permission denied, reported by the network policy layer",
			fmt.Errorf("network policy: %w", ErrPermissionDenied)},
		{"bucket not found after a connection reset",
			fmt.Errorf("re-opening bucket after connection reset: %w", ErrBucketNotFound)},
		{"invalid config that names a timeout field",
			fmt.Errorf("heartbeat timeout 0s: %w", ErrInvalidConfig)},
		{"revision conflict reported by a temporary leader",
			errors.New("update refused by temporary leader: nats: wrong last sequence: 7")},
	}

	for _, tc := range cases {
		t.Run(tc.name, func(t *testing.T) {
			cfg := RetryConfig{
				MaxAttempts: 4,
				BackoffConfig: BackoffConfig{
					InitialBackoff:    time.Millisecond,
					MaxBackoff:        2 * time.Millisecond,
					BackoffMultiplier: 2,
					Jitter:            0,
				},
			}
			calls := 0
			err := RetryWithBackoff(context.Background(), cfg, func() error {
				calls++
				return tc.err
			})
			if err == nil {
				t.Fatalf("expected the permanent error back")
			}
			if calls != 1 {
				t.Fatalf("operation invoked %d times; a permanent error (%v) must not be retried", calls, tc.err)
			}
			if !errors.Is(err, tc.err) {
				t.Fatalf("expected the permanent error itself, got %v", err)
			}
		})
	}
}

// The same through the classifier directly.
func TestDemoPermanentSentinelStaysPermanentWhenWrapped(t *testing.T) {
	for _, err := range []error{
		fmt.Errorf("network policy: %w", ErrPermissionDenied),
		fmt.Errorf("service unavailable for this account: %w", ErrPermissionDenied),
		fmt.Errorf("re-opening bucket after connection reset: %w", ErrBucketNotFound),
	} {
		if !IsPermanentError(err) {
			t.Errorf("IsPermanentError(%q) = false, want true", err)
		}
		if IsTransientError(err) {
			t.Errorf("IsTransientError(%q) = true, want false", err)
		}
	}
}
