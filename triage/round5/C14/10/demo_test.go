package leader

import (
	"context"
	"fmt"
	"testing"
	"time"

	"github.com/nats-io/nats.go"
)

// collectChanges reads from a watch until it has seen want changes of the key
// (the nil "initial values done" marker of NATS is not a change) or until the
// timeout expires. It reports "rev:value" per change.
func collectChanges(ch <-chan Entry, want int, timeout time.Duration) []string {
	var got []string
	deadline := time.After(timeout)
	for len(got) < want {
		select {
		case e, ok := <-ch:
			if !ok {
				return got
			}
			if e == nil {
				continue
			}
			got = append(got, fmt.Sprintf("%d:%s", e.Revision(), e.Value()))
		case <-deadline:
			return got
		}
	}
	return got
}

// TestDemoC14_10_EveryWatchSeesEveryChange: two watches on the same key are open
// at the same time (as when a restarted run sets up its watch while the previous
// run's watch has not been stopped yet). Each of them must deliver every
// subsequent change exactly once, in revision order.
func TestDemoC14_10_EveryWatchSeesEveryChange(t *testing.T) {
	ctx, cancel := context.WithTimeout(context.Background(), 60*time.Second)
	defer cancel()

	srv, err := StartEmbeddedNATSServer(ctx)
	if err != nil {
		t.Fatalf("server: %v", err)
	}
	defer func() { _ = StopEmbeddedNATSServer(srv) }()

	conn, err := nats.Connect(srv.ClientURL())
	if err != nil {
		t.Fatalf("connect: %v", err)
	}
	defer conn.Close()

	const bucket = "demo-c14-10"
	const key = "group"
	if err := CreateKVBucket(conn, bucket, 30*time.Second); err != nil {
		t.Fatalf("bucket: %v", err)
	}
	js, err := (&natsConnAdapter{nc: conn}).JetStream()
	if err != nil {
		t.Fatalf("jetstream: %v", err)
	}
	kv, err := js.KeyValue(bucket)
	if err != nil {
		t.Fatalf("kv: %v", err)
	}

	w1, err := kv.Watch(key)
	if err != nil {
		t.Fatalf("watch 1: %v", err)
	}
	defer w1.Stop()
	w2, err := kv.Watch(key)
	if err != nil {
		t.Fatalf("watch 2: %v", err)
	}
	defer w2.Stop()

	// History: create, two updates, delete.
	r0, err := kv.Create(key, []byte("v0"))
	if err != nil {
		t.Fatalf("create: %v", err)
	}
	r1, err := kv.Update(key, []byte("v1"), r0)
	if err != nil {
		t.Fatalf("update 1: %v", err)
	}
	r2, err := kv.Update(key, []byte("v2"), r1)
	if err != nil {
		t.Fatalf("update 2: %v", err)
	}
	if err := kv.Delete(key); err != nil {
		t.Fatalf("delete: %v", err)
	}
	want := []string{
		fmt.Sprintf("%d:v0", r0),
		fmt.Sprintf("%d:v1", r1),
		fmt.Sprintf("%d:v2", r2),
		fmt.Sprintf("%d:", r2+1), // deletion: empty value
	}

	got1 := collectChanges(w1.Updates(), len(want), 3*time.Second)
	got2 := collectChanges(w2.Updates(), len(want), 3*time.Second)

	if fmt.Sprint(got1) != fmt.Sprint(want) {
		t.Errorf("watch 1 delivered %v, want %v", got1, want)
	}
	if fmt.Sprint(got2) != fmt.Sprint(want) {
		t.Errorf("watch 2 delivered %v, want %v", got2, want)
	}

	// Stopping one watch must not end the other: a further change still reaches
	// the watch that is open.
	w1.Stop()
	r4, err := kv.Create(key, []byte("v4"))
	if err != nil {
		t.Fatalf("create after delete: %v", err)
	}
	got := collectChanges(w2.Updates(), 1, 3*time.Second)
	if fmt.Sprint(got) != fmt.Sprint([]string{fmt.Sprintf("%d:v4", r4)}) {
		t.Errorf("after stopping watch 1, watch 2 delivered %v, want [%d:v4]", got, r4)
	}
}
