package leader

import (
	"context"
	"runtime"
	"strings"
	"testing"
	"time"

	"github.com/nats-io/nats.go"
)

// forwardersAlive counts the forwarding goroutines of natsWatcherAdapter.Updates
// that are currently alive.
func forwardersAlive() int {
	buf := make([]byte, 1<<20)
	n := runtime.Stack(buf, true)
	alive := 0
	for _, g := range strings.Split(string(buf[:n]), "\n\n") {
		if strings.Contains(g, "(*natsWatcherAdapter).Updates.func") {
			alive++
		}
	}
	return alive
}

// TestDemoC14_9_StopAfterConnectionLossReleasesForwarder: a watcher whose consumer
// has stopped reading (entries still undelivered) is stopped after the NATS
// connection was closed. The adapter must not keep its forwarding goroutine.
func TestDemoC14_9_StopAfterConnectionLossReleasesForwarder(t *testing.T) {
	ctx, cancel := context.WithTimeout(context.Background(), 60*time.Second)
	defer cancel()

	srv, err := StartEmbeddedNATSServer(ctx)
	if err != nil {
		t.Fatalf("server: %v", err)
	}
	defer func() { _ = StopEmbeddedNATSServer(srv) }()

	const bucket = "demo-c14-9"
	const key = "group"
	const rounds = 5

	base := forwardersAlive()

	for i := 0; i < rounds; i++ {
		conn, err := nats.Connect(srv.ClientURL())
		if err != nil {
			t.Fatalf("connect: %v", err)
		}
		if err := CreateKVBucket(conn, bucket, 30*time.Second); err != nil {
			t.Fatalf("bucket: %v", err)
		}
		js, err := (&natsConnAdapter{nc: conn}).JetStream()
		if err != nil {
			t.Fatalf("jetstream: %v", err)
		}
		kv, err := js.KeyValue(bucket)
		if err != nil {
			t.Fatalf("kv: %v", err)
		}
		_ = kv.Delete(key)

		w, err := kv.Watch(key)
		if err != nil {
			t.Fatalf("watch: %v", err)
		}
		ch := w.Updates() // starts the forwarding goroutine; the consumer never reads

		rev, err := kv.Create(key, []byte("v0"))
		if err != nil {
			t.Fatalf("create: %v", err)
		}
		for j := 1; j <= 3; j++ {
			if rev, err = kv.Update(key, []byte{'v', byte('0' + j)}, rev); err != nil {
				t.Fatalf("update: %v", err)
			}
		}
		// Give the watch time to receive the changes: the forwarder now holds one
		// entry in its buffer and is blocked handing over the next one.
		time.Sleep(300 * time.Millisecond)

		conn.Close() // the connection goes away before the watcher is stopped
		w.Stop()
		_ = ch
	}

	deadline := time.Now().Add(3 * time.Second)
	alive := forwardersAlive() - base
	for alive > 0 && time.Now().Before(deadline) {
		time.Sleep(50 * time.Millisecond)
		alive = forwardersAlive() - base
	}
	if alive > 0 {
		t.Fatalf("%d of %d stopped watchers still own a forwarding goroutine (goroutines accumulate)", alive, rounds)
	}
}
