package leader

import (
	"context"
	"encoding/json"
	"errors"
	"fmt"
	"sync"
	"testing"
	"time"

	"go.uber.org/zap"
)

// ---------------------------------------------------------------------------
// A small linearizable reference store with a caller-tagged mutation log.
// ---------------------------------------------------------------------------

type zz9Op struct {
	who       string
	kind      string // create, update, delete
	expected  uint64
	ok        bool
	newRev    uint64
	prevOwner string // writer of the record that was replaced / removed ("" = none)
	prevVal   []byte
	newVal    []byte
}

type zz9Entry struct {
	key string
	val []byte
	rev uint64
}

func (e *zz9Entry) Key() string      { return e.key }
func (e *zz9Entry) Value() []byte    { return e.val }
func (e *zz9Entry) Revision() uint64 { return e.rev }

type zz9Watcher struct {
	ch   chan Entry
	once sync.Once
	done chan struct{}
}

func (w *zz9Watcher) Updates() <-chan Entry { return w.ch }
func (w *zz9Watcher) Stop()                 { w.once.Do(func() { close(w.done) }) }

type zz9Core struct {
	mu       sync.Mutex
	seq      uint64
	live     bool
	val      []byte
	rev      uint64
	owner    string
	history  []zz9Op
	watchers []*zz9Watcher

	// When gateWho creates the key, the write is applied and announced, but
	// the call does not return before gate is closed.
	gateWho string
	gate    chan struct{}
	applied chan struct{}
}

func (c *zz9Core) publish(e Entry) {
	for _, w := range c.watchers {
		select {
		case <-w.done:
		case w.ch <- e:
		default:
		}
	}
}

type zz9KV struct {
	core *zz9Core
	who  string
}

func (k *zz9KV) Create(key string, value []byte, opts ...interface{}) (uint64, error) {
	c := k.core
	c.mu.Lock()
	if c.live {
		c.history = append(c.history, zz9Op{who: k.who, kind: "create", ok: false})
		c.mu.Unlock()
		return 0, errors.New("key already exists")
	}
	c.seq++
	c.live, c.val, c.rev, c.owner = true, value, c.seq, k.who
	rev := c.rev
	c.history = append(c.history, zz9Op{who: k.who, kind: "create", ok: true, newRev: rev, newVal: value})
	c.publish(&zz9Entry{key: key, val: value, rev: rev})
	var gate chan struct{}
	if c.gateWho == k.who && c.gate != nil {
		gate = c.gate
		c.gateWho = ""
		close(c.applied)
	}
	c.mu.Unlock()
	if gate != nil {
		<-gate
	}
	return rev, nil
}

func (k *zz9KV) Update(key string, value []byte, expected uint64, opts ...interface{}) (uint64, error) {
	c := k.core
	c.mu.Lock()
	defer c.mu.Unlock()
	if !c.live {
		c.history = append(c.history, zz9Op{who: k.who, kind: "update", expected: expected, ok: false})
		return 0, errors.New("key not found")
	}
	if c.rev != expected {
		c.history = append(c.history, zz9Op{who: k.who, kind: "update", expected: expected, ok: false, prevOwner: c.owner})
		return 0, fmt.Errorf("revision mismatch: have %d, expected %d", c.rev, expected)
	}
	op := zz9Op{who: k.who, kind: "update", expected: expected, ok: true, prevOwner: c.owner, prevVal: c.val, newVal: value}
	c.seq++
	c.val, c.rev, c.owner = value, c.seq, k.who
	op.newRev = c.rev
	c.history = append(c.history, op)
	c.publish(&zz9Entry{key: key, val: value, rev: c.rev})
	return c.rev, nil
}

func (k *zz9KV) Get(key string) (Entry, error) {
	c := k.core
	c.mu.Lock()
	defer c.mu.Unlock()
	if !c.live {
		return nil, errors.New("key not found")
	}
	return &zz9Entry{key: key, val: c.val, rev: c.rev}, nil
}

func (k *zz9KV) del(key string, expected uint64, conditional bool) error {
	c := k.core
	c.mu.Lock()
	defer c.mu.Unlock()
	if !c.live {
		c.history = append(c.history, zz9Op{who: k.who, kind: "delete", expected: expected, ok: false})
		return errors.New("key not found")
	}
	if conditional && c.rev != expected {
		c.history = append(c.history, zz9Op{who: k.who, kind: "delete", expected: expected, ok: false, prevOwner: c.owner})
		return errors.New("revision mismatch")
	}
	c.history = append(c.history, zz9Op{who: k.who, kind: "delete", expected: expected, ok: true, prevOwner: c.owner, prevVal: c.val})
	c.seq++
	c.live, c.val, c.owner = false, nil, ""
	c.publish(nil)
	return nil
}

func (k *zz9KV) Delete(key string) error                     { return k.del(key, 0, false) }
func (k *zz9KV) DeleteRevision(key string, rev uint64) error { return k.del(key, rev, true) }

func (k *zz9KV) Watch(key string, opts ...interface{}) (Watcher, error) {
	c := k.core
	c.mu.Lock()
	defer c.mu.Unlock()
	w := &zz9Watcher{ch: make(chan Entry, 256), done: make(chan struct{})}
	if c.live {
		w.ch <- &zz9Entry{key: key, val: c.val, rev: c.rev}
	}
	c.watchers = append(c.watchers, w)
	return w, nil
}

type zz9Conn struct {
	core *zz9Core
	who  string
}

func (c *zz9Conn) JetStream() (JetStreamContext, error) { return c, nil }
func (c *zz9Conn) KeyValue(bucket string) (KeyValue, error) {
	return &zz9KV{core: c.core, who: c.who}, nil
}

// ---------------------------------------------------------------------------
// Logger that can hold the goroutine that reports a given new leader.
// ---------------------------------------------------------------------------

type zz9Logger struct {
	mu      sync.Mutex
	holdFor string
	reached chan struct{}
	release chan struct{}
}

func (l *zz9Logger) Debug(msg string, fields ...zap.Field) {}
func (l *zz9Logger) Warn(msg string, fields ...zap.Field)  {}
func (l *zz9Logger) Error(msg string, fields ...zap.Field) {}
func (l *zz9Logger) Fatal(msg string, fields ...zap.Field) {}
func (l *zz9Logger) Info(msg string, fields ...zap.Field) {
	if msg != "leader_changed" {
		return
	}
	l.mu.Lock()
	hold := false
	for _, f := range fields {
		if f.Key == "new_leader_id" && l.holdFor != "" && f.String == l.holdFor {
			hold = true
			l.holdFor = ""
		}
	}
	l.mu.Unlock()
	if hold {
		close(l.reached)
		<-l.release
	}
}

// ---------------------------------------------------------------------------

func zz9Violations(history []zz9Op, takeover map[string]bool) []string {
	var out []string
	for i, op := range history {
		if !op.ok {
			continue
		}
		switch op.kind {
		case "create":
			// the store only creates when no live record exists
		case "update":
			var prev, next leadershipPayload
			_ = json.Unmarshal(op.prevVal, &prev)
			_ = json.Unmarshal(op.newVal, &next)
			refresh := op.prevOwner == op.who && prev.ID == next.ID && prev.Token == next.Token
			preempt := op.prevOwner != op.who && takeover[op.who] && next.Priority > prev.Priority
			if !refresh && !preempt {
				out = append(out, fmt.Sprintf("op %d: %s overwrote at revision %d the record %s owned by %s with %s",
					i, op.who, op.expected, op.prevVal, op.prevOwner, op.newVal))
			}
		case "delete":
			if op.prevOwner != op.who {
				out = append(out, fmt.Sprintf("op %d: %s deleted the record %s owned by %s",
					i, op.who, op.prevVal, op.prevOwner))
			}
		}
	}
	return out
}

// TestDemoC01_9 : a follower's acquisition succeeds (Create) while its watcher is
// reporting the record of an instance that has, quite legitimately, already
// preempted the fresh record (priority takeover). The instance claims leadership
// with its own revision; it must never present the successor's revision on a
// heartbeat.
func TestDemoC01_9(t *testing.T) {
	core := &zz9Core{}
	logger := &zz9Logger{reached: make(chan struct{}), release: make(chan struct{})}

	oldLeader := &zz9KV{core: core, who: "L"}
	high := &zz9KV{core: core, who: "H"}

	lPayload, _ := json.Marshal(leadershipPayload{ID: "L", Token: "token-L"})
	if _, err := oldLeader.Create("grp", lPayload); err != nil {
		t.Fatal(err)
	}

	cfg := ElectionConfig{
		Bucket:            "bkt",
		Group:             "grp",
		InstanceID:        "F",
		TTL:               3 * time.Second,
		HeartbeatInterval: 400 * time.Millisecond,
		Logger:            logger,
	}
	f, err := newKVElection(&zz9Conn{core: core, who: "F"}, cfg)
	if err != nil {
		t.Fatal(err)
	}
	if err := f.Start(context.Background()); err != nil {
		t.Fatal(err)
	}
	defer func() { _ = f.Stop() }()

	WaitForCondition(t, func() bool { return f.LeaderID() == "L" && !f.IsLeader() }, 3*time.Second,
		"F follows L")

	// F's next Create is applied but its answer is held back.
	core.mu.Lock()
	core.gateWho = "F"
	core.gate = make(chan struct{})
	core.applied = make(chan struct{})
	applied, gate := core.applied, core.gate
	core.mu.Unlock()

	// L shuts down gracefully and removes its own record; F's watcher starts an
	// acquisition round.
	if err := oldLeader.Delete("grp"); err != nil {
		t.Fatal(err)
	}
	select {
	case <-applied:
	case <-time.After(5 * time.Second):
		t.Fatal("F did not create the record")
	}

	// H (takeover enabled, priority 50 > 0) preempts the fresh record: read,
	// compare, revision-checked Update.
	logger.mu.Lock()
	logger.holdFor = "H"
	logger.mu.Unlock()
	entry, err := high.Get("grp")
	if err != nil {
		t.Fatal(err)
	}
	hPayload, _ := json.Marshal(leadershipPayload{ID: "H", Token: "token-H", Priority: 50})
	hRev, err := high.Update("grp", hPayload, entry.Revision())
	if err != nil {
		t.Fatal(err)
	}

	// F's watcher reports H's record ...
	select {
	case <-logger.reached:
	case <-time.After(5 * time.Second):
		t.Fatal("F's watcher did not report H")
	}
	// ... while F's Create returns and F claims leadership ...
	close(gate)
	WaitForCondition(t, func() bool { return f.IsLeader() }, 3*time.Second, "F claims leadership")
	// ... and only then the watcher goroutine goes on.
	close(logger.release)

	// Let F's heartbeat run (twice).
	WaitForCondition(t, func() bool {
		core.mu.Lock()
		defer core.mu.Unlock()
		n := 0
		for _, op := range core.history {
			if op.who == "F" && op.kind == "update" {
				n++
			}
		}
		return n >= 1
	}, 3*time.Second, "F's heartbeat")
	time.Sleep(200 * time.Millisecond)
	_ = f.Stop()

	core.mu.Lock()
	history := append([]zz9Op(nil), core.history...)
	core.mu.Unlock()
	for i, op := range history {
		t.Logf("op %d: who=%s kind=%s expected=%d ok=%v newRev=%d prevOwner=%s", i, op.who, op.kind, op.expected, op.ok, op.newRev, op.prevOwner)
	}
	for _, v := range zz9Violations(history, map[string]bool{"H": true}) {
		t.Errorf("ownership violation: %s (H's record was revision %d)", v, hRev)
	}
}
