package leader

import (
	"context"
	"encoding/json"
	"errors"
	"fmt"
	"sync"
	"testing"
	"time"
)

// ---------------------------------------------------------------------------
// A small linearizable reference store with a caller-tagged mutation log.
// ---------------------------------------------------------------------------

type zz10Op struct {
	who       string
	kind      string // create, update, delete
	expected  uint64
	ok        bool
	newRev    uint64
	prevOwner string // writer of the record that was replaced / removed ("" = none)
	prevVal   []byte
	newVal    []byte
}

type zz10Entry struct {
	key string
	val []byte
	rev uint64
}

func (e *zz10Entry) Key() string      { return e.key }
func (e *zz10Entry) Value() []byte    { return e.val }
func (e *zz10Entry) Revision() uint64 { return e.rev }

type zz10Watcher struct {
	ch   chan Entry
	once sync.Once
	done chan struct{}
}

func (w *zz10Watcher) Updates() <-chan Entry { return w.ch }
func (w *zz10Watcher) Stop()                 { w.once.Do(func() { close(w.done) }) }

type zz10Core struct {
	mu       sync.Mutex
	seq      uint64
	live     bool
	val      []byte
	rev      uint64
	owner    string
	history  []zz10Op
	watchers []*zz10Watcher

	// When gateWho creates the key, the write is applied and announced, but
	// the call does not return before gate is closed.
	gateWho string
	gate    chan struct{}
	applied chan struct{}

	// afterGet, if set, is called (without the store's lock) after a Get by
	// the given caller has taken its answer and before that answer is returned.
	afterGet func(who string)
}

func (c *zz10Core) publish(e Entry) {
	for _, w := range c.watchers {
		select {
		case <-w.done:
		case w.ch <- e:
		default:
		}
	}
}

type zz10KV struct {
	core *zz10Core
	who  string
}

func (k *zz10KV) Create(key string, value []byte, opts ...interface{}) (uint64, error) {
	c := k.core
	c.mu.Lock()
	if c.live {
		c.history = append(c.history, zz10Op{who: k.who, kind: "create", ok: false})
		c.mu.Unlock()
		return 0, errors.New("key already exists")
	}
	c.seq++
	c.live, c.val, c.rev, c.owner = true, value, c.seq, k.who
	rev := c.rev
	c.history = append(c.history, zz10Op{who: k.who, kind: "create", ok: true, newRev: rev, newVal: value})
	c.publish(&zz10Entry{key: key, val: value, rev: rev})
	var gate chan struct{}
	if c.gateWho == k.who && c.gate != nil {
		gate = c.gate
		c.gateWho = ""
		close(c.applied)
	}
	c.mu.Unlock()
	if gate != nil {
		<-gate
	}
	return rev, nil
}

func (k *zz10KV) Update(key string, value []byte, expected uint64, opts ...interface{}) (uint64, error) {
	c := k.core
	c.mu.Lock()
	defer c.mu.Unlock()
	if !c.live {
		c.history = append(c.history, zz10Op{who: k.who, kind: "update", expected: expected, ok: false})
		return 0, errors.New("key not found")
	}
	if c.rev != expected {
		c.history = append(c.history, zz10Op{who: k.who, kind: "update", expected: expected, ok: false, prevOwner: c.owner})
		return 0, fmt.Errorf("revision mismatch: have %d, expected %d", c.rev, expected)
	}
	op := zz10Op{who: k.who, kind: "update", expected: expected, ok: true, prevOwner: c.owner, prevVal: c.val, newVal: value}
	c.seq++
	c.val, c.rev, c.owner = value, c.seq, k.who
	op.newRev = c.rev
	c.history = append(c.history, op)
	c.publish(&zz10Entry{key: key, val: value, rev: c.rev})
	return c.rev, nil
}

func (k *zz10KV) Get(key string) (Entry, error) {
	c := k.core
	c.mu.Lock()
	hook := c.afterGet
	var entry Entry
	var err error
	if !c.live {
		err = errors.New("key not found")
	} else {
		entry = &zz10Entry{key: key, val: c.val, rev: c.rev}
	}
	c.mu.Unlock()
	if hook != nil {
		hook(k.who)
	}
	return entry, err
}

func (k *zz10KV) del(key string, expected uint64, conditional bool) error {
	c := k.core
	c.mu.Lock()
	defer c.mu.Unlock()
	if !c.live {
		c.history = append(c.history, zz10Op{who: k.who, kind: "delete", expected: expected, ok: false})
		return errors.New("key not found")
	}
	if conditional && c.rev != expected {
		c.history = append(c.history, zz10Op{who: k.who, kind: "delete", expected: expected, ok: false, prevOwner: c.owner})
		return errors.New("revision mismatch")
	}
	c.history = append(c.history, zz10Op{who: k.who, kind: "delete", expected: expected, ok: true, prevOwner: c.owner, prevVal: c.val})
	c.seq++
	c.live, c.val, c.owner = false, nil, ""
	c.publish(nil)
	return nil
}

func (k *zz10KV) Delete(key string) error                     { return k.del(key, 0, false) }
func (k *zz10KV) DeleteRevision(key string, rev uint64) error { return k.del(key, rev, true) }

func (k *zz10KV) Watch(key string, opts ...interface{}) (Watcher, error) {
	c := k.core
	c.mu.Lock()
	defer c.mu.Unlock()
	w := &zz10Watcher{ch: make(chan Entry, 256), done: make(chan struct{})}
	if c.live {
		w.ch <- &zz10Entry{key: key, val: c.val, rev: c.rev}
	}
	c.watchers = append(c.watchers, w)
	return w, nil
}

type zz10Conn struct {
	core *zz10Core
	who  string
}

func (c *zz10Conn) JetStream() (JetStreamContext, error) { return c, nil }
func (c *zz10Conn) KeyValue(bucket string) (KeyValue, error) {
	return &zz10KV{core: c.core, who: c.who}, nil
}

func zz10Violations(history []zz10Op, takeover map[string]bool) []string {
	var out []string
	for i, op := range history {
		if !op.ok {
			continue
		}
		switch op.kind {
		case "create":
			// the store only creates when no live record exists
		case "update":
			var prev, next leadershipPayload
			_ = json.Unmarshal(op.prevVal, &prev)
			_ = json.Unmarshal(op.newVal, &next)
			refresh := op.prevOwner == op.who && prev.ID == next.ID && prev.Token == next.Token
			preempt := op.prevOwner != op.who && takeover[op.who] && next.Priority > prev.Priority
			if !refresh && !preempt {
				out = append(out, fmt.Sprintf("op %d: %s overwrote at revision %d the record %s owned by %s with %s",
					i, op.who, op.expected, op.prevVal, op.prevOwner, op.newVal))
			}
		case "delete":
			if op.prevOwner != op.who {
				out = append(out, fmt.Sprintf("op %d: %s deleted the record %s owned by %s",
					i, op.who, op.prevVal, op.prevOwner))
			}
		}
	}
	return out
}

// TestDemoC01_10 : the connection of leader A drops and comes back. While A
// verifies its leadership after the reconnect, and right after the verification
// read has shown A's own record, a higher-priority instance H preempts the record
// (read, strict priority compare, revision-checked Update: legitimate). A must
// notice on its next heartbeat that its revision is no longer current and step
// down; it must never write over H's record.
func TestDemoC01_10(t *testing.T) {
	core := &zz10Core{}
	high := &zz10KV{core: core, who: "H"}

	cfg := ElectionConfig{
		Bucket:            "bkt",
		Group:             "grp",
		InstanceID:        "A",
		TTL:               3 * time.Second,
		HeartbeatInterval: 500 * time.Millisecond,
		Priority:          10,
	}
	a, err := newKVElection(&zz10Conn{core: core, who: "A"}, cfg)
	if err != nil {
		t.Fatal(err)
	}
	if err := a.Start(context.Background()); err != nil {
		t.Fatal(err)
	}
	defer func() { _ = a.Stop() }()

	WaitForLeader(t, a, true, 3*time.Second)
	first := a.Status().LastHeartbeat
	WaitForHeartbeat(t, a, first, 3*time.Second)

	// From now on: the second read A makes is the one of the reconnect
	// verification's token validation (the first is its connection test). As
	// soon as that read has taken its answer, H takes over.
	var mu sync.Mutex
	reads := 0
	var hRev uint64
	var hErr error
	core.mu.Lock()
	core.afterGet = func(who string) {
		if who != "A" {
			return
		}
		mu.Lock()
		reads++
		n := reads
		mu.Unlock()
		if n != 2 {
			return
		}
		rev, err := func() (uint64, error) {
			entry, err := high.Get("grp")
			if err != nil {
				return 0, err
			}
			var cur leadershipPayload
			if err := json.Unmarshal(entry.Value(), &cur); err != nil || cur.Priority >= 50 {
				return 0, fmt.Errorf("H does not preempt %s", entry.Value())
			}
			hPayload, _ := json.Marshal(leadershipPayload{ID: "H", Token: "token-H", Priority: 50})
			return high.Update("grp", hPayload, entry.Revision())
		}()
		mu.Lock()
		hRev, hErr = rev, err
		mu.Unlock()
	}
	core.mu.Unlock()

	// The connection monitor reports the reconnect.
	a.handleReconnect()

	// Wait for A's first heartbeat after H's takeover, and a little longer.
	WaitForCondition(t, func() bool {
		core.mu.Lock()
		defer core.mu.Unlock()
		seenH := false
		for _, op := range core.history {
			if op.who == "H" && op.kind == "update" && op.ok {
				seenH = true
			}
			if seenH && op.who == "A" && op.kind == "update" {
				return true
			}
		}
		return false
	}, 5*time.Second, "A's heartbeat after the takeover")
	time.Sleep(200 * time.Millisecond)
	_ = a.Stop()

	mu.Lock()
	takeoverRev, takeoverErr := hRev, hErr
	mu.Unlock()
	if takeoverErr != nil {
		t.Fatalf("H's takeover failed: %v", takeoverErr)
	}

	core.mu.Lock()
	history := append([]zz10Op(nil), core.history...)
	core.mu.Unlock()
	for i, op := range history {
		t.Logf("op %d: who=%s kind=%s expected=%d ok=%v newRev=%d prevOwner=%s", i, op.who, op.kind, op.expected, op.ok, op.newRev, op.prevOwner)
	}
	for _, v := range zz10Violations(history, map[string]bool{"H": true}) {
		t.Errorf("ownership violation: %s (H's record was revision %d)", v, takeoverRev)
	}
}
