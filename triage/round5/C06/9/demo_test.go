package leader

import (
	"context"
	"encoding/json"
	"testing"
	"time"

	"github.com/ali-assar/NATS-Leader-Election/internal/natsmock"
	"go.uber.org/zap"
)

// demo9Logger is the smallest possible Logger: what matters is only that the
// election is configured with one (as every production deployment is).
type demo9Logger struct{}

func (demo9Logger) Debug(string, ...zap.Field) {}
func (demo9Logger) Info(string, ...zap.Field)  {}
func (demo9Logger) Warn(string, ...zap.Field)  {}
func (demo9Logger) Error(string, ...zap.Field) {}
func (demo9Logger) Fatal(string, ...zap.Field) {}

// demo9RecordOwner returns the id and token of the live record ("" if vacant).
func demo9RecordOwner(kv *natsmock.MockKeyValue, key string) (string, string) {
	entry, err := kv.Get(key)
	if err != nil || entry == nil || len(entry.Value()) == 0 {
		return "", ""
	}
	var p struct {
		ID    string `json:"id"`
		Token string `json:"token"`
	}
	if json.Unmarshal(entry.Value(), &p) != nil {
		return "", ""
	}
	return p.ID, p.Token
}

// TestDemoVacancyRefilledAfterRecordRemoved: a group of one healthy instance,
// configured with a Logger. Its record is removed from the store (an operator
// purge, or - equivalently for the instance - the record expired while the
// instance was cut off). The store stays responsive, so the instance must hold a
// live record again within heartbeat interval + periodic check + jitter; the test
// allows 3 s (the clean library needs about 0.3 s).
func TestDemoVacancyRefilledAfterRecordRemoved(t *testing.T) {
	nc := natsmock.NewMockConn()
	js, err := nc.JetStream()
	if err != nil {
		t.Fatal(err)
	}
	kv, err := js.KeyValue("leaders")
	if err != nil {
		t.Fatal(err)
	}

	election, err := NewElection(NewMockConnAdapter(nc), ElectionConfig{
		Bucket:            "leaders",
		Group:             "demo9-group",
		InstanceID:        "instance-1",
		TTL:               3 * time.Second,
		HeartbeatInterval: 100 * time.Millisecond,
		Logger:            demo9Logger{},
	})
	if err != nil {
		t.Fatal(err)
	}
	if err := election.Start(context.Background()); err != nil {
		t.Fatal(err)
	}
	defer func() { _ = election.Stop() }()

	WaitForLeader(t, election, true, 2*time.Second)
	_, firstToken := demo9RecordOwner(kv, "demo9-group")
	if firstToken == "" {
		t.Fatal("no record after the first promotion")
	}

	// The record becomes vacant; no watch notification is delivered.
	if err := kv.Delete("demo9-group"); err != nil {
		t.Fatal(err)
	}
	vacantAt := time.Now()

	deadline := vacantAt.Add(3 * time.Second)
	for time.Now().Before(deadline) {
		id, token := demo9RecordOwner(kv, "demo9-group")
		if id == "instance-1" && token != "" && election.IsLeader() && election.Token() == token {
			t.Logf("vacancy refilled after %v (new term: %v)", time.Since(vacantAt), token != firstToken)
			return
		}
		time.Sleep(10 * time.Millisecond)
	}
	id, _ := demo9RecordOwner(kv, "demo9-group")
	st := election.Status()
	t.Fatalf("vacancy not refilled within 3s: record owner=%q, instance state=%s isLeader=%v (claims leadership of a record that does not exist)",
		id, st.State, st.IsLeader)
}
