package leader

import (
	"context"
	"testing"
	"time"

	"github.com/ali-assar/NATS-Leader-Election/internal/natsmock"
)

// TestDemoLostDeleteEventAfterHeartbeatEvent: a follower with a healthy, open watch
// sees a heartbeat of the leader; right afterwards the leader shuts down and
// deletes the key, and the deletion notification is lost (the property demands
// the bound "even if no watch notification of the vacancy is ever delivered").
// The follower is healthy and the store responsive, so it must lead within one
// periodic check (500 ms) + jitter (100 ms) + latencies; the test allows 1.5 s.
// The follower's HeartbeatInterval is 2 s (TTL 10 s), a valid configuration.
func TestDemoLostDeleteEventAfterHeartbeatEvent(t *testing.T) {
	nc := natsmock.NewMockConn()
	js, err := nc.JetStream()
	if err != nil {
		t.Fatal(err)
	}
	kv, err := js.KeyValue("leaders")
	if err != nil {
		t.Fatal(err)
	}

	record := []byte(`{"id":"other-instance","token":"token-1"}`)
	if _, err := kv.Create("demo10-group", record); err != nil {
		t.Fatal(err)
	}

	// A watch that stays open and delivers only what the test sends.
	updates := make(chan natsmock.Entry, 10)
	kv.SetWatchFunc(func(key string, opts ...natsmock.WatchOption) (natsmock.Watcher, error) {
		return &natsmock.MockWatcher{UpdatesChan: updates, StopChan: make(chan struct{})}, nil
	})

	election, err := NewElection(NewMockConnAdapter(nc), ElectionConfig{
		Bucket:            "leaders",
		Group:             "demo10-group",
		InstanceID:        "instance-1",
		TTL:               10 * time.Second,
		HeartbeatInterval: 2 * time.Second,
	})
	if err != nil {
		t.Fatal(err)
	}
	if err := election.Start(context.Background()); err != nil {
		t.Fatal(err)
	}
	defer func() { _ = election.Stop() }()

	WaitForCondition(t, func() bool { return election.Status().State == StateFollower },
		2*time.Second, "instance to become follower")
	select {
	case <-kv.WatchStartChan:
	case <-time.After(2 * time.Second):
		t.Fatal("watch not started")
	}

	// The leader's heartbeat, as the watch reports it.
	updates <- &natsmock.MockEntryImpl{KeyVal: "demo10-group", ValueVal: record, RevVal: 42}
	WaitForCondition(t, func() bool { return election.Status().Revision == 42 },
		2*time.Second, "follower to process the heartbeat event")

	// The leader stops with DeleteKey; the deletion event never arrives.
	if err := kv.Delete("demo10-group"); err != nil {
		t.Fatal(err)
	}
	vacantAt := time.Now()

	const bound = 1500 * time.Millisecond // 500 ms check + 100 ms jitter, with a wide margin
	deadline := vacantAt.Add(6 * time.Second)
	for time.Now().Before(deadline) && !election.IsLeader() {
		time.Sleep(5 * time.Millisecond)
	}
	if !election.IsLeader() {
		t.Fatalf("vacancy not filled within 6s")
	}
	took := time.Since(vacantAt)
	t.Logf("vacancy filled after %v", took)
	if took > bound {
		t.Fatalf("vacancy filled only after %v, bound is %v (periodic check 500ms + jitter 100ms + margin)", took, bound)
	}
}
