package leader

import (
	"context"
	"sync/atomic"
	"testing"
	"time"

	"github.com/ali-assar/NATS-Leader-Election/internal/natsmock"
)

// TestDemoRecordRecreatedByOwnStrayAcquisition: the leader's record is deleted
// by an outside party and re-created by an acquisition of the same instance that
// lands while the instance still leads (a leftover acquisition round; the
// library documents this case in becomeLeader). The record now carries another
// token and revision than the running term's: the term's record has been
// replaced. The next heartbeat is refused (revision conflict) and the instance
// must stop reporting leadership and run OnDemote by the completion of that
// heartbeat attempt - at most H + 2 operation time-outs after the change.
func TestDemoRecordRecreatedByOwnStrayAcquisition(t *testing.T) {
	const h = 100 * time.Millisecond
	opTimeout := time.Second // max(H/2, 1s)

	nc := natsmock.NewMockConn()
	el, err := NewElection(NewMockConnAdapter(nc), ElectionConfig{
		Bucket:            "leaders",
		Group:             "demo-group",
		InstanceID:        "instance-1",
		TTL:               10 * time.Second,
		HeartbeatInterval: h,
	})
	if err != nil {
		t.Fatal(err)
	}
	e := el.(*kvElection)

	var demotions atomic.Int32
	el.OnDemote(func() { demotions.Add(1) })

	if err := el.Start(context.Background()); err != nil {
		t.Fatal(err)
	}
	defer el.Stop()
	WaitForLeader(t, el, true, time.Second)

	js, _ := nc.JetStream()
	kv, _ := js.KeyValue("leaders")

	// Align with the heartbeat: act right after a successful refresh, so that no
	// heartbeat falls between the deletion and the re-creation.
	WaitForHeartbeat(t, el, el.Status().LastHeartbeat, 5*h)
	termToken := el.Token()

	if err := kv.Delete("demo-group"); err != nil {
		t.Fatalf("outside deletion: %v", err)
	}
	// The stray acquisition round's Create lands now.
	if err := e.attemptAcquire(); err == nil {
		t.Fatalf("a second promotion within the same term must be refused")
	}
	changed := time.Now()

	entry, err := kv.Get("demo-group")
	if err != nil {
		t.Fatalf("record should have been re-created: %v", err)
	}
	t.Logf("term token %s, record now at revision %d (term revision %d)", termToken, entry.Revision(), el.Status().Revision)

	bound := h + 2*opTimeout
	deadline := changed.Add(bound)
	for time.Now().Before(deadline) && el.IsLeader() {
		time.Sleep(5 * time.Millisecond)
	}
	if el.IsLeader() {
		t.Fatalf("still reporting leadership %v after its record was replaced (bound %v); OnDemote calls: %d",
			time.Since(changed), bound, demotions.Load())
	}
	WaitForCondition(t, func() bool { return demotions.Load() == 1 }, time.Second, "OnDemote to run once")
	t.Logf("demoted %v after the change", time.Since(changed))
}
