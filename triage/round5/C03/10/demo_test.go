package leader

import (
	"context"
	"errors"
	"sync"
	"sync/atomic"
	"testing"
	"time"

	"github.com/ali-assar/NATS-Leader-Election/internal/natsmock"
)

// TestDemoReplacedRecordWithHangingReads: one refresh of the leader fails
// (immediate transient error, nothing written); at that moment a successor
// replaces the record and from then on reads of the store hang (writes are still
// answered). The next refresh is refused with a revision conflict: the instance
// must stop reporting leadership and run OnDemote by the completion of that
// attempt - at most H + 2 operation time-outs after the record was replaced -
// whatever the store does with reads.
func TestDemoReplacedRecordWithHangingReads(t *testing.T) {
	const h = 100 * time.Millisecond
	opTimeout := time.Second // max(H/2, 1s)

	nc := natsmock.NewMockConn()
	el, err := NewElection(NewMockConnAdapter(nc), ElectionConfig{
		Bucket:            "leaders",
		Group:             "demo-group",
		InstanceID:        "instance-1",
		TTL:               10 * time.Second,
		HeartbeatInterval: h,
	})
	if err != nil {
		t.Fatal(err)
	}

	var demotions atomic.Int32
	el.OnDemote(func() { demotions.Add(1) })

	if err := el.Start(context.Background()); err != nil {
		t.Fatal(err)
	}
	WaitForLeader(t, el, true, time.Second)

	js, _ := nc.JetStream()
	kv, _ := js.KeyValue("leaders")

	releaseReads := make(chan struct{})
	var releaseOnce sync.Once
	release := func() { releaseOnce.Do(func() { close(releaseReads) }) }
	// Registered before Stop's defer runs: reads are released first, so that the
	// goroutines blocked in Get do not hold Stop for its 5s wait.
	defer el.Stop()
	defer release()

	var changedAt atomic.Value
	var armed atomic.Bool
	kv.SetUpdateFunc(func(key string, value []byte, rev uint64, opts ...natsmock.KVOption) (uint64, error) {
		if armed.CompareAndSwap(false, true) {
			// This refresh fails without being applied ...
			kv.SetUpdateFunc(nil)
			// ... a successor replaces the record ...
			if _, err := kv.Update(key, []byte(`{"id":"instance-2","token":"successor-token"}`), rev); err != nil {
				t.Errorf("successor write: %v", err)
			}
			changedAt.Store(time.Now())
			// ... and from now on every read hangs.
			kv.SetGetFunc(func(string) (natsmock.Entry, error) {
				<-releaseReads
				return nil, errors.New("connection lost")
			})
			return 0, errors.New("connection lost")
		}
		return 0, errors.New("unexpected call")
	})

	WaitForCondition(t, func() bool { return changedAt.Load() != nil }, 5*h, "the failing refresh")
	changed := changedAt.Load().(time.Time)

	bound := h + 2*opTimeout
	deadline := changed.Add(bound)
	for time.Now().Before(deadline) && el.IsLeader() {
		time.Sleep(5 * time.Millisecond)
	}
	if el.IsLeader() {
		t.Fatalf("still reporting leadership %v after its record was replaced (bound %v); OnDemote calls: %d",
			time.Since(changed), bound, demotions.Load())
	}
	WaitForCondition(t, func() bool { return demotions.Load() == 1 }, time.Second, "OnDemote to run once")
	t.Logf("demoted %v after the record was replaced", time.Since(changed))
}
