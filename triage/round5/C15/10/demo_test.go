package leader

import (
	"context"
	"errors"
	"fmt"
	"testing"
	"time"

	"github.com/nats-io/nats.go"
	"github.com/stretchr/testify/assert"
	"github.com/stretchr/testify/require"
)

func demo10Permanent(t *testing.T, err error) {
	t.Helper()
	require.Error(t, err)
	assert.Truef(t, IsPermanentError(err), "IsPermanentError(%q) must be true", err)
	assert.Falsef(t, IsTransientError(err), "IsTransientError(%q) must be false", err)
}

func demo10Transient(t *testing.T, err error) {
	t.Helper()
	require.Error(t, err)
	assert.Falsef(t, IsPermanentError(err), "IsPermanentError(%q) must be false", err)
	assert.Truef(t, IsTransientError(err), "IsTransientError(%q) must be true", err)
}

// demo10Wrappings: ways an application (or a later version of the library) tags
// a store error with one of the package's own sentinels. All of them are "%w
// wrapping"; the last four use more than one %w / errors.Join.
func demo10Wrappings(cause error) map[string]error {
	return map[string]error{
		"bare":            cause,
		"single %w":       fmt.Errorf("heartbeat: %w", cause),
		"two %w":          fmt.Errorf("%w: %w", ErrHeartbeatFailed, cause),
		"errors.Join":     errors.Join(ErrElectionFailed, cause),
		"wrapped join":    fmt.Errorf("tick 7: %w", errors.Join(ErrHeartbeatFailed, cause)),
		"ElectionError/2": NewElectionError("HEARTBEAT", "instance-1", "update rejected", fmt.Errorf("%w: %w", ErrNotLeader, cause)),
	}
}

// TestDemoC15_10_SentinelsStayPermanentWhenJoined: configuration, permission and
// missing-bucket errors are permanent also when wrapped with %w.
func TestDemoC15_10_SentinelsStayPermanentWhenJoined(t *testing.T) {
	for _, cause := range []error{ErrInvalidConfig, ErrPermissionDenied, ErrBucketNotFound} {
		for name, err := range demo10Wrappings(cause) {
			t.Run(cause.Error()+"/"+name, func(t *testing.T) { demo10Permanent(t, err) })
		}
	}
}

// TestDemoC15_10_RealServerRevisionErrors: the errors nats.go returns for a failed
// revision-checked update and for a create on an existing key, taken from an
// embedded nats-server through the library's adapter.
func TestDemoC15_10_RealServerRevisionErrors(t *testing.T) {
	ctx, cancel := context.WithTimeout(context.Background(), 30*time.Second)
	defer cancel()
	srv, err := StartEmbeddedNATSServer(ctx)
	require.NoError(t, err)
	defer func() { _ = StopEmbeddedNATSServer(srv) }()
	conn, err := nats.Connect(srv.ClientURL())
	require.NoError(t, err)
	defer conn.Close()
	require.NoError(t, CreateKVBucket(conn, "demo-c15-10", 10*time.Second))

	js, err := (&natsConnAdapter{nc: conn}).JetStream()
	require.NoError(t, err)
	store, err := js.KeyValue("demo-c15-10")
	require.NoError(t, err)
	rev, err := store.Create("group", []byte("a"))
	require.NoError(t, err)

	_, updateErr := store.Update("group", []byte("b"), rev+3)
	require.Error(t, updateErr)
	_, createErr := store.Create("group", []byte("b"))
	require.Error(t, createErr)

	for label, cause := range map[string]error{"update": updateErr, "create": createErr} {
		for name, err := range demo10Wrappings(cause) {
			t.Run(label+"/"+name, func(t *testing.T) { demo10Permanent(t, err) })
		}
	}
}

// TestDemoC15_10_RetryStopsOnJoinedPermanent: the consumer. A deposed leader must
// not retry: RetryWithBackoff returns a permanent error after the first call.
func TestDemoC15_10_RetryStopsOnJoinedPermanent(t *testing.T) {
	wrongSeq := &nats.APIError{Code: 400, ErrorCode: nats.JSErrCodeStreamWrongLastSequence, Description: "wrong last sequence: 12"}
	calls := 0
	err := RetryWithBackoff(context.Background(), RetryConfig{
		MaxAttempts:   4,
		BackoffConfig: BackoffConfig{InitialBackoff: time.Millisecond, MaxBackoff: 2 * time.Millisecond, BackoffMultiplier: 1},
	}, func() error {
		calls++
		return fmt.Errorf("%w: %w", ErrHeartbeatFailed, wrongSeq)
	})
	require.Error(t, err)
	assert.Equal(t, 1, calls, "a permanent error was retried")
}

// TestDemoC15_10_Controls hold on both trees.
func TestDemoC15_10_Controls(t *testing.T) {
	demo10Transient(t, errors.Join(context.Canceled, ErrPermissionDenied))
	demo10Transient(t, fmt.Errorf("%w: %w", ErrHeartbeatFailed, context.DeadlineExceeded))
	demo10Transient(t, errors.Join(ErrHeartbeatFailed, NewTimeoutError("heartbeat update", time.Second, nil)))
	demo10Transient(t, errors.Join(ErrHeartbeatFailed, nats.ErrTimeout))
	demo10Permanent(t, errors.Join(ErrPermissionDenied, ErrBucketNotFound))
}
