package leader

import (
	"context"
	"sync/atomic"
	"testing"
	"time"

	"github.com/nats-io/nats.go"
	"github.com/stretchr/testify/assert"
	"github.com/stretchr/testify/require"
)

// demoGroups: the record key of an election is its Group. The first name is the
// one that matters; "orders" is the control that behaves the same on both trees.
var demoGroups = []string{"authentication-service", "orders"}

// demoStubNATSKV is a nats.KeyValue whose Update fails with a fixed error of the
// NATS client; everything else is delegated to the embedded interface (nil here).
type demoStubNATSKV struct {
	nats.KeyValue
	err error
}

func (s demoStubNATSKV) Update(string, []byte, uint64) (uint64, error) { return 0, s.err }

func demoAssertTransient(t *testing.T, err error) {
	t.Helper()
	require.Error(t, err)
	assert.Falsef(t, IsPermanentError(err), "IsPermanentError(%q) must be false", err)
	assert.Truef(t, IsTransientError(err), "IsTransientError(%q) must be true", err)
}

func demoAssertPermanent(t *testing.T, err error) {
	t.Helper()
	require.Error(t, err)
	assert.Truef(t, IsPermanentError(err), "IsPermanentError(%q) must be true", err)
	assert.Falsef(t, IsTransientError(err), "IsTransientError(%q) must be false", err)
}

// TestDemoC15_9_ClientErrorsThroughAdapter: the NATS client's time-out,
// no-responders and connection-closed errors must be transient when they reach
// the library through its adapter, whatever the election's group is called.
func TestDemoC15_9_ClientErrorsThroughAdapter(t *testing.T) {
	clientErrs := []error{
		nats.ErrTimeout,
		nats.ErrNoResponders,
		nats.ErrNoStreamResponse,
		nats.ErrConnectionClosed,
	}
	for _, group := range demoGroups {
		for _, clientErr := range clientErrs {
			t.Run(group+"/"+clientErr.Error(), func(t *testing.T) {
				var store KeyValue = &natsKeyValueAdapter{kv: demoStubNATSKV{err: clientErr}}
				_, err := store.Update(group, []byte("x"), 1)
				require.ErrorIs(t, err, clientErr)
				demoAssertTransient(t, err)
			})
		}
	}
}

// TestDemoC15_9_RealServer does the same against an embedded nats-server: the
// errors are the ones nats.go really returns.
func TestDemoC15_9_RealServer(t *testing.T) {
	ctx, cancel := context.WithTimeout(context.Background(), 30*time.Second)
	defer cancel()

	srv, err := StartEmbeddedNATSServer(ctx)
	require.NoError(t, err)
	defer func() { _ = StopEmbeddedNATSServer(srv) }()

	for _, group := range demoGroups {
		t.Run(group, func(t *testing.T) {
			conn, err := nats.Connect(srv.ClientURL())
			require.NoError(t, err)
			defer conn.Close()
			bucket := "demo-c15-9-" + group
			require.NoError(t, CreateKVBucket(conn, bucket, 10*time.Second))

			js, err := (&natsConnAdapter{nc: conn}).JetStream()
			require.NoError(t, err)
			store, err := js.KeyValue(bucket)
			require.NoError(t, err)

			rev, err := store.Create(group, []byte("a"))
			require.NoError(t, err)

			// permanent on both trees: another instance owns the record
			_, err = store.Create(group, []byte("b"))
			demoAssertPermanent(t, err)
			_, err = store.Update(group, []byte("b"), rev+7)
			demoAssertPermanent(t, err)

			// the bucket's stream disappears: nobody answers the publish
			require.NoError(t, CleanupKVBucket(conn, bucket))
			_, err = store.Update(group, []byte("b"), rev)
			require.ErrorIs(t, err, nats.ErrNoStreamResponse)
			demoAssertTransient(t, err)

			// the connection is closed under the election
			conn.Close()
			_, err = store.Update(group, []byte("b"), rev)
			require.ErrorIs(t, err, nats.ErrConnectionClosed)
			demoAssertTransient(t, err)
		})
	}
}

// demoFlakyNATSKV is a real bucket whose next failNext Updates time out in the client.
type demoFlakyNATSKV struct {
	nats.KeyValue
	failNext atomic.Int32
	failed   atomic.Int32
}

func (f *demoFlakyNATSKV) Update(key string, value []byte, rev uint64) (uint64, error) {
	if f.failNext.Add(-1) >= 0 {
		f.failed.Add(1)
		return 0, nats.ErrTimeout
	}
	return f.KeyValue.Update(key, value, rev)
}

type demoProvider struct{ kv nats.KeyValue }

func (p demoProvider) JetStream() (JetStreamContext, error) { return p, nil }
func (p demoProvider) KeyValue(string) (KeyValue, error) {
	return &natsKeyValueAdapter{kv: p.kv}, nil
}

// TestDemoC15_9_LeaderSurvivesOneClientTimeout: end to end. One heartbeat of the
// leader of group "authentication-service" fails with the client's time-out
// error. A transient error is tolerated (three in a row demote); the leader must
// keep its term.
func TestDemoC15_9_LeaderSurvivesOneClientTimeout(t *testing.T) {
	ctx, cancel := context.WithTimeout(context.Background(), 30*time.Second)
	defer cancel()

	srv, err := StartEmbeddedNATSServer(ctx)
	require.NoError(t, err)
	defer func() { _ = StopEmbeddedNATSServer(srv) }()
	conn, err := nats.Connect(srv.ClientURL())
	require.NoError(t, err)
	defer conn.Close()

	for _, group := range demoGroups {
		t.Run(group, func(t *testing.T) {
			bucket := "demo-c15-9-e2e-" + group
			realKV, err := EnsureKVBucket(conn, bucket, 10*time.Second)
			require.NoError(t, err)
			flaky := &demoFlakyNATSKV{KeyValue: realKV}

			el, err := NewElection(demoProvider{kv: flaky}, ElectionConfig{
				Bucket:            bucket,
				Group:             group,
				InstanceID:        "instance-1",
				TTL:               5 * time.Second,
				HeartbeatInterval: 100 * time.Millisecond,
			})
			require.NoError(t, err)
			var demotions atomic.Int32
			el.OnDemote(func() { demotions.Add(1) })
			require.NoError(t, el.Start(ctx))
			defer func() { _ = el.Stop() }()
			WaitForLeader(t, el, true, 3*time.Second)

			flaky.failNext.Store(1)
			require.Eventually(t, func() bool { return flaky.failed.Load() == 1 },
				2*time.Second, 10*time.Millisecond, "the injected time-out was not consumed")
			time.Sleep(400 * time.Millisecond)

			assert.True(t, el.IsLeader(), "one client time-out must not end the term")
			assert.Equal(t, int32(0), demotions.Load(), "OnDemote ran after a single transient error")
		})
	}
}
