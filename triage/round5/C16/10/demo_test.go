package leader

import (
	"errors"
	"reflect"
	"testing"
	"time"

	"github.com/ali-assar/NATS-Leader-Election/internal/natsmock"
)

// demoCountingProvider wraps a provider and records whether the constructor
// reached for the store (JetStream() / KeyValue()).
type demoCountingProvider struct {
	inner         JetStreamProvider
	missing       bool // KeyValue reports "bucket not found"
	jetStreamCall int
	keyValueCall  int
}

type demoCountingJS struct {
	p     *demoCountingProvider
	inner JetStreamContext
}

func (p *demoCountingProvider) JetStream() (JetStreamContext, error) {
	p.jetStreamCall++
	js, err := p.inner.JetStream()
	if err != nil {
		return nil, err
	}
	return &demoCountingJS{p: p, inner: js}, nil
}

func (j *demoCountingJS) KeyValue(bucket string) (KeyValue, error) {
	j.p.keyValueCall++
	if j.p.missing {
		return nil, errors.New("nats: bucket not found")
	}
	return j.inner.KeyValue(bucket)
}

// demoSetOptional sets an optional configuration field by name when the
// library version under test has it (the field is new; on a tree without it
// the configuration is simply left as it is).
func demoSetOptional(cfg *ElectionConfig, field string, d time.Duration) bool {
	f := reflect.ValueOf(cfg).Elem().FieldByName(field)
	if !f.IsValid() || !f.CanSet() || f.Kind() != reflect.Int64 {
		return false
	}
	f.SetInt(int64(d))
	return true
}

// Every configuration below violates exactly one documented rule. C16: the
// creation must fail with a ValidationError naming that field, and the store
// must not have been contacted - whatever the optional fields are set to.
func demoInvalidConfigs() map[string]ElectionConfig {
	base := func() ElectionConfig {
		return ElectionConfig{
			Bucket: "leaders", Group: "demo-group", InstanceID: "demo-1",
			TTL: 6 * time.Second, HeartbeatInterval: 2 * time.Second,
		}
	}
	m := map[string]ElectionConfig{}
	c := base()
	c.TTL = 6*time.Second - time.Nanosecond
	m["TTL"] = c
	c = base()
	c.Group = ""
	m["Group"] = c
	c = base()
	c.ValidationInterval = 2*time.Second - time.Nanosecond
	m["ValidationInterval"] = c
	c = base()
	c.AllowPriorityTakeover = true
	m["Priority"] = c
	return m
}

func TestDemoInvalidConfigNeverContactsStore(t *testing.T) {
	for field, cfg := range demoInvalidConfigs() {
		demoSetOptional(&cfg, "BucketWaitTimeout", 200*time.Millisecond)
		p := &demoCountingProvider{inner: NewMockConnAdapter(natsmock.NewMockConn())}

		_, err := NewElection(p, cfg)

		var ve *ValidationError
		if !errors.As(err, &ve) {
			t.Errorf("%s: got %T (%v), want *ValidationError", field, err, err)
		} else if ve.Field != field {
			t.Errorf("%s: error names %q", field, ve.Field)
		}
		if p.jetStreamCall != 0 || p.keyValueCall != 0 {
			t.Errorf("%s: store contacted before the configuration was validated (JetStream=%d, KeyValue=%d)",
				field, p.jetStreamCall, p.keyValueCall)
		}
	}
}

func TestDemoInvalidConfigReportedEvenWhenBucketIsMissing(t *testing.T) {
	for field, cfg := range demoInvalidConfigs() {
		demoSetOptional(&cfg, "BucketWaitTimeout", 150*time.Millisecond)
		p := &demoCountingProvider{inner: NewMockConnAdapter(natsmock.NewMockConn()), missing: true}

		start := time.Now()
		_, err := NewElection(p, cfg)
		elapsed := time.Since(start)

		var ve *ValidationError
		if !errors.As(err, &ve) {
			t.Errorf("%s: got %T (%v) after %v, want *ValidationError naming %s", field, err, err, elapsed, field)
		} else if ve.Field != field {
			t.Errorf("%s: error names %q", field, ve.Field)
		}
		if p.jetStreamCall != 0 || p.keyValueCall != 0 {
			t.Errorf("%s: store contacted %d/%d times before the configuration was validated",
				field, p.jetStreamCall, p.keyValueCall)
		}
	}
}

// Control: a valid configuration is created (and contacts the store) on both trees.
func TestDemoControlValidConfigStillCreated(t *testing.T) {
	cfg := ElectionConfig{
		Bucket: "leaders", Group: "demo-group", InstanceID: "demo-1",
		TTL: 6 * time.Second, HeartbeatInterval: 2 * time.Second,
	}
	demoSetOptional(&cfg, "BucketWaitTimeout", 200*time.Millisecond)
	p := &demoCountingProvider{inner: NewMockConnAdapter(natsmock.NewMockConn())}
	if _, err := NewElection(p, cfg); err != nil {
		t.Fatalf("valid configuration rejected: %v", err)
	}
	if p.keyValueCall == 0 {
		t.Fatalf("valid configuration: store never contacted")
	}
}
