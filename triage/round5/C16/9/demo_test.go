package leader

import (
	"errors"
	"testing"
	"time"

	"github.com/ali-assar/NATS-Leader-Election/internal/natsmock"
)

// demoRecordingProvider records whether the constructor reached for the store.
type demoRecordingProvider struct {
	jetStreamCalls int
	keyValueCalls  int
}

type demoRecordingJS struct{ p *demoRecordingProvider }

func (p *demoRecordingProvider) JetStream() (JetStreamContext, error) {
	p.jetStreamCalls++
	return &demoRecordingJS{p: p}, nil
}

func (j *demoRecordingJS) KeyValue(bucket string) (KeyValue, error) {
	j.p.keyValueCalls++
	return nil, errors.New("demo: no such bucket " + bucket)
}

// TestDemoNegativeMaxConsecutiveFailuresRejectedByNewElection: C16 says that
// creating an election fails, with an error naming MaxConsecutiveFailures and
// before the store is contacted, whenever MaxConsecutiveFailures < 0.
func TestDemoNegativeMaxConsecutiveFailuresRejectedByNewElection(t *testing.T) {
	for _, n := range []int{-1, -2, -3, -1000, -1 << 31} {
		p := &demoRecordingProvider{}
		cfg := ElectionConfig{
			Bucket:                 "leaders",
			Group:                  "demo-group",
			InstanceID:             "demo-1",
			TTL:                    6 * time.Second,
			HeartbeatInterval:      2 * time.Second,
			MaxConsecutiveFailures: n,
		}

		_, err := NewElection(p, cfg)
		if err == nil {
			t.Fatalf("MaxConsecutiveFailures=%d: NewElection succeeded, want a ValidationError", n)
		}
		var ve *ValidationError
		if !errors.As(err, &ve) {
			t.Errorf("MaxConsecutiveFailures=%d: got %T (%v), want *ValidationError naming MaxConsecutiveFailures", n, err, err)
		} else if ve.Field != "MaxConsecutiveFailures" {
			t.Errorf("MaxConsecutiveFailures=%d: error names field %q, want MaxConsecutiveFailures", n, ve.Field)
		}
		if p.jetStreamCalls != 0 || p.keyValueCalls != 0 {
			t.Errorf("MaxConsecutiveFailures=%d: store contacted for an invalid configuration (JetStream=%d, KeyValue=%d)",
				n, p.jetStreamCalls, p.keyValueCalls)
		}
	}
}

// TestDemoNegativeMaxConsecutiveFailuresWithRealMock: same through the
// repository's own mock provider, where the creation then fully succeeds.
func TestDemoNegativeMaxConsecutiveFailuresWithRealMock(t *testing.T) {
	nc := natsmock.NewMockConn()
	cfg := ElectionConfig{
		Bucket:                 "leaders",
		Group:                  "demo-group",
		InstanceID:             "demo-1",
		TTL:                    6 * time.Second,
		HeartbeatInterval:      2 * time.Second,
		MaxConsecutiveFailures: -1,
	}
	el, err := NewElection(NewMockConnAdapter(nc), cfg)
	if err == nil {
		t.Fatalf("NewElection accepted MaxConsecutiveFailures=-1 (election=%T)", el)
	}
	var ve *ValidationError
	if !errors.As(err, &ve) || ve.Field != "MaxConsecutiveFailures" {
		t.Fatalf("got %v, want ValidationError naming MaxConsecutiveFailures", err)
	}
}

// The rest of the rule set is unchanged: zero is valid, and validateConfig
// itself still rejects the negative value when called directly.
func TestDemoControlUnchangedRules(t *testing.T) {
	base := ElectionConfig{
		Bucket: "leaders", Group: "g", InstanceID: "i",
		TTL: 6 * time.Second, HeartbeatInterval: 2 * time.Second,
	}
	if err := validateConfig(base); err != nil {
		t.Fatalf("zero MaxConsecutiveFailures must be valid: %v", err)
	}
	base.MaxConsecutiveFailures = -1
	if err := validateConfig(base); err == nil {
		t.Fatalf("validateConfig must reject MaxConsecutiveFailures=-1")
	}
}
