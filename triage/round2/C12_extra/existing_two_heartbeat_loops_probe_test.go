package leader

import (
	"context"
	"sync"
	"testing"
	"time"

	"github.com/ali-assar/NATS-Leader-Election/internal/natsmock"
)

type probeChecker struct {
	mu    sync.Mutex
	times []time.Time
	res   bool
}

func (c *probeChecker) Check(ctx context.Context) bool {
	c.mu.Lock()
	defer c.mu.Unlock()
	c.times = append(c.times, time.Now())
	return c.res
}

func TestZZProbeTwoLoops(t *testing.T) {
	nc := natsmock.NewMockConn()
	chk := &probeChecker{res: true}
	cfg := ElectionConfig{
		Bucket: "leaders", Group: "probe", InstanceID: "i1",
		TTL: 10 * time.Second, HeartbeatInterval: 1 * time.Second, ValidationInterval: 30 * time.Second,
		HealthChecker: chk, MaxConsecutiveFailures: 3,
	}
	el, err := NewElection(NewMockConnAdapter(nc), cfg)
	if err != nil {
		t.Fatal(err)
	}
	demotes := 0
	var mu sync.Mutex
	el.OnDemote(func() { mu.Lock(); demotes++; mu.Unlock(); t.Logf("demote at %v", time.Now()) })
	if err := el.Start(context.Background()); err != nil {
		t.Fatal(err)
	}
	defer el.Stop()
	WaitForLeader(t, el, true, 2*time.Second)
	start := time.Now()
	js, _ := nc.JetStream()
	kv, _ := js.KeyValue("leaders")
	time.Sleep(1100 * time.Millisecond) // just after first tick
	_ = kv.Delete("probe")
	el.ValidateTokenOrDemote(context.Background())
	if el.IsLeader() {
		t.Fatal("expected demotion")
	}
	WaitForLeader(t, el, true, 900*time.Millisecond)
	t.Logf("re-elected at +%v", time.Since(start))
	chk.mu.Lock()
	chk.res = false
	chk.mu.Unlock()
	WaitForLeader(t, el, false, 5*time.Second)
	chk.mu.Lock()
	for _, ti := range chk.times {
		t.Logf("check at +%v", ti.Sub(start))
	}
	chk.mu.Unlock()
	t.Logf("demoted at +%v", time.Since(start))
}
