package main

import (
	"fmt"
	"go/token"
	"go/types"
	"sort"
	"strings"

	"golang.org/x/tools/go/ssa"
)

// Origin classes (DESIGN §3.2 "Provenance"):
//   const:<v>            a constant
//   fresh:<pos>          result of a uuid.New* call at pos
//   field:<F>            value loaded from the atomic field F of the election object
//   cfg:<path>           configuration value (Impl.cfg.X or a cfg parameter's field)
//   ownwrite:<M>@<pos>   revision returned by this instance's own Create/Update at pos
//   observed             revision read from an Entry (someone's record)
//   record               bytes / fields decoded from an Entry's value
//   unknown:<sym>        anything else
type originSet map[string]bool

func (o originSet) list() []string {
	var out []string
	for k := range o {
		out = append(out, k)
	}
	sort.Strings(out)
	return out
}

func (o originSet) String() string { return "{" + strings.Join(o.list(), ", ") + "}" }

func (o originSet) all(pred func(string) bool) bool {
	if len(o) == 0 {
		return false
	}
	for k := range o {
		if !pred(k) {
			return false
		}
	}
	return true
}

func (o originSet) equal(p originSet) bool {
	if len(o) != len(p) {
		return false
	}
	for k := range o {
		if !p[k] {
			return false
		}
	}
	return true
}

type provCtx struct {
	m     *Model
	busy  map[string]bool
	loads []*ssa.Call // atomic Load calls on election fields reached by the walk
	// frames binds the parameters of library functions entered through a call to the
	// arguments of that call (one level of context sensitivity per entered call)
	frames []map[*ssa.Parameter]ssa.Value
}

func (pc *provCtx) bound(p *ssa.Parameter) (ssa.Value, bool) {
	for i := len(pc.frames) - 1; i >= 0; i-- {
		if v, ok := pc.frames[i][p]; ok {
			return v, true
		}
	}
	return nil, false
}

// enter walks the results of library function f for a call with the given arguments.
func (pc *provCtx) enter(f *ssa.Function, args []ssa.Value, body func()) {
	fr := map[*ssa.Parameter]ssa.Value{}
	for i, p := range f.Params {
		if i < len(args) {
			fr[p] = args[i]
		}
	}
	pc.frames = append(pc.frames, fr)
	body()
	pc.frames = pc.frames[:len(pc.frames)-1]
}

// OriginLoads returns the atomic Load instructions (on fields of the election object) that
// can supply the value.
func (m *Model) OriginLoads(v ssa.Value) []*ssa.Call {
	pc := &provCtx{m: m, busy: map[string]bool{}}
	pc.walk(v, "", originSet{}, 0)
	return pc.loads
}

// Origins computes where a value can come from.
func (m *Model) Origins(v ssa.Value) originSet {
	pc := &provCtx{m: m, busy: map[string]bool{}}
	out := originSet{}
	pc.walk(v, "", out, 0)
	return out
}

// OriginLoadsField is OriginLoads for a field of a struct-valued / encoded value.
func (m *Model) OriginLoadsField(v ssa.Value, field string) []*ssa.Call {
	pc := &provCtx{m: m, busy: map[string]bool{}}
	pc.walk(v, field, originSet{}, 0)
	return pc.loads
}

// FieldOrigins computes the origins of field `field` of a struct-valued (or encoded) value,
// e.g. the Token of the payload whose marshalled bytes are v.
func (m *Model) FieldOrigins(v ssa.Value, field string) originSet {
	pc := &provCtx{m: m, busy: map[string]bool{}}
	out := originSet{}
	pc.walk(v, field, out, 0)
	return out
}

func (pc *provCtx) walk(v ssa.Value, field string, out originSet, depth int) {
	m := pc.m
	if v == nil {
		return
	}
	key := fmt.Sprintf("%p|%s", v, field)
	if pc.busy[key] {
		return
	}
	if depth > 40 {
		out["unknown:depth"] = true
		return
	}
	pc.busy[key] = true
	defer delete(pc.busy, key)

	switch x := v.(type) {
	case *ssa.Const:
		out["const:"+constString(x)] = true
	case *ssa.Convert:
		pc.walk(x.X, field, out, depth+1)
	case *ssa.ChangeType:
		pc.walk(x.X, field, out, depth+1)
	case *ssa.ChangeInterface:
		pc.walk(x.X, field, out, depth+1)
	case *ssa.MakeInterface:
		pc.walk(x.X, field, out, depth+1)
	case *ssa.TypeAssert:
		pc.walk(x.X, field, out, depth+1)
	case *ssa.Slice:
		pc.walk(x.X, field, out, depth+1)
	case *ssa.Phi:
		for _, e := range x.Edges {
			pc.walk(e, field, out, depth+1)
		}
	case *ssa.Extract:
		pc.walkExtract(x, field, out, depth)
	case *ssa.Parameter:
		pc.walkParam(x, field, out, depth)
	case *ssa.FreeVar:
		if mc := m.Sym.closureOf[x.Parent()]; mc != nil {
			for i, fv := range x.Parent().FreeVars {
				if fv == x && i < len(mc.Bindings) {
					pc.walk(mc.Bindings[i], field, out, depth+1)
					return
				}
			}
		}
		out["unknown:freevar "+x.Name()] = true
	case *ssa.Alloc:
		// the address of a local: its contents
		pc.walkCell(x, field, out, depth)
	case *ssa.UnOp:
		switch x.Op {
		case token.MUL:
			pc.walkLoad(x, field, out, depth)
		case token.ARROW:
			pc.walkRecv(x.X, field, out, depth)
		default:
			out["unknown:"+m.Sym.Of(v).String()] = true
		}
	case *ssa.Field:
		// field of a struct value: descend with the field name
		fname := fieldName(x.X.Type(), x.Field)
		if field != "" {
			fname = fname + "." + field
		}
		pc.walk(x.X, fname, out, depth+1)
	case *ssa.FieldAddr:
		// address of a field: treat like the field's content
		fname := fieldName(x.X.Type(), x.Field)
		if field != "" {
			fname = fname + "." + field
		}
		pc.walkFieldOf(x.X, fname, out, depth)
	case *ssa.Lookup:
		// map lookups on decoded records
		if m.recordDerived(x.X, 0) {
			out["record"] = true
			return
		}
		out["unknown:"+m.Sym.Of(v).String()] = true
	case *ssa.Call:
		pc.walkCall(x, field, out, depth)
	default:
		out["unknown:"+clip(m.Sym.Of(v).String(), 80)] = true
	}
}

func (pc *provCtx) walkExtract(x *ssa.Extract, field string, out originSet, depth int) {
	m := pc.m
	switch t := x.Tuple.(type) {
	case *ssa.Call:
		if kv, ok := m.isKVCall(t, ""); ok {
			meth := kv.Call.Method.Name()
			switch {
			case (meth == "Create" || meth == "Update") && x.Index == 0:
				out[fmt.Sprintf("ownwrite:%s@%s", meth, m.P.pos(kv.Pos()))] = true
				return
			case meth == "Get" && x.Index == 0:
				out["entry"] = true
				return
			case x.Index == kv.Call.Signature().Results().Len()-1:
				out[fmt.Sprintf("kverr:%s@%s", meth, m.P.pos(kv.Pos()))] = true
				return
			}
		}
		if f := t.Call.StaticCallee(); f != nil {
			switch f.String() {
			case "encoding/json.Marshal":
				if x.Index == 0 {
					if field == "" {
						out["marshal:"+clip(m.Sym.Of(t.Call.Args[0]).String(), 60)] = true
						return
					}
					// bytes encode the struct passed: field origins of that struct
					pc.walk(t.Call.Args[0], field, out, depth+1)
					return
				}
			case "context.WithCancel", "context.WithTimeout", "context.WithDeadline":
				out[fmt.Sprintf("ctxchild:%s@%s", f.Name(), m.P.pos(t.Pos()))] = true
				return
			}
			if m.isLib(f) && f.Blocks != nil {
				// results of a library function: its return values
				pc.enter(f, t.Call.Args, func() {
					for _, b := range f.Blocks {
						if ret, ok := b.Instrs[len(b.Instrs)-1].(*ssa.Return); ok && b != f.Recover && x.Index < len(ret.Results) {
							pc.walk(returnValue(ret, x.Index), field, out, depth+1)
						}
					}
				})
				return
			}
		}
	case *ssa.Select:
		// received value of a select case: index 0 = chosen, 1 = recvOk, 2.. = received values
		n := 0
		for _, st := range t.States {
			if st.Dir == types.RecvOnly {
				if x.Index == 2+n {
					pc.walkRecv(st.Chan, field, out, depth)
					return
				}
				n++
			}
		}
	case *ssa.TypeAssert:
		pc.walk(t.X, field, out, depth+1)
		return
	case *ssa.Lookup:
		pc.walk(t, field, out, depth+1)
		return
	case *ssa.UnOp:
		if t.Op == token.ARROW {
			pc.walkRecv(t.X, field, out, depth)
			return
		}
	}
	out["unknown:"+clip(m.Sym.Of(x).String(), 80)] = true
}

func (pc *provCtx) walkParam(p *ssa.Parameter, field string, out originSet, depth int) {
	m := pc.m
	if v, ok := pc.bound(p); ok {
		pc.walk(v, field, out, depth+1)
		return
	}
	f := p.Parent()
	idx := -1
	for i, q := range f.Params {
		if q == p {
			idx = i
		}
	}
	// configuration parameter fields
	if n := namedOf(p.Type()); n != nil && n.Obj().Name() == "ElectionConfig" && field != "" {
		out["cfg:"+field] = true
		return
	}
	sites := m.callers[f]
	if idx < 0 || len(sites) == 0 {
		out["unknown:param "+p.Name()+" of "+shortFn(f)] = true
		return
	}
	for _, cs := range sites {
		args := cs.Instr.Common().Args
		if idx < len(args) {
			pc.walk(args[idx], field, out, depth+1)
		}
	}
}

// walkCell: contents of a local variable cell (all values stored to it, here and in closures).
func (pc *provCtx) walkCell(al *ssa.Alloc, field string, out originSet, depth int) {
	m := pc.m
	if field != "" {
		pc.walkFieldOf(al, field, out, depth)
		return
	}
	st := storesTo(al)
	if len(st) == 0 {
		// a struct literal assembled field by field, or a decode target
		if m.isDecodeTarget(al) {
			out["record"] = true
			return
		}
		out["unknown:uninitialised "+allocName(al)] = true
		return
	}
	for _, v := range st {
		pc.walk(v, "", out, depth+1)
	}
}

func (pc *provCtx) walkLoad(x *ssa.UnOp, field string, out originSet, depth int) {
	m := pc.m
	switch a := x.X.(type) {
	case *ssa.Alloc:
		if field != "" {
			pc.walkFieldOf(a, field, out, depth)
			return
		}
		pc.walkCell(a, "", out, depth)
	case *ssa.FieldAddr:
		fname := fieldName(a.X.Type(), a.Field)
		if field != "" {
			fname = fname + "." + field
		}
		pc.walkFieldOf(a.X, fname, out, depth)
	case *ssa.FreeVar:
		pc.walk(a, field, out, depth+1) // the captured cell
	case *ssa.IndexAddr:
		out["unknown:index"] = true
	default:
		s := m.Sym.Of(x)
		out["unknown:"+clip(s.String(), 80)] = true
	}
}

// walkFieldOf: origins of base.<field> where base is an address (local struct, shared object, ...).
func (pc *provCtx) walkFieldOf(base ssa.Value, field string, out originSet, depth int) {
	m := pc.m
	first, rest, _ := strings.Cut(field, ".")
	// shared object fields: configuration or (non-atomic) fields
	if s := m.Sym.Of(base); s.Op == "path" || (s.Op == "addr" && !strings.HasPrefix(s.Name, "local:")) {
		name := strings.TrimPrefix(s.String(), "&")
		if name == m.ImplName && first == m.Cfg {
			out["cfg:"+rest] = true
			return
		}
		if name == m.ImplName+"."+m.Cfg {
			out["cfg:"+field] = true
			return
		}
		out["objfield:"+name+"."+field] = true
		return
	}
	if fv, ok := base.(*ssa.FreeVar); ok {
		if mc := m.Sym.closureOf[fv.Parent()]; mc != nil {
			for i, x := range fv.Parent().FreeVars {
				if x == fv && i < len(mc.Bindings) {
					pc.walkFieldOf(mc.Bindings[i], field, out, depth+1)
					return
				}
			}
		}
	}
	al, ok := base.(*ssa.Alloc)
	if !ok {
		// a pointer obtained otherwise
		if u, ok := base.(*ssa.UnOp); ok && u.Op == token.MUL {
			pc.walk(u, field, out, depth+1)
			return
		}
		out["unknown:"+clip(m.Sym.Of(base).String(), 60)+"."+field] = true
		return
	}
	// a config parameter spilled to a local
	if n := namedOf(al.Type()); n != nil && n.Obj().Name() == "ElectionConfig" {
		out["cfg:"+field] = true
		return
	}
	found := false
	// 1. whole-struct stores (x = y) : descend into y with the field
	for _, v := range storesTo(al) {
		found = true
		pc.walk(v, field, out, depth+1)
	}
	// 2. field stores (x.f = v), also in closures capturing x
	var visit func(addr ssa.Value, d int)
	visit = func(addr ssa.Value, d int) {
		refs := addr.Referrers()
		if refs == nil || d > 3 {
			return
		}
		for _, r := range *refs {
			switch r := r.(type) {
			case *ssa.FieldAddr:
				if fieldName(r.X.Type(), r.Field) != first {
					continue
				}
				if rr := r.Referrers(); rr != nil {
					for _, u := range *rr {
						if st, ok := u.(*ssa.Store); ok && st.Addr == ssa.Value(r) {
							found = true
							pc.walk(st.Val, rest, out, depth+1)
						}
					}
				}
			case *ssa.MakeClosure:
				if fn, ok := r.Fn.(*ssa.Function); ok {
					for i, b := range r.Bindings {
						if b == addr && i < len(fn.FreeVars) {
							visit(fn.FreeVars[i], d+1)
						}
					}
				}
			case *ssa.MakeInterface:
				// 3. decode target: json.Unmarshal(bytes, &x): the field comes from the bytes
				if rr := r.Referrers(); rr != nil {
					for _, u := range *rr {
						if call, ok := isCallTo(valueOf(u), "encoding/json.Unmarshal"); ok && len(call.Call.Args) == 2 && call.Call.Args[1] == ssa.Value(r) {
							found = true
							if m.recordDerived(call.Call.Args[0], 0) {
								out["record"] = true
							} else {
								pc.walk(call.Call.Args[0], field, out, depth+1)
							}
						}
					}
				}
			}
		}
	}
	visit(al, 0)
	if !found {
		out["const:zero"] = true // a field never assigned keeps its zero value
	}
}

// walkRecv: values received from a channel = values sent on it (matched by the channel's Sym
// within the same outermost function).
func (pc *provCtx) walkRecv(ch ssa.Value, field string, out originSet, depth int) {
	m := pc.m
	// a channel received as a parameter: the channel the caller passed
	if p, ok := ch.(*ssa.Parameter); ok && depth < 12 {
		if v, ok := pc.bound(p); ok {
			pc.walkRecv(v, field, out, depth+1)
			return
		}
		if sites := m.callers[p.Parent()]; len(sites) == 1 {
			for i, q := range p.Parent().Params {
				if q == p && i < len(sites[0].Instr.Common().Args) {
					pc.walkRecv(sites[0].Instr.Common().Args[i], field, out, depth+1)
					return
				}
			}
		}
	}
	want := m.Sym.Of(ch).String()
	var top *ssa.Function
	if in, ok := ch.(ssa.Instruction); ok {
		top = topFunc(in.Parent())
	} else if p, ok := ch.(*ssa.Parameter); ok {
		top = topFunc(p.Parent())
	} else if fv, ok := ch.(*ssa.FreeVar); ok {
		top = topFunc(fv.Parent())
	}
	if top == nil {
		out["unknown:recv "+want] = true
		return
	}
	found := false
	for _, f := range withClosures(top) {
		eachInstr(f, func(in ssa.Instruction) {
			if s, ok := in.(*ssa.Send); ok && m.Sym.Of(s.Chan).String() == want {
				found = true
				pc.walk(s.X, field, out, depth+1)
			}
		})
	}
	// the channel handed to a library function (called or spawned): the sends on that parameter
	for _, f := range withClosures(top) {
		eachInstr(f, func(in ssa.Instruction) {
			ci, ok := in.(ssa.CallInstruction)
			if !ok {
				return
			}
			g := ci.Common().StaticCallee()
			if g == nil || !m.isLib(g) || g.Blocks == nil {
				return
			}
			for i, a := range ci.Common().Args {
				if i >= len(g.Params) || m.Sym.Of(a).String() != want {
					continue
				}
				p := g.Params[i]
				for _, h := range withClosures(g) {
					eachInstr(h, func(x ssa.Instruction) {
						if s, ok := x.(*ssa.Send); ok && m.traceValue(s.Chan) == ssa.Value(p) || ok && s.Chan == ssa.Value(p) {
							found = true
							pc.enter(g, ci.Common().Args, func() { pc.walk(s.X, field, out, depth+1) })
						}
					})
				}
			}
		})
	}
	if !found {
		out["unknown:recv "+clip(want, 60)] = true
	}
}

func (pc *provCtx) walkCall(c *ssa.Call, field string, out originSet, depth int) {
	m := pc.m
	if c.Call.IsInvoke() {
		if namedOf(c.Call.Value.Type()) == m.EntryIface {
			switch c.Call.Method.Name() {
			case "Revision":
				out["observed"] = true
				return
			case "Value":
				out["record"] = true
				return
			}
		}
		out["unknown:"+clip(m.Sym.Of(c).String(), 80)] = true
		return
	}
	f := c.Call.StaticCallee()
	if f == nil {
		out["unknown:"+clip(m.Sym.Of(c).String(), 80)] = true
		return
	}
	name := f.String()
	switch {
	case strings.HasPrefix(name, "github.com/google/uuid.New"):
		out["fresh:"+m.P.pos(c.Pos())] = true
		return
	case name == "(github.com/google/uuid.UUID).String":
		pc.walk(c.Call.Args[0], field, out, depth+1)
		return
	case name == "time.Now":
		out["now"] = true
		return
	}
	if fld, meth, ok := m.atomicCall(c); ok && meth == "Load" {
		out["field:"+fld] = true
		pc.loads = append(pc.loads, c)
		return
	}
	// atomic load through a pointer parameter of an entered helper (loadStringOr(&e.token, ...))
	if sc := c.Call.StaticCallee(); sc != nil && sc.Pkg != nil && sc.Pkg.Pkg.Path() == "sync/atomic" && sc.Name() == "Load" && len(c.Call.Args) > 0 {
		if p, ok := c.Call.Args[0].(*ssa.Parameter); ok {
			if v, ok := pc.bound(p); ok {
				if fld, ok := m.implField(v); ok {
					out["field:"+fld] = true
					pc.loads = append(pc.loads, c)
					return
				}
			}
		}
	}
	if m.isLib(f) && f.Blocks != nil && f.Signature.Results().Len() == 1 {
		nBefore := len(pc.loads)
		defer func() {
			// loads inside an accessor happen at the accessor's call site
			if len(pc.loads) > nBefore {
				pc.loads = append(pc.loads[:nBefore], c)
			}
		}()
		pc.enter(f, c.Call.Args, func() {
			for _, b := range f.Blocks {
				if ret, ok := b.Instrs[len(b.Instrs)-1].(*ssa.Return); ok && b != f.Recover {
					pc.walk(returnValue(ret, 0), field, out, depth+1)
				}
			}
		})
		return
	}
	out["unknown:"+clip(m.Sym.Of(c).String(), 80)] = true
}
