package main

import (
	"sort"
	"fmt"
	"strings"

	"golang.org/x/tools/go/ssa"
)

func init() {
	register(&PropertySpec{
		ID:    "C08",
		Level: "other",
		Run:   checkC08,
		Explanation: "Decides the pairing of callbacks with claim transitions on every path of the code, not the run-time order of callback goroutines: (R1) OnPromote is invoked at exactly one site, in a goroutine started by the claim-set unit after the claim was stored, with the token stored for that term; " +
			"(R2) no silent demotion: after every operation that can turn a standing claim into false, on every call chain up to its root, every path to the exit invokes OnDemote, except where the callback is nil, where the clearing critical section saw the claim already false, or on the error returns of StopWithContext; " +
			"(R3) no spurious or double notification: every OnDemote invocation is control-dependent on 'this activation's clearing critical section saw the claim true' (the clear unit returns the claim it saw under the lock; stop units load it under the lock hold that clears it); a bare IsLeader() test before the clear does not qualify.",
		NotDecided: []string{"the relative order in which the promotion goroutine and a later demotion callback actually run beyond the existence of an ordering edge (R4)", "strict alternation at run time when the OnPromote callback itself is slow"},
		Assumptions: []string{"the election mutex serialises claim transitions (C18-R1, C20)", "callbacks registered after Start are picked up at the next transition"},
		Rules: map[string]string{
			"R1": "the claim Store(true) is guarded by claim==false read under the same write-lock hold (no second promotion within a term); exactly one invocation site of the onPromote value; it is in a `go` closure of the claim-set unit, the claim Store(true) dominates the go statement, and its token argument is the value stored to the token field in that activation",
			"R2": "for every claim-clearing site (Store(false) or call of a function that may demote): must-follow of an onDemote invocation on every path to the function exit, permitted skips: onDemote == nil, claim-seen-by-the-clearing-section == false, non-nil error return of a stop unit; otherwise the obligation moves to every caller; a root without notification is a violation",
			"R4": "if the onPromote value is invoked in a goroutine: every onDemote invocation is dominated (in the function that owns it) by a blocking wait (receive / select / WaitGroup.Wait / a must-block call) that can carry the order 'promotion callback invoked first'",
			"R3": "every onDemote invocation is guarded by a literal 'result of a returns-previous-claim function is true' or, in a unit that clears the claim itself, 'claim loaded under the write-lock hold that clears it is true'",
		},
	})
}

// isOnDemoteInvocation: call/go of the onDemote value, or go of a closure that invokes it.
func (m *Model) isOnDemoteInvocation(in ssa.Instruction) bool {
	if m.invokesFieldValue(in, m.OnDemote) {
		return true
	}
	if sp := m.spawnAt(in); sp != nil {
		for _, t := range sp.Targets {
			found := false
			eachInstr(t, func(x ssa.Instruction) {
				if m.invokesFieldValue(x, m.OnDemote) {
					found = true
				}
			})
			if found {
				return true
			}
		}
	}
	// a call of a library helper every path through which invokes the callback (unless none is registered)
	if call, ok := in.(*ssa.Call); ok {
		if g := call.Call.StaticCallee(); g != nil && m.isLib(g) && m.alwaysNotifies(g) {
			return true
		}
	}
	return false
}

// alwaysNotifies: every path from f's entry to a return invokes the OnDemote value (directly or
// by go), except where the callback is nil.
func (m *Model) alwaysNotifies(f *ssa.Function) bool {
	if v, ok := m.notifyMemo[f]; ok {
		return v
	}
	if m.notifyMemo == nil {
		m.notifyMemo = map[*ssa.Function]bool{}
	}
	m.notifyMemo[f] = false
	if f.Blocks == nil || len(f.Blocks[0].Instrs) == 0 {
		return false
	}
	direct := func(in ssa.Instruction) bool {
		if m.invokesFieldValue(in, m.OnDemote) {
			return true
		}
		if g, ok := in.(*ssa.Go); ok {
			for _, t := range m.funcValueTargets(g.Call.Value) {
				hit := false
				eachInstr(t, func(x ssa.Instruction) {
					if m.invokesFieldValue(x, m.OnDemote) {
						hit = true
					}
				})
				if hit {
					return true
				}
			}
		}
		return false
	}
	any := false
	eachInstr(f, func(in ssa.Instruction) {
		if direct(in) {
			any = true
		}
	})
	if !any {
		return false
	}
	skip := func(b *ssa.BasicBlock, i int) bool {
		l, ok := m.edgeLit(b, i)
		return ok && l.Truth && l.S.Op == "bin" && l.S.Name == "==" && (m.symIsFieldValue(l.S.Args[0], m.OnDemote) || m.symIsFieldValue(l.S.Args[1], m.OnDemote)) && symMentions(l.S, "nil")
	}
	first := f.Blocks[0].Instrs[0]
	ok := direct(first)
	if !ok {
		ok, _ = mustFollowExit(first, direct, skip, nil)
	}
	m.notifyMemo[f] = ok
	return ok
}

// claimLoadInClearingHold: v is a claim load made under the election write lock in a
// function that clears the claim under the same hold (no Unlock between).
func (m *Model) claimLoadInClearingHold(v ssa.Value) bool {
	call, ok := v.(*ssa.Call)
	if !ok || !m.isClaimLoadSym(m.Sym.Of(call)) {
		return false
	}
	la := m.Locks()
	if !la.MustBefore(call)[m.implMuW()] {
		return false
	}
	f := call.Parent()
	okHold := false
	// the clear: a Store(false) in f, or a call of a function that always clears the claim
	var clears []ssa.Instruction
	eachInstr(f, func(in ssa.Instruction) {
		if val, isConst, isStore := m.claimStore(in); isStore && isConst && !val {
			clears = append(clears, in)
		}
		if c2, ok := in.(*ssa.Call); ok {
			if g := c2.Call.StaticCallee(); g != nil && m.isLib(g) && g != f && m.alwaysClears(g, 0) {
				clears = append(clears, in)
			}
		}
	})
	for _, in := range clears {
		if !la.MustBefore(in)[m.implMuW()] || !dominatesInstr(call, in) {
			continue
		}
		// no Unlock of the election mutex between the load and the clear
		unlockBetween := false
		eachInstr(f, func(x ssa.Instruction) {
			if c2, ok := x.(*ssa.Call); ok {
				if op, ok := m.lockOpOf(&c2.Call); ok && op.ID == m.path(m.Mu) && op.Kind == "Unlock" {
					if dominatesInstr(call, x) && dominatesInstr(x, in) {
						unlockBetween = true
					}
				}
			}
		})
		if !unlockBetween {
			okHold = true
		}
	}
	return okHold
}

// prevClaimLit: the literal says "the clearing critical section saw the claim == truth".
func (m *Model) prevClaimLit(l Lit, truth bool) bool {
	if l.Truth != truth {
		return false
	}
	// `x && wasLeader` kept in a local: phi[wasLeader | false]; true implies wasLeader
	if ph, isPhi := l.S.V.(*ssa.Phi); truth && isPhi && l.S.Op == "phi" {
		// `wasLeader && x`: the edge that carries x is taken only under wasLeader
		n, okAll := 0, true
		for i, e := range ph.Edges {
			if k, isC := constBool(e); isC && !k {
				continue
			}
			n++
			if m.prevClaimLit(Lit{S: m.Sym.Of(e), Truth: true}, true) {
				continue
			}
			pred := ph.Block().Preds[i]
			si := 0
			for j, sx := range pred.Succs {
				if sx == ph.Block() {
					si = j
				}
			}
			viaEdge := false
			for _, el := range m.EdgeLits(pred, si) {
				if m.prevClaimLit(el, true) {
					viaEdge = true
				}
			}
			if !viaEdge {
				okAll = false
			}
		}
		if okAll && n > 0 {
			return true
		}
	}
	if truth && l.S.Op == "phi" {
		n := 0
		for _, a := range l.S.Args {
			if a.Op == "const" && a.Name == "false" {
				continue
			}
			if !m.prevClaimLit(Lit{S: a, Truth: true}, true) {
				return false
			}
			n++
		}
		return n > 0
	}
	if call, ok := l.S.V.(*ssa.Call); ok {
		if g := call.Call.StaticCallee(); g != nil && m.isLib(g) && m.returnsPrevClaim(g, 0) {
			return true
		}
		if m.claimLoadInClearingHold(call) {
			return true
		}
	}
	return false
}

func checkC08(c *Ctx) {
	m := c.M

	// ---- R1 promotion -----------------------------------------------------------
	type site struct {
		fn *ssa.Function
		in ssa.Instruction
	}
	var promoteSites []site
	for _, f := range m.Funcs {
		eachInstr(f, func(in ssa.Instruction) {
			if m.invokesFieldValue(in, m.OnPromote) {
				promoteSites = append(promoteSites, site{f, in})
			}
		})
	}
	c.check(len(promoteSites) == 1, "R1", "single OnPromote invocation site", nil, "%d invocation sites of the %s value in the library", len(promoteSites), m.OnPromote)
	for _, s := range promoteSites {
		key := "OnPromote invoked in " + shortFn(s.fn)
		// the invocation is reached only through goroutines started by a claim-set unit
		var goSite ssa.Instruction
		var top *ssa.Function
		var viaSpawn func(f *ssa.Function, seen map[*ssa.Function]bool) bool
		viaSpawn = func(f *ssa.Function, seen map[*ssa.Function]bool) bool {
			if seen[f] {
				return true
			}
			seen[f] = true
			spawned := false
			for _, sp := range m.Spawns() {
				for _, t := range sp.Targets {
					if t == f {
						if !m.inClaimUnit(topFunc(sp.Fn)) {
							return false
						}
						spawned = true
						goSite, top = sp.At, topFunc(sp.Fn)
					}
				}
			}
			if f.Parent() != nil {
				if !spawned {
					// a closure started by a go statement of a function that is itself part of the
					// claim-set unit (e.g. a helper that looks like a spawn helper)
					eachInstr(f.Parent(), func(in ssa.Instruction) {
						if g, ok := in.(*ssa.Go); ok {
							if mc, ok := g.Call.Value.(*ssa.MakeClosure); ok && mc.Fn == ssa.Value(f) && m.inClaimUnit(topFunc(f.Parent())) {
								spawned = true
								goSite, top = in, topFunc(f.Parent())
							}
						}
					})
				}
				return spawned
			}
			sites := m.callers[f]
			if len(sites) == 0 {
				return spawned
			}
			for _, cs := range sites {
				if cs.IsGo {
					if sp := m.spawnAt(cs.Instr); sp == nil || !m.inClaimUnit(topFunc(sp.Fn)) {
						return false
					}
					continue
				}
				if !viaSpawn(cs.Caller, seen) {
					return false
				}
			}
			return true
		}
		if !viaSpawn(s.fn, map[*ssa.Function]bool{}) || goSite == nil {
			if !m.inClaimUnit(topFunc(s.fn)) {
				c.viol("R1", key, s.in, "OnPromote is invoked outside the claim-set unit(s) %v and not only from a goroutine they start: a promotion callback without a claim transition", fnNames(m.ClaimSet))
			} else {
				c.viol("R1", key, s.in, "the OnPromote invocation is not in a goroutine started by the claim-set unit (a callback under the election mutex deadlocks API calls made from it)")
			}
			continue
		}
		var claimStore ssa.Instruction
		top = m.ownerOf(top)
		m.eachUnitInstr(top, func(in ssa.Instruction) {
			if val, isConst, ok := m.claimStore(in); ok && isConst && val {
				claimStore = in
			}
		})
		c.check(claimStore != nil && m.dominatesLifted(top, claimStore, goSite), "R1", "promotion after claim set in "+shortFn(top), goSite, "claim Store(true) dominates the go statement that runs OnPromote")
		// token argument == value stored to the token field in this unit
		var tokenStored *Sym
		m.eachUnitInstr(top, func(in ssa.Instruction) {
			if call, ok := in.(*ssa.Call); ok {
				if fld, v, ok := m.atomicStore(call); ok && fld == m.Token {
					tokenStored = m.Sym.Of(m.traceValue(v))
				}
			}
		})
		args := s.in.(ssa.CallInstruction).Common().Args
		if tokenStored == nil || len(args) < 2 {
			c.viol("R1", "promotion token in "+shortFn(top), s.in, "the claim-set unit does not store the term token, or OnPromote is called without it")
		} else {
			got := m.Sym.Of(m.traceValue(args[1]))
			c.check(got.String() == tokenStored.String(), "R1", "promotion token in "+shortFn(top), s.in, "OnPromote receives %s; the token field receives %s", got, tokenStored)
		}
	}

	// no promotion while a term is already running: the claim store is guarded by the claim
	// having been read false under the same write-lock hold
	la0 := m.Locks()
	for _, unit := range m.ClaimSet {
		eachInstr(unit, func(in ssa.Instruction) {
			val, isConst, ok := m.claimStore(in)
			if !ok || !isConst || !val {
				return
			}
			guarded := false
			for _, l := range m.GuardsAt(in) {
				if !l.Truth && m.isClaimLoadSym(l.S) {
					if ld, ok := l.S.V.(*ssa.Call); ok && ld.Parent() == unit && la0.MustBefore(ld)[m.implMuW()] && la0.MustBefore(in)[m.implMuW()] && m.sameHold(ld, in, m.path(m.Mu)) {
						guarded = true
					}
				}
			}
			c.check(guarded, "R1", "no promotion while a term is running in "+shortFn(unit), in,
				"claim Store(true) is guarded by claim == false read under the same write-lock hold: %v (otherwise an acquisition that succeeds while the instance leads - e.g. after an outside party deleted its key - runs OnPromote twice in a row and starts a second set of loops)", guarded)
		})
	}

	// ---- R2 no silent demotion -----------------------------------------------------
	nSites := 0
	type start struct {
		fn   *ssa.Function
		in   ssa.Instruction
		desc string
	}
	var starts []start
	for _, f := range m.Funcs {
		if m.isCtorCode(f) {
			continue
		}
		eachInstr(f, func(in ssa.Instruction) {
			if val, isConst, ok := m.claimStore(in); ok && (!isConst || !val) {
				starts = append(starts, start{f, in, "claim cleared in " + shortFn(f)})
			}
		})
	}
	var follow func(f *ssa.Function, at ssa.Instruction, chain []string, depth int)
	visited := map[string]bool{}
	follow = func(f *ssa.Function, at ssa.Instruction, chain []string, depth int) {
		skip := func(b *ssa.BasicBlock, i int) bool {
			l0, ok := m.edgeLit(b, i)
			if !ok {
				return false
			}
			// the literal of the edge and what it implies when it tests a helper's result
			// (`hasCallback` returned by the function that cleared the claim)
			for _, l := range append([]Lit{l0}, m.resultFacts(l0)...) {
				// callback not registered
				if l.Truth && l.S.Op == "bin" && l.S.Name == "==" && (m.symIsFieldValue(l.S.Args[0], m.OnDemote) || m.symIsFieldValue(l.S.Args[1], m.OnDemote)) && symMentions(l.S, "nil") {
					return true
				}
				// the clearing section saw the claim already false
				if m.prevClaimLit(l, false) {
					return true
				}
			}
			return false
		}
		// no exit is exempt: a stop call that gives up (error return) has cleared the claim all the
		// same, and no later Stop reports it
		var okExit func(r *ssa.Return) bool
		ok, exit := mustFollowExit(at, m.isOnDemoteInvocation, skip, okExit)
		key := strings.Join(append(append([]string{}, chain...), shortFn(f)), " <- ")
		if ok {
			nSites++
			c.ok("R2", "demotion notified: "+key, at, "every path from here to the exit of %s invokes OnDemote (skips: callback nil, claim already false)", shortFn(f))
			return
		}
		// second attempt, path by path through the functions f's body is split into: a helper that
		// notifies on some of its paths only (it is told whether to: `if notify { ... }`) and
		// reports through its result which path it took
		if !ok {
			unit := m.unitFns(f)
			permitted := func(l0 Lit) bool {
				cands := append([]Lit{l0}, m.resultFacts(l0)...)
				// a parameter of a single-call-site helper reads as the argument
				if l0.S.V != nil {
					if p, isP := l0.S.V.(*ssa.Parameter); isP {
						if tv := m.traceValue(p); tv != ssa.Value(p) {
							cands = append(cands, m.litOf(tv, l0.Truth, nil))
						}
					}
				}
				for _, l := range cands {
					if l.Truth && l.S.Op == "bin" && l.S.Name == "==" && (m.symIsFieldValue(l.S.Args[0], m.OnDemote) || m.symIsFieldValue(l.S.Args[1], m.OnDemote)) && symMentions(l.S, "nil") {
						return true
					}
					if m.prevClaimLit(l, false) {
						return true
					}
					// NOT (wasLeader && hasCallback): every way the conjunction is false is a permitted skip
					if ph, isPhi := l.S.V.(*ssa.Phi); isPhi && !l.Truth && l.S.Op == "phi" {
						all := len(ph.Edges) > 0
						for i, e := range ph.Edges {
							pred := ph.Block().Preds[i]
							si := 0
							for j, sx := range pred.Succs {
								if sx == ph.Block() {
									si = j
								}
							}
							okEdge := false
							if k, isC := constBool(e); isC && !k {
								for _, el := range m.EdgeLits(pred, si) {
									if m.prevClaimLit(el, false) || (el.Truth && symMentions(el.S, "nil") && (len(el.S.Args) == 2 && (m.symIsFieldValue(el.S.Args[0], m.OnDemote) || m.symIsFieldValue(el.S.Args[1], m.OnDemote)))) {
										okEdge = true
									}
								}
							} else {
								el := m.litOf(e, false, nil)
								if m.prevClaimLit(el, false) || (el.Truth && el.S.Op == "bin" && symMentions(el.S, "nil") && len(el.S.Args) == 2 && (m.symIsFieldValue(el.S.Args[0], m.OnDemote) || m.symIsFieldValue(el.S.Args[1], m.OnDemote))) {
									okEdge = true
								}
							}
							if !okEdge {
								all = false
							}
						}
						if all {
							return true
						}
					}
				}
				return false
			}
			silent := false
			m.descend = func(g *ssa.Function) bool { return containsFn(unit, g) }
			m.edgeHook = func(l Lit, flag int) (int, bool) {
				if permitted(l) {
					return flag, true // a permitted skip: this path needs no notification
				}
				return flag, false
			}
			first := true
			m.exploreFrom(at, 0, func(in ssa.Instruction, flag int) (int, bool) {
				if first {
					first = false
					return flag, false
				}
				if m.invokesFieldValue(in, m.OnDemote) || m.isOnDemoteInvocation(in) {
					return 1, true
				}
				return flag, false
			}, func(last ssa.Instruction, flag int) {
				if ret, isRet := last.(*ssa.Return); isRet && flag == 0 && (ret.Parent() == f || !containsFn(unit, ret.Parent())) {
					silent = true
				}
			})
			m.descend, m.edgeHook = nil, nil
			if !silent {
				ok = true
			}
		}
		if ok {
			nSites++
			c.ok("R2", "demotion notified: "+key, at, "every path from here to the exit of %s (through the functions its body is split into) invokes OnDemote (skips: callback nil, claim already false)", shortFn(f))
			return
		}
		// the obligation moves to the callers
		var sites []CallSite
		for _, cs := range m.callers[f] {
			if cs.IsGo {
				continue
			}
			if !m.mayDemote(f, specFor(cs.Instr, f), 0) {
				continue
			}
			sites = append(sites, cs)
		}
		goRoot := false
		for _, cs := range m.callers[f] {
			if cs.IsGo && m.mayDemote(f, specFor(cs.Instr, f), 0) {
				goRoot = true
			}
		}
		if f.Parent() != nil && len(sites) == 0 {
			// a closure: its root is where it is spawned/called; treat as root
			goRoot = true
		}
		if len(sites) == 0 || goRoot || depth > 6 {
			nSites++
			c.viol("R2", "silent demotion: "+key, at,
				"the leadership claim can be cleared here and the path through %s reaches the end of %s (at %s) without invoking OnDemote, and %s has no caller that does: the application is never told that it lost leadership",
				key, shortFn(f), c.posOf(exit), shortFn(f))
			if len(sites) == 0 || depth > 6 {
				return
			}
		}
		for _, cs := range sites {
			vk := fmt.Sprintf("%p|%s", cs.Instr, key)
			if visited[vk] {
				continue
			}
			visited[vk] = true
			follow(cs.Caller, cs.Instr, append(append([]string{}, chain...), shortFn(f)), depth+1)
		}
	}
	for _, s := range starts {
		// a clear that is a no-op under every specialisation that reaches it is not a demotion
		follow(s.fn, s.in, nil, 0)
	}
	if nSites < 3 {
		c.undecided("R2", "instance-floor", nil, "only %d demotion chains found; at least 3 (demote wrapper, Stop, StopWithContext) exist on the reference tree", nSites)
	}

	// ---- R3 no spurious / double notification ------------------------------------------
	nInv := 0
	for _, f := range m.Funcs {
		eachInstr(f, func(in ssa.Instruction) {
			if !m.invokesFieldValue(in, m.OnDemote) {
				return
			}
			nInv++
			gs := m.AllGuards(in, true)
			ok := false
			for _, l := range gs {
				if m.prevClaimLit(l, true) {
					ok = true
				}
			}
			key := fmt.Sprintf("OnDemote invocation #%d in %s", ordinalOf(f, in, func(x ssa.Instruction) bool { return m.invokesFieldValue(x, m.OnDemote) }), shortFn(f))
			if ok {
				c.ok("R3", key, in, "guarded by 'the clearing critical section saw the claim true'")
			} else {
				c.viol("R3", key, in,
					"OnDemote is invoked without being conditioned on the claim value seen by the critical section that cleared it (guards: %s). Two demotion causes firing together then both notify (double callback), and a cause firing when leadership was already lost notifies spuriously.", fmtLits(gs))
			}
		})
	}
	if nInv < 3 {
		c.undecided("R3", "instance-floor", nil, "only %d OnDemote invocation sites found; 4 exist on the reference tree", nInv)
	}

	// ---- R4 a term's OnDemote is ordered after its OnPromote --------------------------------------
	// "The two strictly alternate, starting with a promotion" is about the order of invocations.
	// OnPromote is invoked in a goroutine the claim-set unit starts; an OnDemote that is invoked
	// synchronously by whoever ends the term needs an ordering edge from that goroutine (a wait that
	// dominates the invocation: the stop units wait for the WaitGroup the goroutine is registered
	// with), or a term that ends before the goroutine is scheduled delivers OnDemote first.
	asyncPromote := false
	var promoteSite ssa.Instruction
	for _, f := range m.Funcs {
		eachInstr(f, func(in ssa.Instruction) {
			if m.invokesFieldValue(in, m.OnPromote) {
				promoteSite = in
				for _, sp := range m.Spawns() {
					if containsFn(sp.Targets, topFunc(f)) || containsFn(sp.Targets, f) {
						asyncPromote = true
					}
				}
			}
		})
	}
	if asyncPromote {
		// waitBefore: an instruction `at` of function g executes after a blocking wait on every path:
		// a wait in g (or the functions its body is split into) dominates it, or g is a closure /
		// goroutine / helper every creation or call site of which does
		var waitBefore func(g *ssa.Function, at ssa.Instruction, depth int) bool
		waitBefore = func(g *ssa.Function, at ssa.Instruction, depth int) bool {
			if depth > 6 {
				return false
			}
			found := false
			eachInstr(g, func(x ssa.Instruction) {
				if x != at && m.isBlockingInstr(x) && dominatesInstr(x, at) {
					found = true
				}
			})
			if found {
				return true
			}
			if g.Parent() != nil {
				if mc := m.Sym.closureOf[g]; mc != nil {
					return waitBefore(mc.Parent(), mc, depth+1)
				}
				return false
			}
			sites := m.callers[g]
			if len(sites) == 0 {
				return false
			}
			for _, cs := range sites {
				if !waitBefore(cs.Caller, cs.Instr, depth+1) {
					return false
				}
			}
			return true
		}
		// stopSide: every chain of creation / call sites of g ends in a stop unit
		var stopSide func(g *ssa.Function, depth int) bool
		stopSide = func(g *ssa.Function, depth int) bool {
			if depth > 6 {
				return false
			}
			if containsFn(m.StopUnits, g) {
				return true
			}
			if g.Parent() != nil {
				return stopSide(g.Parent(), depth+1)
			}
			sites := m.callers[g]
			if len(sites) == 0 {
				return false
			}
			for _, cs := range sites {
				if !stopSide(cs.Caller, depth+1) {
					return false
				}
			}
			return true
		}
		var unordered, stopUnordered []string
		var firstBad, firstStopBad ssa.Instruction
		nOther, nStop := 0, 0
		for _, f := range m.Funcs {
			eachInstr(f, func(in ssa.Instruction) {
				if !m.invokesFieldValue(in, m.OnDemote) {
					return
				}
				ordered := waitBefore(f, in, 0)
				if stopSide(f, 0) {
					nStop++
					if !ordered {
						stopUnordered = append(stopUnordered, shortFn(f)+" at "+c.posOf(in))
						if firstStopBad == nil {
							firstStopBad = in
						}
					}
					return
				}
				nOther++
				if !ordered {
					unordered = append(unordered, shortFn(f)+" at "+c.posOf(in))
					if firstBad == nil {
						firstBad = in
					}
				}
			})
		}
		if nStop > 0 {
			// one obligation for the stop side, keyed independently of the helpers the invocations sit in
			sort.Strings(stopUnordered)
			c.check(len(stopUnordered) == 0, "R4", "OnDemote of a stop call is ordered after the term's OnPromote", firstStopBad, "%d invocation sites reached only from the stop units; not preceded on every path by a wait (the stop's wait for the WaitGroup the promotion goroutine is registered with): %v", nStop, stopUnordered)
		}
		if nOther > 0 {
			sort.Strings(unordered)
			c.check(len(unordered) == 0, "R4", "OnDemote of a demotion is ordered after the term's OnPromote", firstBad, "OnPromote is invoked in its own goroutine (%s); demotion-side invocations of OnDemote that no wait (receive, select, WaitGroup) orders after it: %v. A term that ends before the promotion goroutine is scheduled (an application that calls ValidateTokenOrDemote as soon as IsLeader() turns true, a record deleted right after the acquisition) delivers OnDemote BEFORE that term's OnPromote.", c.posOf(promoteSite), unordered)
		}
	}
}

func fnNames(fs []*ssa.Function) []string {
	var out []string
	for _, f := range fs {
		out = append(out, shortFn(f))
	}
	return out
}
