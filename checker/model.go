package main

import (
	"fmt"
	"go/constant"
	"go/types"
	"sort"
	"strings"

	"golang.org/x/tools/go/ssa"
)

// Model holds the anchors of the analysed library, derived from its exported API
// and from types (DESIGN §3.1), never looked up by internal name.
type Model struct {
	P   *Program
	Sym *Symbolizer

	Impl     *types.Named // the election implementation (implements Election)
	ImplName string
	Ctor     *ssa.Function // the function allocating Impl

	// field names of Impl, by role
	Claim, Token, LeaderID, State, Revision string
	OnPromote, OnDemote                     string
	KV, Key, Cfg                            string
	Ctx, Cancel, TermCancel, TermCtx, WG, Mu string
	HealthCounter                           string
	ConnMonitor, DiscHandler                string

	KVIface      *types.Named // the KeyValue interface
	WatcherIface *types.Named
	EntryIface   *types.Named

	StateConsts map[string]string // exported State* const name -> value

	Funcs []*ssa.Function // all library functions with bodies

	// units (functions by role)
	ClaimSet    []*ssa.Function // own the critical section containing claim.Store(true)
	ClaimStoreFns []*ssa.Function // contain claim.Store(true)
	nonNilDepth int
	ClaimClear  []*ssa.Function // contain claim.Store(false), constructor excluded
	StopCores   []*ssa.Function // claim-clear units that also invoke the election cancel
	StopUnits   []*ssa.Function // stop cores and the exported methods that reach one
	DemoteUnits []*ssa.Function // non-stop claim-clear units

	curSpec       map[string]bool // specialisation of the function whose facts are being computed
	termBoundMemo map[*ssa.Function]int
	callers map[*ssa.Function][]CallSite // static call / go / defer sites inside the library
	guards  map[*ssa.BasicBlock][]Lit
	facts   map[factKey]factResult
	demoteMemo map[string]bool
	validateFn *ssa.Function
	storeReach map[*ssa.Function]bool
	ownershipExtras map[*ssa.Function][]string
	fieldTaint map[string]bool
	ctorCode map[*ssa.Function]bool
	validatorAccept map[string]bool
	spawns []Spawn
	mustBlockMemo map[*ssa.Function]bool
	rfOnStack map[*ssa.Function]bool
	rpMemo map[string][]map[string]Lit
	justDepth int
	awaitedMemo map[ssa.Instruction]bool
	ownerMemo map[*ssa.Function]bool
	notifyMemo map[*ssa.Function]bool
	edgeHook func(l Lit, flag int) (int, bool)
	descend func(f *ssa.Function) bool
	assumeNil map[ssa.Value]bool
	assume map[ssa.Value]bool
	refreshFn *ssa.Function
	unitMemo map[*ssa.Function][]*ssa.Function
	onceRoots map[*ssa.Function]bool
	la      *LockAnalysis

	problems []string
}

// CallSite is a static call, go or defer of a library function from library code.
type CallSite struct {
	Caller *ssa.Function
	Instr  ssa.CallInstruction
	Callee *ssa.Function
	IsGo   bool
	IsDef  bool
}

func (m *Model) problem(format string, a ...any) {
	m.problems = append(m.problems, fmt.Sprintf(format, a...))
}

func (m *Model) implPtr() types.Type { return types.NewPointer(m.Impl) }

func (m *Model) method(name string) *ssa.Function {
	sel := m.P.Prog.MethodSets.MethodSet(m.implPtr()).Lookup(m.P.Leader.Pkg, name)
	if sel == nil {
		return nil
	}
	return m.P.Prog.MethodValue(sel)
}

func namedOf(t types.Type) *types.Named {
	if p, ok := t.(*types.Pointer); ok {
		t = p.Elem()
	}
	n, _ := t.(*types.Named)
	return n
}

func isNamed(t types.Type, pkgPath, name string) bool {
	n := namedOf(t)
	if n == nil || n.Obj().Pkg() == nil {
		return false
	}
	return n.Obj().Pkg().Path() == pkgPath && n.Obj().Name() == name
}

func buildModel(p *Program) *Model {
	m := &Model{P: p, Sym: newSymbolizer(p), StateConsts: map[string]string{}, guards: map[*ssa.BasicBlock][]Lit{}, facts: map[factKey]factResult{}, demoteMemo: map[string]bool{}, storeReach: map[*ssa.Function]bool{}, ownershipExtras: map[*ssa.Function][]string{}, ctorCode: map[*ssa.Function]bool{}}
	m.Funcs = p.libFuncs()
	lp := p.Leader

	// interfaces of the store abstraction
	getIface := func(name string) *types.Named {
		if t := lp.Type(name); t != nil {
			if n, ok := t.Type().(*types.Named); ok {
				if _, ok := n.Underlying().(*types.Interface); ok {
					return n
				}
			}
		}
		m.problem("exported interface %s not found", name)
		return nil
	}
	elIface := getIface("Election")
	m.KVIface = getIface("KeyValue")
	m.WatcherIface = getIface("Watcher")
	m.EntryIface = getIface("Entry")
	if elIface == nil || m.KVIface == nil {
		return m
	}

	// Impl: the unique struct type of the package whose pointer implements Election
	var impls []*types.Named
	for _, mem := range lp.Members {
		if t, ok := mem.(*ssa.Type); ok {
			if n, ok := t.Type().(*types.Named); ok {
				if _, ok := n.Underlying().(*types.Struct); ok {
					if types.Implements(types.NewPointer(n), elIface.Underlying().(*types.Interface)) {
						impls = append(impls, n)
					}
				}
			}
		}
	}
	if len(impls) != 1 {
		m.problem("expected exactly one implementation of Election in the library, found %d", len(impls))
		return m
	}
	m.Impl = impls[0]
	m.ImplName = m.Impl.Obj().Name()
	st := m.Impl.Underlying().(*types.Struct)

	// fields by type
	var cancels, atomicBools, ctxs []string
	for i := 0; i < st.NumFields(); i++ {
		f := st.Field(i)
		t := f.Type()
		switch {
		case isNamed(t, lp.Pkg.Path(), "KeyValue"):
			m.KV = f.Name()
		case isNamed(t, lp.Pkg.Path(), "ElectionConfig"):
			m.Cfg = f.Name()
		case isNamed(t, "context", "Context"):
			ctxs = append(ctxs, f.Name())
		case isNamed(t, "context", "CancelFunc"):
			cancels = append(cancels, f.Name())
		case isNamed(t, "sync", "WaitGroup"):
			m.WG = f.Name()
		case isNamed(t, "sync", "RWMutex"), isNamed(t, "sync", "Mutex"):
			m.Mu = f.Name()
		case isNamed(t, "sync/atomic", "Uint64"):
			m.Revision = f.Name()
		case isNamed(t, "sync/atomic", "Int32"):
			m.HealthCounter = f.Name()
		case isNamed(t, "sync/atomic", "Bool"):
			atomicBools = append(atomicBools, f.Name())
		case isNamed(t, lp.Pkg.Path(), "ConnectionMonitor"):
			m.ConnMonitor = f.Name()
		case isNamed(t, lp.Pkg.Path(), "disconnectHandler") || (namedOf(t) != nil && strings.Contains(strings.ToLower(namedOf(t).Obj().Name()), "disconnect")):
			m.DiscHandler = f.Name()
		}
	}

	// Ctor: the (single) function allocating Impl
	var ctors []*ssa.Function
	for _, f := range m.Funcs {
		for _, b := range f.Blocks {
			for _, in := range b.Instrs {
				if al, ok := in.(*ssa.Alloc); ok && al.Heap {
					if n := namedOf(al.Type()); n == m.Impl && !containsFn(ctors, f) {
						ctors = append(ctors, f)
					}
				}
			}
		}
	}
	switch len(ctors) {
	case 0:
		m.problem("no function allocating %s found", m.ImplName)
	case 1:
		m.Ctor = ctors[0]
	default:
		m.Ctor = ctors[0]
		var names []string
		for _, f := range ctors {
			names = append(names, shortFn(f))
		}
		m.problem("%s is allocated in %d functions (%s): every rule about 'the constructor' (validation before anything else, init-only fields) assumes exactly one", m.ImplName, len(ctors), strings.Join(names, ", "))
	}

	// fields by accessor: the field an API method loads / stores
	m.Claim = m.fieldLoadedBy("IsLeader", "sync/atomic", "Bool")
	m.Token = m.fieldLoadedBy("Token", "sync/atomic", "Value")
	m.LeaderID = m.fieldLoadedBy("LeaderID", "sync/atomic", "Value")
	m.OnPromote = m.fieldStoredBy("OnPromote")
	m.OnDemote = m.fieldStoredBy("OnDemote")
	_ = atomicBools

	// state constants and the state field: the atomic.Value field that receives the value of StateStopped
	for _, mem := range lp.Members {
		if c, ok := mem.(*ssa.NamedConst); ok && strings.HasPrefix(c.Name(), "State") && c.Value.Value != nil && c.Value.Value.Kind() == constant.String {
			m.StateConsts[c.Name()] = constant.StringVal(c.Value.Value)
		}
	}
	stopped, okStopped := m.StateConsts["StateStopped"]
	if !okStopped {
		m.problem("exported constant StateStopped not found")
	}
	stateFields := map[string]bool{}
	for _, f := range m.Funcs {
		for _, b := range f.Blocks {
			for _, in := range b.Instrs {
				c, ok := in.(*ssa.Call)
				if !ok {
					continue
				}
				if fld, val, ok := m.atomicStore(c); ok {
					if k, ok := val.(*ssa.Const); ok && k.Value != nil && k.Value.Kind() == constant.String && constant.StringVal(k.Value) == stopped {
						stateFields[fld] = true
					}
				}
			}
		}
	}
	if len(stateFields) == 1 {
		for k := range stateFields {
			m.State = k
		}
	} else {
		m.problem("state field not identified (fields receiving StateStopped: %v)", keys(stateFields))
	}

	// key: the string field of Impl that is argument 0 of every store operation
	keyFields := map[string]bool{}
	for _, op := range m.StoreOps() {
		if len(op.Call.Call.Args) > 0 {
			s := m.Sym.Of(op.Call.Call.Args[0])
			if s.Op == "path" && strings.HasPrefix(s.Name, m.ImplName+".") {
				keyFields[strings.TrimPrefix(s.Name, m.ImplName+".")] = true
			}
		}
	}
	if len(keyFields) == 1 {
		for k := range keyFields {
			m.Key = k
		}
	} else {
		m.problem("key field not identified (candidates %v)", keys(keyFields))
	}

	// cancel vs termCancel: the election cancel is the one stored in the exported Start method
	if start := m.method("Start"); start != nil {
		for _, b := range start.Blocks {
			for _, in := range b.Instrs {
				if s, ok := in.(*ssa.Store); ok {
					a := m.Sym.Of(s.Addr)
					for _, c := range cancels {
						if a.Op == "addr" && a.Name == m.ImplName+"."+c {
							m.Cancel = c
						}
					}
					// likewise the election context (a second context field is the term's)
					for _, c := range ctxs {
						if a.Op == "addr" && a.Name == m.ImplName+"."+c {
							m.Ctx = c
						}
					}
				}
			}
		}
	}
	for _, c := range cancels {
		if c != m.Cancel {
			m.TermCancel = c
		}
	}
	if m.Ctx == "" && len(ctxs) == 1 {
		m.Ctx = ctxs[0]
	}
	for _, c := range ctxs {
		if c != m.Ctx {
			m.TermCtx = c
		}
	}

	for name, v := range map[string]string{"claim": m.Claim, "token": m.Token, "leaderID": m.LeaderID, "state": m.State, "revision": m.Revision,
		"onPromote": m.OnPromote, "onDemote": m.OnDemote, "kv": m.KV, "key": m.Key, "cfg": m.Cfg, "ctx": m.Ctx, "cancel": m.Cancel, "wg": m.WG, "mu": m.Mu} {
		if v == "" {
			m.problem("anchor %q of %s not resolved", name, m.ImplName)
		}
	}

	m.buildCallers()
	m.buildUnits()
	return m
}

func keys(m map[string]bool) []string {
	var out []string
	for k := range m {
		out = append(out, k)
	}
	sort.Strings(out)
	return out
}

// implField returns the field name if addr is &Impl.<field>.
func (m *Model) implField(addr ssa.Value) (string, bool) {
	s := m.Sym.Of(addr)
	if s.Op == "addr" && strings.HasPrefix(s.Name, m.ImplName+".") {
		rest := strings.TrimPrefix(s.Name, m.ImplName+".")
		if !strings.Contains(rest, ".") {
			return rest, true
		}
	}
	return "", false
}

// atomicCall recognises sync/atomic method calls on an Impl field: returns field, method.
func (m *Model) atomicCall(c *ssa.Call) (field, method string, ok bool) {
	f := c.Call.StaticCallee()
	if f == nil || f.Pkg == nil || f.Pkg.Pkg.Path() != "sync/atomic" || len(c.Call.Args) == 0 {
		return "", "", false
	}
	fld, ok := m.implField(c.Call.Args[0])
	if !ok {
		return "", "", false
	}
	return fld, f.Name(), true
}

// atomicStore recognises <Impl.field>.Store(v).
func (m *Model) atomicStore(c *ssa.Call) (field string, val ssa.Value, ok bool) {
	fld, meth, ok := m.atomicCall(c)
	if !ok || meth != "Store" || len(c.Call.Args) < 2 {
		return "", nil, false
	}
	v := c.Call.Args[1]
	if mi, ok := v.(*ssa.MakeInterface); ok {
		v = mi.X
	}
	return fld, v, true
}

func (m *Model) isAtomicLoadOf(v ssa.Value, field string) bool {
	c, ok := v.(*ssa.Call)
	if !ok {
		return false
	}
	fld, meth, ok := m.atomicCall(c)
	return ok && fld == field && meth == "Load"
}

func (m *Model) fieldLoadedBy(method, pkg, typ string) string {
	f := m.method(method)
	if f == nil {
		m.problem("API method %s not found on %s", method, m.ImplName)
		return ""
	}
	found := map[string]bool{}
	for _, b := range f.Blocks {
		for _, in := range b.Instrs {
			if c, ok := in.(*ssa.Call); ok {
				if fld, meth, ok := m.atomicCall(c); ok && meth == "Load" {
					found[fld] = true
				}
				// the load may sit in a helper that is handed the field's address (loadString(&e.token))
				if g := c.Call.StaticCallee(); g != nil && m.isLib(g) {
					for _, a := range c.Call.Args {
						if fld, ok := m.implField(a); ok {
							if pt, isPtr := a.Type().Underlying().(*types.Pointer); isPtr && isNamed(pt.Elem(), pkg, typ) {
								found[fld] = true
							}
						}
					}
				}
			}
		}
	}
	if len(found) != 1 {
		m.problem("API method %s loads %d atomic fields, expected 1", method, len(found))
		return ""
	}
	for k := range found {
		return k
	}
	return ""
}

func (m *Model) fieldStoredBy(method string) string {
	f := m.method(method)
	if f == nil {
		m.problem("API method %s not found on %s", method, m.ImplName)
		return ""
	}
	found := map[string]bool{}
	// the method itself and the closures it creates (a registration written as
	// setCallbacks(func() { e.onPromote = fn }) stores in a closure)
	var fns []*ssa.Function
	var addFn func(g *ssa.Function)
	addFn = func(g *ssa.Function) {
		fns = append(fns, g)
		for _, a := range g.AnonFuncs {
			addFn(a)
		}
	}
	addFn(f)
	for _, g := range fns {
		for _, b := range g.Blocks {
			for _, in := range b.Instrs {
				if s, ok := in.(*ssa.Store); ok {
					if fld, ok := m.implField(s.Addr); ok {
						found[fld] = true
					}
				}
			}
		}
	}
	if len(found) != 1 {
		m.problem("API method %s stores %d fields, expected 1", method, len(found))
		return ""
	}
	for k := range found {
		return k
	}
	return ""
}

// StoreOp is a call through the KeyValue interface from library code.
type StoreOp struct {
	Extension string // method name if the operation goes through an extension interface of the store handle
	Fn     *ssa.Function
	Call   *ssa.Call
	Method string
}

func (m *Model) StoreOps() []StoreOp {
	var out []StoreOp
	for _, f := range m.Funcs {
		for _, b := range f.Blocks {
			for _, in := range b.Instrs {
				c, ok := in.(*ssa.Call)
				if !ok || !c.Call.IsInvoke() {
					continue
				}
				if namedOf(c.Call.Value.Type()) == m.KVIface {
					out = append(out, StoreOp{Fn: f, Call: c, Method: c.Call.Method.Name()})
				} else if m.isKVExtension(c.Call.Value) {
					// a method of an optional extension interface asserted from the store handle
					// (e.g. DeleteRevision): classified by the KeyValue operation its name starts with
					name := c.Call.Method.Name()
					meth := "Ext:" + name
					for _, base := range []string{"Create", "Update", "Get", "Delete", "Watch"} {
						if strings.HasPrefix(name, base) {
							meth = base
						}
					}
					out = append(out, StoreOp{Fn: f, Call: c, Method: meth, Extension: name})
				}
			}
		}
	}
	return out
}

// isKVCall reports whether v is a call of the given KeyValue method.
func (m *Model) isKVCall(v ssa.Value, method string) (*ssa.Call, bool) {
	c, ok := v.(*ssa.Call)
	if !ok || !c.Call.IsInvoke() {
		return nil, false
	}
	if namedOf(c.Call.Value.Type()) != m.KVIface {
		// an extension interface asserted from the store handle counts as the operation whose
		// name it starts with
		if !m.isKVExtension(c.Call.Value) {
			return nil, false
		}
		if method != "" && !strings.HasPrefix(c.Call.Method.Name(), method) {
			return nil, false
		}
		return c, true
	}
	if method != "" && c.Call.Method.Name() != method {
		return nil, false
	}
	return c, true
}

// isKVExtension: v is the store handle type-asserted to another interface (x, ok := kv.(I)).
func (m *Model) isKVExtension(v ssa.Value) bool {
	for i := 0; i < 4; i++ {
		switch x := v.(type) {
		case *ssa.Extract:
			v = x.Tuple
			continue
		case *ssa.TypeAssert:
			if _, isIface := x.AssertedType.Underlying().(*types.Interface); !isIface {
				return false
			}
			return namedOf(x.X.Type()) == m.KVIface
		}
		break
	}
	return false
}

func (m *Model) buildCallers() {
	m.callers = map[*ssa.Function][]CallSite{}
	lib := map[*ssa.Function]bool{}
	for _, f := range m.Funcs {
		lib[f] = true
	}
	for _, f := range m.Funcs {
		for _, b := range f.Blocks {
			for _, in := range b.Instrs {
				ci, ok := in.(ssa.CallInstruction)
				if !ok {
					continue
				}
				cc := ci.Common()
				var callee *ssa.Function
				if sc := cc.StaticCallee(); sc != nil {
					callee = sc
				}
				if callee == nil || !lib[callee] {
					continue
				}
				_, isGo := in.(*ssa.Go)
				_, isDef := in.(*ssa.Defer)
				m.callers[callee] = append(m.callers[callee], CallSite{Caller: f, Instr: ci, Callee: callee, IsGo: isGo, IsDef: isDef})
			}
		}
	}
}

// topFunc returns the outermost enclosing named function of a closure.
func topFunc(f *ssa.Function) *ssa.Function {
	for f.Parent() != nil {
		f = f.Parent()
	}
	return f
}

func (m *Model) buildUnits() {
	for _, f := range m.Funcs {
		var setsTrue, setsFalse, callsCancel, storesStopped bool
		for _, b := range f.Blocks {
			for _, in := range b.Instrs {
				switch in := in.(type) {
				case *ssa.Call:
					if fld, meth, ok := m.atomicCall(in); ok && fld == m.Claim {
						switch meth {
						case "Store", "Swap":
							if k, ok := in.Call.Args[1].(*ssa.Const); ok && k.Value != nil && k.Value.Kind() == constant.Bool {
								if constant.BoolVal(k.Value) {
									setsTrue = true
								} else {
									setsFalse = true
								}
							} else {
								setsTrue, setsFalse = true, true // non-constant store: both
							}
						case "CompareAndSwap":
							setsTrue, setsFalse = true, true
						}
					}
					if fld, v, ok := m.atomicStore(in); ok && fld == m.State {
						if str, isC := constStr(v); isC && str == m.StateConsts["StateStopped"] {
							storesStopped = true
						}
					}
					if !in.Call.IsInvoke() && in.Call.StaticCallee() == nil {
						if s := m.Sym.Of(in.Call.Value); s.Op == "path" && s.Name == m.ImplName+"."+m.Cancel {
							callsCancel = true
						}
					}
				}
			}
		}
		if setsTrue {
			m.ClaimStoreFns = append(m.ClaimStoreFns, f)
		}
		if setsFalse && !m.isCtorCode(f) {
			m.ClaimClear = append(m.ClaimClear, f)
			// a stop core marks the election STOPPED (the cancel call may sit in the exported method)
			if storesStopped || callsCancel {
				m.StopCores = append(m.StopCores, f)
			} else {
				m.DemoteUnits = append(m.DemoteUnits, f)
			}
		}
	}
	// claim-set units: the function that owns the critical section in which the claim is set -
	// the storing function itself, or, if that is an unexported helper with a single call site
	// (the section split into phases), the function it was split out of
	for _, f := range m.ClaimStoreFns {
		owner := f
		for i := 0; i < 4; i++ {
			if obj := owner.Object(); owner.Parent() != nil || (obj != nil && obj.Exported()) {
				break
			}
			if m.acquiresElectionMutex(owner) {
				break // the function that takes the lock owns the critical section
			}
			sites := m.callers[owner]
			if len(sites) != 1 || sites[0].IsGo || sites[0].IsDef {
				break
			}
			owner = sites[0].Caller
		}
		if !containsFn(m.ClaimSet, owner) {
			m.ClaimSet = append(m.ClaimSet, owner)
		}
	}
	// stop units: the stop cores (clear the claim and cancel the election) and the API
	// methods that reach a core through static calls (a shared shutdown helper keeps the
	// waits and the deletion in the exported methods)
	m.StopUnits = append(m.StopUnits, m.StopCores...)
	if m.Impl != nil {
		ms := m.P.Prog.MethodSets.MethodSet(m.implPtr())
		for i := 0; i < ms.Len(); i++ {
			f := m.P.Prog.MethodValue(ms.At(i))
			if f == nil || f.Blocks == nil || !ms.At(i).Obj().Exported() || containsFn(m.StopUnits, f) {
				continue
			}
			for g := range m.staticReachNoModel(f) {
				if containsFn(m.StopCores, g) {
					m.StopUnits = append(m.StopUnits, f)
					break
				}
			}
		}
	}
	sort.Slice(m.StopUnits, func(i, j int) bool { return m.StopUnits[i].Pos() < m.StopUnits[j].Pos() })
}

// staticReachNoModel: functions reachable through static calls (not go), usable while the model is being built.
func (m *Model) staticReachNoModel(f *ssa.Function) map[*ssa.Function]bool {
	seen := map[*ssa.Function]bool{}
	var walk func(g *ssa.Function)
	walk = func(g *ssa.Function) {
		if g == nil || seen[g] || g.Blocks == nil || !m.isLib(g) {
			return
		}
		seen[g] = true
		for _, b := range g.Blocks {
			for _, in := range b.Instrs {
				if _, isGo := in.(*ssa.Go); isGo {
					continue
				}
				if ci, ok := in.(ssa.CallInstruction); ok {
					if sc := ci.Common().StaticCallee(); sc != nil {
						walk(sc)
					}
				}
			}
		}
	}
	walk(f)
	return seen
}

func containsFn(fs []*ssa.Function, f *ssa.Function) bool {
	for _, x := range fs {
		if x == f {
			return true
		}
	}
	return false
}

// shortFn is the function name used in construct keys: "(*T).method", "func", closures "parent$1".
func shortFn(f *ssa.Function) string {
	if f == nil {
		return "?"
	}
	n := f.String()
	if f.Pkg != nil {
		n = strings.ReplaceAll(n, f.Pkg.Pkg.Path()+".", "")
	} else if f.Parent() != nil && topFunc(f).Pkg != nil {
		n = strings.ReplaceAll(n, topFunc(f).Pkg.Pkg.Path()+".", "")
	}
	return n
}

func (m *Model) describe() string {
	var b strings.Builder
	fmt.Fprintf(&b, "Impl=%s ctor=%s claim=%s token=%s leaderID=%s state=%s revision=%s onPromote=%s onDemote=%s kv=%s key=%s cfg=%s ctx=%s cancel=%s termCancel=%s wg=%s mu=%s health=%s monitor=%s handler=%s\n",
		m.ImplName, shortFn(m.Ctor), m.Claim, m.Token, m.LeaderID, m.State, m.Revision, m.OnPromote, m.OnDemote, m.KV, m.Key, m.Cfg, m.Ctx, m.Cancel, m.TermCancel, m.WG, m.Mu, m.HealthCounter, m.ConnMonitor, m.DiscHandler)
	names := func(fs []*ssa.Function) string {
		var s []string
		for _, f := range fs {
			s = append(s, shortFn(f))
		}
		return strings.Join(s, ", ")
	}
	fmt.Fprintf(&b, "claim-set units: %s\nclaim-clear units: %s\nstop units: %s\ndemote units: %s\n", names(m.ClaimSet), names(m.ClaimClear), names(m.StopUnits), names(m.DemoteUnits))
	for _, op := range m.StoreOps() {
		fmt.Fprintf(&b, "store op %s in %s at %s\n", op.Method, shortFn(op.Fn), m.P.pos(op.Call.Pos()))
	}
	if len(m.problems) > 0 {
		fmt.Fprintf(&b, "PROBLEMS: %s\n", strings.Join(m.problems, "; "))
	}
	return b.String()
}

// isCtorCode: the constructor, or a function called only from constructor code (helpers such
// as initAtomics / attachMonitor that run before the object is published).
func (m *Model) isCtorCode(f *ssa.Function) bool {
	if f == nil || m.Ctor == nil {
		return false
	}
	if v, ok := m.ctorCode[f]; ok {
		return v
	}
	m.ctorCode[f] = false // cycle guard
	res := f == m.Ctor
	if !res {
		t := topFunc(f)
		if t != f {
			res = m.isCtorCode(t)
		} else if sites := m.callers[f]; len(sites) > 0 {
			res = true
			for _, cs := range sites {
				if cs.IsGo || !m.isCtorCode(topFunc(cs.Caller)) {
					res = false
				}
			}
			// a function that is also reachable as a value (method value, interface) is not constructor-only
			if n := m.P.CG.Nodes[f]; n != nil {
				for _, e := range n.In {
					if e.Site == nil || e.Site.Common().StaticCallee() != f {
						res = false
					}
				}
			}
		}
	}
	m.ctorCode[f] = res
	return res
}


// acquiresElectionMutex: f itself contains a write-lock acquisition of the election mutex.
func (m *Model) acquiresElectionMutex(f *ssa.Function) bool {
	found := false
	for _, b := range f.Blocks {
		for _, in := range b.Instrs {
			if call, ok := in.(*ssa.Call); ok {
				if op, ok := m.lockOpOf(&call.Call); ok && op.Kind == "Lock" && op.ID == m.path(m.Mu) {
					found = true
				}
			}
		}
	}
	return found
}
