package main

import (
	"encoding/json"
	"fmt"
	"os"
	"reflect"
	"path/filepath"
	"runtime/debug"
	"sort"
	"strings"
	"time"

	"golang.org/x/tools/go/ssa"
)

// Ctx is handed to the rules of one property.
type Ctx struct {
	P    *Program
	M    *Model
	Prop string
	obls []Obligation
}

func (c *Ctx) add(rule, construct string, pos string, v Verdict, format string, a ...any) {
	c.obls = append(c.obls, Obligation{Property: c.Prop, Rule: c.Prop + "-" + rule, Construct: construct, Pos: pos, Verdict: v, Detail: fmt.Sprintf(format, a...)})
}

func (c *Ctx) ok(rule, construct string, at ssa.Instruction, format string, a ...any) {
	c.add(rule, construct, c.posOf(at), OK, format, a...)
}
func (c *Ctx) viol(rule, construct string, at ssa.Instruction, format string, a ...any) {
	c.add(rule, construct, c.posOf(at), VIOLATION, format, a...)
}
func (c *Ctx) undecided(rule, construct string, at ssa.Instruction, format string, a ...any) {
	c.add(rule, construct, c.posOf(at), UNDECIDED, format, a...)
}

// check records OK or VIOLATION depending on cond.
func (c *Ctx) check(cond bool, rule, construct string, at ssa.Instruction, format string, a ...any) bool {
	if cond {
		c.ok(rule, construct, at, format, a...)
	} else {
		c.viol(rule, construct, at, format, a...)
	}
	return cond
}

func (c *Ctx) posOf(at ssa.Instruction) string {
	if at == nil || reflect.ValueOf(at).IsNil() {
		return "-"
	}
	if p := at.Pos(); p.IsValid() {
		return c.P.pos(p)
	}
	// instructions without position: use the nearest positioned instruction of the block
	if b := at.Block(); b != nil {
		for _, in := range b.Instrs {
			if in.Pos().IsValid() {
				return c.P.pos(in.Pos()) + "~"
			}
		}
	}
	if at.Parent() != nil {
		return c.P.pos(at.Parent().Pos()) + "~"
	}
	return "-"
}

func (c *Ctx) fnPos(f *ssa.Function) string {
	if f == nil {
		return "-"
	}
	return c.P.pos(f.Pos())
}

// floor fails the check if a rule produced fewer instances than were confirmed by
// hand on the reference tree: a rule that matches nothing would pass vacuously.
func (c *Ctx) floor(rule string, n int) {
	cnt := 0
	for _, o := range c.obls {
		if o.Rule == c.Prop+"-"+rule {
			cnt++
		}
	}
	if cnt < n {
		c.add(rule, "instance-floor", "-", UNDECIDED, "rule matched %d instances, fewer than the %d confirmed on the reference tree: the anchors this rule instantiates over were not found", cnt, n)
	}
}

// PropertySpec describes one property's check.
type PropertySpec struct {
	ID          string
	Level       string // evidence level
	Run         func(c *Ctx)
	Explanation string   // what structural part is decided
	NotDecided  []string // clauses of the property this check does not decide
	Assumptions []string
	Rules       map[string]string // rule id -> rule text
}

var registry = map[string]*PropertySpec{}

func register(s *PropertySpec) { registry[s.ID] = s }

func ruleText(prop, rule string) string {
	if s := registry[prop]; s != nil {
		r := strings.TrimPrefix(rule, prop+"-")
		if t, ok := s.Rules[r]; ok {
			return t
		}
	}
	return ""
}

func propertyIDs() []string {
	var ids []string
	for id := range registry {
		ids = append(ids, id)
	}
	sort.Strings(ids)
	return ids
}

// evalProperty runs one property's rules on a loaded program. Panics in a rule are
// reported as UNDECIDED, never as a pass.
func evalProperty(p *Program, id string) (res *PropertyResult) {
	res = &PropertyResult{Property: id}
	spec := registry[id]
	if spec == nil {
		res.Err = fmt.Errorf("unknown property %s", id)
		return
	}
	m := p.model()
	c := &Ctx{P: p, M: m, Prop: id}
	defer func() {
		if r := recover(); r != nil {
			c.add("R0", "checker-panic", "-", UNDECIDED, "checker panicked: %v\n%s", r, clip(string(debug.Stack()), 1500))
		}
		sortObls(c.obls)
		res.Obls = c.obls
	}()
	if len(m.problems) > 0 {
		for _, pr := range m.problems {
			c.add("R0", "anchor: "+pr, "-", UNDECIDED, "anchor derivation failed (DESIGN §3.1): %s", pr)
		}
		return
	}
	spec.Run(c)
	return
}

func (p *Program) model() *Model {
	if p.mdl == nil {
		p.mdl = buildModel(p)
	}
	return p.mdl
}

func runProperties(cfg LoadConfig, prop string, opts RunOptions) int {
	ids := []string{prop}
	if prop == "all" {
		ids = propertyIDs()
	}
	for _, id := range ids {
		if registry[id] == nil {
			fmt.Fprintf(os.Stderr, "unknown property %q (have %v)\n", id, propertyIDs())
			return 2
		}
	}
	known, kerr := loadKnown(opts.VerifDir)
	prog, err := loadProgram(cfg)
	rc := 0
	for _, id := range ids {
		var res *PropertyResult
		if err != nil {
			res = &PropertyResult{Property: id, Obls: []Obligation{{Property: id, Rule: id + "-R0", Construct: "load", Pos: "-", Verdict: UNDECIDED, Detail: "the repository could not be loaded and type-checked: " + err.Error()}}}
		} else {
			res = evalProperty(prog, id)
		}
		if kerr != nil {
			res.Obls = append(res.Obls, Obligation{Property: id, Rule: id + "-R0", Construct: "known_findings.json", Pos: "-", Verdict: UNDECIDED, Detail: kerr.Error()})
		}
		var extra *ThoroughResult
		if opts.Tier == "thorough" && err == nil {
			extra = runThorough(prog, id, res, opts)
			res.Obls = append(res.Obls, extra.Obls...)
		}
		if report(prog, cfg, id, res, known, opts, extra) != 0 {
			rc = 1
		}
	}
	return rc
}

// report prints the verdict lines, writes replay files and the evidence file.
func report(prog *Program, cfg LoadConfig, id string, res *PropertyResult, known []KnownFinding, opts RunOptions, extra *ThoroughResult) int {
	spec := registry[id]
	openKnown := map[string]KnownFinding{}
	for _, k := range known {
		if k.Property == id && k.Status == "open" {
			openKnown[k.Rule+" :: "+k.Construct] = k
		}
	}
	nOK, nViol, nKnown := 0, 0, 0
	var samples []any
	usedKnown := map[string]bool{}
	for _, o := range res.Obls {
		switch {
		case o.Verdict == OK:
			nOK++
			if opts.ListAll {
				fmt.Printf("OK         %-28s %s  [%s] %s\n", o.Pos, o.Key(), id, clip(o.Detail, 220))
			}
		default:
			if k, ok := openKnown[o.Key()]; ok {
				nKnown++
				usedKnown[o.Key()] = true
				fmt.Printf("KNOWN-FINDING: property=%s %s at %s: %s\n", id, o.Key(), o.Pos, clip(k.What, 300))
				continue
			}
			nViol++
			path := writeReplay(opts.VerifDir, cfg, o)
			fmt.Printf("%s %s  %s\n    %s\n", o.Verdict, o.Pos, o.Key(), clip(o.Detail, 600))
			fmt.Printf("VIOLATION property=%s replay=%s\n", id, path)
		}
	}
	for key, k := range openKnown {
		if !usedKnown[key] && !opts.Quiet {
			fmt.Printf("note: known finding %q (%s) did not occur on this tree\n", key, k.Status)
		}
	}
	for i, o := range res.Obls {
		if i%maxInt(1, len(res.Obls)/12) == 0 || o.Verdict != OK {
			if len(samples) < 40 {
				samples = append(samples, map[string]any{"rule": o.Rule, "construct": o.Construct, "pos": o.Pos, "verdict": o.Verdict, "detail": clip(o.Detail, 300)})
			}
		}
	}
	wall := time.Since(opts.Start).Seconds()
	if !opts.Quiet {
		fmt.Printf("%s: %d obligations: %d hold, %d known findings, %d violations (%.1fs, %s)\n", id, len(res.Obls), nOK, nKnown, nViol, wall, cfg)
	}
	if opts.WriteEvidence {
		rules := map[string]int{}
		for _, o := range res.Obls {
			rules[o.Rule]++
		}
		cov := map[string]any{
			"explanation":            spec.Explanation,
			"not_decided":            spec.NotDecided,
			"rules":                  spec.Rules,
			"instances_per_rule":     rules,
			"obligations":            len(res.Obls),
			"discharged":             nOK,
			"known_findings_matched": nKnown,
			"checker_cmd":            fmt.Sprintf("./bin/electlint -p %s -tier %s", id, opts.Tier),
			"trusted_base":           []string{"go/types and go/ssa (golang.org/x/tools v0.50.0)", "VTA call graph", "the rule definitions and accepted-idiom tables in /verif/checker", "sync, sync/atomic and context semantics"},
			"samples":                samples,
			"exhaustive":             true,
			"evaluations":            len(res.Obls),
			"distinct_nontrivial":    len(distinctKeys(res.Obls)),
			"rule":                   "one obligation per (rule, construct) instance found in the current source; distinct = distinct construct keys; every instance is non-trivial (it names a concrete call site, function, field or path)",
			"analysed": map[string]any{
				"config":               cfg.String(),
				"root_packages":        pkgPaths(prog),
				"functions":            progInt(prog, func(p *Program) int { return p.NumFuncs }),
				"basic_blocks":         progInt(prog, func(p *Program) int { return p.NumBlock }),
				"instructions":         progInt(prog, func(p *Program) int { return p.NumInstr }),
				"anchors":              anchorsOf(prog),
				"store_operation_sites": storeOpsOf(prog),
				"helpers_cloned_per_call_site": clonedOf(prog),
			},
		}
		if extra != nil {
			cov["thorough"] = extra.Coverage
		}
		ev := evidenceFile{PropertyID: id, Tier: opts.Tier, Seed: seedFromEnv(), Level: spec.Level, Coverage: cov,
			Assumptions: spec.Assumptions, WallS: wall, Violations: nViol}
		b, _ := json.MarshalIndent(ev, "", " ")
		dir := filepath.Join(opts.VerifDir, "evidence")
		_ = os.MkdirAll(dir, 0o755)
		if err := os.WriteFile(filepath.Join(dir, id+".json"), append(b, '\n'), 0o644); err != nil {
			fmt.Fprintln(os.Stderr, "cannot write evidence:", err)
			return 1
		}
	}
	if nViol > 0 {
		return 1
	}
	return 0
}

func maxInt(a, b int) int {
	if a > b {
		return a
	}
	return b
}

func distinctKeys(obls []Obligation) map[string]bool {
	m := map[string]bool{}
	for _, o := range obls {
		m[o.Key()] = true
	}
	return m
}

func seedFromEnv() int {
	var n int
	fmt.Sscanf(os.Getenv("VERIF_SEED"), "%d", &n)
	return n
}

func pkgPaths(p *Program) []string {
	if p == nil {
		return nil
	}
	var out []string
	for _, pk := range p.Pkgs {
		out = append(out, pk.PkgPath)
	}
	sort.Strings(out)
	return out
}

func progInt(p *Program, f func(*Program) int) int {
	if p == nil {
		return 0
	}
	return f(p)
}

func anchorsOf(p *Program) string {
	if p == nil || p.mdl == nil {
		return ""
	}
	return strings.SplitN(p.mdl.describe(), "\n", 2)[0]
}

func storeOpsOf(p *Program) []string {
	if p == nil || p.mdl == nil || p.mdl.Impl == nil {
		return nil
	}
	var out []string
	for _, op := range p.mdl.StoreOps() {
		out = append(out, fmt.Sprintf("%s in %s at %s", op.Method, shortFn(op.Fn), p.pos(op.Call.Pos())))
	}
	return out
}

func printSpecs() {
	type out struct {
		ID          string            `json:"id"`
		Level       string            `json:"level"`
		Explanation string            `json:"explanation"`
		NotDecided  []string          `json:"not_decided"`
		Assumptions []string          `json:"assumptions"`
		Rules       map[string]string `json:"rules"`
	}
	var all []out
	for _, id := range propertyIDs() {
		s := registry[id]
		all = append(all, out{s.ID, s.Level, s.Explanation, s.NotDecided, s.Assumptions, s.Rules})
	}
	b, _ := json.MarshalIndent(all, "", " ")
	fmt.Println(string(b))
}

func clonedOf(p *Program) []string {
	if p == nil {
		return nil
	}
	out := append([]string{}, p.Cloned...)
	if p.CloneNote != "" {
		out = append(out, p.CloneNote)
	}
	return out
}
