// electlint decides the structural parts of the NATS-Leader-Election properties
// (see /verif/DESIGN.md) by static analysis of the repository's current source.
package main

import (
	"encoding/json"
	"flag"
	"fmt"
	"os"
	"strings"
	"time"

	"golang.org/x/tools/go/ssa"
)

func main() {
	var (
		prop    = flag.String("p", "", "property id (C01..C20), or 'all'")
		tier    = flag.String("tier", "quick", "quick | thorough")
		repo    = flag.String("repo", "/repo", "repository root to analyse")
		verif   = flag.String("verif", "", "verification directory (default: parent of the binary's directory)")
		dump    = flag.String("dump", "", "debug: dump SSA of functions whose name contains this string")
		replay  = flag.String("replay", "", "print a replay file (a recorded violation) and re-run its property")
		noEvid  = flag.Bool("no-evidence", false, "do not write evidence files (used for variants/controls)")
		listObl = flag.Bool("obligations", false, "print every obligation, not only failures")
		tags    = flag.String("tags", "", "extra build tags")
		goarch  = flag.String("goarch", "", "GOARCH for loading")
		tool    = flag.String("toolchain", "local", "local | auto")
		jsonOut = flag.Bool("json", false, "print the obligations of -p as JSON and exit 0 (used by the thorough tier for child analyses)")
		specs   = flag.Bool("specs", false, "print the registered property specifications as JSON (used to generate MANIFEST.json)")
	)
	flag.Parse()
	if *specs {
		printSpecs()
		return
	}
	start := time.Now()

	vdir := *verif
	if vdir == "" {
		vdir = defaultVerifDir()
	}

	if *replay != "" {
		os.Exit(runReplay(*replay, vdir))
	}

	cfg := LoadConfig{Dir: *repo, Tags: *tags, GOARCH: *goarch, Toolchain: *tool}
	if *dump != "" {
		p, err := loadProgram(cfg)
		if err != nil {
			fmt.Fprintln(os.Stderr, err)
			os.Exit(2)
		}
		if *dump == "model" {
			fmt.Print(p.model().describe())
		} else if *dump == "summaries" {
			m := p.model()
			for _, f := range p.libFuncs() {
				fmt.Printf("%-60s mayDemote=%v returnsPrevClaim=%v\n", shortFn(f), m.mayDemote(f, nil, 0), m.returnsPrevClaim(f, 0))
			}
		} else if *dump == "callsites" {
			m := p.model()
			for _, f := range p.libFuncs() {
				if f.Parent() != nil {
					continue
				}
				n := len(m.callers[f])
				exp := f.Object() != nil && f.Object().Exported()
				ni := 0
				for _, b := range f.Blocks {
					ni += len(b.Instrs)
				}
				fmt.Printf("%2d sites exported=%-5v instrs=%4d params=%d %s\n", n, exp, ni, len(f.Params), shortFn(f))
			}
		} else if strings.HasPrefix(*dump, "guards:") {
			m := p.model()
			la := m.Locks()
			for _, f := range p.libFuncs() {
				if !strings.Contains(f.String(), strings.TrimPrefix(*dump, "guards:")) {
					continue
				}
				fmt.Printf("== %s\n", f)
				for _, b := range f.Blocks {
					fmt.Printf(" block %d %s guards %s\n", b.Index, b.Comment, fmtLits(m.Guards(b)))
					for _, in := range b.Instrs {
						if v, ok := in.(ssa.Value); ok {
							if _, isCall := in.(*ssa.Call); isCall {
								fmt.Printf("    %s = %s   may%s must%s\n", v.Name(), m.Sym.Of(v), la.MayBefore(in), la.MustBefore(in))
							}
							if _, isPhi := in.(*ssa.Phi); isPhi {
								fmt.Printf("    %s = %s\n", v.Name(), m.Gated(v))
							}
						}
					}
				}
			}
		} else {
			for _, f := range p.libFuncs() {
				if strings.Contains(f.String(), *dump) {
					f.WriteTo(os.Stdout)
				}
			}
		}
		fmt.Fprintf(os.Stderr, "loaded %s: %d funcs %d blocks %d instrs in %.1fs\n", cfg, p.NumFuncs, p.NumBlock, p.NumInstr, time.Since(start).Seconds())
		return
	}
	if *prop == "" {
		flag.Usage()
		os.Exit(2)
	}
	if *jsonOut {
		type out struct {
			Error string       `json:"error,omitempty"`
			Obls  []Obligation `json:"obligations"`
		}
		var o out
		p, err := loadProgram(cfg)
		if err != nil {
			o.Error = err.Error()
		} else {
			o.Obls = evalProperty(p, *prop).Obls
		}
		b, _ := json.Marshal(o)
		fmt.Println(string(b))
		return
	}
	opts := RunOptions{Tier: *tier, VerifDir: vdir, WriteEvidence: !*noEvid, ListAll: *listObl, Start: start}
	os.Exit(runProperties(cfg, *prop, opts))
}
