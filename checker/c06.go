package main

import (
	"go/types"
	"fmt"
	"strings"

	"golang.org/x/tools/go/ssa"
)

func init() {
	register(&PropertySpec{
		ID:    "C06",
		Level: "other",
		Run:   checkC06,
		Explanation: "The bound (500 ms + 100 ms + latencies) and 'a healthy candidate exists' are runtime notions and are not decided. Decided are the mechanisms any such bound needs: (R1) every demotion (non-stop claim-clear unit) starts the follower loop, tracked by the WaitGroup, under no condition other than run-liveness and 'not already running'; " +
			"(R2) the follower loop has a periodic fallback with period <= 500 ms which, for a non-leader, reads the key and starts an acquisition round both on a read error and on an empty value; every pause that paces the loop is a constant <= 500 ms, and on every path between two existence checks at most one such pause (or ticker tick) elapses - also around a watch that closes and is set up again; (R3) candidates never give up: the follower loop returns only when its context is done; " +
			"(R4) an acquisition round waits at most 100 ms of jitter and makes at most four attempts (C17-R1, shared).",
		NotDecided: []string{"the 600 ms + latency bound itself", "that the store is reachable and answers (fault model)", "fairness between candidates"},
		Assumptions: []string{"time.Ticker / time.After fire on time"},
		Rules: map[string]string{
			"R1": "in every non-stop claim-clear unit: a `go` (tracked) whose target reaches the Watch call; the guards at the go statement are only run-liveness / already-running / nil-context literals",
			"R2": "every time.NewTicker / time.After period inside the follower loop functions folds to <= 500 ms and one exists; the periodic check function reaches an acquisition round from the Get-error edge and from the empty-value edge, and is called under claim == false; no computed pause in the follower loop's functions; the ticker runs free (no (*time.Ticker).Stop / Reset inside a loop of those functions - a parked ticker is resumed only by whatever re-arms it); path exploration from every call of the check function (through the loop's single-call-site functions): at most one timer case / ticker tick is passed before the next check (claim==true and ctx.Done() edges end a path)",
			"R3": "every Return of the follower loop's root function is guarded by ctx.Err() != nil or is the ctx.Done() case of a select",
			"R4": "see C17-R1",
			"R6": "for every go statement whose goroutine reaches Create (outside the follower loop itself): an atomic flag (other than the claim) tested or swapped among the conditions of the go statement is accepted only if a Store(false) of it is deferred first thing in, or reached on every path through, the started goroutine",
			"R5": "every `return nil` of the acquisition function (and of the functions whose result it passes on) is guarded by the claim-set unit having returned true; in Start, the err != nil edge of the first acquisition reaches the follower transition",
		},
	})
}

// followerLoopRoot: the function started by the claim-clear unit's goroutine that reaches Watch.
func (m *Model) followerLoop() (root *ssa.Function, goSite ssa.Instruction, unit *ssa.Function, goSpawn Spawn) {
	var watchFn *ssa.Function
	for _, op := range m.StoreOps() {
		if op.Method == "Watch" {
			watchFn = op.Fn
		}
	}
	if watchFn == nil {
		return nil, nil, nil, Spawn{}
	}
	for _, sp := range m.Spawns() {
		// started by a demote unit, or by a function its critical section was split into
		inDemote := containsFn(m.DemoteUnits, sp.Fn)
		spFn := sp.Fn
		if !inDemote {
			for _, u := range m.DemoteUnits {
				if containsFn(m.bodyFns(u), topFunc(sp.Fn)) {
					inDemote, spFn = true, u
				}
			}
		}
		if !inDemote {
			continue
		}
		for _, t := range sp.Targets {
			if m.staticReach(t, false)[watchFn] {
				// the root loop: the library function the goroutine calls that reaches Watch
				root = t
				eachInstr(t, func(x ssa.Instruction) {
					if call, ok := x.(*ssa.Call); ok {
						if callee := call.Call.StaticCallee(); callee != nil && m.isLib(callee) && m.staticReach(callee, false)[watchFn] {
							root = callee
						}
					}
				})
				goSite, unit = sp.At, spFn
				goSpawn = sp
			}
		}
	}
	return
}

func checkC06(c *Ctx) {
	m := c.M
	root, goSite, unit, goSpawn := m.followerLoop()
	if root == nil {
		c.viol("R1", "demotion starts the follower loop", nil, "no non-stop claim-clear unit starts a goroutine that reaches KeyValue.Watch: a demoted instance never watches for a vacancy")
		return
	}
	// ---- R1 -----------------------------------------------------------------------
	c.check(goSpawn.Tracked, "R1", "follower loop tracked in "+shortFn(unit), goSite, "wg.Add(1) before go, deferred wg.Done in the goroutine")
	must := m.GuardsAt(goSite)
	gs := append(append([]Lit{}, must...), m.controlCondsDeep(goSite, 0)...)
	var foreign []string
	for i, l := range gs {
		s := l.S.String()
		switch {
		case l.Derived && !strings.Contains(s, m.ImplName+"."):
		case i >= len(must) && func() bool {
			// the verdict of a predicate of this unit (termMatches(term), ...): the conditions that
			// decide it are in this list as well (controlCondsDeep) and are judged there
			call, _, _, _, ok := m.resultTest(l)
			if !ok {
				return false
			}
			h := call.Call.StaticCallee()
			return h != nil && m.isLib(h) && len(m.callers[h]) == 1
		}():
		case i >= len(must) && (m.isClaimLoadSym(l.S) || m.isClaimValueSym(l.S)):
			// a deciding (not a holding) condition: "still leader and not asked to demote"
			// returns early - there is nothing to follow yet
		case i >= len(must) && l.S.Op == "param" && l.S.V != nil && isBoolType(l.S.V.Type()):
			// the unit's mode flag (demote / stay follower) in that early return
		case l.S.Op == "phi" && func() bool {
			// the value of a predicate `term == nil || e.termCtx == term`
			for _, a := range l.S.Args {
				if a.Op != "const" && !m.isTermIdentityLit(Lit{S: a, Truth: true}) {
					return false
				}
			}
			return len(l.S.Args) > 0
		}():
		case i >= len(must) && m.isTermIdentityLit(l):
			// a demotion bound to one term (issued by that term's loops) does nothing when the term is
			// no longer current: the demotion that ended it has started the follower loop
		case strings.Contains(s, m.path(m.Ctx)) || strings.Contains(s, "/ctx"):
		case strings.Contains(s, "watcherRunning") || (strings.Contains(s, "(*sync/atomic.Bool).Load(&"+m.ImplName+".") && !m.isClaimLoadSym(l.S)):
		case strings.Contains(s, m.path(m.State)):
		default:
			foreign = append(foreign, l.String())
		}
	}
	c.check(len(foreign) == 0, "R1", "follower loop started unconditionally in "+shortFn(unit), goSite, "conditions other than run-liveness / already-running at the go statement: %v", foreign)
	// the "already running" flag that suppresses a second loop must be cleared whenever the
	// goroutine ends, otherwise a later transition finds it set and starts no loop at all
	var flag string
	for _, l := range gs {
		if l.S.Op == "call" && l.S.Name == "(*sync/atomic.Bool).Load" && !l.Truth && len(l.S.Args) == 1 && !m.isClaimLoadSym(l.S) {
			flag = l.S.Args[0].String()
		}
	}
	if flag != "" {
		// a boolean marker cannot tell the watcher of this run from the still-finishing watcher of
		// an earlier run (Start after the Start context was cancelled, or after a Stop that gave up
		// waiting): the earlier one suppresses this run's watcher and then ends - no watcher at all
		c.viol("R1", "the marker that suppresses a second follower loop identifies the run", goSite, "the go statement is suppressed by the boolean flag %s; required: a marker that is compared with the run's context (%s), so that a follower loop of an earlier run neither counts as this run's nor clears this run's marker when it ends", strings.TrimPrefix(flag, "&"), m.path(m.Ctx))
		for _, t := range goSpawn.Targets {
			cleared := false
			if len(t.Blocks) > 0 {
				for _, in := range t.Blocks[0].Instrs {
					if d, ok := in.(*ssa.Defer); ok {
						if f := d.Call.StaticCallee(); f != nil && f.String() == "(*sync/atomic.Bool).Store" && len(d.Call.Args) == 2 && m.Sym.Of(d.Call.Args[0]).String() == flag {
							if k, isC := constBool(d.Call.Args[1]); isC && !k {
								cleared = true
							}
						}
					}
					if _, isCall := in.(*ssa.Call); isCall {
						break
					}
				}
			}
			if !cleared {
				// or: every path to the exit stores false
				if first := firstInstr(t); first != nil {
					okF, _ := mustFollow(first, func(x ssa.Instruction) bool {
						call, ok := x.(*ssa.Call)
						if !ok {
							return false
						}
						f := call.Call.StaticCallee()
						if f == nil || f.String() != "(*sync/atomic.Bool).Store" || m.Sym.Of(call.Call.Args[0]).String() != flag {
							return false
						}
						k, isC := constBool(call.Call.Args[1])
						return isC && !k
					}, nil)
					cleared = okF
				}
			}
			c.check(cleared, "R1", "already-running flag cleared when the follower goroutine ends in "+shortFn(t), goSite, "flag %s is reset on every exit of the goroutine (deferred, unconditional): %v", strings.TrimPrefix(flag, "&"), cleared)
		}
	}
	if flag == "" {
		// the marker is the run's context: the test at the go statement compares it with the
		// election context, and the goroutine resets it only while it is still its own
		marked := false
		for _, l := range gs {
			if l.S.Op == "bin" && l.S.Name == "==" && !l.Truth && symMentions(l.S, m.path(m.Ctx)) && len(l.S.Args) == 2 {
				for i := 0; i < 2; i++ {
					if l.S.Args[i].String() == m.path(m.Ctx) && l.S.Args[1-i].Op == "path" && strings.HasPrefix(l.S.Args[1-i].Name, m.ImplName+".") {
						marked = true
					}
				}
			}
		}
		c.check(marked, "R1", "the marker that suppresses a second follower loop identifies the run", goSite, "the go statement is guarded by NOT (%s == <marker field>): %v (one follower loop per run; a loop of an earlier run that is still finishing does not count)", m.path(m.Ctx), marked)
	}
	// every demote unit has one
	for _, u := range m.DemoteUnits {
		has := false
		for _, sp := range m.Spawns() {
			if sp.Fn != u && !containsFn(m.bodyFns(u), topFunc(sp.Fn)) {
				continue
			}
			for _, t := range sp.Targets {
				if m.staticReach(t, false)[root] || t == root {
					has = true
				}
			}
		}
		c.check(has, "R1", "demotion starts the follower loop in "+shortFn(u), firstInstr(u), "%v", has)
	}

	// ---- R2 -----------------------------------------------------------------------
	loopFns := m.staticReach(root, false)
	nPeriod := 0
	for _, f := range sortedFns(loopFns) {
		if !m.reachesStoreOp(f) && f != root {
			continue
		}
		eachInstr(f, func(in ssa.Instruction) {
			call, ok := isCallTo(valueOf(in), "time.NewTicker", "time.After", "time.NewTimer", "time.Tick")
			if !ok || !reachesWatchOrLoop(m, f, root) {
				return
			}
			// only periods that pace the loop of the root / watch function
			if !inLoop(call.Block()) && !precedesLoop(call) {
				return
			}
			d, isC := constInt(call.Call.Args[0])
			if !isC {
				// the acquisition round (jitter, backoff: C17) runs in its own goroutine and is not
				// among these functions: a computed pause here stretches the existence check
				nPeriod++
				c.viol("R2", fmt.Sprintf("fallback period in %s (%s)", shortFn(f), call.Call.StaticCallee().Name()), call,
					"the pause that paces the follower loop is computed (%s), not a constant <= 500 ms: while it grows, a vacancy that no watch event announces is noticed only after the longer pause", clip(m.Gated(call.Call.Args[0]), 200))
				return
			}
			nPeriod++
			c.check(d > 0 && d <= 500_000_000, "R2", fmt.Sprintf("fallback period in %s (%s)", shortFn(f), call.Call.StaticCallee().Name()), call, "period %d ns (required <= 500 ms)", d)
		})
	}
	if nPeriod == 0 {
		c.viol("R2", "periodic fallback exists", firstInstr(root), "no constant-period ticker/timer paces the follower loop: a lost watch event leaves the vacancy unnoticed")
	}
	// the ticker that paces the existence check runs free for as long as the loop runs: a Stop or a
	// Reset inside the loop (the deferred Stop at the loop function's exit is a Defer, not a call in
	// the loop) makes the next tick depend on whatever re-arms it - a ticker parked "while leading" and
	// resumed on the next watch event never ticks again after a demotion that no event follows, and a
	// Reset on every event is starved by a leader whose refreshes arrive faster than the period
	nParked := 0
	for _, f := range sortedFns(loopFns) {
		eachInstr(f, func(in ssa.Instruction) {
			call, ok := isCallTo(valueOf(in), "(*time.Ticker).Stop", "(*time.Ticker).Reset")
			if !ok || !reachesWatchOrLoop(m, f, root) {
				return
			}
			if !inLoop(call.Block()) && len(m.callers[f]) > 0 && f != root {
				// a helper: it counts when one of its call sites lies in a loop of the loop's functions
				inL := false
				for _, cs := range m.callers[f] {
					if !cs.IsDef && loopFns[cs.Caller] && inLoop(cs.Instr.Block()) {
						inL = true
					}
				}
				if !inL {
					return
				}
			} else if !inLoop(call.Block()) {
				return
			}
			nParked++
			c.viol("R2", "existence-check ticker runs free in "+shortFn(f), call, "the follower loop stops or re-arms its ticker inside the loop (%s): from then on the next existence check depends on the event that re-arms it, and a vacancy that no watch event announces (record expired, demotion for a local cause, lost delete event) is never noticed", call.Call.StaticCallee().Name())
		})
	}
	if nParked == 0 {
		c.ok("R2", "existence-check ticker runs free", firstInstr(root), "no (*time.Ticker).Stop / Reset inside a loop of the follower loop's functions (the deferred Stop at exit is not in the loop)")
	}
	// the channel the loop waits on for its ticks is always a live timer channel: a nil channel (a
	// helper that hands out a ticker "only for a follower", sampled when the watch is set up) blocks
	// that case for ever - the loop outlives the role it was set up in
	for _, f := range sortedFns(loopFns) {
		eachInstr(f, func(in ssa.Instruction) {
			sel, ok := in.(*ssa.Select)
			if !ok || !sel.Blocking {
				return
			}
			for k, st := range sel.States {
				ct, isChan := st.Chan.Type().Underlying().(*types.Chan)
				if !isChan || st.Dir != types.RecvOnly || !isNamed(ct.Elem(), "time", "Time") {
					continue
				}
				var nilFrom []string
				var walk func(v ssa.Value, depth int)
				walk = func(v ssa.Value, depth int) {
					if depth > 8 || v == nil {
						return
					}
					switch x := m.traceValue(v).(type) {
					case *ssa.Const:
						if x.Value == nil {
							nilFrom = append(nilFrom, c.posOf(in))
						}
					case *ssa.Phi:
						for _, e := range x.Edges {
							walk(e, depth+1)
						}
					case *ssa.ChangeType:
						walk(x.X, depth+1)
					case *ssa.Extract:
						if call, isCall := x.Tuple.(*ssa.Call); isCall {
							if g := call.Call.StaticCallee(); g != nil && m.isLib(g) && g.Blocks != nil {
								for _, b := range liveBlocks(g) {
									if ret, isRet := b.Instrs[len(b.Instrs)-1].(*ssa.Return); isRet && b != g.Recover && x.Index < len(ret.Results) {
										if kk, isC := returnValue(ret, x.Index).(*ssa.Const); isC && kk.Value == nil {
											nilFrom = append(nilFrom, c.posOf(ret))
										} else {
											walk(returnValue(ret, x.Index), depth+1)
										}
									}
								}
							}
						}
					case *ssa.Call:
						if g := x.Call.StaticCallee(); g != nil && m.isLib(g) && g.Blocks != nil && g.Signature.Results().Len() == 1 {
							for _, b := range liveBlocks(g) {
								if ret, isRet := b.Instrs[len(b.Instrs)-1].(*ssa.Return); isRet && b != g.Recover {
									if kk, isC := returnValue(ret, 0).(*ssa.Const); isC && kk.Value == nil {
										nilFrom = append(nilFrom, c.posOf(ret))
									} else {
										walk(returnValue(ret, 0), depth+1)
									}
								}
							}
						}
					}
				}
				walk(st.Chan, 0)
				c.check(len(nilFrom) == 0, "R2", fmt.Sprintf("tick channel of the follower loop is never nil: select case #%d in %s", k, shortFn(f)), in, "the timer channel this case receives from can be nil (from %v): the case then never fires, and with it the periodic existence check", nilFrom)
			}
		})
	}
	// the periodic check function: called from the loop functions under claim==false, contains Get
	nChk := 0
	var chkFn *ssa.Function
	for _, f := range sortedFns(loopFns) {
		eachInstr(f, func(in ssa.Instruction) {
			call, ok := in.(*ssa.Call)
			if !ok {
				return
			}
			g := call.Call.StaticCallee()
			if g == nil || !m.isLib(g) || loopFnHasWatch(m, g) {
				return
			}
			hasGet := false
			eachInstr(g, func(x ssa.Instruction) {
				if _, ok := m.isKVCall(valueOf(x), "Get"); ok {
					hasGet = true
				}
			})
			if !hasGet || !m.reachesAcquire(g) {
				return
			}
			nChk++
			chkFn = g
			c.check(m.claimLit(m.GuardsAt(in), false), "R2", fmt.Sprintf("periodic check #%d only for a non-leader in %s", nChk, shortFn(f)), in, "guards %s", fmtLits(m.GuardsAt(in)))
			if nChk > 1 {
				return
			}
			// inside the check function the read itself depends on nothing but the claim
			eachInstr(g, func(x ssa.Instruction) {
				if get, ok := m.isKVCall(valueOf(x), "Get"); ok {
					var foreign []string
					for _, l := range append(append([]Lit{}, m.GuardsAt(get)...), m.controlConds(get)...) {
						if !m.isClaimLoadSym(l.S) && !l.Derived {
							foreign = append(foreign, l.String())
						}
					}
					c.check(len(foreign) == 0, "R2", "periodic check reads the key unconditionally in "+shortFn(g), get, "conditions other than 'not leader' before the read: %v (a vacancy is then noticed only when they hold)", foreign)
				}
			})
			// error edge and empty-value edge reach an acquisition round
			eachInstr(g, func(x ssa.Instruction) {
				ifi, ok := x.(*ssa.If)
				if !ok {
					return
				}
				l := m.litOf(ifi.Cond, true, ifi)
				acquire := func(y ssa.Instruction) bool {
					ci, ok := y.(ssa.CallInstruction)
					if !ok {
						return false
					}
					if t := ci.Common().StaticCallee(); t != nil && m.isLib(t) && m.reachesAcquire(t) {
						return true
					}
					for _, t := range m.funcValueTargets(ci.Common().Value) {
						if m.reachesAcquire(t) {
							return true
						}
					}
					return false
				}
				if l.S.Op == "bin" && l.S.Name == "==" && symMentions(l.S, "KeyValue.Get(") && strings.Contains(l.S.String(), "#1") && symMentions(l.S, "nil") {
					errEdge := map[bool]int{true: 1, false: 0}[l.Truth]
					blk := x.Block().Succs[errEdge]
					found := false
					for _, y := range blk.Instrs {
						if acquire(y) {
							found = true
						}
					}
					c.check(found, "R2", "periodic check: read error starts an acquisition round in "+shortFn(g), x, "%v", found)
				}
				if l.S.Op == "bin" && l.S.Name == "==" && symMentions(l.S, "builtin.len(") && symMentions(l.S, "Entry.Value(") {
					emptyEdge := map[bool]int{true: 0, false: 1}[l.Truth]
					found := reachAvoid(x.Block(), emptyEdge, acquire, func(b *ssa.BasicBlock) bool { return false }) != nil
					c.check(found, "R2", "periodic check: empty value starts an acquisition round in "+shortFn(g), x, "%v", found)
				}
			})
		})
	}
	// the time between two existence checks: on every path from one check to the next at most one
	// pacing wait elapses (the timer case of a select on time.After, or a tick of the loop's
	// ticker). A retry pause followed by a freshly created ticker's first tick is two periods.
	if chkFn != nil {
		unit := m.unitFns(root)
		// a check: a call of the check function, or of a loop-free helper every path through
		// which calls it (or finds the instance leading)
		wraps := map[*ssa.Function]bool{}
		var mustCheck func(f *ssa.Function, depth int) bool
		mustCheck = func(f *ssa.Function, depth int) bool {
			if f == chkFn {
				return true
			}
			if v, ok := wraps[f]; ok {
				return v
			}
			wraps[f] = false
			if depth > 3 || f.Blocks == nil || !m.isLib(f) || len(cfgLoops(f)) > 0 || !m.staticReach(f, false)[chkFn] {
				return false
			}
			ok := true
			seen := map[*ssa.BasicBlock]bool{}
			var walk func(b *ssa.BasicBlock)
			walk = func(b *ssa.BasicBlock) {
				if seen[b] || !ok {
					return
				}
				seen[b] = true
				for _, in := range b.Instrs {
					if call, isCall := in.(*ssa.Call); isCall {
						if g := call.Call.StaticCallee(); g != nil && mustCheck(g, depth+1) {
							return
						}
					}
					if _, isRet := in.(*ssa.Return); isRet {
						ok = false
						return
					}
				}
				for i, sx := range b.Succs {
					if deadEdge(b, i) {
						continue
					}
					if l, has := m.edgeLit(b, i); has && l.Truth && (m.isClaimLoadSym(l.S) || m.isClaimValueSym(l.S)) {
						continue
					}
					walk(sx)
				}
			}
			walk(f.Blocks[0])
			wraps[f] = ok
			return ok
		}
		isCheck := func(in ssa.Instruction) bool {
			call, ok := in.(*ssa.Call)
			if !ok {
				return false
			}
			g := call.Call.StaticCallee()
			return g != nil && mustCheck(g, 0)
		}
		m.descend = func(f *ssa.Function) bool { return containsFn(unit, f) && !mustCheck(f, 0) }
		m.edgeHook = func(l Lit, flag int) (int, bool) {
			if l.Truth && (m.isClaimLoadSym(l.S) || m.isClaimValueSym(l.S)) {
				return flag, true // a leader does not look for a vacancy
			}
			if sel, k, ok := selectCaseOf(l); ok && k < len(sel.States) {
				ch := m.Sym.Of(sel.States[k].Chan).String()
				if strings.Contains(ch, "time.After(") || (strings.Contains(ch, "time.NewTicker(") && strings.HasSuffix(ch, ".C")) || strings.Contains(ch, "time.NewTimer(") {
					return flag + 1, false
				}
				if strings.HasSuffix(m.Sym.Of(sel.States[k].Chan).Name, "Context.Done") {
					return flag, true // the election is over
				}
			}
			return flag, false
		}
		nFrom := 0
		for _, uf := range unit {
			eachInstr(uf, func(in ssa.Instruction) {
				if !isCheck(in) {
					return
				}
				nFrom++
				var late ssa.Instruction
				first := true
				m.exploreFrom(in, 0, func(x ssa.Instruction, flag int) (int, bool) {
					if first {
						first = false
						return flag, false
					}
					if isCheck(x) {
						return flag, true
					}
					if flag >= 2 {
						if late == nil {
							late = x
						}
						return flag, true
					}
					return flag, false
				}, nil)
				c.check(late == nil, "R2", fmt.Sprintf("next existence check within one period of check #%d in %s", nFrom, shortFn(uf)), in,
					"a path from this check passes two pacing waits (a time.After pause and/or ticker ticks) before the next check (reached %s): a vacancy that no watch event announces is then noticed only after two periods", c.posOf(late))
			})
		}
		m.descend, m.edgeHook = nil, nil
		if nFrom < 2 {
			c.undecided("R2", "existence checks of the follower loop", firstInstr(root), "only %d call sites of %s in the follower loop's functions; at least 2 on the reference tree", nFrom, shortFn(chkFn))
		}
	}
	if nChk == 0 {
		c.viol("R2", "periodic check exists", firstInstr(root), "the follower loop never calls a function that reads the key and can start an acquisition round")
	}
	c.floor("R2", 4)

	// ---- R3 -----------------------------------------------------------------------
	nRet := 0
	for _, b := range liveBlocks(root) {
		ret, ok := b.Instrs[len(b.Instrs)-1].(*ssa.Return)
		if !ok || b == root.Recover {
			continue
		}
		nRet++
		g := m.Guards(b)
		why := ""
		if hasLit(g, false, func(s *Sym) bool {
			return s.Op == "bin" && s.Name == "==" && symMentions(s, "nil") && symMentions(s, "Context.Err(param:")
		}) {
			why = "ctx.Err() != nil"
		}
		for _, l := range g {
			if sel, k, ok := selectCaseOf(l); ok && k < len(sel.States) {
				if s := m.Sym.Of(sel.States[k].Chan); s.Op == "invoke" && strings.HasSuffix(s.Name, "Context.Done") {
					why = "ctx.Done()"
				}
			}
		}
		key := fmt.Sprintf("follower loop exit #%d of %s", exitOrdinal(root, b), shortFn(root))
		if why != "" {
			c.ok("R3", key, ret, "%s", why)
		} else {
			c.viol("R3", key, ret,
				"the follower loop returns here although its context is not done (guards %s). From then on the instance has neither a watch nor the periodic check and is never elected again, whatever happens to the record - e.g. after one transient error from Watch, or when the watch channel is closed.", clip(fmtLits(g), 300))
		}
	}
	if nRet == 0 {
		c.ok("R3", "follower loop of "+shortFn(root)+" has no return", firstInstr(root), "it never exits")
	}

	// ---- R5: a failed acquisition is reported, and a failed initial acquisition starts the loop
	acquisitionResultRule(c, "R5")

	// ---- R6: a requested acquisition round is started ---------------------------------------------
	// The goroutine that runs an acquisition round is started whenever the election runs; a flag
	// that suppresses it ("a round is already in flight") must be cleared on EVERY exit of that
	// goroutine, or one exit (the cancelled one) leaves it set and the instance never competes again.
	nRound := 0
	for _, sp := range m.Spawns() {
		isRound := false
		for _, t := range sp.Targets {
			if !m.staticReach(t, false)[root] && t != root && m.reachesCreate(t) {
				isRound = true
			}
		}
		if !isRound || sp.At == nil {
			continue
		}
		nRound++
		must := m.GuardsAt(sp.At)
		conds := append(append([]Lit{}, must...), m.controlConds(sp.At)...)
		var foreign []string
		for _, l := range conds {
			str := l.S.String()
			if l.Derived || m.isClaimLoadSym(l.S) {
				continue
			}
			if l.S.Op == "call" && (l.S.Name == "(*sync/atomic.Bool).Load" || l.S.Name == "(*sync/atomic.Bool).CompareAndSwap" || l.S.Name == "(*sync/atomic.Bool).Swap") && len(l.S.Args) >= 1 {
				flag := l.S.Args[0].String()
				for _, t := range sp.Targets {
					if !m.flagClearedOnEveryExit(t, flag) {
						foreign = append(foreign, str+" (not cleared on every exit of "+shortFn(t)+")")
					}
				}
			}
		}
		key := fmt.Sprintf("acquisition round started unconditionally: go #%d in %s", ordinalOf(sp.Fn, sp.At, func(x ssa.Instruction) bool { _, ok := x.(*ssa.Go); return ok }), shortFn(sp.Fn))
		c.check(len(foreign) == 0, "R6", key, sp.At, "atomic flags that decide whether the goroutine is started and are not cleared on each of its exits: %v (one exit - typically the cancelled one - leaves the flag set; after a restart every vacancy is ignored: candidates must not give up)", foreign)
	}
	if nRound == 0 {
		c.undecided("R6", "instance-floor", nil, "no goroutine that runs an acquisition round found")
	}
	if acq := m.acquisitionFn(); acq != nil {
		// the start unit's goroutine: on error, the follower transition
		if st := m.method("Start"); st != nil {
			found := false
			for _, cl := range withClosures(st) {
				eachInstr(cl, func(in ssa.Instruction) {
					ifi, ok := in.(*ssa.If)
					if !ok {
						return
					}
					l := m.litOf(ifi.Cond, true, ifi)
					if l.S.Op == "bin" && l.S.Name == "==" && symMentions(l.S, "nil") && symMentions(l.S, funcName(acq)+"(") {
						errEdge := map[bool]int{true: 1, false: 0}[l.Truth]
						ok2 := reachAvoid(in.Block(), errEdge, func(x ssa.Instruction) bool {
							call, ok := x.(*ssa.Call)
							if !ok {
								return false
							}
							g := call.Call.StaticCallee()
							if g == nil || !m.isLib(g) {
								return false
							}
							for _, h := range sortedFns(m.staticReach(g, false)) {
								if containsFn(m.DemoteUnits, h) {
									return true
								}
							}
							return false
						}, nil) != nil
						found = true
						c.check(ok2, "R5", "failed initial acquisition starts the follower loop", in, "the err != nil edge of the first acquisition reaches the follower transition: %v", ok2)
					}
				})
			}
			if !found {
				c.viol("R5", "failed initial acquisition starts the follower loop", firstInstr(st), "Start does not test the result of the first acquisition attempt")
			}
		}
	}

	// ---- R4 (shared) ----------------------------------------------------------------
	acquisitionRoundRule(c, "R4")
}

func loopFnHasWatch(m *Model, f *ssa.Function) bool {
	has := false
	for _, g := range sortedFns(m.staticReach(f, false)) {
		eachInstr(g, func(in ssa.Instruction) {
			if _, ok := m.isKVCall(valueOf(in), "Watch"); ok {
				has = true
			}
		})
	}
	return has
}

func reachesWatchOrLoop(m *Model, f, root *ssa.Function) bool {
	return f == root || loopFnHasWatch(m, f)
}

// precedesLoop: the call is in a block from which a loop of the same function is entered.
func precedesLoop(call *ssa.Call) bool {
	for _, loop := range cfgLoops(call.Parent()) {
		for _, b := range loop {
			if call.Block().Dominates(b) {
				return true
			}
		}
	}
	return false
}

// reachesAcquire: f can start or perform a Create (through static calls and go statements).
func (m *Model) reachesAcquire(f *ssa.Function) bool {
	for _, g := range sortedFns(m.staticReach(f, true)) {
		found := false
		eachInstr(g, func(in ssa.Instruction) {
			if _, ok := m.isKVCall(valueOf(in), "Create"); ok {
				found = true
			}
		})
		if found {
			return true
		}
	}
	return false
}

// acquisitionResultRule: every `return nil` of the acquisition function (and of the functions
// whose result it passes on) is guarded by the claim-set unit having returned true.
func acquisitionResultRule(c *Ctx, rule string) {
	m := c.M
	acq := m.acquisitionFn()
	if acq == nil {
		c.undecided(rule, "acquisition function", nil, "not found")
		return
	}
	var check func(f *ssa.Function, depth int)
	seenF := map[*ssa.Function]bool{}
	check = func(f *ssa.Function, depth int) {
		if seenF[f] || depth > 3 {
			return
		}
		seenF[f] = true
		for _, b := range liveBlocks(f) {
			ret, ok := b.Instrs[len(b.Instrs)-1].(*ssa.Return)
			if !ok || b == f.Recover || len(ret.Results) != 1 || !isErrorType(ret.Results[0].Type()) {
				continue
			}
			v := returnValue(ret, 0)
			key := fmt.Sprintf("acquisition result #%d of %s", exitOrdinal(f, b), shortFn(f))
			if k, isC := v.(*ssa.Const); isC && k.Value == nil {
				g := m.Guards(b)
				claimed := hasLit(g, true, func(s *Sym) bool {
					call, ok := s.V.(*ssa.Call)
					return ok && call.Call.StaticCallee() != nil && containsFn(m.ClaimSet, call.Call.StaticCallee())
				})
				c.check(claimed, rule, key, ret, "`return nil` only after the claim-set unit returned true: %v (a nil result without a claim makes the caller believe it leads or, at start-up, never starts the follower loop)", claimed)
				continue
			}
			if call, ok := v.(*ssa.Call); ok {
				if g := call.Call.StaticCallee(); g != nil && m.isLib(g) {
					check(g, depth+1)
				}
			}
			// a result held in a variable that may be nil
			if ph, ok := v.(*ssa.Phi); ok {
				_ = ph
			}
		}
	}
	check(acq, 0)
}


// reachesCreate: f can (through static calls, not go) issue KeyValue.Create.
func (m *Model) reachesCreate(f *ssa.Function) bool {
	for _, g := range sortedFns(m.staticReach(f, false)) {
		found := false
		eachInstr(g, func(in ssa.Instruction) {
			if _, ok := m.isKVCall(valueOf(in), "Create"); ok {
				found = true
			}
		})
		if found {
			return true
		}
	}
	return false
}

// flagClearedOnEveryExit: the goroutine function t stores false to the atomic flag (named by the
// symbolic form of its address) in a defer at its start, or on every path to its exits.
func (m *Model) flagClearedOnEveryExit(t *ssa.Function, flag string) bool {
	isClear := func(cc *ssa.CallCommon) bool {
		f := cc.StaticCallee()
		if f == nil || f.String() != "(*sync/atomic.Bool).Store" || len(cc.Args) != 2 || m.Sym.Of(cc.Args[0]).String() != flag {
			return false
		}
		k, isC := constBool(cc.Args[1])
		return isC && !k
	}
	if len(t.Blocks) == 0 {
		return false
	}
	for _, in := range t.Blocks[0].Instrs {
		if d, ok := in.(*ssa.Defer); ok && isClear(&d.Call) {
			return true
		}
		if _, isCall := in.(*ssa.Call); isCall {
			break
		}
	}
	first := firstInstr(t)
	if first == nil {
		return false
	}
	ok, _ := mustFollow(first, func(x ssa.Instruction) bool {
		call, ok := x.(*ssa.Call)
		return ok && isClear(&call.Call)
	}, nil)
	return ok
}
