package main

import (
	"go/token"
	"go/constant"
	"go/types"
	"sort"
	"strings"

	"golang.org/x/tools/go/ssa"
)

func (m *Model) path(field string) string    { return m.ImplName + "." + field }
func (m *Model) cfgPath(field string) string { return m.ImplName + "." + m.Cfg + "." + field }

// isClaimLoadSym: the expression is a load of the leadership claim (directly or via IsLeader()).
func (m *Model) isClaimLoadSym(s *Sym) bool {
	if s == nil || s.Op != "call" {
		return false
	}
	if s.Name == "(*sync/atomic.Bool).Load" && len(s.Args) == 1 && s.Args[0].String() == "&"+m.path(m.Claim) {
		return true
	}
	if f := m.method("IsLeader"); f != nil && s.Name == funcName(f) {
		return true
	}
	return false
}

// claimLit: does the literal set establish claim == truth? The claim value may have been
// read directly, through IsLeader(), or through a helper that returns it (snapshot helpers).
func (m *Model) claimLit(ls []Lit, truth bool) bool {
	return hasLit(ls, truth, m.isClaimValueSym)
}

// isClaimValueSym: the expression is a claim load, or a value all of whose origins are the claim field.
func (m *Model) isClaimValueSym(s *Sym) bool {
	if m.isClaimLoadSym(s) {
		return true
	}
	if s == nil {
		return false
	}
	// `x && claim` evaluated into a local: phi[claim | false]; true implies claim
	if s.Op == "phi" {
		n := 0
		for _, a := range s.Args {
			if a.Op == "const" && a.Name == "false" {
				continue
			}
			if !m.isClaimValueSym(a) {
				return false
			}
			n++
		}
		if n > 0 {
			return true
		}
	}
	if s.V == nil {
		return false
	}
	if b, ok := s.V.Type().Underlying().(*types.Basic); !ok || b.Kind() != types.Bool {
		return false
	}
	switch s.V.(type) {
	case *ssa.Extract, *ssa.Call, *ssa.Phi, *ssa.UnOp:
	default:
		return false
	}
	o := m.Origins(s.V)
	return len(o) == 1 && o["field:"+m.Claim]
}

// isTermIdentityLit: the literal compares the field that holds the current term's context with a
// context parameter: "is the term this caller belongs to still the current one".
func (m *Model) isTermIdentityLit(l Lit) bool {
	if m.TermCtx == "" || l.S.Op != "bin" || l.S.Name != "==" || len(l.S.Args) != 2 {
		return false
	}
	for i := 0; i < 2; i++ {
		a, b := l.S.Args[i], l.S.Args[1-i]
		if a.String() == m.path(m.TermCtx) && b.Op == "param" && b.V != nil && isNamed(b.V.Type(), "context", "Context") {
			return true
		}
	}
	return false
}

// clearPoint returns the instruction of f that clears the claim before `at` on every path:
// the Store(false) itself, or a call of a library function that clears it on all its paths.
func (m *Model) clearPoint(f *ssa.Function, at ssa.Instruction) ssa.Instruction {
	var found ssa.Instruction
	eachInstr(f, func(in ssa.Instruction) {
		if found != nil {
			return
		}
		if val, isConst, ok := m.claimStore(in); ok && isConst && !val && (at == nil || dominatesInstr(in, at)) {
			found = in
			return
		}
		if call, ok := in.(*ssa.Call); ok {
			if g := call.Call.StaticCallee(); g != nil && m.isLib(g) && m.alwaysClears(g, 0) && (at == nil || dominatesInstr(in, at)) {
				found = in
			}
		}
	})
	return found
}

// alwaysClears: every path through g stores false to the claim.
func (m *Model) alwaysClears(g *ssa.Function, depth int) bool {
	if g == nil || g.Blocks == nil || depth > 2 {
		return false
	}
	first := g.Blocks[0].Instrs[0]
	isClear := func(in ssa.Instruction) bool {
		if val, isConst, ok := m.claimStore(in); ok && isConst && !val {
			return true
		}
		if call, ok := in.(*ssa.Call); ok {
			if h := call.Call.StaticCallee(); h != nil && h != g && m.isLib(h) && m.alwaysClears(h, depth+1) {
				return true
			}
		}
		return false
	}
	if isClear(first) {
		return true
	}
	ok, _ := mustFollow(first, isClear, nil)
	return ok
}

// staticCallee returns the library function statically called by the instruction, if any.
func (m *Model) staticCallee(in ssa.Instruction) *ssa.Function {
	ci, ok := in.(ssa.CallInstruction)
	if !ok {
		return nil
	}
	return ci.Common().StaticCallee()
}

func (m *Model) callsAny(in ssa.Instruction, fns []*ssa.Function) bool {
	f := m.staticCallee(in)
	return f != nil && containsFn(fns, f)
}

// invokesFieldValue: the instruction calls (or spawns) the function value stored in Impl.<field>.
func (m *Model) invokesFieldValue(in ssa.Instruction, field string) bool {
	ci, ok := in.(ssa.CallInstruction)
	if !ok {
		return false
	}
	cc := ci.Common()
	if cc.IsInvoke() || cc.StaticCallee() != nil {
		return false
	}
	if _, isB := cc.Value.(*ssa.Builtin); isB {
		return false
	}
	s := m.Sym.Of(cc.Value)
	if m.symIsFieldValue(s, field) {
		return true
	}
	if v := m.traceValue(cc.Value); v != cc.Value {
		return m.symIsFieldValue(m.Sym.Of(v), field)
	}
	return false
}

// traceValue follows a value backwards through the transparent ways it is handed on inside
// the library: a load of a single-store cell, a captured variable of a closure (the binding
// at the MakeClosure), and a parameter of a function with exactly one call site (the argument
// there). It stops at the first value that is none of these.
func (m *Model) traceValue(v ssa.Value) ssa.Value {
	return m.traceValueUntil(v, nil)
}

// traceValueUntil is traceValue that stops as soon as stop(v) holds.
func (m *Model) traceValueUntil(v ssa.Value, stop func(ssa.Value) bool) ssa.Value {
	for i := 0; i < 8; i++ {
		if stop != nil && stop(v) {
			return v
		}
		switch x := v.(type) {
		case *ssa.UnOp:
			if x.Op != token.MUL {
				return v
			}
			al := m.Sym.resolveCell(x.X)
			if al == nil {
				return v
			}
			st := singleStore(al, m.Sym)
			if st == nil {
				return v
			}
			v = st
		case *ssa.FreeVar:
			mc := m.Sym.closureOf[x.Parent()]
			if mc == nil {
				return v
			}
			found := false
			for i, fv := range x.Parent().FreeVars {
				if fv == x && i < len(mc.Bindings) {
					v = mc.Bindings[i]
					found = true
				}
			}
			if !found {
				return v
			}
		case *ssa.Parameter:
			sites := m.callers[x.Parent()]
			if len(sites) != 1 {
				return v
			}
			found := false
			for i, q := range x.Parent().Params {
				if q == x && i < len(sites[0].Instr.Common().Args) {
					v = sites[0].Instr.Common().Args[i]
					found = true
				}
			}
			if !found {
				return v
			}
		default:
			return v
		}
	}
	return v
}

func (m *Model) symIsFieldValue(s *Sym, field string) bool {
	if s.Op == "path" && s.Name == m.path(field) {
		return true
	}
	if s.Op == "phi" {
		any := false
		for _, a := range s.Args {
			if a.Op == "const" && a.Name == "nil" {
				continue
			}
			if !m.symIsFieldValue(a, field) {
				return false
			}
			any = true
		}
		return any
	}
	return false
}

func constBool(v ssa.Value) (bool, bool) {
	if k, ok := v.(*ssa.Const); ok && k.Value != nil && k.Value.Kind() == constant.Bool {
		return constant.BoolVal(k.Value), true
	}
	return false, false
}

func constStr(v ssa.Value) (string, bool) {
	if mi, ok := v.(*ssa.MakeInterface); ok {
		v = mi.X
	}
	if k, ok := v.(*ssa.Const); ok && k.Value != nil && k.Value.Kind() == constant.String {
		return constant.StringVal(k.Value), true
	}
	return "", false
}

func constInt(v ssa.Value) (int64, bool) {
	for {
		switch x := v.(type) {
		case *ssa.Convert:
			v = x.X
			continue
		case *ssa.ChangeType:
			v = x.X
			continue
		}
		break
	}
	if k, ok := v.(*ssa.Const); ok && k.Value != nil && k.Value.Kind() == constant.Int {
		return k.Int64(), true
	}
	return 0, false
}

// Gated renders a value with its phis resolved into guarded cases:
// select{ v1 if {lits}; v2 if {lits} }. Only the literals that distinguish the
// cases (not common to all of them) are kept.
func (m *Model) Gated(v ssa.Value) string {
	return m.gated(v, 0)
}

// GatedEntry is Gated for a loop-header phi, considering only the edges that enter the loop.
func (m *Model) GatedEntry(phi *ssa.Phi) string {
	return m.gatedFilter(phi, 0, func(pred *ssa.BasicBlock) bool { return !inLoopFrom(pred, phi.Block()) })
}

func (m *Model) gated(v ssa.Value, depth int) string {
	return m.gatedFilter(v, depth, nil)
}

func (m *Model) gatedFilter(v ssa.Value, depth int, keep func(pred *ssa.BasicBlock) bool) string {
	for {
		switch x := v.(type) {
		case *ssa.Convert:
			v = x.X
			continue
		case *ssa.ChangeType:
			v = x.X
			continue
		}
		break
	}
	// a parameter with a single call site: the argument's expression in the caller
	if p, ok := v.(*ssa.Parameter); ok && depth <= 3 {
		if sites := m.callers[p.Parent()]; len(sites) == 1 {
			for i, q := range p.Parent().Params {
				if q == p && i < len(sites[0].Instr.Common().Args) {
					return m.gatedFilter(sites[0].Instr.Common().Args[i], depth+1, nil)
				}
			}
		}
	}
	// a call of a small pure helper: the gated form of what it returns
	if call, ok := v.(*ssa.Call); ok && depth <= 3 {
		if f := call.Call.StaticCallee(); f != nil && m.Sym.inlinable(f) {
			var rets []ssa.Value
			for _, b := range f.Blocks {
				if ret, ok := b.Instrs[len(b.Instrs)-1].(*ssa.Return); ok && b != f.Recover && len(ret.Results) == 1 {
					rets = append(rets, returnValue(ret, 0))
				}
			}
			if len(rets) >= 1 {
				g := ""
				if len(rets) == 1 {
					g = m.gatedFilter(rets[0], depth+1, nil)
				} else {
					// several returns: a select over the returned values, gated by the guards of each return
					type cs struct {
						val  string
						lits map[string]bool
					}
					var cases []cs
					for _, b := range f.Blocks {
						if ret, ok := b.Instrs[len(b.Instrs)-1].(*ssa.Return); ok && b != f.Recover && len(ret.Results) == 1 {
							lits := map[string]bool{}
							for _, l := range m.Guards(b) {
								lits[l.String()] = true
							}
							cases = append(cases, cs{m.gatedFilter(returnValue(ret, 0), depth+1, nil), lits})
						}
					}
					common := map[string]bool{}
					for k := range cases[0].lits {
						all := true
						for _, c := range cases[1:] {
							if !c.lits[k] {
								all = false
							}
						}
						if all {
							common[k] = true
						}
					}
					var parts []string
					for _, c := range cases {
						var ls []string
						for k := range c.lits {
							if !common[k] {
								ls = append(ls, k)
							}
						}
						sort.Strings(ls)
						parts = append(parts, c.val+" if {"+strings.Join(ls, "; ")+"}")
					}
					sort.Strings(parts)
					g = "select[" + strings.Join(uniq(parts), " | ") + "]"
				}
				for i, p := range f.Params {
					if i < len(call.Call.Args) {
						g = strings.ReplaceAll(g, "param:"+p.Name(), strings.TrimPrefix(m.Sym.Of(call.Call.Args[i]).String(), "&"))
					}
				}
				return g
			}
		}
	}
	phi, ok := v.(*ssa.Phi)
	if !ok || depth > 3 {
		return m.Sym.Of(v).String()
	}
	type cs struct {
		val  string
		lits map[string]bool
	}
	var cases []cs
	b := phi.Block()
	for i, e := range phi.Edges {
		pred := b.Preds[i]
		if keep != nil && !keep(pred) {
			continue
		}
		succIdx := 0
		for j, s := range pred.Succs {
			if s == b {
				succIdx = j
			}
		}
		lits := map[string]bool{}
		for _, l := range m.EdgeLits(pred, succIdx) {
			lits[l.String()] = true
		}
		cases = append(cases, cs{val: m.gated(e, depth+1), lits: lits})
	}
	// drop literals common to all cases
	common := map[string]bool{}
	if len(cases) > 0 {
		for k := range cases[0].lits {
			all := true
			for _, c := range cases[1:] {
				if !c.lits[k] {
					all = false
				}
			}
			if all {
				common[k] = true
			}
		}
	}
	var parts []string
	for _, c := range cases {
		var ls []string
		for k := range c.lits {
			if !common[k] {
				ls = append(ls, k)
			}
		}
		sort.Strings(ls)
		parts = append(parts, c.val+" if {"+strings.Join(ls, "; ")+"}")
	}
	sort.Strings(parts)
	parts = uniq(parts)
	return "select[" + strings.Join(parts, " | ") + "]"
}
