package main

import (
	"sort"
	"fmt"
	"go/token"
	"strings"

	"golang.org/x/tools/go/ssa"
)

func init() {
	register(&PropertySpec{
		ID:    "C03",
		Level: "other",
		Run:   checkC03,
		Explanation: "The bound is real time and is not decided. Decided are the structural necessary conditions of any bound of the stated form (one attempt for a deposed leader, three for an unreachable store): (R1) every refresh attempt is time-bounded: the Update runs in its own loop-free goroutine that reports through a buffered channel, and the loop waits for it in a select that also has a timer case with duration max(H/2, 1s) and a ctx.Done() case; " +
			"(R2) on a failed attempt a permanent error demotes at once and returns; otherwise a loop-carried counter is incremented by exactly 1, demotion + return happen at counter >= 3, and the counter is reset to 0 only on the success edge; (R3) no store operation is issued in an iteration unless the claim was read true in that iteration; " +
			"(R4) the claim-set unit starts the refresh loop in the critical section that sets the claim, and the loop returns only on claim == false or after a (possibly no-op) demotion - also when its context is done, so that a cancelled Start context ends the claim; (R5) the NATS client's revision-conflict errors are classified permanent (C15-R3, shared); (R6) a demotion clears the claim and runs OnDemote (C08, shared); (R7) every tick of a standing claim is a refresh attempt, a counted failure or a demotion; (R8) the ticker period is the heartbeat interval; (R9) the periodic loops of a term (refresh, validation) run under that term's context, which every demotion cancels, so that no loop of an earlier term runs next to a later term's; (R10) the loop's own goroutine never issues a store operation (a hanging store cannot keep it from ticking, timing out and demoting); (R11) one arithmetic necessary condition of the second bound: the time-out floor does not exceed three accepted heartbeat intervals (open known finding: it does for H < 333 ms).",
		NotDecided: []string{"the numeric bound itself (H + 2 time-outs; 3H + 3 time-outs) as a measured quantity", "that time.After and the ticker fire on time", "that a lost acknowledgement (write applied, response lost) is detected at the next attempt: follows from R2+R5 given the store's revision check"},
		Assumptions: []string{"time.After / time.Ticker semantics", "the store's Update is revision-checked (C14)"},
		Rules: map[string]string{
			"R1": "refresh Update in a `go` closure without loops, one store op, one send on a channel of capacity >= 1; parent select is blocking with a receive on that channel, on time.After(d) and on ctx.Done(); d == select[(H/2) if !(H/2 < 1s) | 1s if (H/2 < 1s)]",
			"R2": "IsPermanentError(err)==true edge: a may-demote call then return; counter phi leaves are {0, counter, counter+1}; `3 <= counter+1` true edge: may-demote call then return; the 0 leaf (other than loop entry) only on the err == nil edge",
			"R3": "every store operation / goroutine issuing one inside the refresh loop is guarded by claim == true read in that iteration",
			"R4": "claim-set unit: go (tracked) of a closure calling the refresh loop, dominated by the claim Store(true), under the election mutex; every return of the loop: claim false | a may-demote call precedes it (also on the ctx.Done() exits: a cancelled Start context must end the claim)",
			"R5": "see C15-R3",
			"R6": "see C08-R2/R3",
			"R8": "the refresh loop's ticker period is cfg.HeartbeatInterval and the ticker runs free (no Reset in the loop unit: attempts start H apart whatever they take)",
			"R11": "the reject table of the validator contains HeartbeatInterval < c with 3c >= K (K = 1 s, the floor of the per-attempt time-out): T = max(H/2, K) <= 3H for every accepted configuration, which the stated bound needs when the last successful refresh itself was slow",
			"R10": "no KeyValue operation in the functions reachable from the refresh loop by plain (non-go) calls",
			"R9": "every function with a time.NewTicker loop that a claim-set unit starts (go) is called with a context whose context.With* ancestors include the term context (the With* call in the claim-set unit whose cancel is stored in the election object and called by every demotion, C19-R1)",
			"R7": "from the ticker case every path to the next tick passes the goroutine issuing the refresh, an increment of a failure counter (loop-carried +1 or the health counter's Add), or a may-demote call",
		},
	})
}

func checkC03(c *Ctx) {
	m := c.M
	la := m.Locks()
	rf := m.refreshLoopFn()
	if rf == nil {
		c.undecided("R1", "refresh loop", nil, "no function with a time.NewTicker loop issuing Update found")
		return
	}
	H := m.cfgPath("HeartbeatInterval")

	// ---- R1 -----------------------------------------------------------------------
	for _, op := range m.StoreOps() {
		if m.classifyOp(op) != "refresh" {
			continue
		}
		g := op.Fn
		if g == rf || m.staticReach(rf, false)[g] {
			c.viol("R1", "refresh attempt in its own goroutine", op.Call, "the Update is issued inline in the loop: a hanging store call blocks the loop for ever and the leader never steps down")
			continue
		}
		nOps, nSend := 0, 0
		var send *ssa.Send
		eachInstr(g, func(in ssa.Instruction) {
			if _, ok := m.isKVCall(valueOf(in), ""); ok {
				nOps++
			}
			if s, ok := in.(*ssa.Send); ok {
				nSend++
				send = s
			}
		})
		c.check(len(cfgLoops(g)) == 0 && nOps == 1 && nSend == 1, "R1", "refresh goroutine is one bounded attempt", op.Call, "loops: %d, store ops: %d, sends: %d (required 0/1/1)", len(cfgLoops(g)), nOps, nSend)
		if send == nil {
			continue
		}
		chSym := m.Sym.Of(m.traceValue(send.Chan))
		capOK := chSym.Op == "makechan" && len(chSym.Args) == 1 && func() bool { n, ok := chSym.Args[0].ConstInt(); return ok && n >= 1 }()
		c.check(capOK, "R1", "result channel is buffered", send, "channel %s (a goroutine abandoned after the time-out must not block for ever on its send)", chSym)
		// a fresh channel per attempt: a channel shared between attempts hands the late result
		// of an abandoned attempt to the next one (the loop then runs one result behind)
		if mc, ok := m.traceValue(send.Chan).(*ssa.MakeChan); ok {
			var spawnAt ssa.Instruction
			for _, sp := range m.Spawns() {
				for _, t := range sp.Targets {
					if t == g || m.staticReach(t, false)[g] {
						spawnAt = sp.At
					}
				}
			}
			fresh := false
			if spawnAt != nil {
				if lifted := m.liftTo(mc.Parent(), spawnAt); lifted != nil {
					// the channel is made inside the innermost loop that contains the spawn
					fresh = !inLoop(lifted.Block()) || sameLoop(mc.Block(), lifted.Block())
				}
			}
			c.check(fresh, "R1", "result channel is created per attempt", mc, "the make(chan) at %s is inside the loop iteration that starts the attempt: %v (a channel shared between attempts delivers an abandoned attempt's late result to the next attempt)", c.posOf(mc), fresh)
		}
		// the waiting select
		var sel *ssa.Select
		for _, uf := range m.unitFns(rf) {
			eachInstr(uf, func(in ssa.Instruction) {
				if s, ok := in.(*ssa.Select); ok && s.Blocking {
					for _, st := range s.States {
						if m.Sym.Of(m.traceValue(st.Chan)).String() == chSym.String() && st.Dir == 2 {
							sel = s
						}
					}
				}
			})
		}
		if sel == nil {
			c.viol("R1", "loop waits for the attempt in a select", op.Call, "no blocking select receiving from the result channel found in %s", shortFn(rf))
			continue
		}
		var dur ssa.Value
		hasDone := false
		for _, st := range sel.States {
			if call, ok := isCallTo(st.Chan, "time.After"); ok {
				dur = call.Call.Args[0]
			}
			if s := m.Sym.Of(st.Chan); s.Op == "invoke" && strings.HasSuffix(s.Name, "Context.Done") && len(s.Args) == 1 && s.Args[0].Op == "param" {
				hasDone = true
			}
		}
		c.check(hasDone, "R1", "attempt wait has a ctx.Done() case", sel, "ctx.Done() among the select cases: %v", hasDone)
		if dur == nil {
			c.viol("R1", "attempt wait has a timer case", sel, "the select waiting for the Update has no time.After case: a hanging store call is never given up")
		} else {
			got := m.Gated(dur)
			okForm, want := timeoutFormOK(got, H)
			c.check(okForm, "R1", "per-attempt time-out is max(H/2, 1s)", sel, "time-out expression %s; required %s (or builtin max of the same operands)", got, want)
		}
	}
	c.floor("R1", 4)

	// ---- R2 -----------------------------------------------------------------------
	demoteThenReturn := func(b *ssa.BasicBlock) bool {
		_, isRet := b.Instrs[len(b.Instrs)-1].(*ssa.Return)
		if !isRet {
			return false
		}
		for _, in := range b.Instrs {
			if call, ok := in.(*ssa.Call); ok {
				if g := call.Call.StaticCallee(); g != nil && m.isLib(g) && m.mayDemote(g, specFor(call, g), 0) {
					return true
				}
			}
		}
		// a may-demote call that dominates the return (statements between the demotion and
		// the return may branch)
		ret := b.Instrs[len(b.Instrs)-1]
		found := false
		eachInstr(b.Parent(), func(in ssa.Instruction) {
			if call, ok := in.(*ssa.Call); ok && !found {
				if g := call.Call.StaticCallee(); g != nil && m.isLib(g) && m.mayDemote(g, specFor(call, g), 0) && dominatesInstr(call, ret) {
					found = true
				}
			}
		})
		return found
	}
	nPerm, nThresh := 0, 0
	var counter *ssa.Phi
	counters := map[*ssa.Phi]bool{}
	eachInstr(rf, func(in ssa.Instruction) {
		ifi, ok := in.(*ssa.If)
		if !ok {
			return
		}
		l := m.litOf(ifi.Cond, true, ifi)
		// permanent error => demote now
		if l.S.Op == "call" && strings.HasSuffix(l.S.Name, "IsPermanentError") {
			nPerm++
			edge := 0
			if !l.Truth {
				edge = 1
			}
			c.check(m.edgeDemotesAndExits(in.Block(), edge), "R2", "permanent refresh error demotes immediately", in, "every path from the IsPermanentError(err) == true edge demotes and returns without another tick")
		}
		// threshold
		if l.S.Op == "bin" && l.S.Name == "<=" {
			if k, ok := l.S.Args[0].ConstInt(); ok && l.S.Args[1].Op == "bin" && l.S.Args[1].Name == "+" {
				add := l.S.Args[1]
				one, isOne := add.Args[0].ConstInt()
				if !isOne {
					one, isOne = add.Args[1].ConstInt()
				}
				if bo, ok := add.V.(*ssa.BinOp); ok && isOne {
					var ph *ssa.Phi
					for _, x := range []ssa.Value{bo.X, bo.Y} {
						if p, ok := x.(*ssa.Phi); ok {
							ph = p
						}
					}
					if ph != nil && inLoop(ph.Block()) {
						nThresh++
						counter = ph
						counters[ph] = true
						edge := 0
						if !l.Truth {
							edge = 1
						}
						key := fmt.Sprintf("transient failures: demote at the third #%d", nThresh)
						c.check(k == 3 && one == 1 && m.edgeDemotesAndExits(in.Block(), edge), "R2", key, in,
							"threshold %d (required 3), increment %d (required 1), the threshold edge demotes and returns: %v", k, one, m.edgeDemotesAndExits(in.Block(), edge))
					}
				}
			}
		}
	})
	if nPerm == 0 {
		c.viol("R2", "permanent refresh error demotes immediately", firstInstr(rf), "the refresh loop never consults IsPermanentError: a deposed leader keeps retrying")
	}
	if nThresh == 0 {
		c.viol("R2", "transient failures: demote at the third", firstInstr(rf), "no `counter+1 >= 3` test on a loop-carried counter found in the refresh loop")
	}
	// one counter for every kind of failed attempt: with a counter per kind (time-outs here, errors
	// there) a partition in which attempts first hang and then fail at once takes up to twice the
	// three attempts before the leader steps down
	if len(counters) > 0 {
		c.check(len(counters) == 1, "R2", "failed attempts are counted on one counter", counter, "%d distinct loop-carried counters are compared with the failure threshold (required: 1)", len(counters))
	}
	if counter != nil {
		// leaves of the counter phi
		type leaf struct {
			v    ssa.Value
			pred *ssa.BasicBlock
		}
		var leaves []leaf
		seen := map[*ssa.Phi]bool{}
		var walk func(p *ssa.Phi)
		walk = func(p *ssa.Phi) {
			if seen[p] {
				return
			}
			seen[p] = true
			for i, e := range p.Edges {
				if q, ok := e.(*ssa.Phi); ok {
					if q != counter {
						walk(q)
					}
					continue
				}
				leaves = append(leaves, leaf{e, p.Block().Preds[i]})
			}
		}
		walk(counter)
		okLeaves := true
		var detail []string
		for _, lf := range leaves {
			switch x := lf.v.(type) {
			case *ssa.Const:
				n, _ := constInt(x)
				if n != 0 {
					okLeaves = false
					detail = append(detail, fmt.Sprintf("counter set to %d", n))
					continue
				}
				if !inLoop(lf.pred) {
					continue // initialisation
				}
				gs := m.Guards(lf.pred)
				succ := hasLit(gs, true, func(s *Sym) bool {
					if s.Op != "bin" || s.Name != "==" || len(s.Args) != 2 {
						return false
					}
					for i := 0; i < 2; i++ {
						if s.Args[i].String() == "nil" && s.Args[1-i].V != nil {
							for o := range m.Origins(s.Args[1-i].V) {
								if strings.HasPrefix(o, "kverr:Update@") {
									return true
								}
							}
						}
					}
					return false
				})
				if !succ {
					okLeaves = false
					detail = append(detail, "counter reset to 0 on a path that is not the success edge of the refresh ("+fmtLits(gs)+")")
				}
			case *ssa.BinOp:
				n, isC := constInt(x.Y)
				if x.Op != token.ADD || !isC || n != 1 {
					okLeaves = false
					detail = append(detail, "counter updated by "+m.Sym.Of(x).String())
				}
			default:
				okLeaves = false
				detail = append(detail, "counter receives "+m.Sym.Of(lf.v).String())
			}
		}
		c.check(okLeaves, "R2", "failure counter: +1 per failure, reset only on success", counter, "%d reaching definitions; %s", len(leaves), strings.Join(detail, "; "))
	}

	// ---- R7: every tick of a standing claim is an attempt or a counted failure ---------
	// From the ticker case, every path to the next tick passes one of: the goroutine issuing
	// the refresh, an increment of a failure counter (loop-carried or the health counter),
	// or a demotion. A path that skips the refresh without counting lets a cut-off leader
	// claim leadership for ever.
	isTick := func(b *ssa.BasicBlock) bool {
		for _, in := range b.Instrs {
			if sel, ok := in.(*ssa.Select); ok && sel.Blocking {
				for _, st := range sel.States {
					if s := m.Sym.Of(st.Chan); strings.Contains(s.String(), "time.NewTicker(") && strings.HasSuffix(s.String(), ".C") {
						return true
					}
				}
			}
		}
		return false
	}
	counts := func(b *ssa.BasicBlock) bool {
		for _, in := range b.Instrs {
			switch x := in.(type) {
			case *ssa.Go:
				if m.spawnsStoreOp(x) {
					return true
				}
			case *ssa.BinOp:
				if x.Op == token.ADD {
					if _, isPhi := x.X.(*ssa.Phi); isPhi {
						if n, isC := constInt(x.Y); isC && n == 1 {
							return true
						}
					}
				}
			case *ssa.Call:
				if fld, meth, ok := m.atomicCall(x); ok && fld == m.HealthCounter && meth == "Add" {
					return true
				}
				if g := x.Call.StaticCallee(); g != nil && m.isLib(g) && m.mayDemote(g, specFor(x, g), 0) {
					return true
				}
				// a phase of the loop body in a function of its own that issues the refresh on
				// every one of its paths (updateRecordWithTimeout: make channel, go Update, wait)
				if g := x.Call.StaticCallee(); g != nil && g != rf && containsFn(m.bodyFns(rf), g) && len(g.Blocks) > 0 {
					issues := func(y ssa.Instruction) bool {
						if _, ok := m.isKVCall(valueOf(y), ""); ok {
							return true
						}
						return m.spawnsStoreOp(y)
					}
					first := g.Blocks[0].Instrs[0]
					if issues(first) {
						return true
					}
					if ok, _ := mustFollow(first, issues, nil); ok {
						return true
					}
				}
			}
		}
		return false
	}
	nTick := 0
	eachInstr(rf, func(in ssa.Instruction) {
		sel, ok := in.(*ssa.Select)
		if !ok || !sel.Blocking || !isTick(in.Block()) {
			return
		}
		// the select's successors: walk from the block after the select, stop at counting blocks, look for the next tick
		nTick++
		var leak ssa.Instruction
		doneCtx := ""
		seen := map[*ssa.BasicBlock]bool{}
		var walk func(b *ssa.BasicBlock, first bool)
		walk = func(b *ssa.BasicBlock, first bool) {
			if leak != nil {
				return
			}
			if !first && b == in.Block() {
				leak = in
				return
			}
			if seen[b] && !first {
				return
			}
			seen[b] = true
			if !first {
				if counts(b) {
					return
				}
				if isTick(b) {
					leak = b.Instrs[0]
					for _, x := range b.Instrs {
						if x.Pos().IsValid() {
							leak = x
							break
						}
					}
					return
				}
			}
			for i, sx := range b.Succs {
				if deadEdge(b, i) {
					continue
				}
				// permitted skip: the loop's own context has ended (its Done case, which this
				// select contains, is taken next and ends the loop)
				if l, ok := m.edgeLit(b, i); ok && !l.Truth && doneCtx != "" && l.S.Op == "bin" && l.S.Name == "==" && symMentions(l.S, "nil") && symMentions(l.S, "Context.Err("+doneCtx+")") {
					continue
				}
				walk(sx, false)
			}
		}
		// the context whose Done channel is a case of this select
		for _, st := range sel.States {
			if x := m.Sym.Of(st.Chan); x.Op == "invoke" && strings.HasSuffix(x.Name, "Context.Done") && len(x.Args) == 1 {
				doneCtx = x.Args[0].String()
			}
		}
		walk(in.Block(), true)
		// which path? report the guard of the skipping edge if we can find it
		c.check(leak == nil, "R7", "every tick is a refresh attempt or a counted failure", in,
			"a path from the tick back to the next tick issues no refresh, increments no failure counter and demotes nothing: %v. A leader whose refreshes are skipped this way never reaches the failure threshold and never steps down.", leak != nil)
	})
	if nTick == 0 {
		c.undecided("R7", "ticker select", firstInstr(rf), "the blocking select on the heartbeat ticker was not found")
	}
	// R2': the failure edge of an attempt always reaches the classification
	eachInstr(rf, func(in ssa.Instruction) {
		ifi, ok := in.(*ssa.If)
		if !ok {
			return
		}
		l := m.litOf(ifi.Cond, true, ifi)
		if l.S.Op == "bin" && l.S.Name == "==" && symMentions(l.S, "nil") && symMentions(l.S, "NewTimeoutError(") {
			failEdge := map[bool]int{true: 1, false: 0}[l.Truth]
			escape := reachAvoid(in.Block(), failEdge, func(x ssa.Instruction) bool {
				if _, isRet := x.(*ssa.Return); isRet {
					return true
				}
				s, ok := x.(*ssa.Select)
				return ok && s.Blocking && isTick(x.Block())
			}, func(b *ssa.BasicBlock) bool {
				for _, x := range b.Instrs {
					if i2, ok := x.(*ssa.If); ok {
						if l2 := m.litOf(i2.Cond, true, i2); l2.S.Op == "call" && strings.HasSuffix(l2.S.Name, "IsPermanentError") {
							return true
						}
					}
				}
				return false
			})
			c.check(escape == nil, "R2", "every failed attempt is classified", in, "from the updateErr != nil edge the next tick (or a return) is reachable without passing the IsPermanentError test: %v (%s)", escape != nil, c.posOf(escape))
		}
	})

	// ---- R3 -----------------------------------------------------------------------
	n3 := 0
	m.eachUnitInstr(rf, func(in ssa.Instruction) {
		issue := false
		if _, ok := m.isKVCall(valueOf(in), ""); ok {
			issue = true
		}
		if m.spawnsStoreOp(in) {
			issue = true
		}
		// in the loop function, or in a function the loop body was split into
		lifted := m.liftTo(rf, in)
		if !issue || lifted == nil || !inLoop(lifted.Block()) {
			return
		}
		n3++
		gs := m.unitGuards(rf, in)
		c.check(m.claimLit(gs, true), "R3", fmt.Sprintf("store operation #%d of the refresh loop only under a standing claim", n3), in, "claim == true among the guards: %v", m.claimLit(gs, true))
	})
	if n3 < 1 {
		c.undecided("R3", "instance-floor", nil, "no store operation found inside the refresh loop")
	}

	// ---- R4 -----------------------------------------------------------------------
	started := false
	for _, unit := range m.ClaimSet {
		var claimStore ssa.Instruction
		m.eachUnitInstr(unit, func(in ssa.Instruction) {
			if val, isConst, ok := m.claimStore(in); ok && isConst && val {
				claimStore = in
			}
		})
		for _, sp := range m.Spawns() {
			if !containsFn(m.bodyFns(unit), sp.Fn) {
				continue
			}
			for _, t := range sp.Targets {
				if m.staticReach(t, false)[rf] {
					started = true
					dom := claimStore != nil && m.dominatesLifted(unit, claimStore, sp.At)
					c.check(dom && la.MustBefore(sp.At)[m.implMuW()] && sp.Tracked, "R4", "claim implies refresh loop: started by "+shortFn(unit), sp.At,
						"claim store dominates the go: %v; under the election mutex: %v; tracked by the WaitGroup: %v", dom, la.MustBefore(sp.At)[m.implMuW()], sp.Tracked)
				}
			}
		}
	}
	if !started {
		c.viol("R4", "claim implies refresh loop", nil, "no claim-set unit starts the refresh loop: a claim without heartbeats outlives its record")
	}
	for _, b := range liveBlocks(rf) {
		ret, ok := b.Instrs[len(b.Instrs)-1].(*ssa.Return)
		if !ok || b == rf.Recover {
			continue
		}
		key := fmt.Sprintf("refresh loop exit #%d", exitOrdinal(rf, b))
		gs := m.Guards(b)
		why := ""
		if demoteThenReturn(b) {
			why = "after a demotion"
		} else if hasEvent(gs, "passed-may-demote") {
			why = "after a demotion inside the function whose result is tested"
		} else if m.claimLit(gs, false) {
			why = "claim is false"
		}
		ctxDone := false
		for _, l := range gs {
			if sel, k, ok := selectCaseOf(l); ok && k < len(sel.States) {
				if s := m.Sym.Of(sel.States[k].Chan); s.Op == "invoke" && strings.HasSuffix(s.Name, "Context.Done") {
					ctxDone = true
				}
			}
		}
		if why != "" && ctxDone && !m.claimLit(gs, false) {
			// on a ctx.Done() exit the demotion must not depend on anything but the term it belongs to:
			// a call that only MAY demote (it returns early while the election "still runs", ...)
			// leaves the claim standing after a cancelled Start context
			must := false
			eachInstr(rf, func(in ssa.Instruction) {
				if call, ok := in.(*ssa.Call); ok && dominatesInstr(call, ret) {
					if g := call.Call.StaticCallee(); g != nil && m.isLib(g) && m.alwaysReachesClearUnit(g, 0) {
						must = true
					}
				}
			})
			if hasEvent(gs, "passed-may-demote") {
				must = true // judged on the paths of the function whose result is tested (C07-R1 style)
			}
			c.check(must, "R4", key+" demotes unconditionally", ret, "a call that reaches the claim-clearing unit on every one of its paths dominates this ctx.Done() exit: %v (a demotion that is skipped while, say, the election context is live leaves the claim standing when the application cancels the Start context and starts again: the old loop exits, nobody refreshes the record, IsLeader() stays true)", must)
		}
		if why != "" {
			c.ok("R4", key, ret, "%s", why)
		} else if ctxDone {
			c.viol("R4", key, ret, "the refresh loop returns on ctx.Done() without clearing the claim: after a demotion or a Stop the claim is already clear, but when the context given to Start is cancelled nothing refreshes the record any more and the instance reports leadership of an expired record for ever (guards %s)", clip(fmtLits(gs), 300))
		} else {
			c.viol("R4", key, ret, "the refresh loop can return here while the claim stands and the election runs (guards %s): the record lapses under a leader that still claims leadership", clip(fmtLits(gs), 300))
		}
	}

	// ---- R8 ---------------------------------------------------------------------
	refreshPeriodRule(c, "R8")

	// ---- R9 ---------------------------------------------------------------------
	termLoopRule(c, "R9")

	// ---- R11: the stated bound needs T <= 3H ---------------------------------------
	// "within three heartbeat intervals plus three operation time-outs of the START of its last
	// successful refresh": that refresh itself may take up to one time-out T, and with T > H the
	// following attempts run back to back, so the demotion comes d + 3T after the start (d <= T
	// the latency of the successful refresh). d + 3T <= 3H + 3T needs d <= 3H, i.e. T <= 3H for
	// every accepted configuration. T = max(H/2, K): K <= 3H must be enforced by validation.
	{
		rejects, _, vf := m.rejectTable()
		floor := int64(1_000_000_000) // K of the accepted form max(H/2, 1 s), checked by R1
		enforced := false
		if vf != nil {
			for _, r := range rejects {
				for _, l := range r.lits {
					// any reject of the form HeartbeatInterval < c (or 3*H < c) with c >= K/3 (resp. K)
					var cst int64
					if n, _ := fmt.Sscanf(l, "(cfg.HeartbeatInterval < %d)", &cst); n == 1 && cst*3 >= floor {
						enforced = true
					}
					if n, _ := fmt.Sscanf(l, "((3 * cfg.HeartbeatInterval) < %d)", &cst); n == 1 && cst >= floor {
						enforced = true
					}
				}
			}
		}
		c.check(enforced, "R11", "per-attempt time-out never exceeds three heartbeat intervals", firstInstr(rf),
			"validation rejects HeartbeatInterval < K/3 for the time-out floor K = 1 s: %v. For accepted configurations with H < 333 ms a refresh that succeeds only after d > 3H, followed by an unreachable store, makes the leader step down d + 3T after the start of that refresh (observed: H = 100 ms, d = 0.8 s: 3.80 s; stated bound 3H + 3T = 3.3 s)", enforced)
	}

	// ---- R10: the loop itself never waits for the store -----------------------------
	// Every store operation reachable from the refresh loop by plain calls (not through a go
	// statement, where R1 / C09-R2 bound it) blocks the loop for as long as the store hangs:
	// no tick, no time-out, no demotion.
	n10 := 0
	for _, g := range sortedFns(m.staticReach(rf, false)) {
		eachInstr(g, func(in ssa.Instruction) {
			kv, ok := m.isKVCall(valueOf(in), "")
			if !ok {
				return
			}
			n10++
			c.viol("R10", "no store operation inline in the refresh loop: "+kv.Call.Method.Name()+" in "+shortFn(g), in,
				"%s is called synchronously on the refresh loop's goroutine (reached from %s by plain calls): while the store does not answer the loop neither ticks nor times out, and the instance never steps down", kv.Call.Method.Name(), shortFn(rf))
		})
	}
	if n10 == 0 {
		c.ok("R10", "no store operation inline in the refresh loop", firstInstr(rf), "%d library functions reachable from %s by plain calls, none issues a store operation", len(m.staticReach(rf, false)), shortFn(rf))
	}

	// ---- R5 (shared) ----------------------------------------------------------------
	natsConflictRule(c, "R5")
}

// attemptTimeoutRule is the time-out clause of C03-R1, shared with C07-R4.
func attemptTimeoutRule(c *Ctx, rule string) {
	m := c.M
	rf := m.refreshLoopFn()
	if rf == nil {
		c.undecided(rule, "refresh loop", nil, "not found")
		return
	}
	H := m.cfgPath("HeartbeatInterval")
	n := 0
	for _, uf := range m.unitFns(rf) {
		eachInstr(uf, func(in ssa.Instruction) {
			sel, ok := in.(*ssa.Select)
			if !ok || !sel.Blocking {
				return
			}
			for _, st := range sel.States {
				if call, ok := isCallTo(st.Chan, "time.After"); ok {
					n++
					got := m.Gated(call.Call.Args[0])
					okForm, want := timeoutFormOK(got, H)
					c.check(okForm, rule, "per-attempt time-out is max(H/2, 1s)", sel, "time-out expression %s; required %s (or builtin max of the same operands)", got, want)
				}
			}
		})
	}
	if n == 0 {
		c.viol(rule, "per-attempt time-out exists", firstInstr(rf), "no time.After case in the refresh loop's selects")
	}
}

// timeoutFormOK: the expression is max(H/2, 1s) in one of the accepted idioms (if-chain or builtin max).
func timeoutFormOK(got, H string) (bool, string) {
	want := fmt.Sprintf("select[(%s / 2) if {(1000000000 <= (%s / 2))} | 1000000000 if {((%s / 2) < 1000000000)}]", H, H, H)
	alts := []string{
		want,
		fmt.Sprintf("call builtin.max((%s / 2), 1000000000)", H),
		fmt.Sprintf("call builtin.max(1000000000, (%s / 2))", H),
	}
	for _, a := range alts {
		if got == a {
			return true, want
		}
	}
	return false, want
}

// refreshPeriodRule: the refresh loop's ticker period is cfg.HeartbeatInterval (C03-R8, shared as C07-R5).
func refreshPeriodRule(c *Ctx, rule string) {
	m := c.M
	rf := m.refreshLoopFn()
	if rf == nil {
		c.undecided(rule, "refresh loop", nil, "not found")
		return
	}
	H := m.cfgPath("HeartbeatInterval")
	nTk := 0
	eachInstr(rf, func(in ssa.Instruction) {
		if call, ok := isCallTo(valueOf(in), "time.NewTicker"); ok {
			nTk++
			got := m.Sym.Of(call.Call.Args[0]).String()
			c.check(got == H, rule, "refresh period is the heartbeat interval", call, "ticker period %s; required %s (TTL >= 3 x this interval is what validation guarantees: C16, C07-R3)", got, H)
		}
	})
	if nTk != 1 {
		c.undecided(rule, "refresh ticker", firstInstr(rf), "%d tickers in the refresh loop function, expected 1", nTk)
	}
	// the ticker runs free: attempts start on ticks that are H apart whatever the attempts take. A
	// Reset after an attempt moves every later attempt by the duration of that attempt (the third
	// failed attempt then ends L0 + 3H + 3T after the start of a last successful refresh that took L0).
	nReset := 0
	for _, g := range m.unitFns(rf) {
		eachInstr(g, func(in ssa.Instruction) {
			if call, ok := isCallTo(valueOf(in), "(*time.Ticker).Reset"); ok {
				nReset++
				c.viol(rule, "refresh ticker runs free", call, "the refresh loop re-arms its ticker (%s): attempts no longer start one heartbeat interval apart but one interval after the END of the previous attempt, and the demotion of a cut-off leader moves out by the duration of its last successful refresh", m.Sym.Of(call))
			}
		})
	}
	if nReset == 0 {
		c.ok(rule, "refresh ticker runs free", firstInstr(rf), "no (*time.Ticker).Reset in the refresh loop and the functions it is split into")
	}
}


// sameLoop: a and b lie in a common CFG cycle.
func sameLoop(a, b *ssa.BasicBlock) bool {
	for _, l := range cfgLoops(a.Parent()) {
		ina, inb := false, false
		for _, x := range l {
			if x == a {
				ina = true
			}
			if x == b {
				inb = true
			}
		}
		if ina && inb {
			return true
		}
	}
	return false
}


// termContextCalls: the context.With* calls in the claim-set units whose cancel function is
// stored in a field of the election object (the context of one term).
func (m *Model) termContextCalls() []*ssa.Call {
	var out []*ssa.Call
	for _, unit := range m.ClaimSet {
		m.eachUnitInstr(unit, func(in ssa.Instruction) {
			k, ok := in.(*ssa.Call)
			if !ok {
				return
			}
			f := k.Call.StaticCallee()
			if f == nil || !strings.HasPrefix(f.String(), "context.With") {
				return
			}
			if refs := k.Referrers(); refs != nil {
				for _, r := range *refs {
					if ex, ok := r.(*ssa.Extract); ok && ex.Index == 1 {
						if rr := ex.Referrers(); rr != nil {
							for _, u := range *rr {
								if st, ok := u.(*ssa.Store); ok {
									if _, ok := m.implField(st.Addr); ok {
										out = append(out, k)
									}
								}
							}
						}
					}
				}
			}
		})
	}
	return out
}

// termLoopRule (C03-R9, shared as C12-R5 and C07-R6): the periodic loops a claim-set unit starts
// (the refresh loop, the validation loop) run under the context of that term, which every
// claim-clearing unit cancels (C19-R1). A loop on the election's context outlives its term; after
// a re-election within one period it runs next to the new term's loop - two refreshers collide
// (the loser sees a revision conflict, a permanent error, and demotes a healthy leader) and both
// count health failures.
func termLoopRule(c *Ctx, rule string) {
	m := c.M
	terms := m.termContextCalls()
	n := 0
	for _, sp := range m.Spawns() {
		if !m.inClaimUnit(topFunc(sp.Fn)) {
			continue
		}
		for _, t := range sp.Targets {
			for _, g := range sortedFns(m.staticReach(t, false)) {
				if g.Parent() != nil {
					continue
				}
				hasTicker := false
				eachInstr(g, func(in ssa.Instruction) {
					if _, ok := isCallTo(valueOf(in), "time.NewTicker"); ok && len(cfgLoops(g)) > 0 {
						hasTicker = true
					}
				})
				if !hasTicker {
					continue
				}
				judge := func(call ssa.Instruction, a ssa.Value) {
					n++
					chain, root := m.ctxAncestors(a)
					ok := false
					for _, k := range chain {
						for _, tk := range terms {
							if k == tk {
								ok = true
							}
						}
					}
					c.check(ok, rule, "periodic loop "+shortFn(g)+" runs under the term context", call,
						"context argument %s (root %s): derived from the term context created in the claim-set unit (whose cancel every demotion calls): %v. On the election's context the loop outlives its term and runs next to the next term's loop after a quick re-election.", m.Sym.Of(a), m.Sym.Of(root), ok)
				}
				// the loop function itself is what is started (go e.loop(ctx), or a spawn helper that
				// is handed the loop and its context): the context among the arguments of that start
				if t == g {
					if ci, ok := sp.At.(ssa.CallInstruction); ok {
						for _, a := range ci.Common().Args {
							if isNamed(a.Type(), "context", "Context") {
								judge(sp.At, a)
							}
						}
					}
					continue
				}
				// the call of g on the way from the spawned function, and its context argument
				for _, h := range sortedFns(m.staticReach(t, false)) {
					eachInstr(h, func(in ssa.Instruction) {
						call, ok := in.(*ssa.Call)
						if !ok || call.Call.StaticCallee() != g {
							return
						}
						for _, a := range call.Call.Args {
							if !isNamed(a.Type(), "context", "Context") {
								continue
							}
							judge(call, a)
						}
					})
				}
			}
		}
	}
	if n < 2 {
		c.undecided(rule, "instance-floor", nil, "only %d periodic loops started by the claim-set unit found; 2 on the reference tree (refresh, validation)", n)
	}
}


// termLoops: the periodic loops a claim-set unit starts (refresh, validation) with their context
// parameter: the functions with a time.NewTicker loop reachable from a goroutine of the unit.
func (m *Model) termLoops() map[*ssa.Function]*ssa.Parameter {
	out := map[*ssa.Function]*ssa.Parameter{}
	for _, sp := range m.Spawns() {
		if !m.inClaimUnit(topFunc(sp.Fn)) {
			continue
		}
		for _, t := range sp.Targets {
			for _, g := range sortedFns(m.staticReach(t, false)) {
				if g.Parent() != nil || len(cfgLoops(g)) == 0 {
					continue
				}
				hasTicker := false
				eachInstr(g, func(in ssa.Instruction) {
					if _, ok := isCallTo(valueOf(in), "time.NewTicker"); ok {
						hasTicker = true
					}
				})
				if !hasTicker {
					continue
				}
				for _, p := range g.Params {
					if isNamed(p.Type(), "context", "Context") {
						out[g] = p
						break
					}
				}
			}
		}
	}
	return out
}

// termBound: a demotion through h is bound to the term identified by h's context parameter #j:
// h is a claim-clearing unit whose Store(false) is decided by the comparison of that parameter
// with the field holding the current term's context, or every may-demote call of h passes the
// parameter on to such a function. Returns the index of that parameter, or -1.
func (m *Model) termBound(h *ssa.Function, depth int) int {
	if h == nil || h.Blocks == nil || depth > 6 || m.TermCtx == "" {
		return -1
	}
	if v, ok := m.termBoundMemo[h]; ok {
		return v
	}
	if m.termBoundMemo == nil {
		m.termBoundMemo = map[*ssa.Function]int{}
	}
	m.termBoundMemo[h] = -1
	res := -1
	for j, p := range h.Params {
		if !isNamed(p.Type(), "context", "Context") {
			continue
		}
		ok, n := true, 0
		eachInstr(h, func(in ssa.Instruction) {
			if val, isConst, isSt := m.claimStore(in); isSt && isConst && !val {
				n++
				decided := false
				for _, l := range append(m.controlCondsDeep(in, 0), m.GuardsAt(in)...) {
					if m.isTermIdentityLit(l) {
						for _, a := range l.S.Args {
							if a.V == ssa.Value(p) {
								decided = true
							}
						}
					}
				}
				if !decided {
					ok = false
				}
			}
			if call, isCall := in.(*ssa.Call); isCall {
				g := call.Call.StaticCallee()
				if g == nil || !m.isLib(g) || g == h || !m.mayDemote(g, specFor(call, g), 0) {
					return
				}
				n++
				// a phase of h's own body that clears the claim (decide / apply split): the call is
				// decided by the term comparison made in h or in the deciding phase
				if len(m.callers[g]) == 1 && g.Parent() == nil {
					hasCtx := false
					for _, q := range g.Params {
						if isNamed(q.Type(), "context", "Context") {
							hasCtx = true
						}
					}
					if !hasCtx {
						decided := false
						for _, l := range append(m.controlCondsDeep(call, 0), m.GuardsAt(call)...) {
							if m.isTermIdentityLit(l) {
								for _, a := range l.S.Args {
									if a.V == ssa.Value(p) {
										decided = true
									}
								}
							}
						}
						if !decided {
							ok = false
						}
						return
					}
				}
				k := m.termBound(g, depth+1)
				if k < 0 || k >= len(call.Call.Args) || m.traceValueUntil(call.Call.Args[k], func(v ssa.Value) bool { return v == ssa.Value(p) }) != ssa.Value(p) {
					ok = false
				}
			}
		})
		if ok && n > 0 {
			res = j
			break
		}
	}
	m.termBoundMemo[h] = res
	return res
}

// termBoundDemotionRule (C07-R9, shared as C12-R7): every demotion a term's loop can issue is bound
// to that term: the may-demote call passes the loop's own context to a term-bound function. A loop
// notices the end of its term late (slow health check, store operation in flight); by then the
// instance may lead a new term, which an unbound demotion would end.
func termBoundDemotionRule(c *Ctx, rule string) {
	m := c.M
	loops := m.termLoops()
	if len(loops) < 2 {
		c.undecided(rule, "instance-floor", nil, "only %d periodic loops started by the claim-set unit found; 2 on the reference tree (refresh, validation)", len(loops))
	}
	for _, g := range sortedFnKeys(loops) {
		p := loops[g]
		n := 0
		for _, u := range m.unitFns(g) {
			eachInstr(u, func(in ssa.Instruction) {
				call, ok := in.(*ssa.Call)
				if !ok {
					return
				}
				h := call.Call.StaticCallee()
				if h == nil || !m.isLib(h) || containsFn(m.unitFns(g), h) || !m.mayDemote(h, specFor(call, h), 0) {
					return
				}
				n++
				k := m.termBound(h, 0)
				bound := k >= 0 && k < len(call.Call.Args) && m.traceValueUntil(call.Call.Args[k], func(v ssa.Value) bool { return v == ssa.Value(p) }) == ssa.Value(p)
				key := fmt.Sprintf("demotion #%d issued by %s is bound to the loop's term", ordinalOf(u, in, func(x ssa.Instruction) bool {
					c2, ok := x.(*ssa.Call)
					if !ok {
						return false
					}
					h2 := c2.Call.StaticCallee()
					return h2 != nil && m.isLib(h2) && !containsFn(m.unitFns(g), h2) && m.mayDemote(h2, specFor(c2, h2), 0)
				}), shortFn(u))
				c.check(bound, rule, key, call, "%s can end a term; it compares the context it is given with the current term's (%s) before clearing the claim: %v; the context it is given here is the loop's own: %v. An unbound demotion issued by a loop that outlived its term (it was inside a health check, or waiting for the store, while the instance was demoted and re-elected) ends the NEW term: a healthy leader demoted, OnDemote invoked a second time.", shortFn(h), m.path(m.TermCtx), k >= 0, bound)
			})
		}
		if n == 0 {
			c.ok(rule, "loop "+shortFn(g)+" issues no demotion", firstInstr(g), "no may-demote call in the loop and the functions it is split into")
		}
	}
}

func sortedFnKeys(mp map[*ssa.Function]*ssa.Parameter) []*ssa.Function {
	var fs []*ssa.Function
	for f := range mp {
		fs = append(fs, f)
	}
	sort.Slice(fs, func(i, j int) bool { return fs[i].Pos() < fs[j].Pos() })
	return fs
}


// alwaysReachesClearUnit: every path through g calls a (non-stop) claim-clearing unit, directly or
// through a callee with the same property. What that unit then decides (claim already clear,
// stopped, another term) is its own business: C08-R3, C09-R1, C07-R9.
func (m *Model) alwaysReachesClearUnit(g *ssa.Function, depth int) bool {
	if g == nil || g.Blocks == nil || depth > 4 {
		return false
	}
	if containsFn(m.ClaimClear, g) && !containsFn(m.StopUnits, g) {
		// ... and the unit does clear the claim: no test of other state of the election ("the run
		// has ended anyway") stands between a demotion request and the Store(false) (C04-R7)
		return m.clearUnitClears(g)
	}
	isClear := func(in ssa.Instruction) bool {
		if call, ok := in.(*ssa.Call); ok {
			if h := call.Call.StaticCallee(); h != nil && h != g && m.isLib(h) && m.alwaysReachesClearUnit(h, depth+1) {
				return true
			}
		}
		return false
	}
	first := g.Blocks[0].Instrs[0]
	if isClear(first) {
		return true
	}
	ok, _ := mustFollow(first, isClear, nil)
	return ok
}
