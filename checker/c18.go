package main

import (
	"go/types"
	"sort"
	"go/token"
	"fmt"
	"strings"

	"golang.org/x/tools/go/ssa"
)

func init() {
	register(&PropertySpec{
		ID:    "C18",
		Level: "other",
		Run:   checkC18,
		Explanation: "Convergence 'once activity settles' is a runtime notion and is not decided. Decided: (R1) every store to the claim or to the state outside the constructor happens under the election mutex (write), and each critical section leaves constants with claim == (state == LEADER) (the start unit stores CANDIDATE only); Status() loads claim and state under one read-lock hold - hence every snapshot has IsLeader <=> State == LEADER and a stop leaves (false, STOPPED); " +
			"(R2) each such section updates the is-leader gauge after the claim store and records a transition whose from-state is the state loaded in that section before the store and whose to-state is the constant stored (chain property); " +
			"(R3) the leader id, revision and token fields are written only by the claim-set unit, by the refresh's own-write result, or under the write lock while the claim is false in that section - a leader's snapshot therefore shows its own id, token and latest own revision; (R4) every constant stored to the state is one of the documented State* values.",
		NotDecided: []string{"that a follower's LeaderID converges to the live record's id in time (needs watch delivery or the periodic check to run); decided is that both hand the id on unconditionally (R5)", "that the gauge equals IsLeader() once activity settles (needs quiescence)"},
		Assumptions: []string{"the Metrics implementation records what it is given"},
		Rules: map[string]string{
			"R1": "claim/state stores have the election mutex (W) in their must-lockset; per function: claim true <=> state LEADER among the constants stored; Status(): claim and state loads under the mutex (R)",
			"R2": "in every function storing the claim: a call reaching Metrics.SetIsLeader after the claim store - and after the section's state store when the gauge value is computed from the state word; the label set handed to Metrics.IncTransitions is built in that call (no element of a map looked up by a key that mentions fewer than two string parameters, no field or package variable); a call reaching Metrics.IncTransitions whose `to` argument is the stored state constant and whose `from` argument derives from a state load preceding the state store in the same section",
			"R3": "stores to leaderID / revision / token: in a claim-set unit | own-write result | under the write lock with claim==false in that section",
			"R5": "every follower-side function that reads the live record (it is reachable from the follower loop and reaches Get or receives watch entries) hands the record's id to the function that stores the leader-id field; at that call no guard demands that a leader id is already known (NOT (\"\" == <leader id field>))",
			"R4": "constants stored to the state field are a subset of the exported State* constants",
		},
	})
}

func checkC18(c *Ctx) {
	m := c.M
	la := m.Locks()
	leader := m.StateConsts["StateLeader"]
	valid := map[string]bool{}
	for _, v := range m.StateConsts {
		valid[v] = true
	}
	startUnit := m.method("Start")

	type sect struct {
		claims []bool
		states []string
		claimI []ssa.Instruction
		stateI []ssa.Instruction
	}
	sects := map[*ssa.Function]*sect{}
	for _, f := range m.Funcs {
		if m.isCtorCode(f) {
			continue
		}
		own := m.ownerOf(f)
		eachInstr(f, func(in ssa.Instruction) {
			if val, isConst, ok := m.claimStore(in); ok {
				s := sects[own]
				if s == nil {
					s = &sect{}
					sects[own] = s
				}
				if isConst {
					s.claims = append(s.claims, val)
				}
				s.claimI = append(s.claimI, in)
				c.check(la.MustBefore(in)[m.implMuW()], "R1", fmt.Sprintf("claim store (%v) under the election mutex in %s", val, shortFn(f)), in, "must-lockset %s", la.MustBefore(in))
			}
			if call, ok := in.(*ssa.Call); ok {
				if fld, v, ok := m.atomicStore(call); ok && fld == m.State {
					s := sects[own]
					if s == nil {
						s = &sect{}
						sects[own] = s
					}
					str, isC := constStr(v)
					if !isC {
						c.viol("R4", "state constant in "+shortFn(f), in, "the state receives a computed value %s", m.Sym.Of(v))
						return
					}
					s.states = append(s.states, str)
					s.stateI = append(s.stateI, in)
					c.check(la.MustBefore(in)[m.implMuW()], "R1", fmt.Sprintf("state store (%s) under the election mutex in %s", str, shortFn(f)), in, "must-lockset %s", la.MustBefore(in))
					c.check(valid[str], "R4", fmt.Sprintf("state %q is a documented value (%s)", str, shortFn(f)), in, "documented: %v", keysOfStr(m.StateConsts))
				}
			}
		})
	}
	for f, s := range sects {
		key := "claim <=> LEADER in " + shortFn(f)
		hasTrue, hasFalse, hasLeader, hasOther := false, false, false, false
		for _, b := range s.claims {
			if b {
				hasTrue = true
			} else {
				hasFalse = true
			}
		}
		for _, st := range s.states {
			if st == leader {
				hasLeader = true
			} else {
				hasOther = true
			}
		}
		ok := true
		why := ""
		switch {
		case hasTrue && hasFalse:
			ok, why = false, "the function stores both true and false to the claim"
		case hasTrue && (!hasLeader || hasOther):
			ok, why = false, fmt.Sprintf("claim := true with states %q", s.states)
		case hasFalse && (hasLeader || !hasOther):
			ok, why = false, fmt.Sprintf("claim := false with states %q (a state other than LEADER must be stored in the same section)", s.states)
		case !hasTrue && !hasFalse && hasLeader:
			ok, why = false, "state := LEADER without claim := true"
		case !hasTrue && !hasFalse && f != startUnit:
			ok, why = false, fmt.Sprintf("states %q stored without touching the claim outside the start unit", s.states)
		default:
			why = fmt.Sprintf("claims %v, states %q", s.claims, s.states)
		}
		c.check(ok, "R1", key, firstOf(s.claimI, s.stateI), "%s", why)
	}
	if len(sects) < 4 {
		c.undecided("R1", "instance-floor", nil, "only %d functions store the claim or the state; 5 on the reference tree", len(sects))
	}
	// Status under one read-lock hold: the loads that feed IsLeader and State are made under the
	// election mutex (directly or in helpers called under it), with no unlock in Status between them
	if st := m.method("Status"); st != nil {
		for _, b := range liveBlocks(st) {
			ret, ok := b.Instrs[len(b.Instrs)-1].(*ssa.Return)
			if !ok || b == st.Recover {
				continue
			}
			v := returnValue(ret, 0)
			cl := m.OriginLoadsField(v, "IsLeader")
			sl := m.OriginLoadsField(v, "State")
			locked := func(ls []*ssa.Call) bool {
				if len(ls) == 0 {
					return false
				}
				for _, l := range ls {
					if !la.MustBefore(l).hasLock(m.path(m.Mu)) {
						return false
					}
				}
				return true
			}
			okS := locked(cl) && locked(sl) && m.FieldOrigins(v, "IsLeader")["field:"+m.Claim] && m.FieldOrigins(v, "State")["field:"+m.State]
			// exactly one acquisition of the mutex in Status and no release before the snapshot is complete
			nAcq, early := 0, false
			eachInstr(st, func(in ssa.Instruction) {
				if call, ok := in.(*ssa.Call); ok {
					if op, ok := m.lockOpOf(&call.Call); ok && op.ID == m.path(m.Mu) {
						switch op.Kind {
						case "RLock", "Lock":
							nAcq++
						case "RUnlock", "Unlock":
							if !dominatesInstr(ret, in) {
								// an explicit unlock somewhere before the return: the loads must all precede it
								for _, l := range append(append([]*ssa.Call{}, cl...), sl...) {
									if l.Parent() == st && !dominatesInstr(l, in) {
										early = true
									}
								}
							}
						}
					}
				}
			})
			c.check(okS && nAcq == 1 && !early, "R1", "Status() reads claim and state in one critical section", ret, "loads feeding IsLeader/State under %s: %v; acquisitions of the mutex in Status: %d; released before the snapshot is complete: %v", m.path(m.Mu), okS, nAcq, early)
		}
	}

	// ---- R2 metrics ---------------------------------------------------------------------
	reachesMetric := func(f *ssa.Function, method string) bool {
		found := false
		for _, g := range sortedFns(m.staticReach(f, false)) {
			eachInstr(g, func(in ssa.Instruction) {
				if call, ok := in.(*ssa.Call); ok && call.Call.IsInvoke() && call.Call.Method.Name() == method {
					found = true
				}
			})
		}
		return found
	}
	readsState := func(g *ssa.Function) bool {
		found := false
		for _, h := range append([]*ssa.Function{g}, sortedFns(m.staticReach(g, false))...) {
			eachInstr(h, func(in ssa.Instruction) {
				if call, ok := in.(*ssa.Call); ok && m.isAtomicLoadOf(call, m.State) {
					found = true
				}
			})
		}
		return found
	}
	for f, s := range sects {
		if len(s.claimI) == 0 {
			continue
		}
		claimAt := s.claimI[len(s.claimI)-1]
		gauge, trans, gaugeStale := false, "", ""
		var cached []string
		m.eachUnitInstr(f, func(in ssa.Instruction) {
			call, ok := in.(*ssa.Call)
			if !ok {
				return
			}
			g := call.Call.StaticCallee()
			if g == nil || !m.isLib(g) {
				return
			}
			if containsFn(m.bodyFns(f), g) {
				return // part of this section: its own instructions are visited
			}
			if reachesMetric(g, "SetIsLeader") && m.dominatesLifted(f, claimAt, in) && la.MustBefore(in)[m.implMuW()] {
				gauge = true
				// the gauge is published after the last store to everything it is computed from: a
				// publication that reads the state word must follow the section's state store as well
				if readsState(g) && len(s.stateI) > 0 && !m.dominatesLifted(f, s.stateI[len(s.stateI)-1], in) {
					gaugeStale = fmt.Sprintf("the gauge value is computed from %s, which this section stores (%q) only after the publication", m.path(m.State), s.states)
				}
			}
			if reachesMetric(g, "IncTransitions") {
				for _, h := range append([]*ssa.Function{g}, sortedFns(m.staticReach(g, false))...) {
					eachInstr(h, func(x ssa.Instruction) {
						ic, ok := x.(*ssa.Call)
						if !ok || !ic.Call.IsInvoke() || ic.Call.Method.Name() != "IncTransitions" || len(ic.Call.Args) == 0 {
							return
						}
						cached = append(cached, m.storedLabelSets(ic.Call.Args[0], map[ssa.Value]bool{}, 0)...)
					})
				}
			}
			if reachesMetric(g, "IncTransitions") && len(call.Call.Args) >= 3 && la.MustBefore(in)[m.implMuW()] {
				to, isC := constStr(call.Call.Args[2])
				from := m.Sym.Of(call.Call.Args[1])
				fo := m.Origins(call.Call.Args[1])
				fromOK := fo["field:"+m.State] && fo.all(func(k string) bool { return k == "field:"+m.State || strings.HasPrefix(k, "const:") })
				// the state load precedes the state store
				ordered := true
				if len(s.stateI) > 0 {
					m.eachUnitInstr(f, func(x ssa.Instruction) {
						if c2, ok := x.(*ssa.Call); ok && m.isAtomicLoadOf(c2, m.State) {
							if !m.dominatesLifted(f, x, s.stateI[0]) {
								ordered = false
							}
						}
					})
				}
				toOK := isC && len(s.states) > 0 && to == s.states[len(s.states)-1]
				if fromOK && toOK && ordered {
					trans = "ok"
				} else {
					trans = fmt.Sprintf("from=%s (state loaded in this section before the store: %v), to=%q (stored %q)", clip(from.String(), 80), fromOK && ordered, to, s.states)
				}
			}
		})
		c.check(gauge, "R2", "gauge updated after the claim store in "+shortFn(f), claimAt, "a call reaching Metrics.SetIsLeader after the claim store, under the mutex: %v", gauge)
		c.check(gaugeStale == "", "R2", "gauge published after the stores it reads in "+shortFn(f), claimAt, "%s", orStr(gaugeStale, "the publication follows the last store of every field its value is computed from"))
		c.check(len(cached) == 0, "R2", "transition labels are built from this transition in "+shortFn(f), claimAt, "the label set handed to Metrics.IncTransitions originates in mutable fields of the election %v: a cached set carries the from/to of an earlier transition (the chain of recorded transitions breaks from the second term on)", cached)
		c.check(trans == "ok", "R2", "transition recorded with the section's own from/to in "+shortFn(f), claimAt, "%s", trans)
	}

	// ---- R3 owner-side fields -----------------------------------------------------------
	ownRevisionRule(c, "R3")
	for _, fld := range []string{m.LeaderID, m.Token} {
		n := 0
		for _, f := range m.Funcs {
			if m.isCtorCode(f) {
				continue
			}
			eachInstr(f, func(in ssa.Instruction) {
				call, ok := in.(*ssa.Call)
				if !ok {
					return
				}
				f2, _, ok := m.atomicStore(call)
				if !ok || f2 != fld {
					return
				}
				n++
				key := fmt.Sprintf("%s store #%d in %s", fld, ordinalOf(f, in, func(x ssa.Instruction) bool {
					c2, ok := x.(*ssa.Call)
					if !ok {
						return false
					}
					f3, _, ok := m.atomicStore(c2)
					return ok && f3 == fld
				}), shortFn(f))
				if m.inClaimUnit(f) && la.MustBefore(in)[m.implMuW()] {
					c.ok("R3", key, in, "in the claim-set unit under the mutex")
					return
				}
				notLeader := false
				if la.MustBefore(in)[m.implMuW()] {
					for _, l := range m.GuardsAt(in) {
						if !l.Truth && m.isClaimLoadSym(l.S) {
							if ld, ok := l.S.V.(*ssa.Call); ok && ld.Parent() == f && la.MustBefore(ld)[m.implMuW()] {
								notLeader = true
							}
						}
					}
				}
				c.check(notLeader, "R3", key, in, "stored under the write lock with claim==false in the same section: %v (otherwise a freshly promoted leader's snapshot shows another instance's %s)", notLeader, fld)
			})
		}
	}
	followerObservesLeaderRule(c, "R5")
}

func firstOf(a, b []ssa.Instruction) ssa.Instruction {
	if len(a) > 0 {
		return a[0]
	}
	if len(b) > 0 {
		return b[0]
	}
	return nil
}

func keysOfStr(m map[string]string) []string {
	var out []string
	for _, v := range m {
		out = append(out, v)
	}
	return out
}


// followerObservesLeaderRule (C18-R5): a follower learns the leader's id from the live record by
// two ways, the watch and the periodic check; each must store the id it reads whenever it differs
// from the known one - also when none is known yet (a follower whose watch cannot be established
// has only the periodic check).
func followerObservesLeaderRule(c *Ctx, rule string) {
	m := c.M
	root, _, _, _ := m.followerLoop()
	if root == nil {
		c.undecided(rule, "follower loop", nil, "not found")
		return
	}
	// the functions that store the leader-id field outside the claim-set units
	var observe []*ssa.Function
	for _, f := range m.Funcs {
		if m.isCtorCode(f) || m.inClaimUnit(f) {
			continue
		}
		eachInstr(f, func(in ssa.Instruction) {
			if call, ok := in.(*ssa.Call); ok {
				if fld, _, ok := m.atomicStore(call); ok && fld == m.LeaderID && !containsFn(observe, f) {
					observe = append(observe, f)
				}
			}
		})
	}
	if len(observe) == 0 {
		c.viol(rule, "followers record the leader they observe", firstInstr(root), "no function outside the claim-set units stores %s: a follower never learns who leads", m.path(m.LeaderID))
		return
	}
	// inside the recording function the store depends on nothing but the role: a comparison with a
	// cache of "the leader seen last" that another writer of the leader id (the claim-set unit)
	// does not maintain makes a record that names the same leader as before the instance's own
	// term look unchanged - the follower then shows its own id for good
	for _, f := range observe {
		eachInstr(f, func(in ssa.Instruction) {
			call, ok := in.(*ssa.Call)
			if !ok {
				return
			}
			if fld, _, ok := m.atomicStore(call); !ok || fld != m.LeaderID {
				return
			}
			var foreign []string
			for _, l := range append(append([]Lit{}, m.GuardsAt(in)...), m.controlCondsDeep(in, 0)...) {
				if l.Derived && !strings.Contains(l.S.String(), m.ImplName+".") {
					continue
				}
				str := l.S.String()
				switch {
				case m.isClaimLoadSym(l.S) || m.isClaimValueSym(l.S):
				case strings.Contains(str, m.path(m.LeaderID)) || strings.Contains(str, m.path(m.State)) || strings.Contains(str, m.path(m.Ctx)):
				case func() bool {
					// only init-only fields are mentioned: the configuration, the store handle and the
					// key (e.g. "the read succeeded", "not allowed to preempt")
					rest := str
					for _, immut := range []string{m.path(m.Cfg) + ".", m.path(m.KV), m.path(m.Key)} {
						rest = strings.ReplaceAll(rest, immut, "")
					}
					return !strings.Contains(rest, m.ImplName+".")
				}():
				case !strings.Contains(str, m.ImplName+"."):
					// a test of the arguments only
				default:
					foreign = append(foreign, l.String())
				}
			}
			c.check(len(foreign) == 0, rule, "the observed leader is stored whenever the instance does not lead: "+shortFn(f), in, "conditions on other state of the election on the way to the store of %s: %v", m.path(m.LeaderID), foreign)
		})
	}
	n := 0
	for _, g := range sortedFns(m.staticReach(root, false)) {
		eachInstr(g, func(in ssa.Instruction) {
			call, ok := in.(*ssa.Call)
			if !ok || !containsFn(observe, call.Call.StaticCallee()) {
				return
			}
			n++
			var bad []string
			for _, l := range append(append([]Lit{}, m.GuardsAt(in)...), m.controlConds(in)...) {
				if l.S.Op != "bin" || l.S.Name != "==" || len(l.S.Args) != 2 {
					continue
				}
				for i := 0; i < 2; i++ {
					if l.S.Args[i].String() == `""` && l.S.Args[1-i].V != nil && m.Origins(l.S.Args[1-i].V)["field:"+m.LeaderID] {
						bad = append(bad, l.String())
					}
				}
			}
			key := fmt.Sprintf("observed leader recorded also when none is known: call #%d in %s", ordinalOf(g, in, func(x ssa.Instruction) bool {
				c2, ok := x.(*ssa.Call)
				return ok && containsFn(observe, c2.Call.StaticCallee())
			}), shortFn(g))
			c.check(len(bad) == 0, rule, key, in, "the hand-over of the record's id depends on the known leader id being non-empty: %v. A follower that starts with LeaderID \"\" and cannot establish its watch then never records the leader the periodic check reads.", bad)
		})
	}
	if n < 2 {
		c.undecided(rule, "instance-floor", firstInstr(root), "only %d calls that record an observed leader found on the follower side; 2 on the reference tree (watch event, periodic check)", n)
	}
}

func orStr(a, b string) string {
	if a != "" {
		return a
	}
	return b
}

// storedLabelSets: the places a map value may come from that are not a fresh allocation of the
// current call: an element of another map or slice, or the content of a field / package variable.
// Followed through phis, conversions and the results of library functions.
func (m *Model) storedLabelSets(v ssa.Value, seen map[ssa.Value]bool, depth int) []string {
	if v == nil || seen[v] || depth > 8 {
		return nil
	}
	seen[v] = true
	var out []string
	switch x := v.(type) {
	case *ssa.Phi:
		for _, e := range x.Edges {
			out = append(out, m.storedLabelSets(e, seen, depth+1)...)
		}
	case *ssa.ChangeType:
		out = append(out, m.storedLabelSets(x.X, seen, depth+1)...)
	case *ssa.Convert:
		out = append(out, m.storedLabelSets(x.X, seen, depth+1)...)
	case *ssa.Extract:
		out = append(out, m.storedLabelSets(x.Tuple, seen, depth+1)...)
	case *ssa.Lookup:
		// a cache of label sets is sound when its key determines both states of the transition: the
		// key mentions two distinct string parameters of the function that looks it up
		leaves := map[string]bool{}
		strParamLeaves(x.Index, leaves, map[ssa.Value]bool{}, 0)
		if len(leaves) < 2 {
			out = append(out, fmt.Sprintf("element of %s looked up by a key that mentions %v only", clip(m.Sym.Of(x.X).String(), 60), keysOfSet(leaves)))
		}
	case *ssa.Index:
		out = append(out, "element of "+clip(m.Sym.Of(x.X).String(), 60))
	case *ssa.UnOp:
		if x.Op == token.MUL {
			switch a := x.X.(type) {
			case *ssa.FieldAddr:
				if !strings.HasPrefix(m.Sym.Of(x).String(), m.path(m.Cfg)) {
					out = append(out, "field "+clip(m.Sym.Of(x).String(), 60))
				}
			case *ssa.Global:
				out = append(out, "variable "+a.Name())
			case *ssa.IndexAddr:
				out = append(out, "element of "+clip(m.Sym.Of(a.X).String(), 60))
			}
		}
	case *ssa.Call:
		if g := x.Call.StaticCallee(); g != nil && m.isLib(g) && g.Blocks != nil {
			for _, b := range liveBlocks(g) {
				if ret, ok := b.Instrs[len(b.Instrs)-1].(*ssa.Return); ok && len(ret.Results) > 0 && b != g.Recover {
					out = append(out, m.storedLabelSets(ret.Results[0], seen, depth+1)...)
				}
			}
		}
	}
	return out
}

func keysOfSet(m map[string]bool) []string {
	var out []string
	for k := range m {
		out = append(out, k)
	}
	sort.Strings(out)
	return out
}

// strParamLeaves collects the string parameters a key expression is built from (concatenation,
// formatting calls, struct or array literals kept in a local).
func strParamLeaves(v ssa.Value, out map[string]bool, seen map[ssa.Value]bool, depth int) {
	if v == nil || seen[v] || depth > 10 {
		return
	}
	seen[v] = true
	switch x := v.(type) {
	case *ssa.Parameter:
		if b, ok := x.Type().Underlying().(*types.Basic); ok && b.Info()&types.IsString != 0 {
			out[x.Name()] = true
		}
	case *ssa.BinOp:
		strParamLeaves(x.X, out, seen, depth+1)
		strParamLeaves(x.Y, out, seen, depth+1)
	case *ssa.Convert:
		strParamLeaves(x.X, out, seen, depth+1)
	case *ssa.ChangeType:
		strParamLeaves(x.X, out, seen, depth+1)
	case *ssa.MakeInterface:
		strParamLeaves(x.X, out, seen, depth+1)
	case *ssa.Phi:
		for _, e := range x.Edges {
			strParamLeaves(e, out, seen, depth+1)
		}
	case *ssa.Slice:
		strParamLeaves(x.X, out, seen, depth+1)
	case *ssa.Call:
		for _, a := range x.Call.Args {
			strParamLeaves(a, out, seen, depth+1)
		}
	case *ssa.UnOp:
		if x.Op == token.MUL {
			strParamLeaves(x.X, out, seen, depth+1)
		}
	case *ssa.Alloc:
		if x.Parent() == nil {
			return
		}
		eachInstr(x.Parent(), func(in ssa.Instruction) {
			st, ok := in.(*ssa.Store)
			if !ok {
				return
			}
			base := st.Addr
			switch a := base.(type) {
			case *ssa.FieldAddr:
				base = a.X
			case *ssa.IndexAddr:
				base = a.X
			}
			if base == ssa.Value(x) {
				strParamLeaves(st.Val, out, seen, depth+1)
			}
		})
	}
}
