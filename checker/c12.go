package main

import (
	"fmt"
	"strings"

	"golang.org/x/tools/go/ssa"
)

func init() {
	register(&PropertySpec{
		ID:    "C12",
		Level: "other",
		Run:   checkC12,
		Explanation: "Decides, for all thresholds and result sequences, the counting discipline the property describes: (R1) every HealthChecker.Check call receives the context returned by context.WithTimeout(_, 100ms); (R2) the threshold is MaxConsecutiveFailures if positive, else 3; " +
			"(R3) on an unhealthy result the counter is incremented by exactly 1, the non-strict comparison count >= threshold leads to the health demotion and the loop's return, its negation to the next tick without any store operation; a healthy result resets the counter to 0; " +
			"(R4) the counter is reset at the start of every term (in the claim-set unit, in the loop prologue, or it is a local of the loop); (R5) the health demotion goes through the demotion wrapper (OnDemote exactly once: C08); (R6) the loop that runs the checks belongs to one term (C03-R9, shared): no loop of an earlier term counts into a later term's counter; (R7, R8) a loop that notices the end of its term late - its check outlasted the term - neither demotes a later term nor counts its stale result there.",
		NotDecided: []string{"that a slow checker which ignores its context does not delay the tick (runtime)", "re-election after a health demotion (C06)"},
		Assumptions: []string{"context.WithTimeout semantics"},
		Rules: map[string]string{
			"R1": "argument of HealthChecker.Check == result #0 of context.WithTimeout(_, 100ms)",
			"R2": "threshold expression == select[3 if MCF <= 0 | MCF otherwise] over cfg.MaxConsecutiveFailures",
			"R3": "unhealthy edge: counter.Add(1); `threshold <= count` (non-strict) true edge: may-demote call then return; false edge: no store operation before the next tick; healthy edge: counter.Store(0)",
			"R6": "shared with C03-R9: the loop that runs the health check runs under the term context (no loop of an earlier term counts failures into a later term)",
			"R4": "counter.Store(0) in a claim-set unit under the election mutex, or in a block of the refresh loop function that is not in the loop",
			"R5": "see C08-R2/R3 (the health demotion is a call of a may-demote function)",
			"R9": "no Load / Add / CompareAndSwap of the health counter outside the refresh loop unit (Store(0) at the start of a term is R4)",
			"R7": "shared with C07-R9: every may-demote call of the loop passes the loop's own context to a term-bound demotion (a function whose claim clear is decided by `termCtx field == that parameter`)",
			"R8": "an If on ctx.Err() == nil (ctx = the loop's context parameter) that is dominated by the Check call guards the counter increment",
		},
	})
}

func checkC12(c *Ctx) {
	m := c.M
	rf := m.refreshLoopFn()
	if rf == nil || m.HealthCounter == "" {
		c.undecided("R1", "health check site", nil, "refresh loop or health counter not found")
		return
	}
	MCF := m.cfgPath("MaxConsecutiveFailures")
	nCheck := 0
	for _, f := range m.Funcs {
		eachInstr(f, func(in ssa.Instruction) {
			call, ok := in.(*ssa.Call)
			if !ok || !call.Call.IsInvoke() || call.Call.Method.Name() != "Check" || namedOf(call.Call.Value.Type()) == nil || namedOf(call.Call.Value.Type()).Obj().Name() != "HealthChecker" {
				return
			}
			nCheck++
			// R1
			arg := m.Sym.Of(call.Call.Args[0])
			okCtx := arg.Op == "extract" && arg.Name == "0" && arg.Args[0].Op == "call" && arg.Args[0].Name == "context.WithTimeout" && len(arg.Args[0].Args) == 2 && arg.Args[0].Args[1].String() == "100000000"
			c.check(okCtx, "R1", fmt.Sprintf("health check #%d gets a 100 ms context in %s", nCheck, shortFn(f)), call, "argument %s", arg)
		})
	}
	if nCheck == 0 {
		c.viol("R1", "health check site", firstInstr(rf), "HealthChecker.Check is never called")
		return
	}

	// R3: the Add, the comparison, the reset
	var add *ssa.Call
	nAdd := 0
	body := m.bodyFns(rf)
	eachBody := func(fn func(in ssa.Instruction)) {
		for _, g := range body {
			eachInstr(g, fn)
		}
	}
	eachBody(func(in ssa.Instruction) {
		if call, ok := in.(*ssa.Call); ok {
			if fld, meth, ok := m.atomicCall(call); ok && fld == m.HealthCounter && meth == "Add" {
				add = call
				nAdd++
			}
		}
	})
	if add == nil || nAdd != 1 {
		c.viol("R3", "unhealthy result increments the counter", firstInstr(rf), "%d Add calls on the health counter in the refresh loop (required exactly 1)", nAdd)
		return
	}
	n, isC := constInt(add.Call.Args[1])
	gs := m.GuardsAt(add)
	unhealthy := hasLit(gs, false, func(s *Sym) bool { return s.Op == "invoke" && strings.HasSuffix(s.Name, "HealthChecker.Check") })
	c.check(isC && n == 1 && unhealthy, "R3", "unhealthy result increments the counter by one", add, "Add(%d); on the Check()==false edge: %v", n, unhealthy)

	var cmp *ssa.If
	eachInstr(add.Parent(), func(in ssa.Instruction) {
		if ifi, ok := in.(*ssa.If); ok {
			l := m.litOf(ifi.Cond, true, ifi)
			if l.S.Op == "bin" && (l.S.Args[0].V == ssa.Value(add) || l.S.Args[1].V == ssa.Value(add)) {
				cmp = ifi
			}
		}
	})
	if cmp == nil {
		c.viol("R3", "count compared with the threshold", add, "the value returned by Add is not compared with a threshold")
		return
	}
	l := m.litOf(cmp.Cond, true, cmp)
	// accepted: (thr <= add) [count >= thr]; demote edge = where that holds
	var thr *Sym
	demoteEdge := -1
	switch {
	case l.S.Name == "<=" && l.S.Args[1].V == ssa.Value(add):
		thr = l.S.Args[0]
		demoteEdge = map[bool]int{true: 0, false: 1}[l.Truth]
	case l.S.Name == "<" && l.S.Args[0].V == ssa.Value(add): // add < thr : demote on the negation
		thr = l.S.Args[1]
		demoteEdge = map[bool]int{true: 1, false: 0}[l.Truth]
	}
	if thr == nil {
		c.viol("R3", "demotion exactly at the threshold", cmp, "the comparison %s is not `count >= threshold`: with a strict comparison the leader survives one unhealthy tick more than configured (or, with == , for ever once the count overshoots)", l)
		return
	}
	demotes := m.edgeDemotesAndExits(cmp.Block(), demoteEdge)
	c.check(demotes, "R3", "demotion exactly at the threshold", cmp, "count >= threshold leads to a demotion and the loop's return: %v", demotes)
	// below the threshold: next tick without a store operation
	var bad ssa.Instruction
	m.explore(cmp.Block(), 1-demoteEdge, 0, func(in ssa.Instruction, flag int) (int, bool) {
		if s, ok := in.(*ssa.Select); ok && s.Blocking {
			return flag, true // the next tick
		}
		if _, ok := m.isKVCall(valueOf(in), ""); ok || m.spawnsStoreOp(in) {
			if bad == nil {
				bad = in
			}
			return flag, true
		}
		if call, ok := in.(*ssa.Call); ok {
			if g := call.Call.StaticCallee(); g != nil && m.isLib(g) && m.reachesStoreOp(g) && !m.mayDemote(g, specFor(call, g), 0) {
				if bad == nil {
					bad = in
				}
				return flag, true
			}
		}
		return flag, false
	}, nil)
	c.check(bad == nil, "R3", "unhealthy tick skips the refresh", cmp, "store operation reachable before the next tick: %v (%s)", bad != nil, c.posOf(bad))
	// healthy edge resets
	reset := false
	eachBody(func(in ssa.Instruction) {
		if call, ok := in.(*ssa.Call); ok {
			if fld, v, ok := m.atomicStore(call); ok && fld == m.HealthCounter {
				if k, isC := constInt(v); isC && k == 0 {
					g := m.GuardsAt(in)
					if hasLit(g, true, func(s *Sym) bool { return s.Op == "invoke" && strings.HasSuffix(s.Name, "HealthChecker.Check") }) {
						reset = true
					}
				}
			}
		}
	})
	c.check(reset, "R3", "healthy result resets the counter", add, "a Store(0) on the Check()==true edge exists: %v", reset)

	// R2 threshold expression
	var tv ssa.Value = thr.V
	for {
		if cv, ok := tv.(*ssa.Convert); ok {
			tv = cv.X
			continue
		}
		break
	}
	tv = m.traceValue(tv)
	got := m.Gated(tv)
	if ph, ok := tv.(*ssa.Phi); ok && inLoop(ph.Block()) {
		// the threshold is computed before the loop and carried through it unchanged
		got = m.GatedEntry(ph)
		for i, e := range ph.Edges {
			if inLoopFrom(ph.Block().Preds[i], ph.Block()) && !carries(e, ph, 0) {
				got = "modified inside the loop: " + m.Sym.Of(e).String()
			}
		}
	}
	want1 := fmt.Sprintf("select[%s if {(0 < %s)} | 3 if {(%s <= 0)}]", MCF, MCF, MCF)
	want2 := fmt.Sprintf("select[%s if {NOT (0 == %s)} | 3 if {(0 == %s)}]", MCF, MCF, MCF)
	want1 = sortSelect(want1)
	want2 = sortSelect(want2)
	c.check(sortSelect(got) == want1 || sortSelect(got) == want2, "R2", "threshold is MaxConsecutiveFailures or 3", cmp, "threshold expression %s; required %s", got, want1)

	// R4 per term
	perTerm := ""
	la := m.Locks()
	for _, unit := range m.ClaimSet {
		m.eachUnitInstr(unit, func(in ssa.Instruction) {
			if call, ok := in.(*ssa.Call); ok {
				if fld, v, ok := m.atomicStore(call); ok && fld == m.HealthCounter {
					if k, isC := constInt(v); isC && k == 0 && la.MustBefore(in)[m.implMuW()] {
						perTerm = "reset in the claim-set unit " + shortFn(unit)
					}
				}
			}
		})
	}
	eachInstr(rf, func(in ssa.Instruction) {
		if call, ok := in.(*ssa.Call); ok {
			if fld, v, ok := m.atomicStore(call); ok && fld == m.HealthCounter && !inLoop(in.Block()) {
				if k, isC := constInt(v); isC && k == 0 {
					perTerm = "reset in the refresh loop's prologue"
				}
			}
		}
	})
	// R9: the count is the health mechanism's own: nothing outside the refresh loop reads it. A
	// demoted instance keeps the count it was demoted with (it is reset by a healthy check of a
	// LEADER and at the start of a term): anything else that consults it - an acquisition gate,
	// a watcher - sees "unhealthy" for ever and the instance can never be re-elected.
	{
		unit := m.unitFns(rf)
		nOut := 0
		for _, f := range m.Funcs {
			if containsFn(unit, f) || containsFn(unit, topFunc(f)) {
				continue
			}
			eachInstr(f, func(in ssa.Instruction) {
				call, ok := in.(*ssa.Call)
				if !ok {
					return
				}
				if fld, meth, ok := m.atomicCall(call); ok && fld == m.HealthCounter && meth != "Store" {
					nOut++
					c.viol("R9", "health count read outside the refresh loop in "+shortFn(f), call, "%s.%s(): the count survives a health demotion (only a leader's healthy check or a new term resets it), so a reader outside the leader's refresh loop sees the threshold reached for as long as the instance is a follower: it continues as a follower but can never be re-elected", m.path(m.HealthCounter), meth)
				}
			})
		}
		if nOut == 0 {
			c.ok("R9", "health count is read by the refresh loop only", add, "no Load/Add/CompareAndSwap of %s outside %s and the functions it is split into", m.path(m.HealthCounter), shortFn(rf))
		}
	}
	// R6: shared with C03-R9: no loop of an earlier term counts into this term's counter
	termLoopRule(c, "R6")
	// R7: shared with C07-R9: the health demotion (like every demotion the loop issues) is bound to the loop's term
	termBoundDemotionRule(c, "R7")
	// R8: a result that arrives after the loop's term has ended is not counted: between the return of
	// Check and the increment the loop's context is tested
	{
		var check *ssa.Call
		eachBody(func(in ssa.Instruction) {
			if call, ok := in.(*ssa.Call); ok && call.Call.IsInvoke() && call.Call.Method.Name() == "Check" && namedOf(call.Call.Value.Type()) != nil && namedOf(call.Call.Value.Type()).Obj().Name() == "HealthChecker" {
				check = call
			}
		})
		tested := false
		if check != nil {
			// an If on ctx.Err() == nil that lies between the check and the increment (dominance), the
			// increment being on its "still live" side
			live := func(l Lit) bool {
				if l.S.Op != "bin" || l.S.Name != "==" || !symMentions(l.S, "Context.Err(") || !symMentions(l.S, "nil") {
					return false
				}
				for _, a := range l.S.Args {
					if a.Op == "invoke" && len(a.Args) == 1 && a.Args[0].V != nil {
						stopAtLoop := func(v ssa.Value) bool {
							p, ok := v.(*ssa.Parameter)
							return ok && p.Parent() == rf
						}
						if stopAtLoop(m.traceValueUntil(a.Args[0].V, stopAtLoop)) {
							return true
						}
					}
				}
				return false
			}
			onLiveSide := false
			for _, l := range m.unitGuards(rf, add) {
				if l.Truth && live(l) {
					onLiveSide = true
				}
			}
			eachBody(func(in ssa.Instruction) {
				ifi, ok := in.(*ssa.If)
				if !ok || !live(m.litOf(ifi.Cond, true, ifi)) {
					return
				}
				if m.dominatesLifted(rf, check, ifi) && m.dominatesLifted(rf, ifi, add) {
					tested = onLiveSide
				}
			})
		}
		c.check(tested, "R8", "a result that outlasted the term is not counted", add, "between the return of HealthChecker.Check and the increment of %s the loop tests its own context (ctx.Err() == nil): %v. A checker that ignores its context can return after the term has ended and the instance has been re-elected: its result would be counted against the new term (with threshold 1 the new term is demoted by a check it never made).", m.path(m.HealthCounter), tested)
	}
	if perTerm != "" {
		c.ok("R4", "health failures are counted per term", add, "%s", perTerm)
	} else {
		c.viol("R4", "health failures are counted per term", add,
			"the counter %s lives on the election object and is reset only by a healthy check: a count left over from an earlier term (e.g. after a health demotion it stays at the threshold) makes the first unhealthy tick of the next term demote the leader - fewer than MaxConsecutiveFailures consecutive failures in that term", m.path(m.HealthCounter))
	}
}

// inLoopFrom: pred reaches head only through the loop (i.e. pred is inside the loop headed by head).
func inLoopFrom(pred, head *ssa.BasicBlock) bool {
	// pred is in the loop iff head reaches pred
	seen := map[*ssa.BasicBlock]bool{}
	var walk func(b *ssa.BasicBlock) bool
	walk = func(b *ssa.BasicBlock) bool {
		if b == pred {
			return true
		}
		if seen[b] {
			return false
		}
		seen[b] = true
		for _, s := range b.Succs {
			if walk(s) {
				return true
			}
		}
		return false
	}
	for _, s := range head.Succs {
		if walk(s) {
			return true
		}
	}
	return false
}

// sortSelect canonicalises the order of the cases of a select[...] string.
func sortSelect(s string) string {
	if !strings.HasPrefix(s, "select[") || !strings.HasSuffix(s, "]") {
		return s
	}
	parts := strings.Split(s[len("select["):len(s)-1], " | ")
	for i := range parts {
		parts[i] = strings.TrimSpace(parts[i])
	}
	for i := 0; i < len(parts); i++ {
		for j := i + 1; j < len(parts); j++ {
			if parts[j] < parts[i] {
				parts[i], parts[j] = parts[j], parts[i]
			}
		}
	}
	return "select[" + strings.Join(parts, " | ") + "]"
}

// carries: v is phi itself or a phi of nothing but it (the value is carried round the loop unchanged).
func carries(v ssa.Value, phi *ssa.Phi, depth int) bool {
	if v == ssa.Value(phi) {
		return true
	}
	if p, ok := v.(*ssa.Phi); ok && depth < 6 {
		for _, e := range p.Edges {
			if !carries(e, phi, depth+1) {
				return false
			}
		}
		return true
	}
	return false
}


// gatedInvariant renders a value like Gated; a value computed before a loop and carried through
// it unchanged (a loop-header phi all of whose in-loop edges carry the phi itself) is rendered by
// its entry edges only. changed reports an in-loop edge that modifies it.
func (m *Model) gatedInvariant(v ssa.Value) (got string, changed string) {
	for {
		if cv, ok := v.(*ssa.Convert); ok {
			v = cv.X
			continue
		}
		break
	}
	v = m.traceValue(v)
	ph, ok := v.(*ssa.Phi)
	if !ok || !inLoop(ph.Block()) {
		return m.Gated(v), ""
	}
	hasEntry := false
	for i, e := range ph.Edges {
		if inLoopFrom(ph.Block().Preds[i], ph.Block()) {
			if !carries(e, ph, 0) {
				return m.Gated(v), m.Sym.Of(e).String()
			}
		} else {
			hasEntry = true
		}
	}
	if !hasEntry {
		return m.Gated(v), ""
	}
	// single entry value: render it (it may itself be a phi computed before the loop)
	var entries []ssa.Value
	for i, e := range ph.Edges {
		if !inLoopFrom(ph.Block().Preds[i], ph.Block()) {
			entries = append(entries, e)
		}
	}
	if len(entries) == 1 {
		return m.gatedInvariant(entries[0])
	}
	return m.GatedEntry(ph), ""
}
