package main

import (
	"fmt"
	"go/token"
	"go/types"
	"os"
	"sort"
	"strings"

	"golang.org/x/tools/go/callgraph"
	"golang.org/x/tools/go/callgraph/cha"
	"golang.org/x/tools/go/callgraph/vta"
	"golang.org/x/tools/go/packages"
	"golang.org/x/tools/go/ssa"
	"golang.org/x/tools/go/ssa/ssautil"
)

// LoadConfig selects one build configuration of the repository under analysis.
type LoadConfig struct {
	Dir       string   // repository root
	Tags      string   // extra build tags ("" or "verif")
	GOARCH    string   // "" = host
	Toolchain string   // "local" (go1.26.8 driver) or "auto" (repo's own toolchain from the module cache)
	Patterns  []string // default ./...
	Overlay   map[string][]byte `json:"-"` // rewritten sources (clone.go); nil on the first load
}

func (c LoadConfig) String() string {
	arch := c.GOARCH
	if arch == "" {
		arch = "host"
	}
	tags := c.Tags
	if tags == "" {
		tags = "-"
	}
	return fmt.Sprintf("dir=%s tags=%s goarch=%s toolchain=%s", c.Dir, tags, arch, c.Toolchain)
}

// Program is the loaded, type-checked repository in SSA form with a VTA call graph.
type Program struct {
	Cfg      LoadConfig
	Fset     *token.FileSet
	Pkgs     []*packages.Package // root packages (module under analysis)
	Prog     *ssa.Program
	Leader   *ssa.Package // the library package (exports NewElection)
	Mock     *ssa.Package // internal/natsmock, may be nil
	Nats     *ssa.Package // github.com/nats-io/nats.go, may be nil
	AllPkgs  map[string]*packages.Package
	CG       *callgraph.Graph
	NumFuncs int // functions with bodies in the root packages
	NumBlock int
	NumInstr int
	mdl      *Model
	Instances []*ssa.Function // instantiations of the library's generic functions
	Cloned    []string // helpers analysed as one copy per call site (clone.go)
	CloneNote string
}

const goRoot1268 = "/opt/veriftools/go1.26.8"

var origPath = os.Getenv("PATH")

// loadProgram loads the repository; when the library contains blocking helpers shared by
// several call sites (clone.go) it is loaded a second time from an overlay in which every such
// helper has one copy per call site.
func loadProgram(cfg LoadConfig) (*Program, error) {
	p, err := loadProgramOnce(cfg)
	if err != nil || cfg.Overlay != nil {
		return p, err
	}
	var p2 *Program
	var cloned []string
	// with the small leaf helpers first; if that rewriting does not type-check (a leaf called from
	// inside another cloned helper), with the blocking helpers alone
	for _, leaves := range []bool{true, false} {
		overlay, cl := p.sharedHelperOverlay(leaves)
		if len(overlay) == 0 {
			if leaves {
				continue
			}
			return p, nil
		}
		cfg2 := cfg
		cfg2.Overlay = overlay
		q, err := loadProgramOnce(cfg2)
		if err != nil {
			// the rewriting must never make the analysis fail: fall back to the program as written
			p.CloneNote = "cloning of " + strings.Join(cl, ", ") + " abandoned: " + err.Error()
			if os.Getenv("ELECTLINT_DEBUG_CLONES") != "" {
				fmt.Fprintf(os.Stderr, "clone abandoned: %s\n", p.CloneNote)
			}
			continue
		}
		p2, cloned = q, cl
		break
	}
	if p2 == nil {
		return p, nil
	}
	p.CloneNote = ""
	p2.Cloned = cloned
	if os.Getenv("ELECTLINT_DEBUG_CLONES") != "" {
		fmt.Fprintf(os.Stderr, "cloned: %v\n", cloned)
	}
	p2.NumFuncs, p2.NumBlock, p2.NumInstr = p.NumFuncs, p.NumBlock, p.NumInstr // sizes of the source as written
	return p2, nil
}

func loadProgramOnce(cfg LoadConfig) (*Program, error) {
	if len(cfg.Patterns) == 0 {
		cfg.Patterns = []string{"./..."}
	}
	env := []string{}
	for _, kv := range os.Environ() {
		k := kv
		if i := strings.IndexByte(kv, '='); i >= 0 {
			k = kv[:i]
		}
		switch k {
		case "GOFLAGS", "GOPROXY", "GOSUMDB", "GOTOOLCHAIN", "GOWORK", "GOARCH", "PATH", "GO111MODULE":
			continue
		}
		env = append(env, kv)
	}
	path := origPath
	env = append(env, "GOFLAGS=-mod=mod", "GOPROXY=off", "GOWORK=off")
	if cfg.Toolchain != "auto" {
		// (the toolchain switch of GOTOOLCHAIN=auto verifies the cached toolchain module
		// against the checksum database cache, which GOSUMDB=off would forbid)
		env = append(env, "GOSUMDB=off")
	}
	switch cfg.Toolchain {
	case "auto":
		// the plain `go` on PATH switches to the repository's own toolchain from the module cache
		env = append(env, "GOTOOLCHAIN=auto", "PATH="+path)
		os.Setenv("PATH", path) // exec.LookPath("go") in go/packages uses this process's PATH
	default:
		env = append(env, "GOTOOLCHAIN=local", "PATH="+goRoot1268+"/bin:"+path)
		os.Setenv("PATH", goRoot1268+"/bin:"+path)
	}
	if cfg.GOARCH != "" {
		env = append(env, "GOARCH="+cfg.GOARCH)
	}
	pc := &packages.Config{
		Mode:  packages.LoadAllSyntax | packages.NeedModule,
		Dir:   cfg.Dir,
		Env:   env,
		Tests: false,
	}
	if cfg.Overlay != nil {
		pc.Overlay = cfg.Overlay
	}
	if cfg.Tags != "" {
		pc.BuildFlags = []string{"-tags=" + cfg.Tags}
	}
	pkgs, err := packages.Load(pc, cfg.Patterns...)
	if err != nil {
		return nil, fmt.Errorf("DRIVER: go/packages: %w", err)
	}
	if len(pkgs) == 0 {
		return nil, fmt.Errorf("go/packages: no packages matched %v in %s", cfg.Patterns, cfg.Dir)
	}
	var errs []string
	all := map[string]*packages.Package{}
	packages.Visit(pkgs, nil, func(p *packages.Package) {
		all[p.PkgPath] = p
		for _, e := range p.Errors {
			errs = append(errs, fmt.Sprintf("%s: %s", p.PkgPath, e.Error()))
		}
	})
	if len(errs) > 0 {
		sort.Strings(errs)
		if len(errs) > 8 {
			errs = append(errs[:8], fmt.Sprintf("... and %d more", len(errs)-8))
		}
		return nil, fmt.Errorf("load/type errors:\n  %s", strings.Join(errs, "\n  "))
	}
	prog, _ := ssautil.AllPackages(pkgs, ssa.InstantiateGenerics)
	prog.Build()

	p := &Program{Cfg: cfg, Fset: pkgs[0].Fset, Pkgs: pkgs, Prog: prog, AllPkgs: all}
	for _, pk := range pkgs {
		sp := prog.Package(pk.Types)
		if sp == nil {
			continue
		}
		if sp.Func("NewElection") != nil && sp.Type("Election") != nil {
			p.Leader = sp
		}
		if strings.HasSuffix(pk.PkgPath, "/internal/natsmock") {
			p.Mock = sp
		}
	}
	if pkgs[0].Module != nil {
		modPrefix = pkgs[0].Module.Path + "/"
	}
	if p.Leader == nil {
		return nil, fmt.Errorf("no package exporting NewElection and Election found among %d root packages", len(pkgs))
	}
	if np, ok := all["github.com/nats-io/nats.go"]; ok {
		p.Nats = prog.Package(np.Types)
	}
	fns := ssautil.AllFunctions(prog)
	p.CG = vta.CallGraph(fns, cha.CallGraph(prog))
	for fn := range fns {
		// instantiations of the library's generic functions have no package of their own
		if fn.Blocks != nil && fn.Pkg == nil && fn.Origin() != nil && fn.Origin().Pkg == p.Leader && fn.Parent() == nil {
			p.Instances = append(p.Instances, fn)
		}
		if fn.Blocks == nil || fn.Pkg == nil {
			continue
		}
		if !p.isRootPkg(fn.Pkg.Pkg) {
			continue
		}
		p.NumFuncs++
		p.NumBlock += len(fn.Blocks)
		for _, b := range fn.Blocks {
			p.NumInstr += len(b.Instrs)
		}
	}
	return p, nil
}

func (p *Program) isRootPkg(tp *types.Package) bool {
	for _, pk := range p.Pkgs {
		if pk.Types == tp {
			return true
		}
	}
	return false
}

// pos renders a position relative to the repository root.
func (p *Program) pos(pos token.Pos) string {
	if !pos.IsValid() {
		return "-"
	}
	ps := p.Fset.Position(pos)
	f := ps.Filename
	if rel, ok := strings.CutPrefix(f, strings.TrimSuffix(p.Cfg.Dir, "/")+"/"); ok {
		f = rel
	}
	return fmt.Sprintf("%s:%d", f, ps.Line)
}

// libFuncs returns every function with a body (including closures) of the library package, sorted.
func (p *Program) libFuncs() []*ssa.Function {
	return p.pkgFuncs(p.Leader)
}

func (p *Program) pkgFuncs(pkg *ssa.Package) []*ssa.Function {
	var out []*ssa.Function
	seen := map[*ssa.Function]bool{}
	var add func(f *ssa.Function)
	add = func(f *ssa.Function) {
		if f == nil || seen[f] || f.Blocks == nil {
			return
		}
		seen[f] = true
		out = append(out, f)
		for _, a := range f.AnonFuncs {
			add(a)
		}
	}
	for _, m := range pkg.Members {
		switch m := m.(type) {
		case *ssa.Function:
			if m.Synthetic == "" || m.Name() == "init" {
				add(m)
			}
		case *ssa.Type:
			for _, t := range []types.Type{m.Type(), types.NewPointer(m.Type())} {
				ms := p.Prog.MethodSets.MethodSet(t)
				for i := 0; i < ms.Len(); i++ {
					f := p.Prog.MethodValue(ms.At(i))
					if f != nil && f.Synthetic == "" && f.Pkg == pkg {
						add(f)
					}
				}
			}
		}
	}
	if pkg == p.Leader {
		for _, f := range p.Instances {
			add(f)
		}
	}
	sort.Slice(out, func(i, j int) bool {
		if out[i].Pos() != out[j].Pos() {
			return out[i].Pos() < out[j].Pos()
		}
		return out[i].String() < out[j].String()
	})
	return out
}
