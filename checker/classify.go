package main

import (
	"fmt"
	"go/constant"
	"go/token"
	"go/types"
	"sort"
	"strings"

	"golang.org/x/tools/go/ssa"
)

// Decision model of a boolean classifier over one error parameter (IsPermanentError,
// IsTransientError). The function - with the boolean library helpers it calls inlined, the
// scans over constant tables abstracted to "some element matches" and short-circuit operators
// resolved along the path - is enumerated into its paths; every path is a conjunction of signed
// atoms and a constant result. The atoms are
//
//	nil                 err == nil
//	is:<target>         errors.Is(err, target)
//	as:<type>           errors.As(err, *type)
//	contains:<text>     strings.Contains(strings.ToLower(err.Error()), text)
//	call:<function>     a library classifier that is deliberately not inlined
//	opaque:<expr>       anything else
//
// A table scan (a range loop or slices.ContainsFunc over a constant table, or a helper that does
// one) yields one atom whose elements are the table's entries: it holds iff one of them holds.
// Rules ask questions of the form "whenever these atoms have these values, is the result X?":
// all paths consistent with the partial assignment must return X. That is indifferent to how
// the tests are spread over helpers, switch/if chains, || expressions or tables.

type catom struct {
	Kind  string
	Elems []string // element keys "<kind>:<elem>"; more than one for a table scan
}

func (a catom) String() string {
	if len(a.Elems) == 1 {
		return a.Elems[0]
	}
	return "any[" + strings.Join(a.Elems, " | ") + "]"
}

type ccond struct {
	A   catom
	Pos bool
}

type cpath struct {
	Conds  []ccond
	Result bool
	Ret    ssa.Instruction
}

func (p cpath) String() string {
	var parts []string
	for _, c := range p.Conds {
		s := c.A.String()
		if !c.Pos {
			s = "NOT " + s
		}
		parts = append(parts, s)
	}
	return fmt.Sprintf("{%s} => %v", strings.Join(parts, "; "), p.Result)
}

// consistent: no condition of the path contradicts the partial assignment.
func (p cpath) consistent(a map[string]bool) bool {
	for _, c := range p.Conds {
		if c.Pos {
			allFalse := true
			for _, e := range c.A.Elems {
				if v, ok := a[e]; !ok || v {
					allFalse = false
				}
			}
			if allFalse {
				return false
			}
		} else {
			for _, e := range c.A.Elems {
				if v, ok := a[e]; ok && v {
					return false
				}
			}
		}
	}
	return true
}

type ctable struct {
	elems []string
}

type cval struct {
	v    ssa.Value
	env  *cenv
	elem *ctable // the value is "an element of this table" (the abstract iteration of a scan)
}

type cenv struct {
	fn     *ssa.Function
	bind   map[*ssa.Parameter]cval
	parent *cenv // lexical environment of a closure
}

type classifier struct {
	m        *Model
	root     *ssa.Parameter
	opaque   map[*ssa.Function]bool
	nPaths   int
	problems []string
	depth    int
}

type calt struct {
	conds []ccond
	truth bool
}

// Decisions enumerates the paths of the one-parameter boolean function f. Library functions in
// opaque are kept as call atoms.
func (m *Model) Decisions(f *ssa.Function, opaque ...*ssa.Function) ([]cpath, []string) {
	if f == nil || len(f.Params) != 1 {
		return nil, []string{"not a one-parameter function"}
	}
	cl := &classifier{m: m, root: f.Params[0], opaque: map[*ssa.Function]bool{}}
	for _, o := range opaque {
		cl.opaque[o] = true
	}
	env := &cenv{fn: f, bind: map[*ssa.Parameter]cval{}}
	paths := cl.enumerate(f, env)
	// drop self-contradictory paths
	var out []cpath
	for _, p := range paths {
		pos, neg := map[string]bool{}, map[string]bool{}
		bad := false
		for _, c := range p.Conds {
			k := c.A.String()
			if c.Pos {
				pos[k] = true
			} else {
				neg[k] = true
			}
			if pos[k] && neg[k] {
				bad = true
			}
		}
		if !bad {
			out = append(out, p)
		}
	}
	return out, uniq(cl.problems)
}

func (cl *classifier) problem(format string, args ...interface{}) {
	cl.problems = append(cl.problems, fmt.Sprintf(format, args...))
}

func (cl *classifier) resolve(v ssa.Value, env *cenv) cval {
	m := cl.m
	for i := 0; i < 32; i++ {
		switch x := v.(type) {
		case *ssa.Parameter:
			if env != nil {
				if b, ok := env.bind[x]; ok {
					if b.elem != nil {
						return b
					}
					v, env = b.v, b.env
					continue
				}
			}
			return cval{v: v, env: env}
		case *ssa.FreeVar:
			fn := x.Parent()
			mc := m.Sym.closureOf[fn]
			if mc == nil || env == nil || env.parent == nil {
				return cval{v: v, env: env}
			}
			found := false
			for j, fv := range fn.FreeVars {
				if fv == x && j < len(mc.Bindings) {
					v, env = mc.Bindings[j], env.parent
					found = true
				}
			}
			if !found {
				return cval{v: v, env: env}
			}
		case *ssa.UnOp:
			if x.Op != token.MUL {
				return cval{v: v, env: env}
			}
			xr := cl.resolve(x.X, env)
			al, ok := xr.v.(*ssa.Alloc)
			if !ok {
				return cval{v: v, env: env}
			}
			st := singleStore(al, m.Sym)
			if st == nil {
				return cval{v: v, env: env}
			}
			v, env = st, xr.env
		case *ssa.ChangeType:
			v = x.X
		case *ssa.Convert:
			v = x.X
		case *ssa.MakeInterface:
			v = x.X
		case *ssa.ChangeInterface:
			v = x.X
		default:
			return cval{v: v, env: env}
		}
	}
	return cval{v: v, env: env}
}

func (cl *classifier) isRootErr(v ssa.Value, env *cenv) bool {
	r := cl.resolve(v, env)
	return r.v == ssa.Value(cl.root)
}

// hayOK: the haystack is strings.ToLower(err.Error()).
func (cl *classifier) hayOK(v ssa.Value, env *cenv) bool {
	r := cl.resolve(v, env)
	call, ok := isCallTo(r.v, "strings.ToLower")
	if !ok {
		return false
	}
	a := cl.resolve(call.Call.Args[0], r.env)
	inv, ok := a.v.(*ssa.Call)
	if !ok || !inv.Call.IsInvoke() || inv.Call.Method.Name() != "Error" {
		return false
	}
	return cl.isRootErr(inv.Call.Value, a.env)
}

func (cl *classifier) elemString(v ssa.Value, env *cenv) string {
	r := cl.resolve(v, env)
	if k, ok := r.v.(*ssa.Const); ok && k.Value != nil && k.Value.Kind() == constant.String {
		return constant.StringVal(k.Value)
	}
	return cl.m.Sym.Of(r.v).String()
}

// tableOf: the entries of a constant table (a slice literal, a package-level slice variable
// initialised once, or such a table handed down through parameters).
func (cl *classifier) tableOf(v ssa.Value, env *cenv) *ctable {
	m := cl.m
	r := cl.resolve(v, env)
	if r.elem != nil {
		return nil
	}
	switch x := r.v.(type) {
	case *ssa.Slice:
		base := cl.resolve(x.X, r.env)
		al, ok := base.v.(*ssa.Alloc)
		if !ok {
			return nil
		}
		byIdx := map[int64]string{}
		if refs := al.Referrers(); refs != nil {
			for _, ref := range *refs {
				ia, ok := ref.(*ssa.IndexAddr)
				if !ok {
					continue
				}
				idx, isC := constInt(ia.Index)
				if !isC {
					continue
				}
				if rr := ia.Referrers(); rr != nil {
					for _, u := range *rr {
						if st, ok := u.(*ssa.Store); ok && st.Addr == ssa.Value(ia) {
							byIdx[idx] = cl.elemString(st.Val, base.env)
						}
					}
				}
			}
		}
		var keys []int64
		for k := range byIdx {
			keys = append(keys, k)
		}
		sort.Slice(keys, func(i, j int) bool { return keys[i] < keys[j] })
		t := &ctable{}
		for _, k := range keys {
			t.elems = append(t.elems, byIdx[k])
		}
		if len(t.elems) == 0 {
			return nil
		}
		return t
	case *ssa.UnOp:
		g, ok := x.X.(*ssa.Global)
		if !ok || x.Op != token.MUL {
			return nil
		}
		var stores []*ssa.Store
		fns := append([]*ssa.Function{}, m.Funcs...)
		if g.Pkg != nil {
			if init := g.Pkg.Func("init"); init != nil {
				fns = append(fns, init)
			}
		}
		for _, f := range dedupFns(fns) {
			eachInstr(f, func(in ssa.Instruction) {
				if st, ok := in.(*ssa.Store); ok && st.Addr == ssa.Value(g) {
					stores = append(stores, st)
				}
			})
		}
		if len(stores) != 1 {
			cl.problem("the table %s is assigned at %d places: its contents are not constant", g.Name(), len(stores))
			return nil
		}
		return cl.tableOf(stores[0].Val, &cenv{fn: stores[0].Parent(), bind: map[*ssa.Parameter]cval{}})
	}
	return nil
}

// needle: the element keys a needle / target argument stands for.
func (cl *classifier) needle(kind string, v ssa.Value, env *cenv) []string {
	r := cl.resolve(v, env)
	if r.elem != nil {
		var out []string
		for _, e := range r.elem.elems {
			out = append(out, kind+":"+e)
		}
		return out
	}
	// element of a table, loaded through an index
	if u, ok := r.v.(*ssa.UnOp); ok && u.Op == token.MUL {
		if ia, ok := u.X.(*ssa.IndexAddr); ok {
			if t := cl.tableOf(ia.X, r.env); t != nil {
				var out []string
				for _, e := range t.elems {
					out = append(out, kind+":"+e)
				}
				return out
			}
			cl.problem("the %s argument %s is an element of a table whose contents could not be read", kind, cl.m.Sym.Of(r.v))
			return []string{"opaque:" + cl.m.Sym.Of(r.v).String()}
		}
	}
	return []string{kind + ":" + cl.elemString(r.v, r.env)}
}

func flipAlts(as []calt) []calt {
	out := make([]calt, len(as))
	for i, a := range as {
		out[i] = calt{a.conds, !a.truth}
	}
	return out
}

func atomAlts(a catom) []calt {
	return []calt{{[]ccond{{a, true}}, true}, {[]ccond{{a, false}}, false}}
}

// alternatives: the ways the boolean value v can come out, each with the atoms it depends on.
// prev/cur identify the edge along which the current block was entered (to resolve phis).
func (cl *classifier) alternatives(v ssa.Value, env *cenv, prev, cur *ssa.BasicBlock) []calt {
	m := cl.m
	opaque := func() []calt {
		return atomAlts(catom{Kind: "opaque", Elems: []string{"opaque:" + clip(m.Sym.Of(v).String(), 120)}})
	}
	switch x := v.(type) {
	case *ssa.Const:
		if k, ok := constBool(x); ok {
			return []calt{{nil, k}}
		}
		return opaque()
	case *ssa.UnOp:
		if x.Op == token.NOT {
			return flipAlts(cl.alternatives(x.X, env, prev, cur))
		}
		if x.Op == token.MUL {
			r := cl.resolve(v, env)
			if r.v != v {
				return cl.alternatives(r.v, r.env, nil, nil)
			}
		}
		return opaque()
	case *ssa.Phi:
		if cur != nil && prev != nil && x.Block() == cur {
			for i, p := range cur.Preds {
				if p == prev && i < len(x.Edges) {
					return cl.alternatives(x.Edges[i], env, nil, nil)
				}
			}
		}
		return opaque()
	case *ssa.Parameter, *ssa.FreeVar:
		r := cl.resolve(v, env)
		if r.v != v {
			return cl.alternatives(r.v, r.env, nil, nil)
		}
		return opaque()
	case *ssa.BinOp:
		if x.Op == token.EQL || x.Op == token.NEQ {
			var other ssa.Value
			if k, ok := x.X.(*ssa.Const); ok && k.Value == nil {
				other = x.Y
			} else if k, ok := x.Y.(*ssa.Const); ok && k.Value == nil {
				other = x.X
			}
			if other != nil && cl.isRootErr(other, env) {
				as := atomAlts(catom{Kind: "nil", Elems: []string{"nil"}})
				if x.Op == token.NEQ {
					as = flipAlts(as)
				}
				return as
			}
		}
		if b, ok := x.X.Type().Underlying().(*types.Basic); ok && b.Info()&types.IsInteger != 0 {
			// loop counters and lengths: not a property of the error
			return []calt{{nil, true}, {nil, false}}
		}
		return opaque()
	case *ssa.Call:
		f := x.Call.StaticCallee()
		if f == nil {
			return opaque()
		}
		name := f.String()
		args := x.Call.Args
		switch {
		case name == "errors.Is" && len(args) == 2:
			if !cl.isRootErr(args[0], env) {
				return opaque()
			}
			return atomAlts(catom{Kind: "is", Elems: cl.needle("is", args[1], env)})
		case name == "errors.As" && len(args) == 2:
			if !cl.isRootErr(args[0], env) {
				return opaque()
			}
			r := cl.resolve(args[1], env)
			return atomAlts(catom{Kind: "as", Elems: []string{"as:" + types.TypeString(r.v.Type(), shortQual)}})
		case name == "strings.Contains" && len(args) == 2:
			if !cl.hayOK(args[0], env) {
				cl.problem("the haystack of strings.Contains at %s is %s, not strings.ToLower(err.Error())", m.P.pos(x.Pos()), m.Sym.Of(cl.resolve(args[0], env).v))
				return opaque()
			}
			return atomAlts(catom{Kind: "contains", Elems: cl.needle("contains", args[1], env)})
		case strings.HasPrefix(name, "slices.ContainsFunc") && len(args) == 2:
			t := cl.tableOf(args[0], env)
			fr := cl.resolve(args[1], env)
			ts := m.funcValueTargets(fr.v)
			if t == nil || len(ts) != 1 || len(ts[0].Params) != 1 || ts[0].Blocks == nil {
				cl.problem("slices.ContainsFunc at %s: table or predicate not resolved", m.P.pos(x.Pos()))
				return opaque()
			}
			g := ts[0]
			lex := fr.env
			env2 := &cenv{fn: g, bind: map[*ssa.Parameter]cval{g.Params[0]: {elem: t}}, parent: lex}
			return cl.inline(g, env2)
		}
		if m.isLib(f) && f.Blocks != nil && f.Signature.Results().Len() == 1 && isBoolType(f.Signature.Results().At(0).Type()) {
			if cl.opaque[f] {
				if len(args) == 1 && cl.isRootErr(args[0], env) {
					return atomAlts(catom{Kind: "call", Elems: []string{"call:" + funcName(f)}})
				}
				return opaque()
			}
			env2 := &cenv{fn: f, bind: map[*ssa.Parameter]cval{}}
			for i, p := range f.Params {
				if i < len(args) {
					env2.bind[p] = cval{v: args[i], env: env}
				}
			}
			return cl.inline(f, env2)
		}
		return opaque()
	}
	return opaque()
}

func isBoolType(t types.Type) bool {
	b, ok := t.Underlying().(*types.Basic)
	return ok && b.Info()&types.IsBoolean != 0
}

func (cl *classifier) inline(f *ssa.Function, env *cenv) []calt {
	if cl.depth > 4 {
		cl.problem("helpers nested deeper than 4 below the classifier (%s)", shortFn(f))
		return atomAlts(catom{Kind: "opaque", Elems: []string{"opaque:call " + funcName(f)}})
	}
	cl.depth++
	defer func() { cl.depth-- }()
	var out []calt
	for _, p := range cl.enumerate(f, env) {
		out = append(out, calt{p.Conds, p.Result})
	}
	return out
}

func (cl *classifier) enumerate(f *ssa.Function, env *cenv) []cpath {
	var out []cpath
	inLoopSet := map[*ssa.BasicBlock]int{}
	for i, l := range cfgLoops(f) {
		for _, b := range l {
			inLoopSet[b] = i + 1
		}
	}
	var walk func(b, prev *ssa.BasicBlock, conds []ccond, visits map[*ssa.BasicBlock]int)
	walk = func(b, prev *ssa.BasicBlock, conds []ccond, visits map[*ssa.BasicBlock]int) {
		if cl.nPaths > 20000 {
			return
		}
		if visits[b] >= 2 {
			return
		}
		nv := map[*ssa.BasicBlock]int{}
		for k, v := range visits {
			nv[k] = v
		}
		nv[b]++
		last := b.Instrs[len(b.Instrs)-1]
		switch t := last.(type) {
		case *ssa.Return:
			if len(t.Results) != 1 {
				return
			}
			for _, alt := range cl.alternatives(returnValue(t, 0), env, prev, b) {
				cl.nPaths++
				out = append(out, cpath{Conds: append(append([]ccond{}, conds...), alt.conds...), Result: alt.truth, Ret: t})
			}
		case *ssa.If:
			alts := cl.alternatives(t.Cond, env, prev, b)
			structural := len(alts) == 2 && alts[0].conds == nil && alts[1].conds == nil
			for _, alt := range alts {
				si := 1
				if alt.truth {
					si = 0
				}
				if deadEdge(b, si) {
					continue
				}
				succ := b.Succs[si]
				if structural && inLoopSet[b] != 0 {
					// the test of a loop over a table: the first visit enters the (abstract)
					// iteration, the second one leaves the loop
					stays := inLoopSet[succ] == inLoopSet[b]
					if (nv[b] == 1) != stays {
						continue
					}
				}
				walk(succ, b, append(append([]ccond{}, conds...), alt.conds...), nv)
			}
		case *ssa.Jump:
			walk(b.Succs[0], b, conds, nv)
		}
	}
	if len(f.Blocks) > 0 {
		walk(f.Blocks[0], nil, nil, map[*ssa.BasicBlock]int{})
	}
	if cl.nPaths > 20000 {
		cl.problem("more than 20000 paths through %s", shortFn(f))
	}
	return out
}

// allReturn: every path consistent with the assignment returns want; n is the number of such paths.
func allReturn(paths []cpath, a map[string]bool, want bool) (ok bool, n int, witness *cpath) {
	ok = true
	for i := range paths {
		if !paths[i].consistent(a) {
			continue
		}
		n++
		if paths[i].Result != want && witness == nil {
			ok = false
			witness = &paths[i]
		}
	}
	return ok, n, witness
}

// atomElems: all element keys of the given kind occurring in the paths.
func atomElems(paths []cpath, kind string) []string {
	set := map[string]bool{}
	for _, p := range paths {
		for _, c := range p.Conds {
			if c.A.Kind == kind {
				for _, e := range c.A.Elems {
					set[e] = true
				}
			}
		}
	}
	var out []string
	for e := range set {
		out = append(out, e)
	}
	sort.Strings(out)
	return out
}

func findElem(elems []string, substr string) string {
	for _, e := range elems {
		if strings.Contains(e, substr) {
			return e
		}
	}
	return ""
}
