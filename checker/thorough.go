package main

// ThoroughResult is what the thorough tier adds to a property's run.
type ThoroughResult struct {
	Obls     []Obligation
	Coverage map[string]any
}

func runThorough(prog *Program, id string, base *PropertyResult, opts RunOptions) *ThoroughResult {
	return &ThoroughResult{Coverage: map[string]any{}}
}
