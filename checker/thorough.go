package main

import (
	"bytes"
	"encoding/json"
	"fmt"
	"os"
	"os/exec"
	"path/filepath"
	"sort"
	"strings"
	"sync"
)

// ThoroughResult is what the thorough tier adds to a property's run.
type ThoroughResult struct {
	Obls     []Obligation
	Coverage map[string]any
}

// Variant is a seeded change of the analysed repository that breaks one rule: a context
// patch against the reference tree plus the rule that must report it.
type Variant struct {
	Property string   `json:"property"`
	Name     string   `json:"name"`
	Patch    string   `json:"patch"`  // path relative to the verification directory
	Expect   []string `json:"expect"` // rule ids (e.g. "C10-R1"), at least one of which must fail
	Mentions string   `json:"mentions,omitempty"`
	What     string   `json:"what"`
	Source   string   `json:"source,omitempty"` // "selftest" or "seeded/<id>"
}

type variantIndex struct {
	Variants []Variant `json:"variants"`
}

func loadVariants(vdir, prop string) ([]Variant, error) {
	var out []Variant
	for _, idx := range []string{"selftest/variants/index.json", "seeded/index.json"} {
		b, err := os.ReadFile(filepath.Join(vdir, idx))
		if err != nil {
			if os.IsNotExist(err) {
				continue
			}
			return nil, err
		}
		var vi variantIndex
		if err := json.Unmarshal(b, &vi); err != nil {
			return nil, fmt.Errorf("%s: %w", idx, err)
		}
		for _, v := range vi.Variants {
			if v.Property == prop {
				out = append(out, v)
			}
		}
	}
	sort.Slice(out, func(i, j int) bool { return out[i].Name < out[j].Name })
	return out, nil
}

// oblSummary maps obligation keys to verdicts (for comparing two analyses).
func oblSummary(obls []Obligation) map[string]Verdict {
	m := map[string]Verdict{}
	for _, o := range obls {
		if prev, ok := m[o.Key()]; ok && prev != OK {
			continue
		}
		m[o.Key()] = o.Verdict
	}
	return m
}

func diffSummaries(a, b map[string]Verdict) []string {
	var out []string
	for k, v := range a {
		if w, ok := b[k]; !ok {
			out = append(out, "only in reference: "+k)
		} else if v != w {
			out = append(out, fmt.Sprintf("%s: %s vs %s", k, v, w))
		}
	}
	for k := range b {
		if _, ok := a[k]; !ok {
			out = append(out, "only in other: "+k)
		}
	}
	sort.Strings(out)
	return out
}

func runThorough(prog *Program, id string, base *PropertyResult, opts RunOptions) *ThoroughResult {
	res := &ThoroughResult{Coverage: map[string]any{}}
	add := func(rule, construct string, v Verdict, format string, a ...any) {
		res.Obls = append(res.Obls, Obligation{Property: id, Rule: id + "-" + rule, Construct: construct, Pos: "-", Verdict: v, Detail: fmt.Sprintf(format, a...)})
	}
	ref := oblSummary(base.Obls)

	// 1. determinism: a second evaluation with a fresh model on the same program
	prog.mdl = nil
	again := evalProperty(prog, id)
	if d := diffSummaries(ref, oblSummary(again.Obls)); len(d) > 0 {
		add("T1", "analysis is deterministic", UNDECIDED, "two evaluations of the same program disagree: %s", strings.Join(d, "; "))
	} else {
		add("T1", "analysis is deterministic", OK, "a second evaluation with a fresh model yields the same %d obligations", len(ref))
	}

	// 2. other build configurations
	type cfgRes struct {
		Config  string `json:"config"`
		Status  string `json:"status"`
		Detail  string `json:"detail,omitempty"`
		Objects int    `json:"obligations"`
	}
	var cfgs []cfgRes
	for _, alt := range []LoadConfig{
		{Dir: prog.Cfg.Dir, GOARCH: "386", Toolchain: "local"},
		{Dir: prog.Cfg.Dir, Tags: "verif", Toolchain: "local"},
		{Dir: prog.Cfg.Dir, Toolchain: "auto"},
	} {
		out, err := runChild(opts.VerifDir, alt, id)
		name := alt.String()
		switch {
		case err != nil && strings.Contains(err.Error(), "DRIVER"):
			cfgs = append(cfgs, cfgRes{Config: name, Status: "skipped", Detail: clip(err.Error(), 300)})
			add("T2", "configuration "+configShort(alt), OK, "skipped: the driver for this configuration could not start (%s)", clip(err.Error(), 200))
		case err != nil:
			cfgs = append(cfgs, cfgRes{Config: name, Status: "error", Detail: clip(err.Error(), 300)})
			add("T2", "configuration "+configShort(alt), UNDECIDED, "the repository could not be analysed in this configuration: %s", clip(err.Error(), 400))
		default:
			d := diffSummaries(ref, oblSummary(out))
			if len(d) > 0 {
				cfgs = append(cfgs, cfgRes{Config: name, Status: "disagrees", Detail: clip(strings.Join(d, "; "), 600), Objects: len(out)})
				add("T2", "configuration "+configShort(alt), VIOLATION, "the obligations differ from the default configuration: %s", clip(strings.Join(d, "; "), 800))
			} else {
				cfgs = append(cfgs, cfgRes{Config: name, Status: "agrees", Objects: len(out)})
				add("T2", "configuration "+configShort(alt), OK, "same %d obligations and verdicts as the default configuration", len(out))
			}
		}
	}
	res.Coverage["configurations"] = cfgs

	// 3. seeded variants: each must be reported by the rule it breaks
	variants, err := loadVariants(opts.VerifDir, id)
	if err != nil {
		add("T3", "variant index", UNDECIDED, "%v", err)
	}
	type varRes struct {
		Name     string   `json:"name"`
		Status   string   `json:"status"` // detected | missed | skipped | error
		Expect   []string `json:"expect"`
		Fired    []string `json:"fired,omitempty"`
		Detail   string   `json:"detail,omitempty"`
		Source   string   `json:"source,omitempty"`
		Scenario string   `json:"what,omitempty"`
	}
	results := make([]varRes, len(variants))
	var wg sync.WaitGroup
	sem := make(chan struct{}, 5)
	for i, v := range variants {
		wg.Add(1)
		go func(i int, v Variant) {
			defer wg.Done()
			sem <- struct{}{}
			defer func() { <-sem }()
			r := varRes{Name: v.Name, Expect: v.Expect, Source: v.Source, Scenario: v.What}
			scratch, err := scratchCopy(prog.Cfg.Dir)
			if err != nil {
				r.Status, r.Detail = "error", err.Error()
				results[i] = r
				return
			}
			defer os.RemoveAll(scratch)
			patch := filepath.Join(opts.VerifDir, v.Patch)
			if out, err := exec.Command("git", "-C", scratch, "apply", "--whitespace=nowarn", patch).CombinedOutput(); err != nil {
				r.Status, r.Detail = "skipped", "patch no longer applies to the current tree: "+clip(string(out), 200)
				results[i] = r
				return
			}
			obls, err := runChild(opts.VerifDir, LoadConfig{Dir: scratch, Toolchain: "local"}, id)
			if err != nil {
				r.Status, r.Detail = "error", clip(err.Error(), 300)
				results[i] = r
				return
			}
			fired := map[string]bool{}
			hit := false
			for _, o := range obls {
				if o.Verdict == OK {
					continue
				}
				// only obligations that are not already failing on the reference tree
				if v0, ok := ref[o.Key()]; ok && v0 != OK {
					continue
				}
				fired[o.Rule] = true
				for _, e := range v.Expect {
					if o.Rule == e && (v.Mentions == "" || strings.Contains(o.Construct+" "+o.Detail, v.Mentions)) {
						hit = true
					}
				}
			}
			for k := range fired {
				r.Fired = append(r.Fired, k)
			}
			sort.Strings(r.Fired)
			if hit {
				r.Status = "detected"
			} else {
				r.Status = "missed"
			}
			results[i] = r
		}(i, v)
	}
	wg.Wait()
	nDet, nSkip := 0, 0
	for _, r := range results {
		switch r.Status {
		case "detected":
			nDet++
			add("T3", "seeded variant "+r.Name, OK, "reported by %v (expected one of %v)", r.Fired, r.Expect)
		case "skipped":
			nSkip++
			add("T3", "seeded variant "+r.Name, OK, "skipped: %s", r.Detail)
		case "missed":
			add("T3", "seeded variant "+r.Name, UNDECIDED, "the variant (%s) type-checks but none of the expected rules %v reported it (rules that fired: %v): the rule has lost its grip on this construct", r.Scenario, r.Expect, r.Fired)
		default:
			add("T3", "seeded variant "+r.Name, UNDECIDED, "the variant could not be analysed: %s", r.Detail)
		}
	}
	// 4. behaviour-preserving refactorings: none may raise an alarm (the other direction of T3)
	benign, _ := filepath.Glob(filepath.Join(opts.VerifDir, "selftest", "benign", "*.diff"))
	sort.Strings(benign)
	type benRes struct {
		Name   string   `json:"name"`
		Status string   `json:"status"` // silent | alarms | skipped | error
		Alarms []string `json:"alarms,omitempty"`
		Detail string   `json:"detail,omitempty"`
	}
	bres := make([]benRes, len(benign))
	refFail := map[string]int{} // failing obligations per rule on the reference tree
	for _, o := range base.Obls {
		if o.Verdict != OK {
			refFail[o.Rule]++
		}
	}
	// refactorings the rules are known not to follow (documented in DESIGN.md section 12): name -> reason
	shapeLimit := map[string]string{}
	if b, err := os.ReadFile(filepath.Join(opts.VerifDir, "selftest", "benign", "EXPECTED_ALARMS.json")); err == nil {
		_ = json.Unmarshal(b, &shapeLimit)
	}
	var wg4 sync.WaitGroup
	for i, patch := range benign {
		wg4.Add(1)
		go func(i int, patch string) {
			defer wg4.Done()
			sem <- struct{}{}
			defer func() { <-sem }()
			r := benRes{Name: strings.TrimSuffix(filepath.Base(patch), ".diff")}
			scratch, err := scratchCopy(prog.Cfg.Dir)
			if err != nil {
				r.Status, r.Detail = "error", err.Error()
				bres[i] = r
				return
			}
			defer os.RemoveAll(scratch)
			if out, err := exec.Command("git", "-C", scratch, "apply", "--whitespace=nowarn", patch).CombinedOutput(); err != nil {
				r.Status, r.Detail = "skipped", "written against an earlier commit: "+clip(string(out), 120)
				bres[i] = r
				return
			}
			obls, err := runChild(opts.VerifDir, LoadConfig{Dir: scratch, Toolchain: "local"}, id)
			if err != nil {
				r.Status, r.Detail = "error", clip(err.Error(), 300)
				bres[i] = r
				return
			}
			got := map[string]int{}
			for _, o := range obls {
				if o.Verdict != OK {
					got[o.Rule]++
					if got[o.Rule] > refFail[o.Rule] {
						r.Alarms = append(r.Alarms, o.Rule+" :: "+o.Construct)
					}
				}
			}
			sort.Strings(r.Alarms)
			if len(r.Alarms) == 0 {
				r.Status = "silent"
			} else {
				r.Status = "alarms"
			}
			bres[i] = r
		}(i, patch)
	}
	wg4.Wait()
	nSilent, nBenSkip, nLimit := 0, 0, 0
	for bi, r := range bres {
		switch r.Status {
		case "silent":
			nSilent++
			add("T4", "refactoring "+r.Name+" raises no alarm", OK, "the behaviour-preserving refactoring selftest/benign/%s.diff applied to a scratch copy: no obligation of %s fails that holds on the reference tree", r.Name, id)
		case "skipped":
			nBenSkip++
		case "alarms":
			if why, listed := shapeLimit[r.Name]; listed {
				nLimit++
				bres[bi].Status = "shape-limit"
				bres[bi].Detail = why
				continue
			}
			add("T4", "refactoring "+r.Name+" raises no alarm", UNDECIDED, "a behaviour-preserving refactoring makes rules of this property fail: %v - the rule matches the shape of today's code, not the mechanism (a false alarm in waiting)", r.Alarms)
		default:
			add("T4", "refactoring "+r.Name+" raises no alarm", UNDECIDED, "the refactored tree could not be analysed: %s", r.Detail)
		}
	}
	res.Coverage["refactorings_run"] = len(bres) - nBenSkip
	res.Coverage["refactorings_silent"] = nSilent
	res.Coverage["refactorings_skipped"] = nBenSkip
	res.Coverage["refactorings_beyond_the_rules"] = nLimit
	res.Coverage["refactorings"] = bres
	res.Coverage["variants_run"] = len(results) - nSkip
	res.Coverage["variants_detected"] = nDet
	res.Coverage["variants_skipped"] = nSkip
	res.Coverage["variants"] = results
	return res
}

func configShort(c LoadConfig) string {
	var p []string
	if c.GOARCH != "" {
		p = append(p, "GOARCH="+c.GOARCH)
	}
	if c.Tags != "" {
		p = append(p, "tags="+c.Tags)
	}
	if c.Toolchain == "auto" {
		p = append(p, "repository's own toolchain")
	}
	if len(p) == 0 {
		return "default"
	}
	return strings.Join(p, ",")
}

// runChild analyses one configuration / one scratch copy in a separate process (bounded memory).
func runChild(vdir string, cfg LoadConfig, id string) ([]Obligation, error) {
	exe, err := os.Executable()
	if err != nil {
		return nil, err
	}
	args := []string{"-p", id, "-repo", cfg.Dir, "-json", "-no-evidence", "-verif", vdir}
	if cfg.Tags != "" {
		args = append(args, "-tags", cfg.Tags)
	}
	if cfg.GOARCH != "" {
		args = append(args, "-goarch", cfg.GOARCH)
	}
	if cfg.Toolchain != "" {
		args = append(args, "-toolchain", cfg.Toolchain)
	}
	cmd := exec.Command(exe, args...)
	var stdout, stderr bytes.Buffer
	cmd.Stdout, cmd.Stderr = &stdout, &stderr
	cmd.Env = append(os.Environ(), "PATH="+origPath)
	runErr := cmd.Run()
	var out struct {
		Error string       `json:"error"`
		Obls  []Obligation `json:"obligations"`
	}
	if err := json.Unmarshal(stdout.Bytes(), &out); err != nil {
		return nil, fmt.Errorf("child failed (%v): %s %s", runErr, clip(stdout.String(), 200), clip(stderr.String(), 300))
	}
	if out.Error != "" {
		return nil, fmt.Errorf("%s", out.Error)
	}
	return out.Obls, nil
}

// scratchCopy copies the module under analysis to a fresh temporary directory outside
// /repo and /verif (removed by the caller).
func scratchCopy(src string) (string, error) {
	dst, err := os.MkdirTemp("", "electlint-variant-")
	if err != nil {
		return "", err
	}
	cmd := exec.Command("rsync", "-a", "--exclude", ".git", "--exclude", "_out", strings.TrimSuffix(src, "/")+"/", dst+"/")
	if out, err := cmd.CombinedOutput(); err != nil {
		os.RemoveAll(dst)
		return "", fmt.Errorf("rsync: %v %s", err, out)
	}
	// git apply needs a repository or --unsafe-paths; initialise an empty one
	if out, err := exec.Command("git", "-C", dst, "init", "-q").CombinedOutput(); err != nil {
		os.RemoveAll(dst)
		return "", fmt.Errorf("git init: %v %s", err, out)
	}
	return dst, nil
}
