package main

import (
	"fmt"
	"strings"

	"golang.org/x/tools/go/ssa"
)

func init() {
	register(&PropertySpec{
		ID:    "C04",
		Level: "other",
		Run:   checkC04,
		Explanation: "C04 is a property of the paths of two functions and is decided for all record contents, store errors and contexts (given a Get that returns a value the record held at some moment of the call): (R1) in the validation function the only return whose verdict is not the constant false is dominated by: a non-empty local token, a Get issued in this activation with err == nil and a non-nil entry, a successful decode of that entry's value, equality of the record's token with the local token and of the record's id with the configured instance id (both obtained by comma-ok assertions); " +
			"(R2) the API method reaches the validation function only under claim == true and otherwise returns false; (R3) an already-cancelled context returns false before the Get is issued, and the wait for the Get has a ctx.Done() case; (R4) ValidateTokenOrDemote returns true only under err == nil and verdict true, and every path to `return false` passes claim == false or a demotion; (R5) the background validation loop demotes and returns on a negative verdict.",
		NotDecided: []string{"which branch a select takes when the result and the context's expiry are ready together (runtime choice; both are sound)", "linearizability of Get itself (C14)"},
		Assumptions: []string{"KeyValue.Get returns a value the key held during the call or an error"},
		Rules: map[string]string{
			"R1": "every Return of the validation function with result #0 != const false is guarded by: NOT(\"\"==token); err(Get of this activation)==nil; entry != nil; json.Unmarshal(entry.Value(), &m)==nil; (record token == local token); (record id == cfg.InstanceID); all other returns yield const false",
			"R2": "in ValidateToken: the call of the validation function is guarded by claim==true; every other return yields const false",
			"R3": "a non-blocking select on ctx.Done() whose chosen branch returns false dominates the goroutine issuing the Get; the blocking select receiving the result has a ctx.Done() state",
			"R4": "ValidateTokenOrDemote: `return true` guarded by err==nil and verdict; every `return false` is unreachable once the edges carrying claim==false and the blocks containing a may-demote call are cut",
			"R7": "in every non-stop unit that clears the claim, the Store(false) is controlled only by the function's arguments, the claim, the term identity (term context field == argument) and the state word; no other field of the election (the election context, say) decides whether a demotion request clears the claim",
			"R6": "in the demotion wrapper (the non-stop function that invokes onDemote under 'the clearing unit saw the claim true'): every path from the false edge of that test to the return passes a blocking wait",
			"R5": "validation loop: the edge verdict==false leads to a may-demote call followed by return",
		},
	})
}

// demotionClearsRule (C04-R7, shared with C03): a demotion request ends the claim. In the
// non-stop units that clear the claim, whether the Store(false) executes depends only on the
// function's arguments, the claim itself, the identity of the term and the state word (STOPPED:
// the stop unit has cleared the claim already). A test of anything else - "the run has ended
// anyway" - turns every later demotion into a no-op: ValidateTokenOrDemote returns false and the
// refresh loop returns while IsLeader() stays true.
func demotionClearsRule(c *Ctx, rule string) {
	m := c.M
	n := 0
	for _, u := range m.ClaimClear {
		if containsFn(m.StopUnits, u) {
			continue
		}
		eachInstr(u, func(in ssa.Instruction) {
			val, isConst, ok := m.claimStore(in)
			if !ok || !isConst || val {
				return
			}
			n++
			foreign := m.clearForeignConds(in)
			c.check(len(foreign) == 0, rule, "a demotion request clears the claim in "+shortFn(u), in,
				"conditions on other state of the election that decide whether the claim is cleared: %v", foreign)
		})
	}
	if n == 0 {
		c.undecided(rule, "claim clear outside the stop units", nil, "no Store(false) of the claim found outside the stop units")
	}
}

// clearForeignConds: the conditions deciding whether the claim Store(false) `in` executes that test
// state of the election other than the claim, the term identity and the state word.
func (m *Model) clearForeignConds(in ssa.Instruction) []string {
	var foreign []string
	seen := map[string]bool{}
	for _, l := range append(append([]Lit{}, m.GuardsAt(in)...), m.controlCondsDeep(in, 0)...) {
		str := l.S.String()
		switch {
		case m.isClaimLoadSym(l.S) || m.isClaimValueSym(l.S):
		case m.isTermIdentityLit(l):
		case !strings.Contains(str, m.ImplName+"."):
			// arguments, locals, results of pure helpers on them
		case func() bool {
			rest := str
			for _, okf := range []string{m.path(m.State), m.path(m.TermCtx), m.path(m.Claim)} {
				if okf != "" {
					rest = strings.ReplaceAll(rest, okf, "")
				}
			}
			return !strings.Contains(rest, m.ImplName+".")
		}():
		default:
			if !seen[str] {
				seen[str] = true
				foreign = append(foreign, l.String())
			}
		}
	}
	return foreign
}

// clearUnitClears: every Store(false) of the claim in the (non-stop) clear unit g is free of such
// conditions: reaching g with a standing claim and the right term means the claim is cleared.
func (m *Model) clearUnitClears(g *ssa.Function) bool {
	ok := true
	eachInstr(g, func(in ssa.Instruction) {
		if val, isConst, isSt := m.claimStore(in); isSt && isConst && !val && len(m.clearForeignConds(in)) > 0 {
			ok = false
		}
	})
	return ok
}

func checkC04(c *Ctx) {
	m := c.M
	demotionClearsRule(c, "R7")
	vf := m.ValidateFn()
	if vf == nil {
		c.undecided("R1", "validation function", nil, "no (bool, error) function issuing Get is reachable from ValidateToken")
		return
	}
	vn := shortFn(vf)

	// ---- R1 -------------------------------------------------------------------------
	nTrue, nFalse := 0, 0
	// the returns that decide the verdict: those of the validation function, and - where it hands
	// on the verdict of a function called from this one place (its body split into phases) - those
	// of that function
	type vret struct {
		ret *ssa.Return
		v   ssa.Value
	}
	var rets []vret
	var collect func(g *ssa.Function, idx int, depth int)
	collect = func(g *ssa.Function, idx int, depth int) {
		for _, b := range liveBlocks(g) {
			ret, ok := b.Instrs[len(b.Instrs)-1].(*ssa.Return)
			if !ok || b == g.Recover || idx >= len(ret.Results) {
				continue
			}
			v := returnValue(ret, idx)
			if ex, isEx := v.(*ssa.Extract); isEx && depth < 4 {
				if call, isCall := ex.Tuple.(*ssa.Call); isCall {
					if h := call.Call.StaticCallee(); h != nil && h != g && m.isLib(h) && len(m.callers[h]) == 1 && h.Blocks != nil {
						collect(h, ex.Index, depth+1)
						continue
					}
				}
			}
			rets = append(rets, vret{ret, v})
		}
	}
	collect(vf, 0, 0)
	for _, r := range rets {
		ret, v := r.ret, r.v
		if k, isC := constBool(v); isC && !k {
			nFalse++
			continue
		}
		nTrue++
		key := fmt.Sprintf("positive verdict #%d of %s", nTrue, vn)
		if _, isC := constBool(v); !isC {
			c.undecided("R1", key, ret, "the verdict is a computed value (%s), not a constant: it cannot be tied to the checks that dominate it", m.Sym.Of(v))
			continue
		}
		gs := m.unitGuardsSubst(vf, ret)
		need := map[string]bool{}
		for _, l := range gs {
			s := l.S
			if s.Op != "bin" || s.Name != "==" {
				continue
			}
			a, bb := s.Args[0], s.Args[1]
			oa, ob := originSet{}, originSet{}
			if a.V != nil {
				oa = m.Origins(a.V)
			}
			if bb.V != nil {
				ob = m.Origins(bb.V)
			}
			has := func(o originSet, pfx string) bool {
				for k := range o {
					if strings.HasPrefix(k, pfx) {
						return true
					}
				}
				return false
			}
			isNil := func(x *Sym) bool { return x.String() == "nil" }
			isEmpty := func(x *Sym) bool { return x.String() == `""` }
			switch {
			case !l.Truth && (isEmpty(a) && has(ob, "field:"+m.Token) || isEmpty(bb) && has(oa, "field:"+m.Token)):
				need["token non-empty"] = true
			case l.Truth && (isNil(a) && has(ob, "kverr:Get") || isNil(bb) && has(oa, "kverr:Get")):
				need["Get err == nil"] = true
			case !l.Truth && (isNil(a) && has(ob, "entry") || isNil(bb) && has(oa, "entry")):
				need["entry != nil"] = true
			case l.Truth && (isNil(a) || isNil(bb)) && symMentions(s, "encoding/json.Unmarshal(") && symMentions(s, "Entry.Value("):
				need["decode ok"] = true
			case l.Truth && ((has(oa, "record") && has(ob, "field:"+m.Token)) || (has(ob, "record") && has(oa, "field:"+m.Token))):
				need["token equal"] = true
			case l.Truth && ((has(oa, "record") && has(ob, "cfg:InstanceID")) || (has(ob, "record") && has(oa, "cfg:InstanceID"))):
				need["id equal"] = true
			}
		}
		var missing []string
		for _, k := range []string{"token non-empty", "Get err == nil", "entry != nil", "decode ok", "token equal", "id equal"} {
			if !need[k] {
				missing = append(missing, k)
			}
		}
		c.check(len(missing) == 0, "R1", key, ret, "missing on the way to `return true`: %v (guards: %s)", missing, clip(fmtLits(gs), 700))
	}
	c.check(nTrue == 1 && nFalse >= 1, "R1", "every other return of "+vn+" yields false", firstInstr(vf), "%d returns with a non-false verdict, %d returns of constant false", nTrue, nFalse)

	// ---- R2 -------------------------------------------------------------------------
	if api := m.method("ValidateToken"); api != nil {
		eachInstr(api, func(in ssa.Instruction) {
			if call, ok := in.(*ssa.Call); ok && call.Call.StaticCallee() == vf {
				gs := m.GuardsAt(in)
				c.check(m.claimLit(gs, true), "R2", "ValidateToken validates only for a leader", in, "guards %s", fmtLits(gs))
			}
		})
		for _, b := range liveBlocks(api) {
			ret, ok := b.Instrs[len(b.Instrs)-1].(*ssa.Return)
			if !ok || b == api.Recover {
				continue
			}
			v := returnValue(ret, 0)
			if k, isC := constBool(v); isC {
				c.check(!k, "R2", fmt.Sprintf("ValidateToken exit #%d", exitOrdinal(api, b)), ret, "constant verdict %v", k)
				continue
			}
			c.check(derivesFromCall(v, vf), "R2", fmt.Sprintf("ValidateToken exit #%d", exitOrdinal(api, b)), ret, "verdict is the validation function's: %v", derivesFromCall(v, vf))
		}
	} else {
		c.undecided("R2", "ValidateToken", nil, "API method not found")
	}

	// ---- R3 -------------------------------------------------------------------------
	var goGet ssa.Instruction
	body := m.bodyFns(vf)
	for _, sp := range m.Spawns() {
		if containsFn(body, sp.Fn) && m.spawnsStoreOp(sp.At) {
			goGet = sp.At
		}
	}
	var pre, wait *ssa.Select
	for _, bf := range body {
		eachInstr(bf, func(in ssa.Instruction) {
			s, ok := in.(*ssa.Select)
			if !ok {
				return
			}
			hasDone := false
			for _, st := range s.States {
				if x := m.Sym.Of(st.Chan); x.Op == "invoke" && strings.HasSuffix(x.Name, "Context.Done") && len(x.Args) == 1 && x.Args[0].Op == "param" {
					hasDone = true
				}
			}
			if !hasDone || goGet == nil {
				return
			}
			if !s.Blocking && m.dominatesLifted(vf, s, goGet) {
				pre = s
			}
			if s.Blocking && m.dominatesLifted(vf, goGet, s) {
				wait = s
			}
		})
	}
	if goGet == nil {
		// Get issued inline
		c.undecided("R3", "context checked before the read", firstInstr(vf), "the Get is not issued from a goroutine of the validation function: the accepted idiom (goroutine + select) was not found")
	} else {
		c.check(pre != nil, "R3", "already-cancelled context returns before the read", goGet, "a non-blocking select on ctx.Done() dominates the goroutine issuing the Get: %v", pre != nil)
		c.check(wait != nil, "R3", "the wait for the read observes the context", goGet, "the blocking select receiving the result has a ctx.Done() case: %v", wait != nil)
	}

	// ---- R4 -------------------------------------------------------------------------
	if od := m.method("ValidateTokenOrDemote"); od != nil {
		api := m.method("ValidateToken")
		for _, b := range liveBlocks(od) {
			ret, ok := b.Instrs[len(b.Instrs)-1].(*ssa.Return)
			if !ok || b == od.Recover {
				continue
			}
			v := returnValue(ret, 0)
			k, isC := constBool(v)
			key := fmt.Sprintf("ValidateTokenOrDemote exit #%d", exitOrdinal(od, b))
			if !isC {
				c.undecided("R4", key, ret, "computed verdict %s", m.Sym.Of(v))
				continue
			}
			gs := m.Guards(b)
			if k {
				errNil := hasLit(gs, true, func(s *Sym) bool {
					return s.Op == "bin" && s.Name == "==" && symMentions(s, "nil") && api != nil && symMentions(s, funcName(api)+"(") && strings.Contains(s.String(), "#1")
				})
				valid := hasLit(gs, true, func(s *Sym) bool {
					return s.Op == "extract" && s.Name == "0" && api != nil && symMentions(s, funcName(api)+"(")
				})
				c.check(errNil && valid, "R4", key+" (true)", ret, "err == nil: %v, verdict true: %v", errNil, valid)
				continue
			}
			// every path to this return passes claim==false or a demotion - of whatever term is
			// current: a demotion bound to a term captured earlier in the call does nothing when
			// the instance was re-elected in between, and the call then returns false while the
			// instance reports leadership
			demotes := func(call *ssa.Call) bool {
				g := call.Call.StaticCallee()
				if g == nil || !m.isLib(g) || !m.mayDemote(g, specFor(call, g), 0) {
					return false
				}
				if k := m.termBound(g, 0); k >= 0 && k < len(call.Call.Args) {
					if kc, isC := call.Call.Args[k].(*ssa.Const); !isC || kc.Value != nil {
						return false // bound to one term
					}
				}
				return true
			}
			inBlock := false
			for _, in := range b.Instrs {
				if call, ok := in.(*ssa.Call); ok && demotes(call) {
					inBlock = true
				}
			}
			reach := !inBlock && cutReachBlocks(b, func(pred *ssa.BasicBlock, i int) bool {
				if l, ok := m.edgeLit(pred, i); ok && !l.Truth && m.isClaimLoadSym(l.S) {
					return true
				}
				for _, in := range pred.Instrs {
					if call, ok := in.(*ssa.Call); ok && demotes(call) {
						return true
					}
				}
				return false
			})
			c.check(!reach, "R4", key+" (false)", ret, "`return false` reachable without passing claim==false or a demotion of the current term (a demotion bound to a term captured before the read does not count): %v", reach)
		}
	} else {
		c.undecided("R4", "ValidateTokenOrDemote", nil, "API method not found")
	}

	// ---- R5 -------------------------------------------------------------------------
	n5 := 0
	var r5Fns []*ssa.Function
	for _, f := range m.Funcs {
		if f == vf || f.Parent() != nil || len(cfgLoops(f)) == 0 {
			continue
		}
		// the loop function and the single-call-site functions its body was split into
		for _, g := range m.bodyFns(f) {
			if g != vf && !containsFn(r5Fns, g) {
				r5Fns = append(r5Fns, g)
			}
		}
	}
	for _, f := range r5Fns {
		eachInstr(f, func(in ssa.Instruction) {
			ifi, ok := in.(*ssa.If)
			if !ok {
				return
			}
			l := m.litOf(ifi.Cond, true, ifi)
			if l.S.Op == "extract" && l.S.Name == "0" && symMentions(l.S, funcName(vf)+"(") {
				n5++
				edge := map[bool]int{true: 1, false: 0}[l.Truth] // the verdict==false edge
				ok := m.edgeDemotesAndExits(in.Block(), edge)
				c.check(ok, "R5", "background validation demotes on a negative verdict in "+shortFn(f), in, "every path from the negative-verdict edge demotes and then returns without another tick: %v", ok)
			}
		})
	}
	if n5 == 0 {
		c.viol("R5", "background validation demotes on a negative verdict", nil, "no loop tests the validation function's verdict")
	}

	// ---- R6 -------------------------------------------------------------------------
	// "whenever it returns false ... if it was leader, the demotion callback has been invoked": with
	// two demotion causes at once (two ValidateTokenOrDemote calls, or one next to the heartbeat)
	// exactly one of them invokes OnDemote (C08-R3); the other must not return before that
	// invocation. In the demotion wrapper, the path on which the clearing unit reported "not this
	// activation" therefore has to wait for the activation that is notifying.
	nWrap := 0
	for _, f := range m.Funcs {
		if containsFn(m.StopUnits, topFunc(f)) || f.Parent() != nil {
			continue
		}
		eachInstr(f, func(in ssa.Instruction) {
			if !m.invokesFieldValue(in, m.OnDemote) {
				return
			}
			// the test of the clearing unit's result that decides the invocation
			for _, l := range m.AllGuards(in, false) {
				if !m.prevClaimLit(l, true) || l.If == nil {
					continue
				}
				nWrap++
				edge := 1 // the edge on which the result is false
				if !m.litOf(l.If.Cond, true, l.If).Truth {
					edge = 0
				}
				waits := true
				m.explore(l.If.Block(), edge, 0, func(x ssa.Instruction, flag int) (int, bool) {
					if m.isBlockingInstr(x) {
						return 1, true
					}
					return flag, false
				}, func(last ssa.Instruction, flag int) {
					if flag == 0 {
						waits = false
					}
				})
				c.check(waits, "R6", "a demotion that lost against a concurrent one waits for its notification", l.If,
					"on the path where the clearing unit reports that another activation ended the term, a wait precedes the return: %v. Without it a ValidateTokenOrDemote that began while the instance led returns false while the OnDemote of the concurrent demotion has not been invoked yet (claim cleared, callback pending).", waits)
			}
		})
	}
	if nWrap == 0 {
		c.undecided("R6", "demotion wrapper", nil, "no OnDemote invocation decided by the clearing unit's result found outside the stop units")
	}
}

// commaOK: the expression is the value of a comma-ok type assertion.
func commaOK(s *Sym) bool {
	return s.Op == "extract" && s.Name == "0" && len(s.Args) == 1 && s.Args[0].Op == "assertok"
}

func derivesFromCall(v ssa.Value, f *ssa.Function) bool {
	switch x := v.(type) {
	case *ssa.Extract:
		if call, ok := x.Tuple.(*ssa.Call); ok {
			return call.Call.StaticCallee() == f
		}
	case *ssa.Phi:
		for _, e := range x.Edges {
			if k, isC := constBool(e); isC && !k {
				continue
			}
			if !derivesFromCall(e, f) {
				return false
			}
		}
		return true
	}
	return false
}

// cutReachBlocks: like cutReach, the cut predicate sees the predecessor block (so a block
// containing a given instruction can cut all its outgoing edges).
func cutReachBlocks(target *ssa.BasicBlock, cut func(pred *ssa.BasicBlock, succ int) bool) bool {
	return cutReach(target, cut)
}
