package main

import (
	"fmt"
	"go/ast"
	"go/constant"
	"go/token"
	"go/types"
	"sort"
	"strconv"
	"strings"

	"golang.org/x/tools/go/ssa"
)

func init() {
	register(&PropertySpec{
		ID:    "C15",
		Level: "other",
		Run:   checkC15,
		Explanation: "Decides for every error value: (R1) exclusivity and totality: IsTransientError(e) == (e != nil && !IsPermanentError(e)) and IsPermanentError(nil) == false, read off the control flow of the two functions (complete); (R2) the tests for context.Canceled, context.DeadlineExceeded and TimeoutError that make an error transient precede every `return true` of IsPermanentError and are unwrap-aware (errors.Is / errors.As, not a type assertion or ==), and the library's own permanent sentinels are tested with errors.Is; " +
			"(R3) agreement with the pinned NATS client, by constant folding over the loaded sources of nats.go and nats-server: the texts the client produces for a failed revision-checked Update ('nats: wrong last sequence: N'), for a Create on an existing key ('...: key exists') and for a missing key are matched by a permanent substring pattern or by an errors.Is test on the client's sentinel, and the texts of ErrTimeout, ErrNoResponders and ErrConnectionClosed match no permanent pattern; " +
			"(R4) the consumers (heartbeat loop, RetryWithBackoff) consult IsPermanentError before counting/retrying.",
		NotDecided: []string{"errors produced by future versions of the client", "message texts assembled at run time by the server beyond the constant part of their templates"},
		Assumptions: []string{"the pinned nats.go / nats-server sources in the module cache are the ones linked", "strings.Contains / strings.ToLower / errors.Is / errors.As semantics"},
		Rules: map[string]string{
			"R1": "IsTransientError: every Return constant; true-returns guarded by NOT(err==nil) and NOT IsPermanentError(err); false-returns by err==nil or IsPermanentError(err). IsPermanentError: the err==nil edge returns false",
			"R2": "in IsPermanentError every `return true` is guarded by NOT errors.Is(err, context.Canceled), NOT errors.Is(err, context.DeadlineExceeded), NOT errors.As(err, **TimeoutError); the sentinels ErrInvalidConfig / ErrPermissionDenied / ErrBucketNotFound are tested with errors.Is on the parameter",
			"R3": "pattern table (constants stored to the ranged []string, lower-case) and sentinel tests vs. constants extracted from the loaded nats.go (ErrKeyExists message + code, ErrKeyNotFound, ErrTimeout, ErrNoResponders, ErrConnectionClosed, APIError format) and nats-server (description of error 10071)",
			"R4": "heartbeat loop: IsPermanentError(updateErr) is tested on the failure edge; RetryWithBackoff: IsPermanentError(err) true edge returns",
		},
	})
}

func (m *Model) libFunc(name string) *ssa.Function { return m.P.Leader.Func(name) }

func checkC15(c *Ctx) {
	m := c.M
	perm, trans := m.libFunc("IsPermanentError"), m.libFunc("IsTransientError")
	if perm == nil || trans == nil {
		c.undecided("R1", "classifiers", nil, "IsPermanentError / IsTransientError not found")
		return
	}
	errNil := func(s *Sym) bool {
		return s.Op == "bin" && s.Name == "==" && ((s.Args[0].String() == "nil" && s.Args[1].Op == "param") || (s.Args[1].String() == "nil" && s.Args[0].Op == "param"))
	}
	isPermCall := func(s *Sym) bool {
		return s.Op == "call" && s.Name == funcName(perm) && len(s.Args) == 1 && s.Args[0].Op == "param"
	}
	// ---- R1 -----------------------------------------------------------------------
	for _, b := range liveBlocks(trans) {
		ret, ok := b.Instrs[len(b.Instrs)-1].(*ssa.Return)
		if !ok || b == trans.Recover {
			continue
		}
		key := fmt.Sprintf("IsTransientError exit #%d", exitOrdinal(trans, b))
		k, isC := constBool(returnValue(ret, 0))
		if !isC {
			c.undecided("R1", key, ret, "non-constant result %s", m.Sym.Of(returnValue(ret, 0)))
			continue
		}
		gs := m.Guards(b)
		if k {
			c.check(hasLit(gs, false, errNil) && hasLit(gs, false, isPermCall), "R1", key+" (true)", ret, "guarded by err != nil and !IsPermanentError(err): %s", clip(fmtLits(gs), 300))
		} else {
			c.check(hasLit(gs, true, errNil) || hasLit(gs, true, isPermCall), "R1", key+" (false)", ret, "guarded by err == nil or IsPermanentError(err): %s", clip(fmtLits(gs), 300))
		}
	}
	nilEdge := false
	for _, b := range liveBlocks(perm) {
		ret, ok := b.Instrs[len(b.Instrs)-1].(*ssa.Return)
		if !ok || b == perm.Recover {
			continue
		}
		k, isC := constBool(returnValue(ret, 0))
		if !isC {
			c.undecided("R1", fmt.Sprintf("IsPermanentError exit #%d", exitOrdinal(perm, b)), ret, "non-constant result")
			continue
		}
		gs := m.Guards(b)
		if hasLit(gs, true, errNil) {
			nilEdge = true
			c.check(!k, "R1", "IsPermanentError(nil) is false", ret, "result on the err == nil edge: %v", k)
		} else if k && !hasLit(gs, false, errNil) {
			c.viol("R1", fmt.Sprintf("IsPermanentError exit #%d", exitOrdinal(perm, b)), ret, "`return true` not guarded by err != nil")
		}
	}
	if !nilEdge {
		c.viol("R1", "IsPermanentError(nil) is false", firstInstr(perm), "no return on an err == nil edge")
	}
	c.floor("R1", 3)

	// ---- R2 -----------------------------------------------------------------------
	isErrorsIs := func(s *Sym, global string) bool {
		return s.Op == "call" && s.Name == "errors.Is" && len(s.Args) == 2 && s.Args[0].Op == "param" && strings.Contains(s.Args[1].String(), global)
	}
	isAsTimeout := func(s *Sym) bool {
		if s.Op != "call" || s.Name != "errors.As" || len(s.Args) != 2 || s.Args[0].Op != "param" {
			return false
		}
		t := s.Args[1].Typ
		if t == nil && s.Args[1].V != nil {
			t = s.Args[1].V.Type()
		}
		return t != nil && strings.HasSuffix(types.TypeString(t, shortQual), "**leader.TimeoutError") || strings.Contains(s.Args[1].String(), "timeoutErr")
	}
	nTrue := 0
	for _, b := range liveBlocks(perm) {
		ret, ok := b.Instrs[len(b.Instrs)-1].(*ssa.Return)
		if !ok || b == perm.Recover {
			continue
		}
		if k, isC := constBool(returnValue(ret, 0)); !isC || !k {
			continue
		}
		nTrue++
		gs := m.Guards(b)
		a := hasLit(gs, false, func(s *Sym) bool { return isErrorsIs(s, "context.Canceled") })
		d := hasLit(gs, false, func(s *Sym) bool { return isErrorsIs(s, "context.DeadlineExceeded") })
		t := hasLit(gs, false, isAsTimeout)
		key := fmt.Sprintf("transient tests precede `return true` #%d of IsPermanentError", nTrue)
		c.check(a && d && t, "R2", key, ret, "NOT errors.Is(err, context.Canceled): %v; NOT errors.Is(err, context.DeadlineExceeded): %v; NOT errors.As(err, **TimeoutError): %v (a bare type assertion or == misses wrapped errors)", a, d, t)
	}
	for _, sentinel := range []string{"ErrInvalidConfig", "ErrPermissionDenied", "ErrBucketNotFound"} {
		found := false
		eachInstr(perm, func(in ssa.Instruction) {
			if ifi, ok := in.(*ssa.If); ok {
				l := m.litOf(ifi.Cond, true, ifi)
				if isErrorsIs(l.S, "leader."+sentinel) {
					edge := map[bool]int{true: 0, false: 1}[l.Truth]
					blk := in.Block().Succs[edge]
					if ret, ok := blk.Instrs[len(blk.Instrs)-1].(*ssa.Return); ok {
						if k, isC := constBool(returnValue(ret, 0)); isC && k {
							found = true
						}
					}
				}
			}
		})
		c.check(found, "R2", "errors.Is(err, "+sentinel+") => permanent", firstInstr(perm), "unwrap-aware sentinel test returning true: %v", found)
	}
	c.floor("R2", 5)

	// ---- R3 -----------------------------------------------------------------------
	natsConflictRule(c, "R3")

	// ---- R4 -----------------------------------------------------------------------
	if rf := m.refreshLoopFn(); rf != nil {
		found := false
		eachInstr(rf, func(in ssa.Instruction) {
			if ifi, ok := in.(*ssa.If); ok {
				if l := m.litOf(ifi.Cond, true, ifi); l.S.Op == "call" && l.S.Name == funcName(perm) {
					found = true
				}
			}
		})
		c.check(found, "R4", "heartbeat loop consults IsPermanentError", firstInstr(rf), "%v", found)
	}
	if rb := m.libFunc("RetryWithBackoff"); rb != nil {
		found := false
		eachInstr(rb, func(in ssa.Instruction) {
			if ifi, ok := in.(*ssa.If); ok {
				if l := m.litOf(ifi.Cond, true, ifi); l.S.Op == "call" && l.S.Name == funcName(perm) {
					edge := map[bool]int{true: 0, false: 1}[l.Truth]
					blk := in.Block().Succs[edge]
					if _, ok := blk.Instrs[len(blk.Instrs)-1].(*ssa.Return); ok {
						found = true
					}
				}
			}
		})
		c.check(found, "R4", "RetryWithBackoff stops on a permanent error", firstInstr(rb), "%v", found)
	}
}

// permanentPatterns extracts the constant needles of the substring scan in IsPermanentError.
func (m *Model) permanentPatterns() (pats []string, undecided string, sentinels []string) {
	perm := m.libFunc("IsPermanentError")
	if perm == nil {
		return nil, "IsPermanentError not found", nil
	}
	// needles: second argument of strings.Contains whose true edge returns true
	eachInstr(perm, func(in ssa.Instruction) {
		ifi, ok := in.(*ssa.If)
		if !ok {
			return
		}
		l := m.litOf(ifi.Cond, true, ifi)
		if l.S.Op == "call" && l.S.Name == "strings.Contains" && len(l.S.Args) == 2 {
			call := l.S.V.(*ssa.Call)
			needle := call.Call.Args[1]
			// the haystack must be the lower-cased message of the parameter
			hay := m.Sym.Of(call.Call.Args[0]).String()
			if !strings.Contains(hay, "strings.ToLower(") || !strings.Contains(hay, "error.Error(param:") {
				undecided = "haystack of strings.Contains is " + hay + ", not strings.ToLower(err.Error())"
			}
			if s, ok := constStr(needle); ok {
				pats = append(pats, s)
				return
			}
			// element of a ranged constant slice: collect the constants stored to the backing array
			found := false
			eachInstr(perm, func(x ssa.Instruction) {
				if st, ok := x.(*ssa.Store); ok {
					if _, isIdx := st.Addr.(*ssa.IndexAddr); isIdx {
						if s, ok := constStr(st.Val); ok {
							pats = append(pats, s)
							found = true
						}
					}
				}
			})
			if !found {
				undecided = "the needle of strings.Contains is not a constant or an element of a constant table: " + m.Sym.Of(needle).String()
			}
		}
		if l.S.Op == "call" && l.S.Name == "errors.Is" && len(l.S.Args) == 2 {
			edge := map[bool]int{true: 0, false: 1}[l.Truth]
			blk := in.Block().Succs[edge]
			if ret, ok := blk.Instrs[len(blk.Instrs)-1].(*ssa.Return); ok {
				if k, isC := constBool(returnValue(ret, 0)); isC && k {
					sentinels = append(sentinels, l.S.Args[1].String())
				}
			}
		}
	})
	sort.Strings(pats)
	pats = uniq(pats)
	return
}

// natsConstants extracts message constants from the loaded sources of the pinned NATS client and server.
func (m *Model) natsConstants() (map[string]string, []string) {
	out := map[string]string{}
	var problems []string
	np := m.P.AllPkgs["github.com/nats-io/nats.go"]
	if np == nil {
		return out, []string{"package github.com/nats-io/nats.go is not among the loaded dependencies"}
	}
	want := map[string]bool{"ErrKeyExists": true, "ErrKeyNotFound": true, "ErrTimeout": true, "ErrNoResponders": true, "ErrConnectionClosed": true}
	for _, f := range np.Syntax {
		ast.Inspect(f, func(n ast.Node) bool {
			vs, ok := n.(*ast.ValueSpec)
			if !ok {
				return true
			}
			for i, name := range vs.Names {
				if !want[name.Name] || i >= len(vs.Values) {
					continue
				}
				ast.Inspect(vs.Values[i], func(x ast.Node) bool {
					switch y := x.(type) {
					case *ast.KeyValueExpr:
						if id, ok := y.Key.(*ast.Ident); ok && id.Name == "message" {
							if bl, ok := y.Value.(*ast.BasicLit); ok && bl.Kind == token.STRING {
								s, _ := strconv.Unquote(bl.Value)
								out[name.Name+".message"] = s
							}
						}
						if id, ok := y.Key.(*ast.Ident); ok && id.Name == "ErrorCode" {
							if tv, ok := np.TypesInfo.Types[y.Value]; ok && tv.Value != nil {
								out[name.Name+".code"] = tv.Value.ExactString()
							}
						}
					case *ast.CallExpr:
						if len(y.Args) == 1 {
							if bl, ok := y.Args[0].(*ast.BasicLit); ok && bl.Kind == token.STRING {
								s, _ := strconv.Unquote(bl.Value)
								if _, dup := out[name.Name]; !dup {
									out[name.Name] = s
								}
							}
						}
					}
					return true
				})
			}
			return true
		})
	}
	// the format of (*APIError).Error and (*jsError).Error: "nats: %s"
	if c := np.Types.Scope().Lookup("JSErrCodeStreamWrongLastSequence"); c != nil {
		if k, ok := c.(*types.Const); ok && k.Val().Kind() == constant.Int {
			out["JSErrCodeStreamWrongLastSequence"] = k.Val().ExactString()
		}
	}
	for _, f := range np.Syntax {
		for _, d := range f.Decls {
			fd, ok := d.(*ast.FuncDecl)
			if !ok || fd.Name.Name != "Error" || fd.Recv == nil || len(fd.Recv.List) != 1 {
				continue
			}
			recv := types.ExprString(fd.Recv.List[0].Type)
			if recv != "*APIError" {
				continue
			}
			ast.Inspect(fd.Body, func(x ast.Node) bool {
				if bl, ok := x.(*ast.BasicLit); ok && bl.Kind == token.STRING {
					s, _ := strconv.Unquote(bl.Value)
					out["APIError.format"] = s
				}
				return true
			})
		}
	}
	// nats-server: description template of the API error with that code
	if sp := m.P.AllPkgs["github.com/nats-io/nats-server/v2/server"]; sp != nil {
		code := out["JSErrCodeStreamWrongLastSequence"]
		for _, f := range sp.Syntax {
			ast.Inspect(f, func(n ast.Node) bool {
				cl, ok := n.(*ast.CompositeLit)
				if !ok {
					return true
				}
				var ec, desc string
				for _, e := range cl.Elts {
					kv, ok := e.(*ast.KeyValueExpr)
					if !ok {
						continue
					}
					id, ok := kv.Key.(*ast.Ident)
					if !ok {
						continue
					}
					if bl, ok := kv.Value.(*ast.BasicLit); ok {
						switch id.Name {
						case "ErrCode":
							ec = bl.Value
						case "Description":
							desc, _ = strconv.Unquote(bl.Value)
						}
					}
				}
				if ec != "" && ec == code && desc != "" {
					out["server.description."+code] = desc
				}
				return true
			})
		}
	} else {
		problems = append(problems, "nats-server sources not loaded: the description template of error 10071 was not read")
	}
	for _, k := range []string{"ErrKeyExists.message", "ErrKeyExists.code", "ErrKeyNotFound", "ErrTimeout", "ErrNoResponders", "ErrConnectionClosed", "JSErrCodeStreamWrongLastSequence", "APIError.format"} {
		if out[k] == "" {
			problems = append(problems, "constant "+k+" not found in the loaded nats.go sources")
		}
	}
	return out, problems
}

// natsConflictRule is C15-R3 (shared with C03-R5).
func natsConflictRule(c *Ctx, rule string) {
	m := c.M
	pats, und, sentinels := m.permanentPatterns()
	if und != "" {
		c.undecided(rule, "permanent pattern table", firstInstr(m.libFunc("IsPermanentError")), "%s", und)
		return
	}
	k, problems := m.natsConstants()
	for _, p := range problems {
		c.undecided(rule, "client constants: "+p, nil, "%s", p)
	}
	if len(problems) > 0 {
		return
	}
	for _, p := range pats {
		if p != strings.ToLower(p) {
			c.viol(rule, "pattern "+strconv.Quote(p)+" is lower-case", firstInstr(m.libFunc("IsPermanentError")), "the message is lower-cased before matching: a pattern with upper-case letters never matches")
		}
	}
	c.check(len(pats) >= 5, rule, "permanent pattern table extracted", firstInstr(m.libFunc("IsPermanentError")), "%d constant patterns: %q; sentinel tests: %v", len(pats), pats, sentinels)

	matches := func(text string) string {
		lt := strings.ToLower(text)
		for _, p := range pats {
			if strings.Contains(lt, p) {
				return p
			}
		}
		return ""
	}
	sentinelKeyExists := false
	for _, s := range sentinels {
		if strings.Contains(s, "nats.go.ErrKeyExists") {
			sentinelKeyExists = true
		}
	}
	format := k["APIError.format"] // "nats: %s"
	render := func(desc string) string { return strings.Replace(format, "%s", desc, 1) }
	// 1. failed revision-checked Update: APIError{ErrorCode: 10071, Description: "wrong last sequence: {seq}"}
	desc := k["server.description."+k["JSErrCodeStreamWrongLastSequence"]]
	if desc == "" {
		desc = "wrong last sequence: {seq}"
	}
	literal := desc
	if i := strings.Index(literal, "{"); i >= 0 {
		literal = literal[:i]
	}
	conflictText := render(literal)
	p1 := matches(conflictText)
	c.check(p1 != "" || (sentinelKeyExists && k["ErrKeyExists.code"] == k["JSErrCodeStreamWrongLastSequence"]), rule, "client's revision conflict is permanent", firstInstr(m.libFunc("IsPermanentError")),
		"text %q (server error %s): matched by pattern %q; errors.Is(err, nats.ErrKeyExists) [same error code %s]: %v. If neither holds a deposed leader retries for three attempts instead of stepping down at once.",
		conflictText+"N", k["JSErrCodeStreamWrongLastSequence"], p1, k["ErrKeyExists.code"], sentinelKeyExists)
	// 2. Create on an existing key: fmt.Errorf("%w: %s", err, "key exists")
	createText := conflictText + "N: " + k["ErrKeyExists.message"]
	p2 := matches(createText)
	c.check(p2 != "" || sentinelKeyExists, rule, "client's create-on-existing-key error is permanent", firstInstr(m.libFunc("IsPermanentError")), "text %q: pattern %q; sentinel test: %v", createText, p2, sentinelKeyExists)
	// 3. missing key
	p3 := matches(k["ErrKeyNotFound"])
	c.check(p3 != "", rule, "client's key-not-found error is permanent", firstInstr(m.libFunc("IsPermanentError")), "text %q: pattern %q", k["ErrKeyNotFound"], p3)
	// 4. transient sentinels match nothing
	for _, name := range []string{"ErrTimeout", "ErrNoResponders", "ErrConnectionClosed"} {
		p := matches(k[name])
		c.check(p == "", rule, "client's "+name+" stays transient", firstInstr(m.libFunc("IsPermanentError")), "text %q matches permanent pattern %q", k[name], p)
	}
}
