package main

import (
	"fmt"
	"go/ast"
	"go/constant"
	"go/token"
	"go/types"
	"sort"
	"strconv"
	"strings"

	"golang.org/x/tools/go/ssa"
)

func init() {
	register(&PropertySpec{
		ID:    "C15",
		Level: "other",
		Run:   checkC15,
		Explanation: "Decides for every error value: (R1) exclusivity and totality: IsTransientError(e) == (e != nil && !IsPermanentError(e)) and IsPermanentError(nil) == false, read off a decision model of the two functions (every path as a conjunction of signed atoms, helpers inlined, table scans abstracted; complete); (R2) the tests for context.Canceled, context.DeadlineExceeded and TimeoutError that make an error transient precede every `return true` of IsPermanentError and are unwrap-aware (errors.Is / errors.As, not a type assertion or ==), and the library's own permanent sentinels are tested with errors.Is; " +
			"(R3) agreement with the pinned NATS client, by constant folding over the loaded sources of nats.go and nats-server: the texts the client produces for a failed revision-checked Update ('nats: wrong last sequence: N'), for a Create on an existing key ('...: key exists') and for a missing key are matched by a permanent substring pattern or by an errors.Is test on the client's sentinel, and the texts of ErrTimeout, ErrNoResponders and ErrConnectionClosed match no permanent pattern; " +
			"(R4) the consumers (heartbeat loop, RetryWithBackoff) consult IsPermanentError before counting/retrying.",
		NotDecided: []string{"errors produced by future versions of the client", "message texts assembled at run time by the server beyond the constant part of their templates"},
		Assumptions: []string{"the pinned nats.go / nats-server sources in the module cache are the ones linked", "strings.Contains / strings.ToLower / errors.Is / errors.As semantics"},
		Rules: map[string]string{
			"R1": "decision model (classify.go): both classifiers are enumerated into paths = conjunctions of signed atoms (err==nil, errors.Is(err,X), errors.As(err,*T), strings.Contains(lower(err.Error()),p), table scans, IsPermanentError(err)) with boolean helpers inlined; all paths consistent with {nil} return false in both; in IsTransientError all paths consistent with {!nil, IsPermanentError} return false and all consistent with {!nil, !IsPermanentError} return true",
			"R2": "in IsPermanentError all paths consistent with {!nil, A} return false for A in errors.Is(err, context.Canceled), errors.Is(err, context.DeadlineExceeded), errors.As(err, **TimeoutError) (the atoms exist only for the unwrap-aware forms); all paths consistent with {!nil, none of those, errors.Is(err, S)} return true for S in ErrInvalidConfig / ErrPermissionDenied / ErrBucketNotFound",
			"R3": "patterns and sentinels read off the decision model (each confirmed to force `true`, and their absence to force `false`), lower-case, vs. constants extracted from the loaded nats.go (ErrKeyExists message + code, ErrKeyNotFound, ErrTimeout, ErrNoResponders, ErrConnectionClosed, APIError format) and nats-server (description of error 10071)",
			"R5": "every error returned by a method of a type implementing KeyValue (the adapters around the NATS client and the mock) is nil or the error value returned by a call on the wrapped object, unchanged: text added by the adapter (operation, key = the group name) would take part in the substring classification",
			"R4": "heartbeat loop: IsPermanentError(updateErr) is tested on the failure edge; RetryWithBackoff: IsPermanentError(err) true edge returns",
		},
	})
}

func (m *Model) libFunc(name string) *ssa.Function { return m.P.Leader.Func(name) }

func checkC15(c *Ctx) {
	m := c.M
	perm, trans := m.libFunc("IsPermanentError"), m.libFunc("IsTransientError")
	if perm == nil || trans == nil {
		c.undecided("R1", "classifiers", nil, "IsPermanentError / IsTransientError not found")
		return
	}
	permPaths, pp := m.Decisions(perm)
	transPaths, tp := m.Decisions(trans, perm)
	for _, p := range append(pp, tp...) {
		c.undecided("R1", "decision model: "+clip(p, 80), firstInstr(perm), "%s", p)
	}
	if len(permPaths) == 0 || len(transPaths) == 0 {
		c.undecided("R1", "decision model", firstInstr(perm), "no paths enumerated (IsPermanentError %d, IsTransientError %d)", len(permPaths), len(transPaths))
		return
	}
	witness := func(w *cpath) string {
		if w == nil {
			return "-"
		}
		return fmt.Sprintf("path %s returning at %s", clip(w.String(), 400), c.posOf(w.Ret))
	}
	ask := func(rule, key string, paths []cpath, at ssa.Instruction, a map[string]bool, want bool, why string) {
		ok, n, w := allReturn(paths, a, want)
		var as []string
		for k, v := range a {
			as = append(as, fmt.Sprintf("%s=%v", k, v))
		}
		sort.Strings(as)
		if n == 0 {
			c.undecided(rule, key, at, "no path is consistent with {%s}: the atoms were not recognised in the function", strings.Join(as, ", "))
			return
		}
		if ok {
			c.ok(rule, key, at, "all %d paths consistent with {%s} return %v", n, strings.Join(as, ", "), want)
		} else {
			c.viol(rule, key, w.Ret, "with {%s} the result must be %v, but %s. %s", strings.Join(as, ", "), want, witness(w), why)
		}
	}
	permCall := "call:" + funcName(perm)
	// ---- R1 -----------------------------------------------------------------------
	ask("R1", "IsPermanentError(nil) is false", permPaths, firstInstr(perm), map[string]bool{"nil": true}, false, "")
	ask("R1", "IsTransientError(nil) is false", transPaths, firstInstr(trans), map[string]bool{"nil": true}, false, "")
	ask("R1", "IsTransientError is false for a permanent error", transPaths, firstInstr(trans), map[string]bool{"nil": false, permCall: true}, false, "An error would be both permanent and transient.")
	ask("R1", "IsTransientError is true for every other error", transPaths, firstInstr(trans), map[string]bool{"nil": false, permCall: false}, true, "A non-nil error would be neither permanent nor transient.")
	c.floor("R1", 3)

	// ---- R2 -----------------------------------------------------------------------
	isElems, asElems := atomElems(permPaths, "is"), atomElems(permPaths, "as")
	canceled, deadline := findElem(isElems, "context.Canceled"), findElem(isElems, "context.DeadlineExceeded")
	asTimeout := findElem(asElems, "TimeoutError")
	base := map[string]bool{"nil": false}
	for _, tr := range []struct{ elem, name string }{{canceled, "errors.Is(err, context.Canceled)"}, {deadline, "errors.Is(err, context.DeadlineExceeded)"}, {asTimeout, "errors.As(err, **TimeoutError)"}} {
		key := tr.name + " => not permanent"
		if tr.elem == "" {
			c.viol("R2", key, firstInstr(perm), "IsPermanentError contains no unwrap-aware test %s (a bare type assertion or == misses wrapped errors)", tr.name)
			continue
		}
		ask("R2", key, permPaths, firstInstr(perm), map[string]bool{"nil": false, tr.elem: true}, false, "The transient tests must precede every `return true`.")
		base[tr.elem] = false
	}
	for _, sentinel := range []string{"ErrInvalidConfig", "ErrPermissionDenied", "ErrBucketNotFound"} {
		key := "errors.Is(err, " + sentinel + ") => permanent"
		e := findElem(isElems, "leader."+sentinel)
		if e == "" {
			c.viol("R2", key, firstInstr(perm), "IsPermanentError contains no errors.Is test on %s", sentinel)
			continue
		}
		a := map[string]bool{e: true}
		for k, v := range base {
			a[k] = v
		}
		ask("R2", key, permPaths, firstInstr(perm), a, true, "")
	}
	c.floor("R2", 5)

	// ---- R3 -----------------------------------------------------------------------
	natsConflictRule(c, "R3")

	// ---- R4 -----------------------------------------------------------------------
	if rf := m.refreshLoopFn(); rf != nil {
		found := false
		eachInstr(rf, func(in ssa.Instruction) {
			if ifi, ok := in.(*ssa.If); ok {
				if l := m.litOf(ifi.Cond, true, ifi); l.S.Op == "call" && l.S.Name == funcName(perm) {
					found = true
				}
			}
		})
		c.check(found, "R4", "heartbeat loop consults IsPermanentError", firstInstr(rf), "%v", found)
	}
	if rb, invs := m.retryInvocations(); rb != nil {
		n := 0
		for _, uf := range m.unitFns(rb) {
			eachInstr(uf, func(in ssa.Instruction) {
				call, ok := in.(*ssa.Call)
				if !ok || call.Call.StaticCallee() != perm {
					return
				}
				n++
				var hit ssa.Instruction
				first := true
				m.exploreAssuming(call, map[ssa.Value]bool{ssa.Value(call): true}, 0, func(x ssa.Instruction, flag int) (int, bool) {
					if first {
						first = false
						return flag, false
					}
					for _, iv := range invs {
						if x == ssa.Instruction(iv) {
							hit = x
							return flag, true
						}
					}
					return flag, false
				}, nil)
				c.check(hit == nil, "R4", "RetryWithBackoff stops on a permanent error", call, "with IsPermanentError(err) == true another invocation of the operation is reachable: %v", hit != nil)
			})
		}
		if n == 0 {
			c.viol("R4", "RetryWithBackoff stops on a permanent error", firstInstr(rb), "RetryWithBackoff never consults IsPermanentError")
		}
	}
	// R5: the classifiers judge the client's errors as the client produced them
	adapterErrorIdentityRule(c, "R5")

}

// permanentPatterns reads the decision model of IsPermanentError: the message fragments and the
// sentinels that make a non-nil, non-cancelled, non-timeout error permanent, each confirmed by
// "with this atom true (and the transient tests false) every path returns true"; and that
// nothing else does (with all of them false every path returns false).
func (m *Model) permanentPatterns() (pats []string, undecided string, sentinels []string) {
	perm := m.libFunc("IsPermanentError")
	if perm == nil {
		return nil, "IsPermanentError not found", nil
	}
	paths, problems := m.Decisions(perm)
	if len(problems) > 0 {
		return nil, strings.Join(problems, "; "), nil
	}
	isElems, asElems, conElems := atomElems(paths, "is"), atomElems(paths, "as"), atomElems(paths, "contains")
	base := map[string]bool{"nil": false}
	transientIs := map[string]bool{}
	for _, sub := range []string{"context.Canceled", "context.DeadlineExceeded"} {
		if e := findElem(isElems, sub); e != "" {
			base[e] = false
			transientIs[e] = true
		}
	}
	if e := findElem(asElems, "TimeoutError"); e != "" {
		base[e] = false
	}
	with := func(e string) map[string]bool {
		a := map[string]bool{e: true}
		for k, v := range base {
			a[k] = v
		}
		return a
	}
	none := map[string]bool{}
	for k, v := range base {
		none[k] = v
	}
	for _, e := range conElems {
		none[e] = false
		if ok, n, _ := allReturn(paths, with(e), true); ok && n > 0 {
			pats = append(pats, strings.TrimPrefix(e, "contains:"))
		}
	}
	for _, e := range isElems {
		if transientIs[e] {
			continue
		}
		none[e] = false
		if ok, n, _ := allReturn(paths, with(e), true); ok && n > 0 {
			sentinels = append(sentinels, strings.TrimPrefix(e, "is:"))
		}
	}
	if ok, n, w := allReturn(paths, none, false); !ok || n == 0 {
		desc := "no consistent path"
		if w != nil {
			desc = clip(w.String(), 300)
		}
		return nil, "an error that matches no pattern and no sentinel can still be classified permanent: " + desc, nil
	}
	sort.Strings(pats)
	pats = uniq(pats)
	return
}

// natsConstants extracts message constants from the loaded sources of the pinned NATS client and server.
func (m *Model) natsConstants() (map[string]string, []string) {
	out := map[string]string{}
	var problems []string
	np := m.P.AllPkgs["github.com/nats-io/nats.go"]
	if np == nil {
		return out, []string{"package github.com/nats-io/nats.go is not among the loaded dependencies"}
	}
	want := map[string]bool{"ErrKeyExists": true, "ErrKeyNotFound": true, "ErrTimeout": true, "ErrNoResponders": true, "ErrConnectionClosed": true}
	for _, f := range np.Syntax {
		ast.Inspect(f, func(n ast.Node) bool {
			vs, ok := n.(*ast.ValueSpec)
			if !ok {
				return true
			}
			for i, name := range vs.Names {
				if !want[name.Name] || i >= len(vs.Values) {
					continue
				}
				ast.Inspect(vs.Values[i], func(x ast.Node) bool {
					switch y := x.(type) {
					case *ast.KeyValueExpr:
						if id, ok := y.Key.(*ast.Ident); ok && id.Name == "message" {
							if bl, ok := y.Value.(*ast.BasicLit); ok && bl.Kind == token.STRING {
								s, _ := strconv.Unquote(bl.Value)
								out[name.Name+".message"] = s
							}
						}
						if id, ok := y.Key.(*ast.Ident); ok && id.Name == "ErrorCode" {
							if tv, ok := np.TypesInfo.Types[y.Value]; ok && tv.Value != nil {
								out[name.Name+".code"] = tv.Value.ExactString()
							}
						}
					case *ast.CallExpr:
						if len(y.Args) == 1 {
							if bl, ok := y.Args[0].(*ast.BasicLit); ok && bl.Kind == token.STRING {
								s, _ := strconv.Unquote(bl.Value)
								if _, dup := out[name.Name]; !dup {
									out[name.Name] = s
								}
							}
						}
					}
					return true
				})
			}
			return true
		})
	}
	// the format of (*APIError).Error and (*jsError).Error: "nats: %s"
	if c := np.Types.Scope().Lookup("JSErrCodeStreamWrongLastSequence"); c != nil {
		if k, ok := c.(*types.Const); ok && k.Val().Kind() == constant.Int {
			out["JSErrCodeStreamWrongLastSequence"] = k.Val().ExactString()
		}
	}
	for _, f := range np.Syntax {
		for _, d := range f.Decls {
			fd, ok := d.(*ast.FuncDecl)
			if !ok || fd.Name.Name != "Error" || fd.Recv == nil || len(fd.Recv.List) != 1 {
				continue
			}
			recv := types.ExprString(fd.Recv.List[0].Type)
			if recv != "*APIError" {
				continue
			}
			ast.Inspect(fd.Body, func(x ast.Node) bool {
				if bl, ok := x.(*ast.BasicLit); ok && bl.Kind == token.STRING {
					s, _ := strconv.Unquote(bl.Value)
					out["APIError.format"] = s
				}
				return true
			})
		}
	}
	// nats-server: description template of the API error with that code
	if sp := m.P.AllPkgs["github.com/nats-io/nats-server/v2/server"]; sp != nil {
		code := out["JSErrCodeStreamWrongLastSequence"]
		for _, f := range sp.Syntax {
			ast.Inspect(f, func(n ast.Node) bool {
				cl, ok := n.(*ast.CompositeLit)
				if !ok {
					return true
				}
				var ec, desc string
				for _, e := range cl.Elts {
					kv, ok := e.(*ast.KeyValueExpr)
					if !ok {
						continue
					}
					id, ok := kv.Key.(*ast.Ident)
					if !ok {
						continue
					}
					if bl, ok := kv.Value.(*ast.BasicLit); ok {
						switch id.Name {
						case "ErrCode":
							ec = bl.Value
						case "Description":
							desc, _ = strconv.Unquote(bl.Value)
						}
					}
				}
				if ec != "" && ec == code && desc != "" {
					out["server.description."+code] = desc
				}
				return true
			})
		}
	} else {
		problems = append(problems, "nats-server sources not loaded: the description template of error 10071 was not read")
	}
	for _, k := range []string{"ErrKeyExists.message", "ErrKeyExists.code", "ErrKeyNotFound", "ErrTimeout", "ErrNoResponders", "ErrConnectionClosed", "JSErrCodeStreamWrongLastSequence", "APIError.format"} {
		if out[k] == "" {
			problems = append(problems, "constant "+k+" not found in the loaded nats.go sources")
		}
	}
	return out, problems
}

// natsConflictRule is C15-R3 (shared with C03-R5).
func natsConflictRule(c *Ctx, rule string) {
	m := c.M
	pats, und, sentinels := m.permanentPatterns()
	if und != "" {
		c.undecided(rule, "permanent pattern table", firstInstr(m.libFunc("IsPermanentError")), "%s", und)
		return
	}
	k, problems := m.natsConstants()
	for _, p := range problems {
		c.undecided(rule, "client constants: "+p, nil, "%s", p)
	}
	if len(problems) > 0 {
		return
	}
	for _, p := range pats {
		if p != strings.ToLower(p) {
			c.viol(rule, "pattern "+strconv.Quote(p)+" is lower-case", firstInstr(m.libFunc("IsPermanentError")), "the message is lower-cased before matching: a pattern with upper-case letters never matches")
		}
	}
	c.check(len(pats) >= 5, rule, "permanent pattern table extracted", firstInstr(m.libFunc("IsPermanentError")), "%d constant patterns: %q; sentinel tests: %v", len(pats), pats, sentinels)

	matches := func(text string) string {
		lt := strings.ToLower(text)
		for _, p := range pats {
			if strings.Contains(lt, p) {
				return p
			}
		}
		return ""
	}
	sentinelKeyExists := false
	for _, s := range sentinels {
		if strings.Contains(s, "nats.go.ErrKeyExists") {
			sentinelKeyExists = true
		}
	}
	format := k["APIError.format"] // "nats: %s"
	render := func(desc string) string { return strings.Replace(format, "%s", desc, 1) }
	// 1. failed revision-checked Update: APIError{ErrorCode: 10071, Description: "wrong last sequence: {seq}"}
	desc := k["server.description."+k["JSErrCodeStreamWrongLastSequence"]]
	if desc == "" {
		desc = "wrong last sequence: {seq}"
	}
	literal := desc
	if i := strings.Index(literal, "{"); i >= 0 {
		literal = literal[:i]
	}
	conflictText := render(literal)
	p1 := matches(conflictText)
	c.check(p1 != "" || (sentinelKeyExists && k["ErrKeyExists.code"] == k["JSErrCodeStreamWrongLastSequence"]), rule, "client's revision conflict is permanent", firstInstr(m.libFunc("IsPermanentError")),
		"text %q (server error %s): matched by pattern %q; errors.Is(err, nats.ErrKeyExists) [same error code %s]: %v. If neither holds a deposed leader retries for three attempts instead of stepping down at once.",
		conflictText+"N", k["JSErrCodeStreamWrongLastSequence"], p1, k["ErrKeyExists.code"], sentinelKeyExists)
	// 2. Create on an existing key: fmt.Errorf("%w: %s", err, "key exists")
	createText := conflictText + "N: " + k["ErrKeyExists.message"]
	p2 := matches(createText)
	c.check(p2 != "" || sentinelKeyExists, rule, "client's create-on-existing-key error is permanent", firstInstr(m.libFunc("IsPermanentError")), "text %q: pattern %q; sentinel test: %v", createText, p2, sentinelKeyExists)
	// 3. missing key
	p3 := matches(k["ErrKeyNotFound"])
	c.check(p3 != "", rule, "client's key-not-found error is permanent", firstInstr(m.libFunc("IsPermanentError")), "text %q: pattern %q", k["ErrKeyNotFound"], p3)
	// 4. transient sentinels match nothing
	for _, name := range []string{"ErrTimeout", "ErrNoResponders", "ErrConnectionClosed"} {
		p := matches(k[name])
		c.check(p == "", rule, "client's "+name+" stays transient", firstInstr(m.libFunc("IsPermanentError")), "text %q matches permanent pattern %q", k[name], p)
	}
}


// adapterErrorIdentityRule (C15-R5): "faithful to the NATS client" presupposes that the errors
// reach the classifiers as the client made them. The classification is by text: an adapter that
// wraps the client's error with words of its own - or with the key, which is the user's group
// name - changes the class of every error whose added text contains a pattern.
func adapterErrorIdentityRule(c *Ctx, rule string) {
	m := c.M
	n := 0
	for _, t := range m.implementers(m.KVIface) {
		for _, meth := range []string{"Create", "Update", "Get", "Delete", "Watch"} {
			f := m.methodOf(t, meth)
			if f == nil || len(f.Params) == 0 {
				continue
			}
			// calls on a field of the receiver
			var inner []*ssa.Call
			eachInstr(f, func(in ssa.Instruction) {
				call, ok := in.(*ssa.Call)
				if !ok {
					return
				}
				var recv ssa.Value
				if call.Call.IsInvoke() {
					recv = call.Call.Value
				} else if sc := call.Call.StaticCallee(); sc != nil && sc.Signature.Recv() != nil && len(call.Call.Args) > 0 {
					recv = call.Call.Args[0]
				}
				if recv != nil && recvIsFieldOf(recv, f.Params[0]) {
					inner = append(inner, call)
				}
			})
			res := f.Signature.Results()
			for i := 0; i < res.Len(); i++ {
				if !isErrorType(res.At(i).Type()) {
					continue
				}
				n++
				okAll := true
				var bad ssa.Instruction
				for _, b := range liveBlocks(f) {
					ret, ok := b.Instrs[len(b.Instrs)-1].(*ssa.Return)
					if !ok || b == f.Recover {
						continue
					}
					v := returnValue(ret, i)
					if k, isC := v.(*ssa.Const); isC && k.Value == nil {
						continue
					}
					same := false
					for _, call := range inner {
						sig := call.Call.Signature().Results()
						for j := 0; j < sig.Len(); j++ {
							if isErrorType(sig.At(j).Type()) && errIdentity(v, call, j, 0) {
								same = true
							}
						}
					}
					if !same {
						okAll, bad = false, ret
					}
				}
				key := fmt.Sprintf("%s.%s returns the wrapped object's error unchanged", t.Obj().Name(), meth)
				if okAll {
					c.ok(rule, key, firstInstr(f), "every returned error is nil or the error result of a call on the wrapped object")
				} else {
					c.viol(rule, key, bad, "the error returned here (%s) is not the error value of a call on the wrapped object: IsPermanentError / IsTransientError classify by the text of err.Error(), which now contains the adapter's additions (an operation name, the key - i.e. the user's group name: a group called \"authentication-service\" or \"invalidation-leader\" turns the client's time-out, no-responders and connection-closed errors permanent: demotion after one failed heartbeat, no retry)", clip(m.Sym.Of(returnValue(bad.(*ssa.Return), i)).String(), 100))
				}
			}
		}
	}
	if n < 4 {
		c.undecided(rule, "instance-floor", nil, "only %d error-returning adapter methods found", n)
	}
}
