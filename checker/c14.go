package main

import (
	"fmt"
	"go/types"
	"sort"
	"strings"

	"golang.org/x/tools/go/ssa"
)

func init() {
	register(&PropertySpec{
		ID:    "C14",
		Level: "other",
		Run:   checkC14,
		Explanation: "C14 as a whole is behaviour of nats-server and nats.go at run time (Create/Update/Get/expiry semantics, revision order, exactly-once watch delivery, agreement with a reference model) and is NOT decided by static analysis of this repository. " +
			"Decided are the clauses that are in this repository's text and are necessary conditions of the stated contract: (R1) 'one stable channel and without accumulating goroutines': every implementation of Watcher.Updates creates its channel and forwarding goroutine under a once-guard, or Updates is never called inside a loop; " +
			"(R2) thin forwarding: every adapter method calls the same-named method of the wrapped NATS (or mock) object with its key, value and revision parameters in position and returns that call's results on every return (a nil error only where the wrapped call's error is nil; no second operation on the wrapped object, also not in helpers) - a dropped revision would turn Update into an unconditional write, a swallowed conflict would break compare-and-set; (R3) the forwarding goroutine forwards every entry with a blocking send; (R4) and every such send can be abandoned when the watcher is stopped (select with a channel closed by Stop), so that a watcher stopped with a backlog leaves no goroutine behind.",
		NotDecided: []string{"Create succeeds exactly when the key has no live value", "Update succeeds exactly for the latest revision; revisions strictly increase", "Get returns the latest live value", "watch delivers every change exactly once, in order, deletions as empty values", "coincidence with the reference store model"},
		Assumptions: []string{"the store semantics of nats.go v1.47.0 / nats-server v2.12.2 are trusted, not analysed"},
		Rules: map[string]string{
			"R1": "for every type implementing Watcher: a MakeChan or go statement in Updates() is inside a function passed to sync.Once.Do (or guarded by a nil check of the field it initialises), OR no call site of Watcher.Updates lies in a CFG cycle; the implementations must agree",
			"R4": "every send in a goroutine started by a Watcher implementation's Updates is a state of a select that also receives from a channel closed (builtin close) in that type's Stop: a watcher stopped with undelivered entries leaves no goroutine behind",
			"R3": "in the forwarding goroutine(s) of every Watcher.Updates implementation every send to the adapter's channel is blocking (a plain send or a select without default); a wrapper object that is sent is allocated inside the receive loop (one per event), not once before it",
			"R2": "each method M of an adapter type wrapping a store object calls exactly one method named M on the wrapped object, passes its own parameters (key, value, rev) in the same positions, and its results flow to the return values; the error result is the wrapped call's error value itself (no text added: C15 classifies by text)",
		},
	})
}

func checkC14(c *Ctx) {
	watcherUpdatesRule(c, "R1")
	adapterForwardingRule(c, "R2")
	watchForwardingRule(c, "R3")
	watchForwarderReleaseRule(c, "R4")
}

// watchForwardingRule: the goroutine that forwards watch entries never drops one: every
// send to the adapter's channel is a blocking send (no select with default around it).
func watchForwardingRule(c *Ctx, rule string) {
	m := c.M
	for _, n := range m.implementers(m.WatcherIface) {
		up := m.methodOf(n, "Updates")
		if up == nil {
			continue
		}
		nSend := 0
		for _, g := range m.reachWithFuncArgs(up) {
			eachInstr(g, func(in ssa.Instruction) {
				switch x := in.(type) {
				case *ssa.Send:
					nSend++
				case *ssa.Select:
					for _, st := range x.States {
						if st.Dir == types.SendOnly {
							nSend++
							c.check(x.Blocking, rule, "watch entries are forwarded with a blocking send in "+shortFn(g), in,
								"send inside a select with default: %v (an entry that arrives while the reader is busy is silently dropped: lost deletions, lost takeovers)", !x.Blocking)
						}
					}
				}
			})
		}
		c.check(nSend > 0, rule, "forwarding goroutine of "+n.Obj().Name()+" sends what it receives", firstInstr(up), "%d send sites", nSend)
		// every delivered entry is its own object: a wrapper allocated once and refilled per event is
		// overwritten with event n+1 while the reader still holds (or has not yet read) event n - the
		// reader misses a change and sees a later one twice
		for _, g := range m.reachWithFuncArgs(up) {
			eachInstr(g, func(in ssa.Instruction) {
				var sent ssa.Value
				switch x := in.(type) {
				case *ssa.Send:
					sent = x.X
				case *ssa.Select:
					for _, st := range x.States {
						if st.Dir == types.SendOnly {
							sent = st.Send
						}
					}
				}
				if sent == nil {
					return
				}
				var stale []string
				var walk func(v ssa.Value, depth int)
				walk = func(v ssa.Value, depth int) {
					if depth > 8 {
						return
					}
					v = m.traceValue(v)
					switch y := v.(type) {
					case *ssa.Phi:
						for i, e := range y.Edges {
							// a value carried over from the previous iteration: an event that produces no
							// entry of its own (the client's nil marker) forwards the previous one again
							if pred := y.Block().Preds[i]; inLoop(y.Block()) && (pred == y.Block() || y.Block().Dominates(pred)) { // a back edge
								if ep, isPhi := e.(*ssa.Phi); !isPhi || ep != y {
									if _, isC := e.(*ssa.Const); !isC {
										stale = append(stale, "entry variable at "+c.posOf(y)+" keeps its value across iterations of the receive loop")
										continue
									}
								}
							}
							walk(e, depth+1)
						}
					case *ssa.MakeInterface:
						walk(y.X, depth+1)
					case *ssa.ChangeInterface:
						walk(y.X, depth+1)
					case *ssa.Alloc:
						// allocated once per event: inside a loop of its function (the receive loop)
						if y.Heap && !inLoop(y.Block()) && len(cfgLoops(y.Parent())) > 0 {
							stale = append(stale, "wrapper allocated at "+c.posOf(y)+" outside the receive loop and refilled per event")
						}
					}
				}
				walk(sent, 0)
				c.check(len(stale) == 0, rule, "each forwarded entry is a fresh object in "+shortFn(g), in, "%v", stale)
			})
		}
	}
}

// watchForwarderReleaseRule (C14-R4): a watcher stopped while entries are undelivered does not
// leave its forwarding goroutine behind: every send of the goroutine is a case of a select that
// also receives from a channel which the type's Stop method closes.
func watchForwarderReleaseRule(c *Ctx, rule string) {
	m := c.M
	for _, n := range m.implementers(m.WatcherIface) {
		up, stop := m.methodOf(n, "Updates"), m.methodOf(n, "Stop")
		if up == nil || stop == nil {
			continue
		}
		// channels (fields of the type) closed by Stop
		closed := map[string]bool{}
		closeAt := map[string][]*ssa.Call{}
		for _, g := range m.reachWithFuncArgs(stop) {
			eachInstr(g, func(in ssa.Instruction) {
				call, ok := in.(*ssa.Call)
				if !ok {
					return
				}
				if b, isB := call.Call.Value.(*ssa.Builtin); isB && b.Name() == "close" && len(call.Call.Args) == 1 {
					ch := m.Sym.Of(m.traceValue(call.Call.Args[0])).String()
					closed[ch] = true
					closeAt[ch] = append(closeAt[ch], call)
				}
			})
		}
		// ... on every path of Stop: a close that depends on anything but the channel itself (the
		// outcome of the unsubscribe, say) leaves the goroutine behind exactly when that fails
		for _, ch := range keysOf(closed) {
			for _, cl := range closeAt[ch] {
				var conds []string
				var at ssa.Instruction = cl
				for depth := 0; at != nil && depth < 4; depth++ {
					for _, l := range m.controlConds(at) {
						if !strings.Contains(l.S.String(), strings.TrimPrefix(ch, "&")) {
							conds = append(conds, l.S.String())
						}
					}
					g := at.Parent()
					if g == stop {
						break
					}
					at = nil
					if par := g.Parent(); par != nil {
						eachInstr(par, func(in ssa.Instruction) {
							if ci, ok := in.(ssa.CallInstruction); ok && at == nil {
								for _, a := range ci.Common().Args {
									if mc, ok := m.traceValue(a).(*ssa.MakeClosure); ok && mc.Fn == g {
										at = in
									} else if fn, ok := m.traceValue(a).(*ssa.Function); ok && fn == g {
										at = in
									}
								}
							}
						})
					} else if sites := m.callers[g]; len(sites) == 1 {
						at = sites[0].Instr
					}
				}
				c.check(len(conds) == 0, rule, fmt.Sprintf("%s.Stop closes %s unconditionally", n.Obj().Name(), strings.TrimPrefix(ch, "&")), cl,
					"conditions (other than tests of the channel itself) that decide whether the close executes: %v (when the close is skipped the forwarding goroutine blocked in its send is never released)", conds)
			}
		}
		nSend := 0
		for _, g := range m.reachWithFuncArgs(up) {
			if g == up || !m.insideGoroutineOf(g, up) {
				continue
			}
			eachInstr(g, func(in ssa.Instruction) {
				switch x := in.(type) {
				case *ssa.Send:
					nSend++
					c.viol(rule, fmt.Sprintf("send #%d of the forwarding goroutine of %s can be abandoned on Stop", nSend, n.Obj().Name()), in,
						"a plain blocking send: if the consumer has stopped reading and calls Stop, the goroutine stays blocked here for ever (it never sees the source channel close) - one leaked goroutine per watcher stopped with a backlog")
				case *ssa.Select:
					hasSend := false
					for _, st := range x.States {
						if st.Dir == types.SendOnly {
							hasSend = true
						}
					}
					if !hasSend {
						return
					}
					nSend++
					released := ""
					for _, st := range x.States {
						if st.Dir == types.RecvOnly {
							if s := m.Sym.Of(m.traceValue(st.Chan)).String(); closed[s] {
								released = s
							}
						}
					}
					c.check(released != "", rule, fmt.Sprintf("send #%d of the forwarding goroutine of %s can be abandoned on Stop", nSend, n.Obj().Name()), in,
						"the select receives from a channel closed by %s.Stop: %q (channels closed by Stop: %v)", n.Obj().Name(), released, keysOf(closed))
				}
			})
		}
		if nSend == 0 {
			c.undecided(rule, "forwarding goroutine of "+n.Obj().Name(), firstInstr(up), "no send found in a goroutine started by Updates")
		}
	}
	c.floor(rule, 2)
}

func keysOf(m map[string]bool) []string {
	var out []string
	for k := range m {
		out = append(out, k)
	}
	sort.Strings(out)
	return out
}

// insideGoroutineOf: g runs on a goroutine started (directly or indirectly) from root, not on
// root's own goroutine.
func (m *Model) insideGoroutineOf(g, root *ssa.Function) bool {
	if m.staticReach(root, false)[g] {
		// reachable by plain calls: also check closures called synchronously (Once.Do bodies)
		return false
	}
	for _, sp := range m.Spawns() {
		for _, t := range sp.Targets {
			if t == g || m.staticReach(t, false)[g] {
				for _, h := range m.reachWithFuncArgs(root) {
					if h == sp.Fn {
						return true
					}
				}
			}
		}
	}
	return false
}

// implementers returns the named struct types of the library whose pointer implements iface.
func (m *Model) implementers(iface *types.Named) []*types.Named {
	var out []*types.Named
	if iface == nil {
		return nil
	}
	it := iface.Underlying().(*types.Interface)
	for _, mem := range m.P.Leader.Members {
		if t, ok := mem.(*ssa.Type); ok {
			if n, ok := t.Type().(*types.Named); ok {
				if _, ok := n.Underlying().(*types.Struct); ok && types.Implements(types.NewPointer(n), it) {
					out = append(out, n)
				}
			}
		}
	}
	sort.Slice(out, func(i, j int) bool { return out[i].Obj().Name() < out[j].Obj().Name() })
	return out
}

func (m *Model) methodOf(n *types.Named, name string) *ssa.Function {
	sel := m.P.Prog.MethodSets.MethodSet(types.NewPointer(n)).Lookup(m.P.Leader.Pkg, name)
	if sel == nil {
		return nil
	}
	return m.P.Prog.MethodValue(sel)
}

func watcherUpdatesRule(c *Ctx, rule string) {
	m := c.M
	// call sites of Watcher.Updates inside loops
	loopSites := 0
	var loopAt ssa.Instruction
	for _, f := range m.Funcs {
		eachInstr(f, func(in ssa.Instruction) {
			if call, ok := in.(*ssa.Call); ok && call.Call.IsInvoke() && call.Call.Method.Name() == "Updates" && namedOf(call.Call.Value.Type()) == m.WatcherIface {
				if inLoop(call.Block()) {
					loopSites++
					loopAt = in
				}
			}
		})
	}
	impls := m.implementers(m.WatcherIface)
	if len(impls) == 0 {
		c.undecided(rule, "Watcher implementations", nil, "no implementation of Watcher found in the library")
		return
	}
	for _, n := range impls {
		up := m.methodOf(n, "Updates")
		if up == nil {
			continue
		}
		key := "stable channel: " + n.Obj().Name() + ".Updates"
		var unguarded []ssa.Instruction
		for _, g := range m.reachWithFuncArgs(up) {
			guarded := g != up && m.insideOnceAny(g)
			eachInstr(g, func(in ssa.Instruction) {
				switch in.(type) {
				case *ssa.MakeChan, *ssa.Go:
					if !guarded {
						unguarded = append(unguarded, in)
					}
				}
			})
		}
		switch {
		case len(unguarded) == 0:
			c.ok(rule, key, firstInstr(up), "channel / goroutine creation only under a once-guard")
		case loopSites == 0:
			c.ok(rule, key, firstInstr(up), "creates a channel/goroutine per call, but no call site of Watcher.Updates lies in a loop")
		default:
			c.viol(rule, key, unguarded[0],
				"%s.Updates creates a channel and/or goroutine on every call (at %s) and Watcher.Updates is called inside a loop (at %s): every iteration abandons a goroutine that keeps competing for, and swallowing, watch events",
				n.Obj().Name(), c.posOf(unguarded[0]), c.posOf(loopAt))
		}
	}
	c.floor(rule, 2)
}

// reachWithFuncArgs: f, its closures, and the library functions reachable from them through
// static calls, go statements and function values handed to sync.Once.Do / time.AfterFunc.
func (m *Model) reachWithFuncArgs(f *ssa.Function) []*ssa.Function {
	seen := map[*ssa.Function]bool{}
	var out []*ssa.Function
	var walk func(g *ssa.Function)
	walk = func(g *ssa.Function) {
		if g == nil || seen[g] || !m.isLib(g) || g.Blocks == nil {
			return
		}
		seen[g] = true
		out = append(out, g)
		for _, h := range sortedFns(m.staticReach(g, true)) {
			walk(h)
		}
		for _, h := range g.AnonFuncs {
			walk(h)
		}
		eachInstr(g, func(in ssa.Instruction) {
			if call, ok := isCallTo(valueOf(in), "(*sync.Once).Do", "time.AfterFunc"); ok {
				for _, t := range m.funcValueTargets(call.Call.Args[1]) {
					walk(t)
				}
			}
		})
	}
	walk(f)
	return out
}

func adapterForwardingRule(c *Ctx, rule string) {
	m := c.M
	type spec struct {
		iface   *types.Named
		methods []string
	}
	specs := []spec{
		{m.KVIface, []string{"Create", "Update", "Get", "Delete", "Watch"}},
		{m.EntryIface, []string{"Key", "Value", "Revision"}},
	}
	for _, sp := range specs {
		for _, n := range m.implementers(sp.iface) {
			for _, meth := range sp.methods {
				f := m.methodOf(n, meth)
				if f == nil {
					continue
				}
				key := fmt.Sprintf("forwarding %s.%s", n.Obj().Name(), meth)
				// the single call of a method with the same name on a field of the receiver
				var fwd []*ssa.Call
				eachInstr(f, func(in ssa.Instruction) {
					call, ok := in.(*ssa.Call)
					if !ok {
						return
					}
					name := ""
					var recv ssa.Value
					if call.Call.IsInvoke() {
						name, recv = call.Call.Method.Name(), call.Call.Value
					} else if sc := call.Call.StaticCallee(); sc != nil && sc.Signature.Recv() != nil && len(call.Call.Args) > 0 {
						name, recv = sc.Name(), call.Call.Args[0]
					}
					if name != meth || recv == nil {
						return
					}
					if recvIsFieldOf(recv, f.Params[0]) {
						fwd = append(fwd, call)
					}
				})
				if len(fwd) != 1 {
					c.viol(rule, key, firstInstr(f), "expected exactly one call of %s on the wrapped object, found %d", meth, len(fwd))
					continue
				}
				call := fwd[0]
				// no other operation of the wrapped object (e.g. an unconditional Put next to Update),
				// and the forwarding call is unconditional
				var others []string
				eachInstr(f, func(in ssa.Instruction) {
					c2, ok := in.(*ssa.Call)
					if !ok || c2 == call {
						return
					}
					name := ""
					var recv ssa.Value
					if c2.Call.IsInvoke() {
						name, recv = c2.Call.Method.Name(), c2.Call.Value
					} else if sc := c2.Call.StaticCallee(); sc != nil && sc.Signature.Recv() != nil && len(c2.Call.Args) > 0 {
						name, recv = sc.Name(), c2.Call.Args[0]
					}
					if recv != nil && recvIsFieldOf(recv, f.Params[0]) {
						others = append(others, name)
					}
				})
				uncond := true
				for _, b := range liveBlocks(f) {
					if ret, ok := b.Instrs[len(b.Instrs)-1].(*ssa.Return); ok && b != f.Recover {
						if !dominatesInstr(call, ret) {
							uncond = false
						}
					}
				}
				if len(others) > 0 || !uncond {
					c.viol(rule, key+" is the only, unconditional store operation", call,
						"other operations of the wrapped object in this method: %v; the forwarding call dominates every return: %v. A second path (e.g. Put when rev == 0) turns the revision-checked operation into an unconditional write for some inputs.", others, uncond)
					continue
				}
				args := call.Call.Args
				if !call.Call.IsInvoke() {
					args = args[1:]
				}
				// positional forwarding of the adapter's own parameters (receiver excluded)
				params := f.Params[1:]
				okArgs := true
				detail := []string{}
				for i, a := range args {
					if i >= len(params) {
						// extra args are allowed only if they are variadic slices built from nothing
						if _, isConst := a.(*ssa.Const); !isConst {
							okArgs = false
							detail = append(detail, fmt.Sprintf("arg %d is not an adapter parameter", i))
						}
						continue
					}
					if a != ssa.Value(params[i]) {
						// allow a nil variadic / dropped options
						if k, isConst := a.(*ssa.Const); isConst && k.Value == nil && f.Signature.Variadic() && i == len(params)-1 {
							continue // the adapter's variadic options are dropped (documented: TTL is a bucket property)
						}
						okArgs = false
						detail = append(detail, fmt.Sprintf("arg %d is %s, expected parameter %s", i, m.Sym.Of(a), params[i].Name()))
					}
				}
				// the mandatory parameters (all non-variadic ones) must all be passed
				mandatory := len(params)
				if f.Signature.Variadic() {
					mandatory--
				}
				if len(args) < mandatory {
					okArgs = false
					detail = append(detail, fmt.Sprintf("only %d of %d mandatory parameters forwarded", len(args), mandatory))
				}
				// results flow to a return
				flows := false
				for _, b := range liveBlocks(f) {
					if ret, ok := b.Instrs[len(b.Instrs)-1].(*ssa.Return); ok {
						for i := range ret.Results {
							if derivesFrom(returnValue(ret, i), call, 0) {
								flows = true
							}
						}
					}
				}
				if !flows {
					okArgs = false
					detail = append(detail, "the call's result does not reach the return values")
				}
				// every return hands back what the wrapped call returned: each result derives from
				// the call or is a zero constant, and a nil error is returned only where the call's
				// error was nil (an adapter that turns a failed revision-checked write into a
				// success breaks compare-and-set for every caller)
				errIdx := call.Call.Signature().Results().Len() - 1
				callErrNil := func(gs []Lit) bool {
					return hasLit(gs, true, func(s *Sym) bool {
						if s.Op != "bin" || s.Name != "==" || len(s.Args) != 2 {
							return false
						}
						for i := 0; i < 2; i++ {
							if s.Args[i].String() == "nil" {
								if ex, ok := s.Args[1-i].V.(*ssa.Extract); ok && ex.Tuple == ssa.Value(call) && ex.Index == errIdx {
									return true
								}
								if s.Args[1-i].V == ssa.Value(call) && errIdx == 0 {
									return true
								}
							}
						}
						return false
					})
				}
				for _, b := range liveBlocks(f) {
					ret, ok := b.Instrs[len(b.Instrs)-1].(*ssa.Return)
					if !ok || b == f.Recover {
						continue
					}
					for i := range ret.Results {
						v := returnValue(ret, i)
						isErr := isErrorType(f.Signature.Results().At(i).Type())
						if isErr && !errIdentity(v, call, errIdx, 0) {
							// the classifiers (C15) read the error's TEXT: an adapter that adds its own
							// words (or caller-supplied ones: the key is the group name) to the client's
							// error changes what the heartbeat and the retry loop make of it
							if _, isC := v.(*ssa.Const); !isC {
								okArgs = false
								detail = append(detail, fmt.Sprintf("the error returned at %s (%s) is not the wrapped call's error itself: text added to it takes part in the substring classification of IsPermanentError / IsTransientError (a group named \"authentication-service\" would make every time-out permanent)", c.posOf(ret), clip(m.Sym.Of(v).String(), 80)))
								continue
							}
						}
						if derivesFrom(v, call, 0) {
							continue
						}
						k, isConst := v.(*ssa.Const)
						zero := isConst && (k.Value == nil || k.Value.ExactString() == "0" || k.Value.ExactString() == `""` || k.Value.ExactString() == "false")
						switch {
						case !zero:
							okArgs = false
							detail = append(detail, fmt.Sprintf("result #%d returned at %s (%s) does not come from the wrapped call", i, c.posOf(ret), clip(m.Sym.Of(v).String(), 80)))
						case isErr && isErrorType(call.Call.Signature().Results().At(errIdx).Type()) && !callErrNil(m.Guards(b)):
							okArgs = false
							detail = append(detail, fmt.Sprintf("a nil error is returned at %s although the wrapped call's error is not known to be nil there", c.posOf(ret)))
						}
					}
				}
				// no other operation of the wrapped object in the helpers this method calls
				for _, h := range sortedFns(m.staticReach(f, true)) {
					if h == f || h.Signature.Recv() == nil || len(h.Params) == 0 {
						continue
					}
					eachInstr(h, func(in ssa.Instruction) {
						c2, ok := in.(*ssa.Call)
						if !ok {
							return
						}
						var recv ssa.Value
						name := ""
						if c2.Call.IsInvoke() {
							name, recv = c2.Call.Method.Name(), c2.Call.Value
						} else if sc := c2.Call.StaticCallee(); sc != nil && sc.Signature.Recv() != nil && len(c2.Call.Args) > 0 {
							name, recv = sc.Name(), c2.Call.Args[0]
						}
						if recv != nil && recvIsFieldOf(recv, h.Params[0]) && types.Identical(h.Params[0].Type(), f.Params[0].Type()) {
							okArgs = false
							detail = append(detail, fmt.Sprintf("helper %s performs another operation (%s) on the wrapped object", shortFn(h), name))
						}
					})
				}
				c.check(okArgs, rule, key, call, "forwards (%s) to the wrapped %s; %s", strings.Join(paramNames(params), ", "), meth, strings.Join(detail, "; "))
			}
		}
	}
	// extension interfaces of the store handle (x, ok := kv.(I)): every implementation in the
	// library forwards to the wrapped object's base operation with the key in position and the
	// revision turned into the client's compare option
	for _, f := range m.Funcs {
		eachInstr(f, func(in ssa.Instruction) {
			ta, ok := in.(*ssa.TypeAssert)
			if !ok || namedOf(ta.X.Type()) != m.KVIface {
				return
			}
			ext := namedOf(ta.AssertedType)
			if ext == nil {
				return
			}
			iface, ok := ext.Underlying().(*types.Interface)
			if !ok {
				return
			}
			for _, n := range m.implementers(ext) {
				for i := 0; i < iface.NumMethods(); i++ {
					meth := iface.Method(i).Name()
					g := m.methodOf(n, meth)
					if g == nil {
						continue
					}
					key := fmt.Sprintf("forwarding %s.%s (extension %s)", n.Obj().Name(), meth, ext.Obj().Name())
					var fwd *ssa.Call
					nOps := 0
					eachInstr(g, func(x ssa.Instruction) {
						c2, ok := x.(*ssa.Call)
						if !ok {
							return
						}
						var recv ssa.Value
						name := ""
						if c2.Call.IsInvoke() {
							name, recv = c2.Call.Method.Name(), c2.Call.Value
						} else if sc := c2.Call.StaticCallee(); sc != nil && sc.Signature.Recv() != nil && len(c2.Call.Args) > 0 {
							name, recv = sc.Name(), c2.Call.Args[0]
						}
						if recv != nil && recvIsFieldOf(recv, g.Params[0]) {
							nOps++
							if strings.HasPrefix(meth, name) {
								fwd = c2
							}
						}
					})
					if fwd == nil || nOps != 1 {
						c.viol(rule, key, firstInstr(g), "expected exactly one operation on the wrapped object, the base operation of %s; found %d operations", meth, nOps)
						continue
					}
					args := fwd.Call.Args
					if !fwd.Call.IsInvoke() {
						args = args[1:]
					}
					params := g.Params[1:]
					okKey := len(args) > 0 && len(params) > 0 && args[0] == ssa.Value(params[0])
					// the revision parameter reaches the call through the client's LastRevision option
					okRev := false
					var revParam *ssa.Parameter
					for _, p := range params {
						if b, isB := p.Type().Underlying().(*types.Basic); isB && b.Kind() == types.Uint64 {
							revParam = p
						}
					}
					var seen func(v ssa.Value, depth int) bool
					seen = func(v ssa.Value, depth int) bool {
						if depth > 8 || v == nil {
							return false
						}
						switch x := v.(type) {
						case *ssa.Call:
							if sc := x.Call.StaticCallee(); sc != nil && sc.Name() == "LastRevision" && len(x.Call.Args) == 1 && revParam != nil && x.Call.Args[0] == ssa.Value(revParam) {
								return true
							}
						case *ssa.Slice:
							return seen(x.X, depth+1)
						case *ssa.Alloc:
							if refs := x.Referrers(); refs != nil {
								for _, r := range *refs {
									if ia, ok := r.(*ssa.IndexAddr); ok {
										if rr := ia.Referrers(); rr != nil {
											for _, u := range *rr {
												if st, ok := u.(*ssa.Store); ok && seen(st.Val, depth+1) {
													return true
												}
											}
										}
									}
								}
							}
						case *ssa.MakeInterface:
							return seen(x.X, depth+1)
						case *ssa.ChangeInterface:
							return seen(x.X, depth+1)
						}
						return false
					}
					for _, a := range args[1:] {
						if seen(a, 0) {
							okRev = true
						}
					}
					// results: returns exactly the call's result
					okRet := true
					for _, b := range liveBlocks(g) {
						if ret, ok := b.Instrs[len(b.Instrs)-1].(*ssa.Return); ok && b != g.Recover {
							for i := range ret.Results {
								if !derivesFrom(returnValue(ret, i), fwd, 0) {
									okRet = false
								}
							}
						}
					}
					c.check(okKey && okRev && okRet, rule, key, fwd, "key forwarded in position: %v; revision parameter passed as LastRevision(rev): %v; returns the call's result: %v (without the option the conditional delete is an unconditional one)", okKey, okRev, okRet)
				}
			}
		})
	}
	c.floor(rule, 10)
}

func paramNames(ps []*ssa.Parameter) []string {
	var out []string
	for _, p := range ps {
		out = append(out, p.Name())
	}
	return out
}

// errIdentity: v is the error result of call itself (result #idx), possibly through phis whose
// other alternatives are nil.
func errIdentity(v ssa.Value, call *ssa.Call, idx int, depth int) bool {
	if depth > 6 || v == nil {
		return false
	}
	switch x := v.(type) {
	case *ssa.Call:
		return x == call && call.Call.Signature().Results().Len() == 1
	case *ssa.Extract:
		return x.Tuple == ssa.Value(call) && x.Index == idx
	case *ssa.Const:
		return x.Value == nil
	case *ssa.Phi:
		for _, e := range x.Edges {
			if !errIdentity(e, call, idx, depth+1) {
				return false
			}
		}
		return true
	}
	return false
}

// derivesFrom: v is computed from src (extract, wrap in a struct literal, phi, conversion).
func derivesFrom(v ssa.Value, src ssa.Value, depth int) bool {
	if v == src {
		return true
	}
	if depth > 8 || v == nil {
		return false
	}
	switch x := v.(type) {
	case *ssa.Extract:
		return derivesFrom(x.Tuple, src, depth+1)
	case *ssa.Phi:
		for _, e := range x.Edges {
			if derivesFrom(e, src, depth+1) {
				return true
			}
		}
	case *ssa.MakeInterface:
		return derivesFrom(x.X, src, depth+1)
	case *ssa.ChangeInterface:
		return derivesFrom(x.X, src, depth+1)
	case *ssa.Convert:
		return derivesFrom(x.X, src, depth+1)
	case *ssa.Alloc:
		// &T{field: src...}
		if refs := x.Referrers(); refs != nil {
			for _, r := range *refs {
				if fa, ok := r.(*ssa.FieldAddr); ok {
					if rr := fa.Referrers(); rr != nil {
						for _, u := range *rr {
							if st, ok := u.(*ssa.Store); ok && derivesFrom(st.Val, src, depth+1) {
								return true
							}
						}
					}
				}
			}
		}
	case *ssa.Call:
		// constructor-style wrapper: NewX(src)
		for _, a := range x.Call.Args {
			if derivesFrom(a, src, depth+1) {
				return true
			}
		}
	}
	return false
}

// recvIsFieldOf: v is a (load of a) field of the method receiver self.
func recvIsFieldOf(v ssa.Value, self *ssa.Parameter) bool {
	if u, ok := v.(*ssa.UnOp); ok {
		v = u.X
	}
	if fa, ok := v.(*ssa.FieldAddr); ok {
		return fa.X == ssa.Value(self)
	}
	if fv, ok := v.(*ssa.Field); ok {
		return fv.X == ssa.Value(self)
	}
	return false
}
