package main

import (
	"fmt"
	"go/types"
	"strings"

	"golang.org/x/tools/go/ssa"
)

func init() {
	register(&PropertySpec{
		ID:    "C01",
		Level: "other",
		Run:   checkC01,
		Explanation: "Decides who can write the record, with which key, revision, identity and token (the store's conditional-write semantics are trusted, C14): (R1) every store mutation site falls in exactly one class - create, refresh (Update inside the heartbeat ticker loop), takeover (any other Update), shutdown-delete (Delete in a stop unit); " +
			"(R2) every store operation names the one key field, which is assigned once, in the constructor, from the configuration's Group; (R3) the refresh presents a revision and token that were read together with a standing claim under the election mutex, publishes the configured instance id, and stores the returned revision back; " +
			"(R4) every store to the revision field is an own-write result (or the constructor's zero), or an observed revision stored under the write lock while the claim is false in that critical section - so an observed revision can never be the one a leader presents; " +
			"(R5) created/takeover payloads carry the configured instance id; takeover obligations are C10-R1; (R6) Delete is issued only by a stop unit, after its claim clear, only if the clearing critical section saw the claim true and only after a positive ownership verdict (fresh Get, id and term token equal) issued after the wait for background work; (R7) the deletion itself presents the revision that ownership read saw (compare-and-delete through the store's optional RevisionDeleter extension, which the JetStream adapter implements), so that a takeover landing between the read and the deletion is refused by the store; the unconditional Delete remains only as the fallback for stores without one.",
		NotDecided:  []string{"that the interleaving of legitimately issued writes is safe (the store's revision check plus timing)", "the window between the ownership read and the unconditional Delete (the KeyValue interface has no conditional delete)", "injectivity of the key in Group beyond 'derived only from the configuration'"},
		Assumptions: []string{"KeyValue.Update succeeds only for the latest revision; Create only when absent (C14, trusted)"},
		Rules: map[string]string{
			"R1": "classification of every KeyValue call other than Get/Watch; unclassifiable sites are violations",
			"R2": "argument 0 of every store operation is a load of the key field; the key field has exactly one store, in the constructor, derived from cfg.Group and constants only",
			"R3": "refresh Update: revision argument = load of the revision field under the election mutex in a section that also loads the claim, and the goroutine issuing the Update is spawned under that claim load == true; payload ID = cfg.InstanceID, Token = the token field read in the same section; a store to the revision field exists on the success edge",
			"R4": "origins of every value stored to the revision field: const (constructor) | ownwrite | parameters thereof; 'observed' only under the write lock with claim==false in that section",
			"R5": "payload.ID of every Create/takeover write has origin cfg.InstanceID",
			"R7": "a Delete-class operation in a stop unit that goes through an extension interface asserted from the store handle presents a revision whose origin is an entry read from the store; a plain KeyValue.Delete in a stop unit is guarded by the negative result of that type assertion; at least one conditional deletion exists",
			"R6": "Delete: in a stop unit; guarded by claim-seen-true of the clearing section; guarded by a positive verdict of an ownership function whose true-return is dominated by Get err==nil, decode ok, id==cfg.InstanceID, token==argument; the argument is the token field read in the clearing section; the call follows the wait",
		},
	})
}

// refreshLoopFn: the function containing a time.NewTicker whose closures (or itself) issue Update.
func (m *Model) refreshLoopFn() *ssa.Function {
	if m.refreshFn != nil {
		return m.refreshFn
	}
	for _, f := range m.Funcs {
		if f.Parent() != nil {
			continue
		}
		hasTicker, hasUpdate := false, false
		eachInstr(f, func(in ssa.Instruction) {
			if _, ok := isCallTo(valueOf(in), "time.NewTicker"); ok {
				hasTicker = true
			}
		})
		if !hasTicker {
			continue
		}
		for _, g := range m.unitFns(f) {
			eachInstr(g, func(in ssa.Instruction) {
				if _, ok := m.isKVCall(valueOf(in), "Update"); ok {
					hasUpdate = true
				}
			})
		}
		if hasUpdate {
			m.refreshFn = f
			return f
		}
	}
	return nil
}

// unitFns: f, its closures, and the library functions that have exactly one call site (a call,
// go or defer) which lies in those - the code that belongs to f alone, however it is split up.
func (m *Model) unitFns(f *ssa.Function) []*ssa.Function {
	if r, ok := m.unitMemo[f]; ok {
		return r
	}
	out := []*ssa.Function{}
	seen := map[*ssa.Function]bool{}
	var add func(g *ssa.Function)
	add = func(g *ssa.Function) {
		if g == nil || seen[g] || g.Blocks == nil || !m.isLib(g) {
			return
		}
		seen[g] = true
		out = append(out, g)
		for _, h := range g.AnonFuncs {
			add(h)
		}
		eachInstr(g, func(in ssa.Instruction) {
			ci, ok := in.(ssa.CallInstruction)
			if !ok {
				return
			}
			h := ci.Common().StaticCallee()
			if h == nil || h.Parent() != nil || !m.isLib(h) {
				return
			}
			if obj := h.Object(); obj != nil && obj.Exported() {
				return // callable from outside the library: not part of f alone
			}
			if sites := m.callers[h]; len(sites) == 1 {
				add(h)
			}
		})
	}
	add(f)
	if m.unitMemo == nil {
		m.unitMemo = map[*ssa.Function][]*ssa.Function{}
	}
	m.unitMemo[f] = out
	return out
}

func (m *Model) classifyOp(op StoreOp) string {
	switch op.Method {
	case "Get", "Watch":
		return "read"
	case "Create":
		return "create"
	case "Update":
		if rf := m.refreshLoopFn(); rf != nil && containsFn(m.unitFns(rf), op.Fn) {
			return "refresh"
		}
		return "takeover"
	case "Delete":
		cls := ""
		for _, fr := range m.opFrames(op.Call) {
			c := "unclassified-delete"
			if fr.Stop {
				c = "shutdown-delete"
			} else if ok, _ := m.discardsOwnWrite(op, fr); ok {
				c = "discard-own-write"
			}
			if cls == "" || cls == c {
				cls = c
			} else if c == "unclassified-delete" || cls == "unclassified-delete" {
				cls = "unclassified-delete"
			} else {
				cls = "shutdown-delete+discard-own-write"
			}
		}
		if cls == "" {
			cls = "unclassified-delete"
		}
		return cls
	}
	return "unclassified"
}

// discardsOwnWrite: in this calling context the Delete removes a record that this very
// activation has just written and that it cannot lead: (a) the claim-set unit refused the claim
// for that write (its call returned false), (b) the revision presented is the one that write
// returned (so only that record can be removed, where the store offers a conditional delete),
// (c) a graceful shutdown that asked for the key to be deleted is under way: a boolean field of
// the election object that is stored non-false only by stop units reads true.
func (m *Model) discardsOwnWrite(op StoreOp, fr OpFrame) (bool, string) {
	gs := m.frameGuards(fr, op.Call)
	refused := false
	for _, l := range gs {
		if !l.Truth {
			if call, ok := l.S.V.(*ssa.Call); ok {
				if g := call.Call.StaticCallee(); g != nil && containsFn(m.ClaimSet, g) {
					refused = true
				}
			}
		}
	}
	if !refused {
		return false, "the claim-set unit's refusal (its call returned false) is not among the guards"
	}
	flag := ""
	for _, l := range gs {
		if !l.Truth {
			continue
		}
		call, ok := l.S.V.(*ssa.Call)
		if !ok {
			continue
		}
		fld, meth, ok := m.atomicCall(call)
		if !ok || meth != "Load" {
			continue
		}
		if m.storedTrueOnlyByStopUnits(fld) {
			flag = fld
		}
	}
	if flag == "" {
		return false, "no guard reads a flag that only a stop unit sets (the deletion is not tied to a graceful shutdown that asked for it)"
	}
	okRev := false
	for _, a := range op.Call.Call.Args {
		if b, isB := a.Type().Underlying().(*types.Basic); !isB || b.Kind() != types.Uint64 {
			continue
		}
		o := m.OriginsInFrame(a, fr)
		if len(o) > 0 && o.all(func(k string) bool { return strings.HasPrefix(k, "ownwrite:") }) {
			okRev = true
		}
	}
	if op.Extension == "" {
		// the unconditional fallback: the same frame must present the own-write revision to
		// the conditional form (checked on that operation); here only (a) and (c) can be checked
		okRev = true
	}
	if !okRev {
		return false, "the revision presented is not the result of this activation's own Create/Update"
	}
	return true, "claim refused for this write; shutdown with key deletion under way (" + m.path(flag) + "); revision of the own write"
}

// storedTrueOnlyByStopUnits: every store to the atomic boolean field is in a stop unit, or stores
// the constant false.
func (m *Model) storedTrueOnlyByStopUnits(fld string) bool {
	n := 0
	ok := true
	for _, f := range m.Funcs {
		eachInstr(f, func(in ssa.Instruction) {
			call, isCall := in.(*ssa.Call)
			if !isCall {
				return
			}
			g, v, isStore := m.atomicStore(call)
			if !isStore || g != fld {
				return
			}
			n++
			if k, isC := constBool(v); isC && !k {
				return
			}
			if !containsFn(m.StopUnits, f) {
				ok = false
			}
		})
	}
	return ok && n > 0
}

func checkC01(c *Ctx) {
	m := c.M
	la := m.Locks()

	// ---- R1 / R2 -----------------------------------------------------------------
	nMut := 0
	for _, op := range m.StoreOps() {
		cls := m.classifyOp(op)
		key := fmt.Sprintf("%s #%d in %s", op.Method, ordinalOf(op.Fn, op.Call, func(x ssa.Instruction) bool {
			o, ok := m.isKVCall(valueOf(x), op.Method)
			return ok && o != nil
		}), shortFn(op.Fn))
		if cls != "read" {
			nMut++
			c.check(!strings.HasPrefix(cls, "unclassified"), "R1", "mutation "+key, op.Call, "class: %s", cls)
		}
		a0 := m.Sym.Of(op.Call.Call.Args[0])
		c.check(a0.Op == "path" && a0.Name == m.path(m.Key), "R2", "key of "+key, op.Call, "key argument is %s; required: %s", a0, m.path(m.Key))
	}
	if nMut < 4 {
		c.undecided("R1", "instance-floor", nil, "only %d store mutation sites found; 4 on the reference tree", nMut)
	}
	nKeyStores := 0
	for _, f := range m.Funcs {
		eachInstr(f, func(in ssa.Instruction) {
			st, ok := in.(*ssa.Store)
			if !ok {
				return
			}
			if fld, ok := m.implField(st.Addr); !ok || fld != m.Key {
				return
			}
			nKeyStores++
			o := m.Origins(st.Val)
			okOrigin := o.all(func(k string) bool { return strings.HasPrefix(k, "cfg:") || strings.HasPrefix(k, "const:") }) && o["cfg:Group"]
			c.check(m.isCtorCode(f) && okOrigin, "R2", "key assigned in "+shortFn(f), in, "origins %s; required: in the constructor, from cfg.Group and constants only", o)
		})
	}
	c.check(nKeyStores == 1, "R2", "key assigned exactly once", nil, "%d stores to the key field", nKeyStores)

	// ---- R3 refresh obligations -------------------------------------------------------
	rf := m.refreshLoopFn()
	if rf == nil {
		c.undecided("R3", "refresh loop", nil, "no function with a time.NewTicker loop issuing Update found")
	} else {
		for _, op := range m.StoreOps() {
			if m.classifyOp(op) != "refresh" {
				continue
			}
			args := op.Call.Call.Args
			// revision argument
			ro := m.Origins(args[2])
			c.check(ro.all(func(k string) bool { return k == "field:"+m.Revision }), "R3", "refresh presents the revision field", op.Call, "origins of the revision argument: %s", ro)
			// the loads that feed the revision argument, the claim test guarding the attempt and the
			// token: all made under the election mutex, in one function (one critical section)
			locked := func(ld *ssa.Call) bool {
				h := la.MustBefore(ld)
				return h[m.implMuR()] || h[m.implMuW()]
			}
			revLoads := m.OriginLoads(args[2])
			revOK := len(revLoads) > 0
			var section *ssa.Function
			for _, ld := range revLoads {
				if !locked(ld) {
					revOK = false
				}
				section = ld.Parent()
			}
			// the guard at the point where the attempt is issued
			var at ssa.Instruction = op.Call
			if op.Fn != rf {
				for _, sp := range m.Spawns() {
					if topFunc(sp.Fn) != rf && !containsFn(m.unitFns(rf), topFunc(sp.Fn)) {
						continue
					}
					for _, t := range sp.Targets {
						if t == op.Fn || m.staticReach(t, false)[op.Fn] {
							at = sp.At
						}
					}
				}
			}
			claimOK := false
			for _, l := range m.unitGuards(rf, at) {
				if !l.Truth || l.S.V == nil {
					continue
				}
				cands := m.OriginLoads(l.S.V)
				if call, ok := l.S.V.(*ssa.Call); ok {
					cands = append(cands, call)
				}
				for _, ld := range cands {
					if m.isClaimLoadSym(m.Sym.Of(ld)) && locked(ld) && ld.Parent() == section {
						claimOK = true
					}
				}
			}
			c.check(revOK && claimOK, "R3", "revision and claim read in one critical section", op.Call,
				"the revision presented comes from loads under the election mutex: %v; the attempt is guarded by a claim read true under the mutex in the same function (%s): %v (a revision read apart from the claim may be an observed one: C01-R4)", revOK, shortFn(section), claimOK)
			tokLoads := m.OriginLoadsField(args[1], "Token")
			tokenOK := len(tokLoads) > 0
			for _, ld := range tokLoads {
				if !locked(ld) || ld.Parent() != section {
					tokenOK = false
				}
			}
			// payload
			ido := m.FieldOrigins(args[1], "ID")
			c.check(ido.all(func(k string) bool { return k == "cfg:InstanceID" }), "R3", "refresh publishes the configured id", op.Call, "origins of payload.ID: %s", ido)
			to := m.FieldOrigins(args[1], "Token")
			c.check(to["field:"+m.Token] && to.all(func(k string) bool { return k == "field:"+m.Token || k == `const:""` }), "R3", "refresh republishes the term token", op.Call, "origins of payload.Token: %s", to)
			c.check(tokenOK, "R3", "token read in the same critical section", op.Call, "every load feeding payload.Token is under the election mutex in %s: %v", shortFn(section), tokenOK)
			// stored back on success
			stored := false
			var seenOrigins []string
			m.eachUnitInstr(rf, func(in ssa.Instruction) {
				if call, ok := in.(*ssa.Call); ok {
					if fld, v, ok := m.atomicStore(call); ok && fld == m.Revision {
						o := m.Origins(v)
						seenOrigins = append(seenOrigins, o.String())
						if o.all(func(k string) bool {
							return strings.HasPrefix(k, "ownwrite:Update") || k == "const:zero" || k == "const:0" || k == "const:nil"
						}) && len(o) > 0 && func() bool {
							for k := range o {
								if strings.HasPrefix(k, "ownwrite:Update") {
									return true
								}
							}
							return false
						}() {
							stored = true
						}
					}
				}
			})
			c.check(stored, "R3", "refresh stores the returned revision", op.Call, "a store of the Update's own result to the revision field exists in the loop: %v (origins of the values stored to it there: %v)", stored, seenOrigins)
		}
	}
	c.floor("R3", 6)

	// ---- R4 ---------------------------------------------------------------------------
	ownRevisionRule(c, "R4")

	// ---- R5 ---------------------------------------------------------------------------
	for _, op := range m.StoreOps() {
		cls := m.classifyOp(op)
		if cls != "create" && cls != "takeover" {
			continue
		}
		ido := m.FieldOrigins(op.Call.Call.Args[1], "ID")
		c.check(ido.all(func(k string) bool { return k == "cfg:InstanceID" }), "R5", cls+" payload id in "+shortFn(op.Fn), op.Call, "origins of payload.ID: %s", ido)
	}
	c.floor("R5", 2)

	// ---- R6 ---------------------------------------------------------------------------
	nDel := 0
	for _, op := range m.StoreOps() {
		if op.Method != "Delete" {
			continue
		}
		nDel++
		for _, fr := range m.opFrames(op.Call) {
			fn := shortFn(op.Fn)
			if len(fr.Chain) > 0 {
				fn += " via " + shortFn(fr.Root)
			}
			stopFn, stopAt, inStop := fr.Root, fr.At, fr.Stop
			if !inStop {
				if ok, why := m.discardsOwnWrite(op, fr); ok {
					c.ok("R6", "Delete in "+fn, op.Call, "not a shutdown deletion but the removal of a record this activation has just written and cannot lead: %s", why)
				} else {
					c.viol("R6", "Delete in "+fn, op.Call, "Delete is issued outside a stop unit and is not the removal of this activation's own unclaimed write (%s): only the owner's graceful shutdown may delete the record", why)
				}
				continue
			}
			gs := m.frameGuards(fr, op.Call)
			wasLeader := false
			for _, l := range gs {
				if m.prevClaimLit(l, true) {
					wasLeader = true
				}
			}
			c.check(wasLeader, "R6", "Delete only if the stop cleared a standing claim in "+fn, op.Call, "guards %s", fmtLits(gs))
			clear := m.clearPoint(stopFn, stopAt)
			c.check(clear != nil, "R6", "claim cleared before Delete in "+fn, op.Call, "a claim Store(false) (or a call of a function that always clears the claim) dominates the Delete: %v", clear != nil)
			// ownership verdict
			var verdict *ssa.Call
			for _, l := range gs {
				if call := m.verdictCall(l); call != nil {
					verdict = call
				}
			}
			if verdict == nil {
				c.viol("R6", "Delete only after a positive ownership verdict in "+fn, op.Call,
					"the Delete is not guarded by a fresh read showing this instance's id and term token (guards: %s): a leader preempted since its last heartbeat deletes its successor's record", fmtLits(gs))
			} else {
				c.ok("R6", "Delete only after a positive ownership verdict in "+fn, op.Call, "guarded by %s == true", shortFn(verdict.Call.StaticCallee()))
				// its token argument is the token field read in the clearing section
				okTok := false
				for _, a := range verdict.Call.Args[1:] {
					o := m.Origins(a)
					if !o["field:"+m.Token] {
						continue
					}
					// every load of the token field feeding the argument is made under the write
					// lock, in the stop unit, before the claim is cleared
					loads := m.OriginLoads(a)
					okTok = len(loads) > 0 && clear != nil
					// the store that clears the claim, in the stop function or a function its
					// critical section was split into
					var clearStore ssa.Instruction
					m.eachUnitInstr(stopFn, func(x ssa.Instruction) {
						if val, isConst, ok := m.claimStore(x); ok && isConst && !val {
							clearStore = x
						}
					})
					for _, ld := range loads {
						inUnit := ld.Parent() == stopFn || containsFn(m.bodyFns(stopFn), ld.Parent())
						before := false
						if inUnit && ld.Parent() == stopFn && clear != nil && clear.Parent() == stopFn {
							before = dominatesInstr(ld, clear)
						}
						if inUnit && !before && clearStore != nil {
							before = m.dominatesLifted(stopFn, ld, clearStore)
						}
						if !la.MustBefore(ld)[m.implMuW()] || !inUnit || !before {
							okTok = false
						}
					}
				}
				c.check(okTok, "R6", "ownership verdict compares the term token read in the clearing section in "+fn, verdict, "token argument read under the write lock before the claim clear: %v", okTok)
				// after the wait: a blocking select dominates the verdict
				var wait ssa.Instruction
				vfn, vat := stopFn, stopAt
				if verdict.Parent() == stopFn {
					vat = verdict
				}
				m.eachUnitInstr(vfn, func(in ssa.Instruction) {
					s, ok := in.(*ssa.Select)
					if !ok || !s.Blocking {
						return
					}
					// in the stop function itself, or in a wait helper it calls from one place
					if lifted := m.liftTo(vfn, in); lifted != nil && lifted != vat && dominatesInstr(lifted, vat) && (in.Parent() == vfn || m.dominatesReturns(in)) {
						wait = in
					}
				})
				c.check(wait != nil, "R6", "ownership verdict issued after the wait in "+fn, verdict, "a blocking select (wait for background work) dominates the ownership read: %v", wait != nil)
			}
		}
	}
	if nDel < 1 {
		c.undecided("R6", "instance-floor", nil, "no Delete store operation found; 1 on the reference tree")
	}

	// ---- R7: the shutdown deletion is a compare-and-delete where the store offers one -----------
	// Between the ownership read and the deletion a takeover can land. An unconditional Delete then
	// removes the successor's record. The deletion must present the revision the ownership read saw;
	// the unconditional form is only the fallback for stores without a conditional delete.
	nCond := 0
	for _, op := range m.StoreOps() {
		if op.Method != "Delete" {
			continue
		}
		inStop := false
		var stopFr OpFrame
		for _, fr := range m.opFrames(op.Call) {
			if fr.Stop {
				inStop, stopFr = true, fr
			}
		}
		if !inStop {
			continue
		}
		fn := shortFn(op.Fn)
		gs := m.frameGuards(stopFr, op.Call)
		if op.Extension != "" {
			nCond++
			// some argument is the revision read by the ownership check
			okRev := false
			var os []string
			for _, a := range op.Call.Call.Args {
				if b, isB := a.Type().Underlying().(*types.Basic); !isB || b.Kind() != types.Uint64 {
					continue
				}
				o := m.OriginsInFrame(a, stopFr)
				os = append(os, o.String())
				if o["observed"] && o.all(func(k string) bool { return k == "observed" || strings.HasPrefix(k, "const:") }) {
					okRev = true
				}
			}
			c.check(okRev, "R7", "conditional shutdown deletion presents the revision of the ownership read in "+fn, op.Call, "%s: origins of its revision argument %v (required: the revision of an entry read from the store)", op.Extension, os)
			continue
		}
		fallback := hasLit(gs, false, func(s *Sym) bool {
			str := s.String()
			return strings.HasPrefix(str, "assertok ") && strings.HasSuffix(str, "("+m.path(m.KV)+")#1")
		})
		c.check(fallback, "R7", "unconditional Delete only where the store has no conditional delete in "+fn, op.Call,
			"the plain Delete is reached only on the negative edge of a type assertion of the store handle to an extension interface: %v", fallback)
	}
	if nCond == 0 {
		c.viol("R7", "shutdown deletion is revision-conditional", nil,
			"no deletion in a stop unit goes through a conditional (revision-checked) delete of the store: a priority takeover that lands between the ownership read and the Delete makes the stopping instance delete its successor's record (history: old create, new update, old delete record-of:new)")
	}
}

// isOwnershipCheck: a bool function that reads the record and returns true only if the Get
// succeeded, the value decoded, id == cfg.InstanceID and token == its parameter.
// ownershipVerdictIdx: the index of the boolean result of f (its only boolean result).
func ownershipVerdictIdx(f *ssa.Function) int {
	idx := -1
	res := f.Signature.Results()
	for i := 0; i < res.Len(); i++ {
		if isBoolType(res.At(i).Type()) {
			if idx >= 0 {
				return -1
			}
			idx = i
		}
	}
	return idx
}

// verdictCall: the literal is the (positive) boolean result of a call of an ownership function.
func (m *Model) verdictCall(l Lit) *ssa.Call {
	if !l.Truth || l.S.V == nil {
		return nil
	}
	var call *ssa.Call
	idx := 0
	switch x := l.S.V.(type) {
	case *ssa.Call:
		call = x
	case *ssa.Extract:
		if c, ok := x.Tuple.(*ssa.Call); ok {
			call, idx = c, x.Index
		}
	}
	if call == nil {
		return nil
	}
	g := call.Call.StaticCallee()
	if g == nil || !m.isLib(g) || !m.isOwnershipCheck(g) || ownershipVerdictIdx(g) != idx {
		return nil
	}
	return call
}

func (m *Model) isOwnershipCheck(f *ssa.Function) bool {
	if v, ok := m.ownerMemo[f]; ok {
		return v
	}
	if m.ownerMemo == nil {
		m.ownerMemo = map[*ssa.Function]bool{}
	}
	r := m.isOwnershipCheck1(f)
	m.ownerMemo[f] = r
	return r
}

func (m *Model) isOwnershipCheck1(f *ssa.Function) bool {
	vidx := ownershipVerdictIdx(f)
	if vidx < 0 || f.Blocks == nil {
		return false
	}
	hasGet := false
	eachInstr(f, func(in ssa.Instruction) {
		if _, ok := m.isKVCall(valueOf(in), "Get"); ok {
			hasGet = true
		}
	})
	if !hasGet {
		return false
	}
	okAll := true
	n := 0
	for _, b := range liveBlocks(f) {
		ret, ok := b.Instrs[len(b.Instrs)-1].(*ssa.Return)
		if !ok || b == f.Recover {
			continue
		}
		if vidx >= len(ret.Results) {
			continue
		}
		v := returnValue(ret, vidx)
		if k, isC := constBool(v); isC && !k {
			continue
		}
		n++
		// lits on the way + the returned expression itself (x && y is returned as a phi/and chain)
		lits := append([]Lit{}, m.Guards(b)...)
		m.collectConj(v, &lits)
		getOK := hasLit(lits, true, func(s *Sym) bool {
			return s.Op == "bin" && s.Name == "==" && symMentions(s, "KeyValue.Get(") && strings.Contains(s.String(), "#1") && symMentions(s, "nil")
		})
		decOK := hasLit(lits, true, func(s *Sym) bool {
			return s.Op == "bin" && s.Name == "==" && symMentions(s, "encoding/json.Unmarshal(") && symMentions(s, "nil")
		})
		idOK := hasLit(lits, true, func(s *Sym) bool {
			return s.Op == "bin" && s.Name == "==" && symMentions(s, m.cfgPath("InstanceID")) && symMentions(s, ".ID")
		})
		tokOK := hasLit(lits, true, func(s *Sym) bool {
			return s.Op == "bin" && s.Name == "==" && symMentions(s, "param:") && symMentions(s, ".Token")
		})
		if !(getOK && decOK && idOK && tokOK) {
			okAll = false
		}
		// remember conjuncts beyond those (reported by C09-R5: an owner must pass the verdict)
		for _, l := range lits {
			s := l.S.String()
			switch {
			case strings.Contains(s, "nil") && (strings.Contains(s, "KeyValue.Get(") || strings.Contains(s, "encoding/json.Unmarshal(")) && !strings.Contains(s, "Entry.Revision("):
			case strings.Contains(s, ".ID") && strings.Contains(s, m.cfgPath("InstanceID")):
			case strings.Contains(s, ".Token") && strings.Contains(s, "param:"):
			case strings.Contains(s, `"" == param:`) || strings.Contains(s, `param:token == ""`):
			default:
				m.ownershipExtras[f] = append(m.ownershipExtras[f], l.String())
			}
		}
	}
	return okAll && n > 0
}

// collectConj adds the conjuncts of a returned boolean expression (a && b lowered to phis) as literals.
func (m *Model) collectConj(v ssa.Value, out *[]Lit) {
	switch x := v.(type) {
	case *ssa.BinOp:
		s, t := normLit(m.Sym.Of(x), true)
		*out = append(*out, Lit{S: s, Truth: t})
	case *ssa.Phi:
		// `a && b`: phi [false from the block where a was false, b from the block where a was true]
		for i, e := range x.Edges {
			if k, isC := constBool(e); isC && !k {
				continue
			}
			pred := x.Block().Preds[i]
			*out = append(*out, m.Guards(pred)...)
			m.collectConj(e, out)
		}
	}
}

// ownRevisionRule is C01-R4 (shared with C07-R2 and C18-R3).
func ownRevisionRule(c *Ctx, rule string) {
	m := c.M
	la := m.Locks()
	n := 0
	for _, f := range m.Funcs {
		eachInstr(f, func(in ssa.Instruction) {
			call, ok := in.(*ssa.Call)
			if !ok {
				return
			}
			fld, v, ok := m.atomicStore(call)
			if !ok || fld != m.Revision {
				return
			}
			n++
			o := m.Origins(v)
			key := fmt.Sprintf("revision store #%d in %s", ordinalOf(f, in, func(x ssa.Instruction) bool {
				c2, ok := x.(*ssa.Call)
				if !ok {
					return false
				}
				f2, _, ok := m.atomicStore(c2)
				return ok && f2 == m.Revision
			}), shortFn(f))
			// constants (the constructor's zero, the zero value of a result never received) are not observed revisions
			own := o.all(func(k string) bool { return strings.HasPrefix(k, "ownwrite:") || strings.HasPrefix(k, "const:") })
			if own {
				c.ok(rule, key, in, "origins %s", o)
				return
			}
			// observed revisions: only under the write lock with the claim false in this section
			if la.MustBefore(in)[m.implMuW()] {
				gs := m.GuardsAt(in)
				notLeader := false
				for _, l := range gs {
					if !l.Truth && m.isClaimLoadSym(l.S) {
						if ld, ok := l.S.V.(*ssa.Call); ok && ld.Parent() == f && la.MustBefore(ld)[m.implMuW()] && m.sameHold(ld, in, m.path(m.Mu)) {
							notLeader = true
						}
					}
				}
				if notLeader {
					c.ok(rule, key, in, "origins %s, stored under the write lock with claim==false in the same critical section", o)
					return
				}
			}
			c.viol(rule, key, in,
				"a value with origins %s is stored to the revision field outside a write-locked section that saw the claim false (must-lockset %s). The heartbeat presents this field: a leader deposed between its IsLeader() test and its revision read then refreshes with its successor's revision and overwrites the successor's record; a freshly promoted leader gets a foreign revision into its state.",
				o, la.MustBefore(in))
		})
	}
	if n < 3 {
		c.undecided(rule, "instance-floor", nil, "only %d stores to the revision field found; at least 3 on the reference tree", n)
	}
}
