package main

import (
	"fmt"
	"sort"
	"strings"

	"golang.org/x/tools/go/ssa"
)

// held is a set of "lock/mode" strings, e.g. "kvElection.mu/W".
type held map[string]bool

func (h held) clone() held {
	o := held{}
	for k := range h {
		o[k] = true
	}
	return o
}

func (h held) list() []string {
	var out []string
	for k := range h {
		out = append(out, k)
	}
	sort.Strings(out)
	return out
}

func (h held) String() string { return "{" + strings.Join(h.list(), ",") + "}" }

func (h held) hasLock(id string) bool { return h[id+"/W"] || h[id+"/R"] }

func union(a, b held) (held, bool) {
	changed := false
	for k := range b {
		if !a[k] {
			a[k] = true
			changed = true
		}
	}
	return a, changed
}

func intersect(a, b held) (held, bool) {
	changed := false
	for k := range a {
		if !b[k] {
			delete(a, k)
			changed = true
		}
	}
	return a, changed
}

type lockResult struct {
	may  map[ssa.Instruction]held // locks possibly held just before the instruction
	must map[ssa.Instruction]held // locks certainly held just before the instruction
}

type lockOp struct {
	ID   string // e.g. "kvElection.mu"
	Kind string // Lock Unlock RLock RUnlock
}

// lockOpOf recognises sync.Mutex / sync.RWMutex operations on a field of a shared object.
func (m *Model) lockOpOf(cc *ssa.CallCommon) (lockOp, bool) {
	f := cc.StaticCallee()
	if f == nil || f.Pkg == nil || f.Pkg.Pkg.Path() != "sync" || len(cc.Args) == 0 {
		return lockOp{}, false
	}
	recv := f.Signature.Recv()
	if recv == nil {
		return lockOp{}, false
	}
	tn := namedOf(recv.Type())
	if tn == nil || (tn.Obj().Name() != "Mutex" && tn.Obj().Name() != "RWMutex") {
		return lockOp{}, false
	}
	switch f.Name() {
	case "Lock", "Unlock", "RLock", "RUnlock":
	default:
		return lockOp{}, false
	}
	s := m.Sym.Of(cc.Args[0])
	id := strings.TrimPrefix(s.String(), "&")
	return lockOp{ID: id, Kind: f.Name()}, true
}

// LockAnalysis is the interprocedural lockset analysis over the library (and mock) code.
type LockAnalysis struct {
	m         *Model
	funcs     []*ssa.Function
	inLib     map[*ssa.Function]bool
	mayEntry  map[*ssa.Function]held
	mustEntry map[*ssa.Function]held // nil = not yet constrained (top)
	root      map[*ssa.Function]bool // callable from outside the library / as a goroutine: must-entry is empty
	maySrc    map[*ssa.Function]map[string]ssa.CallInstruction
	res       map[*ssa.Function]*lockResult
}

func (m *Model) Locks() *LockAnalysis {
	if m.la != nil {
		return m.la
	}
	la := &LockAnalysis{m: m, inLib: map[*ssa.Function]bool{}, mayEntry: map[*ssa.Function]held{}, mustEntry: map[*ssa.Function]held{},
		root: map[*ssa.Function]bool{}, maySrc: map[*ssa.Function]map[string]ssa.CallInstruction{}, res: map[*ssa.Function]*lockResult{}}
	la.funcs = append(la.funcs, m.Funcs...)
	if m.P.Mock != nil {
		la.funcs = append(la.funcs, m.P.pkgFuncs(m.P.Mock)...)
	}
	for _, f := range la.funcs {
		la.inLib[f] = true
	}
	// roots: no caller inside the library, or some caller outside it (synthetic wrappers,
	// other packages), or exported API
	for _, f := range la.funcs {
		n := m.P.CG.Nodes[f]
		ext := n == nil || len(n.In) == 0
		if n != nil {
			for _, e := range n.In {
				if !la.inLib[e.Caller.Func] {
					ext = true
				}
				if _, isGo := e.Site.(*ssa.Go); isGo {
					ext = true
				}
			}
		}
		if f.Parent() == nil && f.Object() != nil && f.Object().Exported() {
			ext = true
		}
		if f.Parent() != nil {
			ext = false // closures: context comes from their creation / call sites
			if mc := m.Sym.closureOf[f]; mc == nil {
				ext = true
			}
		}
		la.root[f] = ext
		la.mayEntry[f] = held{}
		if ext {
			la.mustEntry[f] = held{}
		}
	}
	for iter := 0; iter < 30; iter++ {
		changed := false
		for _, f := range la.funcs {
			if la.analyse(f) {
				changed = true
			}
		}
		if !changed {
			break
		}
	}
	m.la = la
	return la
}

// callees resolves the library functions a call instruction may reach (static, or VTA for dynamic calls).
func (la *LockAnalysis) callees(ci ssa.CallInstruction) []*ssa.Function {
	cc := ci.Common()
	if sc := cc.StaticCallee(); sc != nil {
		if la.inLib[sc] {
			return []*ssa.Function{sc}
		}
		return nil
	}
	if mc, ok := cc.Value.(*ssa.MakeClosure); ok {
		if fn, ok := mc.Fn.(*ssa.Function); ok && la.inLib[fn] {
			return []*ssa.Function{fn}
		}
	}
	var out []*ssa.Function
	if n := la.m.P.CG.Nodes[ci.Parent()]; n != nil {
		for _, e := range n.Out {
			if e.Site == ci && la.inLib[e.Callee.Func] {
				out = append(out, e.Callee.Func)
			}
		}
	}
	return out
}

func (la *LockAnalysis) analyse(f *ssa.Function) bool {
	m := la.m
	changedOut := false
	entryMay := la.mayEntry[f].clone()
	entryMust := held{}
	if me := la.mustEntry[f]; me != nil {
		entryMust = me.clone()
	}
	// deferred unlocks of this function (applied at every RunDefers)
	var deferred []lockOp
	eachInstr(f, func(in ssa.Instruction) {
		if d, ok := in.(*ssa.Defer); ok {
			if op, ok := m.lockOpOf(&d.Call); ok && (op.Kind == "Unlock" || op.Kind == "RUnlock") {
				deferred = append(deferred, op)
			}
		}
	})
	res := &lockResult{may: map[ssa.Instruction]held{}, must: map[ssa.Instruction]held{}}
	inMay := map[*ssa.BasicBlock]held{}
	inMust := map[*ssa.BasicBlock]held{}
	if len(f.Blocks) == 0 {
		return false
	}
	inMay[f.Blocks[0]] = entryMay
	inMust[f.Blocks[0]] = entryMust
	apply := func(op lockOp, may, must held) {
		switch op.Kind {
		case "Lock":
			may[op.ID+"/W"] = true
			must[op.ID+"/W"] = true
		case "RLock":
			may[op.ID+"/R"] = true
			must[op.ID+"/R"] = true
		case "Unlock":
			delete(may, op.ID+"/W")
			delete(must, op.ID+"/W")
		case "RUnlock":
			delete(may, op.ID+"/R")
			delete(must, op.ID+"/R")
		}
	}
	work := []*ssa.BasicBlock{f.Blocks[0]}
	if f.Recover != nil {
		inMay[f.Recover] = held{}
		inMust[f.Recover] = held{}
		work = append(work, f.Recover)
	}
	visited := map[*ssa.BasicBlock]bool{}
	for len(work) > 0 {
		b := work[0]
		work = work[1:]
		visited[b] = true
		may, must := inMay[b].clone(), inMust[b].clone()
		for _, in := range b.Instrs {
			res.may[in] = may.clone()
			res.must[in] = must.clone()
			switch in := in.(type) {
			case *ssa.Call:
				if op, ok := m.lockOpOf(&in.Call); ok {
					apply(op, may, must)
				}
			case *ssa.RunDefers:
				for _, op := range deferred {
					apply(op, may, must)
				}
			}
			if ci, ok := in.(ssa.CallInstruction); ok {
				_, isGo := in.(*ssa.Go)
				for _, g := range la.callees(ci) {
					if isGo {
						if la.mustEntry[g] == nil || len(la.mustEntry[g]) > 0 {
							la.mustEntry[g] = held{}
							changedOut = true
						}
						continue
					}
					for k := range res.may[in] {
						if !la.mayEntry[g][k] {
							la.mayEntry[g][k] = true
							if la.maySrc[g] == nil {
								la.maySrc[g] = map[string]ssa.CallInstruction{}
							}
							la.maySrc[g][k] = ci
							changedOut = true
						}
					}
					if la.root[g] {
						continue
					}
					if la.mustEntry[g] == nil {
						la.mustEntry[g] = res.must[in].clone()
						changedOut = true
					} else if _, ch := intersect(la.mustEntry[g], res.must[in]); ch {
						changedOut = true
					}
				}
			}
		}
		for _, s := range b.Succs {
			if !visited[s] && inMay[s] == nil {
				inMay[s] = may.clone()
				inMust[s] = must.clone()
				work = append(work, s)
				continue
			}
			_, c1 := union(inMay[s], may)
			_, c2 := intersect(inMust[s], must)
			if c1 || c2 {
				work = append(work, s)
			}
		}
	}
	la.res[f] = res
	return changedOut
}

// MayBefore / MustBefore: locksets just before an instruction.
func (la *LockAnalysis) MayBefore(in ssa.Instruction) held {
	if r := la.res[in.Parent()]; r != nil {
		if h := r.may[in]; h != nil {
			return h
		}
	}
	return held{}
}

func (la *LockAnalysis) MustBefore(in ssa.Instruction) held {
	if r := la.res[in.Parent()]; r != nil {
		if h := r.must[in]; h != nil {
			return h
		}
	}
	return held{}
}

// chain reconstructs how lock k can be held on entry to f: a sequence of call sites.
func (la *LockAnalysis) chain(f *ssa.Function, k string) string {
	var parts []string
	seen := map[*ssa.Function]bool{}
	for f != nil && !seen[f] {
		seen[f] = true
		src := la.maySrc[f][k]
		if src == nil {
			break
		}
		parts = append(parts, fmt.Sprintf("%s calls %s at %s", shortFn(src.Parent()), shortFn(f), la.m.P.pos(src.Pos())))
		f = src.Parent()
	}
	if len(parts) == 0 {
		return "acquired in the same function"
	}
	// reverse
	for i, j := 0, len(parts)-1; i < j; i, j = i+1, j-1 {
		parts[i], parts[j] = parts[j], parts[i]
	}
	return strings.Join(parts, " -> ")
}

// LockEdge is "to acquired while from may be held".
type LockEdge struct {
	From, To string // lock ids without mode
	FromMode string
	ToMode   string
	At       ssa.Instruction
	Fn       *ssa.Function
}

// Edges returns the lock-order edges and self-relocks of the library.
func (la *LockAnalysis) Edges() (edges []LockEdge, self []LockEdge) {
	for _, f := range la.funcs {
		eachInstr(f, func(in ssa.Instruction) {
			c, ok := in.(*ssa.Call)
			if !ok {
				return
			}
			op, ok := la.m.lockOpOf(&c.Call)
			if !ok || (op.Kind != "Lock" && op.Kind != "RLock") {
				return
			}
			toMode := "W"
			if op.Kind == "RLock" {
				toMode = "R"
			}
			for _, k := range la.MayBefore(in).list() {
				id, mode, _ := strings.Cut(k, "/")
				e := LockEdge{From: id, To: op.ID, FromMode: mode, ToMode: toMode, At: in, Fn: f}
				if id == op.ID {
					self = append(self, e)
				} else {
					edges = append(edges, e)
				}
			}
		})
	}
	return
}

// sameHold: a and b lie in one function and no path from a to b (that does not pass a again)
// releases the lock `id` (Unlock / RUnlock called directly; deferred releases run at the return and
// do not count): what was read at a under the lock is still true at b.
func (m *Model) sameHold(a, b ssa.Instruction, id string) bool {
	if a.Parent() != b.Parent() {
		return false
	}
	isRelease := func(in ssa.Instruction) bool {
		call, ok := in.(*ssa.Call)
		if !ok {
			return false
		}
		op, ok := m.lockOpOf(&call.Call)
		return ok && op.ID == id && (op.Kind == "Unlock" || op.Kind == "RUnlock")
	}
	// forward walk from a; state: released or not; stop at a (fresh read) and at b
	type st struct {
		b   *ssa.BasicBlock
		rel bool
	}
	seen := map[st]bool{}
	bad := false
	var walk func(blk *ssa.BasicBlock, from int, rel bool)
	walk = func(blk *ssa.BasicBlock, from int, rel bool) {
		for i := from; i < len(blk.Instrs); i++ {
			in := blk.Instrs[i]
			if in == b {
				if rel {
					bad = true
				}
				return
			}
			if in == a {
				return
			}
			if isRelease(in) {
				rel = true
			}
		}
		for _, s := range liveSuccs(blk) {
			k := st{s, rel}
			if seen[k] {
				continue
			}
			seen[k] = true
			walk(s, 0, rel)
		}
	}
	walk(a.Block(), instrIndex(a)+1, false)
	return !bad
}
