package main

import (
	"fmt"
	"go/token"
	"go/types"
	"sort"
	"strings"

	"golang.org/x/tools/go/ssa"
)

func init() {
	register(&PropertySpec{
		ID:    "C13",
		Level: "other",
		Run:   checkC13,
		Explanation: "Decides the parts of C13 that are visible in the shape of the code for every record content: (R1) the library's call graph (static calls, closures, VTA-resolved dynamic calls; goroutine spawns excluded) has no cycle, so the stack is bounded whatever the record holds; " +
			"(R2) every json.Unmarshal of record-derived bytes has its error tested and neither a leadership claim nor an Update/Delete of the record is reachable from the error edge; " +
			"(R3) no unchecked (non comma-ok) type assertion and no indexing is applied to record-derived values; (R4) every loop that can issue store operations, or that has no exit, blocks on every cycle (select without default, channel receive, timer); " +
			"(R5) Watcher.Updates is idempotent (shared with C14-R1); (R6) a takeover is attempted only against a record whose decoded payload names a leader, so a live record that is valid JSON but not a leadership payload is never overwritten (shared with C10-R1).",
		NotDecided: []string{"that a leader whose record was tampered with is demoted within the C03/C04 bounds (timing; see C03, C04)", "behaviour of encoding/json itself on adversarial input (trusted)", "memory use for very large records"},
		Assumptions: []string{"encoding/json.Unmarshal does not panic and terminates on every input", "record-derived values are those obtained from Entry.Value() or decoded from it in the same function"},
		Rules: map[string]string{
			"R1": "the call graph restricted to the library package is acyclic (Tarjan SCC over static + closure + VTA edges, `go` edges excluded)",
			"R2": "every json.Unmarshal whose input derives from Entry.Value() has its error compared with nil; from the err != nil edge no claim-set unit and no Update/Delete store operation is reachable (Create is allowed)",
			"R8": "no library type that a record is decoded into (json.Unmarshal target, and the library types of its fields) has an UnmarshalJSON / UnmarshalText method: a record is unreadable exactly when encoding/json rejects it",
			"R7": "every method invocation on an Entry whose origin is a KeyValue.Get of this library is guarded by NOT (entry == nil)",
			"R3": "every TypeAssert on a record-derived operand is comma-ok; no Index/Slice with a non-constant index on record-derived bytes",
			"R6": "every takeover Update is guarded by NOT (\"\" == decoded.ID): a live record that is valid JSON but no leadership payload is never overwritten (shared with C10-R1)",
			"R4": "every CFG cycle that reaches a store operation or has no exit contains a blocking instruction on every path round the cycle",
			"R5": "see C14-R1",
		},
	})
}

// strictDecodeRule (C13-R8): "unreadable" is what encoding/json says it is. Every library type that
// a record is decoded into (target of json.Unmarshal) and the library types of its fields have no
// UnmarshalJSON / UnmarshalText method of their own: a lenient decoder ("priority may also be a
// quoted number", falling back to 0) turns a record whose priority cannot be read into a readable
// record of priority 0, which every takeover-enabled candidate preempts.
func strictDecodeRule(c *Ctx, rule string) {
	m := c.M
	n := 0
	seen := map[types.Type]bool{}
	var lenient func(t types.Type, depth int) string
	lenient = func(t types.Type, depth int) string {
		if depth > 3 {
			return ""
		}
		if p, ok := t.(*types.Pointer); ok {
			t = p.Elem()
		}
		nt, ok := t.(*types.Named)
		if !ok || nt.Obj().Pkg() == nil || nt.Obj().Pkg() != m.P.Leader.Pkg {
			return ""
		}
		ms := m.P.Prog.MethodSets.MethodSet(types.NewPointer(nt))
		for _, name := range []string{"UnmarshalJSON", "UnmarshalText"} {
			if ms.Lookup(nil, name) != nil || ms.Lookup(m.P.Leader.Pkg, name) != nil {
				return nt.Obj().Name() + "." + name
			}
		}
		if st, ok := nt.Underlying().(*types.Struct); ok {
			for i := 0; i < st.NumFields(); i++ {
				if r := lenient(st.Field(i).Type(), depth+1); r != "" {
					return r
				}
			}
		}
		return ""
	}
	for _, f := range m.Funcs {
		eachInstr(f, func(in ssa.Instruction) {
			call, ok := isCallTo(valueOf(in), "encoding/json.Unmarshal")
			if !ok || len(call.Call.Args) != 2 {
				return
			}
			v := call.Call.Args[1]
			if mi, ok := v.(*ssa.MakeInterface); ok {
				v = mi.X
			}
			t := v.Type()
			if p, ok := t.(*types.Pointer); ok {
				t = p.Elem()
			}
			nt, ok := t.(*types.Named)
			if !ok || nt.Obj().Pkg() != m.P.Leader.Pkg || seen[nt] {
				return
			}
			seen[nt] = true
			n++
			r := lenient(nt, 0)
			c.check(r == "", rule, "records are decoded by encoding/json itself: "+nt.Obj().Name(), in, "custom decoder: %q", r)
		})
	}
	_ = n
}

func checkC13(c *Ctx) {
	m := c.M
	strictDecodeRule(c, "R8")

	// ---- R1 recursion -------------------------------------------------------
	lib := map[*ssa.Function]bool{}
	for _, f := range m.Funcs {
		lib[f] = true
	}
	succ := map[*ssa.Function]map[*ssa.Function]ssa.Instruction{}
	addEdge := func(a, b *ssa.Function, at ssa.Instruction) {
		if !lib[a] || !lib[b] {
			return
		}
		if succ[a] == nil {
			succ[a] = map[*ssa.Function]ssa.Instruction{}
		}
		if _, ok := succ[a][b]; !ok {
			succ[a][b] = at
		}
	}
	nEdges := 0
	for _, f := range m.Funcs {
		eachInstr(f, func(in ssa.Instruction) {
			if _, isGo := in.(*ssa.Go); isGo {
				return
			}
			ci, ok := in.(ssa.CallInstruction)
			if !ok {
				return
			}
			cc := ci.Common()
			if sc := cc.StaticCallee(); sc != nil {
				addEdge(f, sc, in)
				nEdges++
				return
			}
			if n := m.P.CG.Nodes[f]; n != nil {
				for _, e := range n.Out {
					if e.Site == ci {
						addEdge(f, e.Callee.Func, in)
						nEdges++
					}
				}
			}
		})
	}
	sccs := tarjan(m.Funcs, func(f *ssa.Function) []*ssa.Function {
		var out []*ssa.Function
		for g := range succ[f] {
			out = append(out, g)
		}
		sort.Slice(out, func(i, j int) bool { return out[i].Pos() < out[j].Pos() })
		return out
	})
	nCyc := 0
	for _, scc := range sccs {
		cyclic := len(scc) > 1
		if len(scc) == 1 {
			if _, self := succ[scc[0]][scc[0]]; self {
				cyclic = true
			}
		}
		if !cyclic {
			continue
		}
		nCyc++
		sort.Slice(scc, func(i, j int) bool { return scc[i].Pos() < scc[j].Pos() })
		var names, sites []string
		inScc := map[*ssa.Function]bool{}
		for _, f := range scc {
			inScc[f] = true
			names = append(names, shortFn(f))
		}
		var at ssa.Instruction
		for _, f := range scc {
			for g, in := range succ[f] {
				if inScc[g] {
					sites = append(sites, fmt.Sprintf("%s calls %s at %s", shortFn(f), shortFn(g), c.posOf(in)))
					if at == nil {
						at = in
					}
				}
			}
		}
		sort.Strings(sites)
		c.viol("R1", "recursion cycle "+strings.Join(names, " <-> "), at,
			"call-graph cycle inside the library: %s. Stack depth is then bounded only by how long the triggering condition (e.g. an unparsable or persistent record) lasts.", strings.Join(sites, "; "))
	}
	c.check(nCyc == 0 && nEdges >= 100, "R1", "library call graph acyclic", nil, "%d functions, %d call edges analysed, %d cyclic SCCs", len(m.Funcs), nEdges, nCyc)

	// ---- R2 decode discipline ------------------------------------------------
	writes := func(f *ssa.Function) (bool, string) { return m.reachesWrite(f) }
	nDecode := 0
	for _, f := range m.Funcs {
		eachInstr(f, func(in ssa.Instruction) {
			call, ok := isCallTo(valueOf(in), "encoding/json.Unmarshal")
			if !ok || !m.recordDerived(call.Call.Args[0], 0) {
				return
			}
			nDecode++
			key := fmt.Sprintf("decode #%d in %s", ordinalOf(f, in, func(x ssa.Instruction) bool {
				c2, ok := isCallTo(valueOf(x), "encoding/json.Unmarshal")
				return ok && m.recordDerived(c2.Call.Args[0], 0)
			}), shortFn(f))
			// the error must be compared with nil in an If
			var ifs []*ssa.If
			var errEdge []int
			var testsOf func(v ssa.Value, depth int)
			testsOf = func(v ssa.Value, depth int) {
				refs := v.Referrers()
				if refs == nil || depth > 2 {
					return
				}
				for _, r := range *refs {
					if bo, ok := r.(*ssa.BinOp); ok && (bo.Op == token.EQL || bo.Op == token.NEQ) {
						if rr := bo.Referrers(); rr != nil {
							for _, u := range *rr {
								if ifi, ok := u.(*ssa.If); ok {
									ifs = append(ifs, ifi)
									if bo.Op == token.NEQ {
										errEdge = append(errEdge, 0)
									} else {
										errEdge = append(errEdge, 1)
									}
								}
							}
						}
					}
					// a decode helper that hands the error on as its own result
					// (func decode(b []byte) (payload, error)): the callers test it
					if ret, ok := r.(*ssa.Return); ok {
						g := ret.Parent()
						for j, res := range ret.Results {
							if res != v {
								continue
							}
							for _, site := range m.callers[g] {
								cv, ok := site.Instr.(*ssa.Call)
								if !ok {
									continue
								}
								if len(ret.Results) == 1 {
									testsOf(cv, depth+1)
									continue
								}
								if crefs := cv.Referrers(); crefs != nil {
									for _, cr := range *crefs {
										if ex, ok := cr.(*ssa.Extract); ok && ex.Index == j {
											testsOf(ex, depth+1)
										}
									}
								}
							}
						}
					}
				}
			}
			testsOf(call, 0)
			if len(ifs) == 0 {
				c.viol("R2", key, in, "the error of json.Unmarshal on record-derived bytes is not tested: a malformed record is processed as if it had decoded")
				return
			}
			for i, ifi := range ifs {
				var bad ssa.Instruction
				reachableFromEdge(ifi.Block(), errEdge[i], func(x ssa.Instruction) bool {
					if _, isGo := x.(*ssa.Go); isGo {
						return false
					}
					if op, ok := m.isKVCall(valueOf(x), ""); ok && (op.Call.Method.Name() == "Update" || op.Call.Method.Name() == "Delete") {
						bad = x
						return true
					}
					if ci, ok := x.(ssa.CallInstruction); ok {
						if g := ci.Common().StaticCallee(); g != nil && m.isLib(g) {
							if containsFn(m.ClaimSet, g) {
								bad = x
								return true
							}
							if w, _ := writes(g); w {
								bad = x
								return true
							}
						}
					}
					return false
				})
				if bad != nil {
					_, why := "", ""
					if ci, ok := bad.(ssa.CallInstruction); ok {
						if g := ci.Common().StaticCallee(); g != nil {
							_, why = writes(g)
						}
					}
					c.viol("R2", key, in, "from the decode-error edge the call at %s is reachable, which can claim leadership or Update/Delete the record (%s): an unparsable record must never lead to a write other than create-if-absent", c.posOf(bad), why)
				} else {
					c.ok("R2", key, in, "error tested; no claim / Update / Delete reachable from the error edge")
				}
			}
		})
	}
	c.floor("R2", 2)

	// ---- R3 no panicking projection -------------------------------------------
	nAssert := 0
	for _, f := range m.Funcs {
		eachInstr(f, func(in ssa.Instruction) {
			switch x := in.(type) {
			case *ssa.TypeAssert:
				if !m.recordDerived(x.X, 0) {
					return
				}
				nAssert++
				key := fmt.Sprintf("assert %s on record data in %s #%d", x.AssertedType.String(), shortFn(f), ordinalOf(f, in, func(y ssa.Instruction) bool {
					t, ok := y.(*ssa.TypeAssert)
					return ok && m.recordDerived(t.X, 0)
				}))
				c.check(x.CommaOk, "R3", key, in, "comma-ok form: %v (operand %s)", x.CommaOk, clip(m.Sym.Of(x.X).String(), 120))
			case *ssa.Index, *ssa.IndexAddr, *ssa.Slice:
				var base ssa.Value
				var bounds []ssa.Value
				switch y := x.(type) {
				case *ssa.Index:
					base, bounds = y.X, []ssa.Value{y.Index}
				case *ssa.IndexAddr:
					base, bounds = y.X, []ssa.Value{y.Index}
				case *ssa.Slice:
					base, bounds = y.X, []ssa.Value{y.Low, y.High, y.Max}
				}
				if base == nil || !m.recordDerived(base, 0) {
					return
				}
				// only strings and byte slices (record contents), not decoded maps / varargs arrays
				bt := base.Type().Underlying()
				if p, ok := bt.(*types.Pointer); ok {
					bt = p.Elem().Underlying()
				}
				isText := false
				switch u := bt.(type) {
				case *types.Basic:
					isText = u.Info()&types.IsString != 0
				case *types.Slice:
					if b, ok := u.Elem().Underlying().(*types.Basic); ok && b.Kind() == types.Byte {
						isText = true
					}
				}
				if !isText {
					return
				}
				bounded := false
				for _, b := range bounds {
					if b == nil {
						continue
					}
					if k, isC := constInt(b); isC && k == 0 {
						continue
					}
					bounded = true
				}
				if !bounded {
					return
				}
				nAssert++
				baseSym := m.Sym.Of(base).String()
				guarded := hasLit(m.GuardsAt(in), true, func(s *Sym) bool { return strings.Contains(s.String(), "builtin.len("+baseSym) }) ||
					hasLit(m.GuardsAt(in), false, func(s *Sym) bool { return strings.Contains(s.String(), "builtin.len("+baseSym) })
				c.check(guarded, "R3", fmt.Sprintf("index/slice of record data in %s", shortFn(f)), in,
					"record-derived text %s is indexed/sliced with a bound that no dominating len() test covers: %v (a record with a shorter value panics, e.g. in an error message built from the record's token)", clip(baseSym, 100), !guarded)
			}
		})
	}
	// the rule ranges over whatever projections the code applies; what must not silently vanish
	// is the recognition of record data itself
	nDecode = 0
	for _, f := range m.Funcs {
		eachInstr(f, func(in ssa.Instruction) {
			if al, ok := in.(*ssa.Alloc); ok && m.isDecodeTarget(al) {
				nDecode++
			}
		})
	}
	c.check(nDecode >= 2, "R3", "record data is recognised", nil, "%d decode targets of record bytes found (the watcher path and the acquisition path decode the record)", nDecode)
	_ = nAssert

	// ---- R4 no spinning -------------------------------------------------------
	nLoops := 0
	for _, f := range m.Funcs {
		for _, loop := range cfgLoops(f) {
			inLoopSet := map[*ssa.BasicBlock]bool{}
			for _, b := range loop {
				inLoopSet[b] = true
			}
			hasExit := false
			reachesStore := false
			for _, b := range loop {
				for _, s := range b.Succs {
					if !inLoopSet[s] {
						hasExit = true
					}
				}
				for _, in := range b.Instrs {
					if _, ok := m.isKVCall(valueOf(in), ""); ok {
						reachesStore = true
					}
					if ci, ok := in.(ssa.CallInstruction); ok {
						if g := ci.Common().StaticCallee(); g != nil && m.isLib(g) {
							if m.reachesStoreOp(g) {
								reachesStore = true
							}
						}
					}
				}
			}
			if hasExit && !reachesStore {
				continue
			}
			nLoops++
			// remove blocks with a blocking instruction; a remaining cycle spins
			blocked := map[*ssa.BasicBlock]bool{}
			for _, b := range loop {
				for _, in := range b.Instrs {
					if m.isBlockingInstr(in) {
						blocked[b] = true
					}
				}
			}
			spin := hasCycleWithin(loop, func(b *ssa.BasicBlock) bool { return inLoopSet[b] && !blocked[b] })
			// a counted loop with a small constant bound is not a spin: its header test leaves the
			// loop after at most K iterations whatever the store answers
			if spin && hasExit {
				for _, b := range loop {
					ifi, ok := b.Instrs[len(b.Instrs)-1].(*ssa.If)
					if !ok || len(b.Succs) != 2 {
						continue
					}
					for e := 0; e < 2; e++ {
						if !inLoopSet[b.Succs[e]] || inLoopSet[b.Succs[1-e]] {
							continue // edge e must stay in the loop, the other leave it
						}
						if trips, ok := m.loopCounterBound(m.litOf(ifi.Cond, e == 0, ifi)); ok && trips <= 8 {
							// every unblocked cycle passes this test
							test := b
							if !hasCycleWithin(loop, func(x *ssa.BasicBlock) bool { return inLoopSet[x] && !blocked[x] && x != test }) {
								spin = false
							}
						}
					}
				}
			}
			head := loop[0]
			key := fmt.Sprintf("loop at block %s of %s", head.Comment, shortFn(f))
			var at ssa.Instruction
			for _, in := range head.Instrs {
				if in.Pos().IsValid() {
					at = in
					break
				}
			}
			if at == nil {
				at = head.Instrs[0]
			}
			c.check(!spin, "R4", key, at, "loop (exit: %v, reaches store op: %v) has a cycle without a blocking operation: %v", hasExit, reachesStore, spin)
		}
	}
	c.floor("R4", 3)

	// ---- R5 --------------------------------------------------------------------
	watcherUpdatesRule(c, "R5")

	// ---- R6 --------------------------------------------------------------------
	takeoverNamesLeaderRule(c, "R6")

	// ---- R7: an entry read from the store is used only after a nil test -----------------------
	// Get answers (nil, nil) in the library's own adapters for a key that holds no entry (deleted
	// by an outside party a moment ago): a method call on it is a nil dereference, in a goroutine
	// without recover.
	nUse := 0
	for _, f := range m.Funcs {
		eachInstr(f, func(in ssa.Instruction) {
			call, ok := in.(*ssa.Call)
			if !ok || !call.Call.IsInvoke() || namedOf(call.Call.Value.Type()) != m.EntryIface {
				return
			}
			if !m.Origins(call.Call.Value)["entry"] {
				return // not (only) the result of a Get: watch entries have their own nil convention (C06/C13-R2)
			}
			nUse++
			want := m.Sym.Of(call.Call.Value).String()
			tested := false
			for _, l := range m.AllGuards(in, false) {
				if l.Truth || l.S.Op != "bin" || l.S.Name != "==" || len(l.S.Args) != 2 {
					continue
				}
				for i := 0; i < 2; i++ {
					if l.S.Args[i].String() == "nil" && (l.S.Args[1-i].String() == want || (l.S.Args[1-i].V != nil && m.Origins(l.S.Args[1-i].V)["entry"])) {
						tested = true
					}
				}
			}
			key := fmt.Sprintf("entry.%s() #%d on the result of a Get in %s", call.Call.Method.Name(), ordinalOf(f, in, func(x ssa.Instruction) bool {
				c2, ok := x.(*ssa.Call)
				return ok && c2.Call.IsInvoke() && namedOf(c2.Call.Value.Type()) == m.EntryIface && c2.Call.Method.Name() == call.Call.Method.Name() && m.Origins(c2.Call.Value)["entry"]
			}), shortFn(f))
			c.check(tested, "R7", key, in, "guarded by `entry != nil`: %v (the adapters return (nil, nil) for a key without an entry: a record deleted between two operations of this instance)", tested)
		})
	}
	if nUse < 3 {
		c.undecided("R7", "instance-floor", nil, "only %d uses of an entry returned by Get found", nUse)
	}
}

// ordinalOf numbers the instructions of f satisfying pred in source order; returns the number of `in`.
func ordinalOf(f *ssa.Function, in ssa.Instruction, pred func(ssa.Instruction) bool) int {
	type pi struct {
		pos token.Pos
		in  ssa.Instruction
	}
	var all []pi
	eachInstr(f, func(x ssa.Instruction) {
		if pred(x) {
			all = append(all, pi{x.Pos(), x})
		}
	})
	sort.SliceStable(all, func(i, j int) bool { return all[i].pos < all[j].pos })
	for i, x := range all {
		if x.in == in {
			return i + 1
		}
	}
	return 0
}

// recordDerived: the value is obtained from Entry.Value() or decoded from it.
func (m *Model) recordDerived(v ssa.Value, depth int) bool {
	if v == nil || depth > 12 {
		return false
	}
	switch x := v.(type) {
	case *ssa.Call:
		if x.Call.IsInvoke() && x.Call.Method.Name() == "Value" && namedOf(x.Call.Value.Type()) == m.EntryIface {
			return true
		}
		// a library helper that returns (a projection of) record data
		if g := x.Call.StaticCallee(); g != nil && m.isLib(g) && len(g.Blocks) > 0 {
			for _, b := range liveBlocks(g) {
				if ret, ok := b.Instrs[len(b.Instrs)-1].(*ssa.Return); ok && b != g.Recover {
					for i := range ret.Results {
						if m.recordDerived(returnValue(ret, i), depth+3) {
							return true
						}
					}
				}
			}
		}
		return false
	case *ssa.Parameter:
		// record data handed to a library helper
		f := x.Parent()
		if f == nil || !m.isLib(f) {
			return false
		}
		idx := -1
		for i, p := range f.Params {
			if p == x {
				idx = i
			}
		}
		for _, cs := range m.callers[f] {
			args := cs.Instr.Common().Args
			if idx >= 0 && idx < len(args) && m.recordDerived(args[idx], depth+3) {
				return true
			}
		}
		return false
	case *ssa.Alloc:
		return m.isDecodeTarget(x)
	case *ssa.UnOp:
		return m.recordDerived(x.X, depth+1)
	case *ssa.FieldAddr:
		if m.taintedField(x.X.Type(), x.Field) {
			return true
		}
		return m.recordDerived(x.X, depth+1)
	case *ssa.Field:
		if m.taintedField(x.X.Type(), x.Field) {
			return true
		}
		return m.recordDerived(x.X, depth+1)
	case *ssa.Lookup:
		return m.recordDerived(x.X, depth+1)
	case *ssa.Index:
		return m.recordDerived(x.X, depth+1)
	case *ssa.IndexAddr:
		return m.recordDerived(x.X, depth+1)
	case *ssa.Slice:
		return m.recordDerived(x.X, depth+1)
	case *ssa.Extract:
		return m.recordDerived(x.Tuple, depth+1)
	case *ssa.TypeAssert:
		return m.recordDerived(x.X, depth+1)
	case *ssa.Convert:
		return m.recordDerived(x.X, depth+1)
	case *ssa.ChangeType:
		return m.recordDerived(x.X, depth+1)
	case *ssa.MakeInterface:
		return m.recordDerived(x.X, depth+1)
	case *ssa.Phi:
		for _, e := range x.Edges {
			if m.recordDerived(e, depth+1) {
				return true
			}
		}
	}
	return false
}

// taintedField: somewhere in the library a record-derived value is stored into this field
// of a library struct type (e.g. the record's token copied into an error value); reads of
// the field anywhere are then record-derived too.
func (m *Model) taintedField(t types.Type, idx int) bool {
	n := namedOf(t)
	if n == nil || n.Obj().Pkg() != m.P.Leader.Pkg {
		return false
	}
	if m.fieldTaint == nil {
		m.fieldTaint = map[string]bool{}
		for round := 0; round < 2; round++ {
			for _, f := range m.Funcs {
				eachInstr(f, func(in ssa.Instruction) {
					st, ok := in.(*ssa.Store)
					if !ok {
						return
					}
					fa, ok := st.Addr.(*ssa.FieldAddr)
					if !ok {
						return
					}
					tn := namedOf(fa.X.Type())
					if tn == nil || tn.Obj().Pkg() != m.P.Leader.Pkg {
						return
					}
					if m.recordDerived(st.Val, 0) {
						m.fieldTaint[tn.Obj().Name()+"."+fieldName(fa.X.Type(), fa.Field)] = true
					}
				})
			}
		}
	}
	return m.fieldTaint[n.Obj().Name()+"."+fieldName(t, idx)]
}

// isDecodeTarget: the local is passed (by address) to json.Unmarshal together with record-derived bytes.
func (m *Model) isDecodeTarget(al *ssa.Alloc) bool {
	refs := al.Referrers()
	if refs == nil {
		return false
	}
	for _, r := range *refs {
		mi, ok := r.(*ssa.MakeInterface)
		if !ok {
			continue
		}
		if rr := mi.Referrers(); rr != nil {
			for _, u := range *rr {
				if call, ok := isCallTo(valueOf(u), "encoding/json.Unmarshal"); ok && len(call.Call.Args) == 2 && call.Call.Args[1] == ssa.Value(mi) {
					if m.recordDerived(call.Call.Args[0], 1) {
						return true
					}
				}
			}
		}
	}
	return false
}

// reachesWrite: f can (through static calls, not go) set the claim or Update/Delete the record.
func (m *Model) reachesWrite(f *ssa.Function) (bool, string) {
	for _, g := range sortedFns(m.staticReach(f, false)) {
		if containsFn(m.ClaimSet, g) {
			return true, "reaches claim-set unit " + shortFn(g)
		}
		found := ""
		eachInstr(g, func(in ssa.Instruction) {
			if op, ok := m.isKVCall(valueOf(in), ""); ok && (op.Call.Method.Name() == "Update" || op.Call.Method.Name() == "Delete") {
				found = op.Call.Method.Name() + " in " + shortFn(g)
			}
		})
		if found != "" {
			return true, "reaches " + found
		}
	}
	return false, ""
}

func (m *Model) reachesStoreOp(f *ssa.Function) bool {
	if v, ok := m.storeReach[f]; ok {
		return v
	}
	res := false
	for _, g := range sortedFns(m.staticReach(f, false)) {
		eachInstr(g, func(in ssa.Instruction) {
			if _, ok := m.isKVCall(valueOf(in), ""); ok {
				res = true
			}
		})
	}
	m.storeReach[f] = res
	return res
}

// isBlockingInstr: the instruction suspends the goroutine until an event (timer, channel, context).
func (m *Model) isBlockingInstr(in ssa.Instruction) bool {
	switch x := in.(type) {
	case *ssa.Select:
		return x.Blocking
	case *ssa.UnOp:
		return x.Op == token.ARROW
	case *ssa.Call:
		if f := x.Call.StaticCallee(); f != nil {
			switch f.String() {
			case "time.Sleep", "(*sync.WaitGroup).Wait":
				return true
			}
			if m.isLib(f) && m.mustBlock(f) {
				return true
			}
		}
	}
	return false
}

// cfgLoops returns the non-trivial strongly connected components of f's CFG.
func cfgLoops(f *ssa.Function) [][]*ssa.BasicBlock {
	var out [][]*ssa.BasicBlock
	sccs := tarjan(f.Blocks, func(b *ssa.BasicBlock) []*ssa.BasicBlock { return b.Succs })
	for _, scc := range sccs {
		if len(scc) > 1 {
			sort.Slice(scc, func(i, j int) bool { return scc[i].Index < scc[j].Index })
			out = append(out, scc)
			continue
		}
		for _, s := range scc[0].Succs {
			if s == scc[0] {
				out = append(out, scc)
			}
		}
	}
	sort.Slice(out, func(i, j int) bool { return out[i][0].Index < out[j][0].Index })
	return out
}

func hasCycleWithin(blocks []*ssa.BasicBlock, keep func(*ssa.BasicBlock) bool) bool {
	var kept []*ssa.BasicBlock
	for _, b := range blocks {
		if keep(b) {
			kept = append(kept, b)
		}
	}
	sccs := tarjan(kept, func(b *ssa.BasicBlock) []*ssa.BasicBlock {
		var out []*ssa.BasicBlock
		for _, s := range b.Succs {
			if keep(s) {
				out = append(out, s)
			}
		}
		return out
	})
	for _, scc := range sccs {
		if len(scc) > 1 {
			return true
		}
		for _, s := range scc[0].Succs {
			if s == scc[0] && keep(s) {
				return true
			}
		}
	}
	return false
}

// tarjan computes strongly connected components.
func tarjan[T comparable](nodes []T, succ func(T) []T) [][]T {
	index := map[T]int{}
	low := map[T]int{}
	on := map[T]bool{}
	var stack []T
	var out [][]T
	next := 0
	var strong func(v T)
	strong = func(v T) {
		index[v] = next
		low[v] = next
		next++
		stack = append(stack, v)
		on[v] = true
		for _, w := range succ(v) {
			if _, seen := index[w]; !seen {
				strong(w)
				if low[w] < low[v] {
					low[v] = low[w]
				}
			} else if on[w] && index[w] < low[v] {
				low[v] = index[w]
			}
		}
		if low[v] == index[v] {
			var scc []T
			for {
				w := stack[len(stack)-1]
				stack = stack[:len(stack)-1]
				on[w] = false
				scc = append(scc, w)
				if w == v {
					break
				}
			}
			out = append(out, scc)
		}
	}
	for _, v := range nodes {
		if _, seen := index[v]; !seen {
			strong(v)
		}
	}
	return out
}


// loopLatch: a block of the loop with a back edge to the loop's first block (its header).
func loopLatch(loop []*ssa.BasicBlock, in map[*ssa.BasicBlock]bool) *ssa.BasicBlock {
	head := loop[0]
	for _, b := range loop {
		for _, s := range b.Succs {
			if s == head {
				return b
			}
		}
	}
	return head
}
