package main

import (
	"fmt"
	"sort"
	"strings"

	"golang.org/x/tools/go/ssa"
)

func init() {
	register(&PropertySpec{
		ID:    "C05",
		Level: "other",
		Run:   checkC05,
		Explanation: "Uniqueness of a UUIDv4 is trusted; decided is that the code uses one fresh value per acquisition and the same value everywhere in the term: (R1) the Token of every create/takeover payload comes from a uuid.New* call executed in the acquisition attempt that issues the write (not from a field, global or cache); " +
			"(R2) every store to the token field outside the constructor carries exactly that payload token (through the Marshal/Unmarshal round trip on the takeover path); (R3) every refresh republishes the token field (C01-R3); " +
			"(R4) the promotion callback receives the value stored to the token field in the same activation, and Token() and Status().Token read that same field; (R5) the token is published before the claim (C02-R5, shared): a lock-free reader never sees IsLeader()==true with the previous term's (or no) token.",
		NotDecided: []string{"global uniqueness of UUIDv4 values (probabilistic, trusted)", "that no external writer publishes a colliding token"},
		Assumptions: []string{"github.com/google/uuid.New returns a fresh value on every call"},
		Rules: map[string]string{
			"R1": "origins(payload.Token) of every Create / takeover Update value == {fresh:<one uuid.New* call site>}; that call is in the function issuing the write or in its caller chain (same activation), not a field load",
			"R2": "origins of every value stored to the token field outside the constructor are fresh:* only and equal the origins of the written payload token (C02-R1 checks equality per call site)",
			"R3": "origins(payload.Token) of every refresh Update == {field:token}; origins(payload.ID) == {cfg:InstanceID}",
			"R6": "every value stored to the revision field that originates in a Create / takeover Update (a write that published a fresh token) is stored by the claim-set unit, which stores that token in the same activation; the only other own-write origin is the refresh Update (which republishes the token field, R3)",
			"R5": "see C02-R5 (the token store dominates the claim Store(true) in the claim-set unit)",
			"R4": "OnPromote's token argument is the value stored to the token field (C08-R1); the Token field of the Status() result and Token() load the token field",
		},
	})
}

func checkC05(c *Ctx) {
	m := c.M
	// R1
	n := 0
	for _, op := range m.StoreOps() {
		cls := m.classifyOp(op)
		if cls != "create" && cls != "takeover" {
			continue
		}
		n++
		o := m.FieldOrigins(op.Call.Call.Args[1], "Token")
		ok := len(o) == 1 && o.all(func(k string) bool { return strings.HasPrefix(k, "fresh:") })
		c.check(ok, "R1", cls+" publishes a fresh token in "+shortFn(op.Fn), op.Call, "origins of payload.Token: %s (required: exactly one uuid.New* call site)", o)
	}
	if n < 2 {
		c.undecided("R1", "instance-floor", nil, "only %d create/takeover writes found", n)
	}
	// the uuid call is executed once per attempt: not inside a sync.Once / init / package-level var
	for _, f := range m.Funcs {
		eachInstr(f, func(in ssa.Instruction) {
			call, ok := in.(*ssa.Call)
			if !ok {
				return
			}
			if g := call.Call.StaticCallee(); g != nil && strings.HasPrefix(g.String(), "github.com/google/uuid.New") {
				bad := f.Name() == "init" || m.insideOnceAny(f)
				c.check(!bad, "R1", "uuid minted per attempt in "+shortFn(f), in, "minted in an initialiser or under sync.Once: %v", bad)
			}
		})
	}

	// R2
	nTok := 0
	for _, f := range m.Funcs {
		if m.isCtorCode(f) {
			continue
		}
		eachInstr(f, func(in ssa.Instruction) {
			call, ok := in.(*ssa.Call)
			if !ok {
				return
			}
			fld, v, ok := m.atomicStore(call)
			if !ok || fld != m.Token {
				return
			}
			nTok++
			o := m.Origins(v)
			okFresh := o.all(func(k string) bool { return strings.HasPrefix(k, "fresh:") })
			key := fmt.Sprintf("token store #%d in %s", ordinalOf(f, in, func(x ssa.Instruction) bool {
				c2, ok := x.(*ssa.Call)
				if !ok {
					return false
				}
				f2, _, ok := m.atomicStore(c2)
				return ok && f2 == m.Token
			}), shortFn(f))
			inUnit := m.inClaimUnit(f)
			c.check(okFresh && inUnit, "R2", key, in, "origins %s; stored by the claim-set unit: %v (a token stored elsewhere or from elsewhere can differ from the one in the record)", o, inUnit)
		})
	}
	if nTok < 1 {
		c.undecided("R2", "instance-floor", nil, "no store to the token field outside the constructor found")
	}

	// R6: the revision the heartbeat presents belongs to a write that carried the term's token.
	// The revision of a Create / takeover Update (which published a FRESH token) may enter the
	// revision field only in the claim-set unit, which stores that token with it; anywhere else
	// ("our own leftover acquisition re-created the record: adopt its revision") the term keeps
	// refreshing, under its old token, a record that was published with another one.
	{
		ops := map[string]StoreOp{}
		for _, op := range m.StoreOps() {
			ops[fmt.Sprintf("ownwrite:%s@%s", op.Call.Call.Method.Name(), m.P.pos(op.Call.Pos()))] = op
		}
		for _, f := range m.Funcs {
			if m.isCtorCode(f) {
				continue
			}
			eachInstr(f, func(in ssa.Instruction) {
				call, ok := in.(*ssa.Call)
				if !ok {
					return
				}
				fld, v, ok := m.atomicStore(call)
				if !ok || fld != m.Revision {
					return
				}
				var foreign []string
				for k := range m.Origins(v) {
					op, isWrite := ops[k]
					if !isWrite {
						continue
					}
					if cls := m.classifyOp(op); cls != "refresh" && !m.inClaimUnit(f) {
						foreign = append(foreign, cls+" "+k)
					}
				}
				sort.Strings(foreign)
				key := fmt.Sprintf("revision store #%d in %s belongs to a write under the term token", ordinalOf(f, in, func(x ssa.Instruction) bool {
					c2, ok := x.(*ssa.Call)
					if !ok {
						return false
					}
					f2, _, ok := m.atomicStore(c2)
					return ok && f2 == m.Revision
				}), shortFn(f))
				c.check(len(foreign) == 0, "R6", key, in, "revisions of writes that published a fresh token, stored outside the claim-set unit (which stores that token): %v", foreign)
			})
		}
	}

	// R3 (same rule instance as C01-R3): every refresh republishes the token field
	nRef := 0
	for _, op := range m.StoreOps() {
		if m.classifyOp(op) != "refresh" {
			continue
		}
		nRef++
		to := m.FieldOrigins(op.Call.Call.Args[1], "Token")
		c.check(to["field:"+m.Token] && to.all(func(k string) bool { return k == "field:"+m.Token || k == `const:""` }), "R3", "refresh republishes the term token in "+shortFn(op.Fn), op.Call, "origins of payload.Token: %s", to)
		ido := m.FieldOrigins(op.Call.Call.Args[1], "ID")
		c.check(ido.all(func(k string) bool { return k == "cfg:InstanceID" }), "R3", "refresh republishes the identity in "+shortFn(op.Fn), op.Call, "origins of payload.ID: %s", ido)
		// the token is read per refresh, under the election mutex, inside the loop (or in a helper
		// called from it): a token read once outside survives into a later term of the same loop
		la := m.Locks()
		tokLoads := m.OriginLoadsField(op.Call.Call.Args[1], "Token")
		okTok := len(tokLoads) > 0
		rf := m.refreshLoopFn()
		for _, ld := range tokLoads {
			h := la.MustBefore(ld)
			if !(h[m.implMuR()] || h[m.implMuW()]) {
				okTok = false
			}
			if rf != nil && ld.Parent() == rf && !inLoop(ld.Block()) {
				okTok = false
			}
		}
		c.check(okTok, "R3", "refresh reads the token in the per-tick critical section in "+shortFn(op.Fn), op.Call, "token field read under the election mutex inside the loop: %v", okTok)
	}
	if nRef == 0 {
		c.undecided("R3", "instance-floor", nil, "no refresh Update found")
	}

	// R4: Status().Token and Token() read the token field
	for _, name := range []string{"Token", "Status"} {
		f := m.method(name)
		if f == nil {
			c.undecided("R4", name+"() reads the token field", nil, "API method not found")
			continue
		}
		found := false
		for _, g := range sortedFns(m.staticReach(f, false)) {
			eachInstr(g, func(in ssa.Instruction) {
				if call, ok := in.(*ssa.Call); ok && m.isAtomicLoadOf(call, m.Token) {
					found = true
				}
			})
		}
		for _, b := range liveBlocks(f) {
			if ret, ok := b.Instrs[len(b.Instrs)-1].(*ssa.Return); ok && b != f.Recover && len(ret.Results) == 1 {
				o := m.Origins(returnValue(ret, 0))
				if name == "Status" {
					o = m.FieldOrigins(returnValue(ret, 0), "Token")
				}
				if o["field:"+m.Token] {
					found = true
				}
			}
		}
		c.check(found, "R4", name+"() reads the token field", firstInstr(f), "loads %s: %v", m.path(m.Token), found)
	}
	// R5 (shared with C02-R5)
	claimPublishedLastRule(c, "R5")
	if st := m.method("Status"); st != nil {
		// the Token field of the returned struct derives from the token field
		for _, b := range liveBlocks(st) {
			if ret, ok := b.Instrs[len(b.Instrs)-1].(*ssa.Return); ok && b != st.Recover {
				o := m.FieldOrigins(returnValue(ret, 0), "Token")
				c.check(o["field:"+m.Token] && o.all(func(k string) bool { return k == "field:"+m.Token || strings.HasPrefix(k, "const:") }), "R4", "Status().Token is the token field", ret, "origins %s", o)
				oid := m.FieldOrigins(returnValue(ret, 0), "Revision")
				c.check(oid["field:"+m.Revision], "R4", "Status().Revision is the revision field", ret, "origins %s", oid)
			}
		}
	}
}

// insideOnceAny: f runs only under a sync.Once: it is (nested in) a function passed to
// (*sync.Once).Do, or every call site of it (calls and go statements) is in such a function.
func (m *Model) insideOnceAny(f *ssa.Function) bool {
	if m.onceRoots == nil {
		m.onceRoots = map[*ssa.Function]bool{}
		for _, g := range m.Funcs {
			eachInstr(g, func(in ssa.Instruction) {
				if call, ok := isCallTo(valueOf(in), "(*sync.Once).Do"); ok && len(call.Call.Args) == 2 {
					for _, t := range m.funcValueTargets(call.Call.Args[1]) {
						m.onceRoots[t] = true
					}
				}
			})
		}
	}
	var only func(g *ssa.Function, seen map[*ssa.Function]bool) bool
	only = func(g *ssa.Function, seen map[*ssa.Function]bool) bool {
		if seen[g] {
			return true
		}
		seen[g] = true
		sites := m.callers[g]
		if m.onceRoots[g] {
			// a method value passed to Do may also be called directly
			for _, cs := range sites {
				if !only(cs.Caller, seen) {
					return false
				}
			}
			return true
		}
		if g.Parent() != nil {
			return only(g.Parent(), seen)
		}
		if len(sites) == 0 {
			return false
		}
		for _, cs := range sites {
			if !only(cs.Caller, seen) {
				return false
			}
		}
		return true
	}
	return only(f, map[*ssa.Function]bool{})
}
