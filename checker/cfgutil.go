package main

import (
	"fmt"
	"go/token"
	"go/types"
	"sort"
	"strings"

	"golang.org/x/tools/go/ssa"
)

// Lit is a literal known to hold in a block: the expression S evaluates to Truth.
// Comparisons are normalised to ==, <, <= (the others by negation / operand swap).
type Lit struct {
	S     *Sym
	Truth bool
	If    *ssa.If
}

func (l Lit) String() string {
	if l.Truth {
		return l.S.String()
	}
	return "NOT " + l.S.String()
}

// normLit strips negations and turns != into NOT ==.
func normLit(s *Sym, truth bool) (*Sym, bool) {
	for {
		switch {
		case s.Op == "not":
			s, truth = s.Args[0], !truth
		case s.Op == "bin" && s.Name == "!=":
			s, truth = &Sym{Op: "bin", Name: "==", Args: s.Args, V: s.V, Typ: s.Typ}, !truth
		case s.Op == "bin" && !truth && (s.Name == "<" || s.Name == "<=") && isIntegerSym(s.Args[0]) && isIntegerSym(s.Args[1]):
			// integers are totally ordered: NOT (a < b) == (b <= a), NOT (a <= b) == (b < a)
			op := "<="
			if s.Name == "<=" {
				op = "<"
			}
			s, truth = &Sym{Op: "bin", Name: op, Args: []*Sym{s.Args[1], s.Args[0]}, V: s.V, Typ: s.Typ}, true
		default:
			return s, truth
		}
	}
}

// isIntegerSym: the expression has an integer type (so comparisons on it can be negated by swapping).
func isIntegerSym(s *Sym) bool {
	var t types.Type
	if s.V != nil {
		t = s.V.Type()
	} else if s.Typ != nil {
		t = s.Typ
	}
	if t == nil {
		return false
	}
	b, ok := t.Underlying().(*types.Basic)
	return ok && b.Info()&types.IsInteger != 0
}

func (m *Model) litOf(cond ssa.Value, truth bool, ifi *ssa.If) Lit {
	s, t := normLit(m.Sym.Of(cond), truth)
	return Lit{S: s, Truth: t, If: ifi}
}

// Facts computes, for every block of f, the literals that hold on every path from
// the entry to that block (forward must-dataflow over branch conditions). With a
// non-nil spec (parameter name -> constant bool) branches on those parameters are
// resolved and dead edges pruned, which specialises the function for a call site
// that passes constants. live reports the blocks reachable under spec.
func (m *Model) Facts(f *ssa.Function, spec map[string]bool) (map[*ssa.BasicBlock]map[string]Lit, map[*ssa.BasicBlock]bool) {
	key := factKey{f, specString(spec)}
	if r, ok := m.facts[key]; ok {
		return r.in, r.live
	}
	in := map[*ssa.BasicBlock]map[string]Lit{}
	live := map[*ssa.BasicBlock]bool{}
	if len(f.Blocks) == 0 {
		return in, live
	}
	in[f.Blocks[0]] = map[string]Lit{}
	work := []*ssa.BasicBlock{f.Blocks[0]}
	for len(work) > 0 {
		b := work[0]
		work = work[1:]
		live[b] = true
		var ifi *ssa.If
		if len(b.Instrs) > 0 {
			ifi, _ = b.Instrs[len(b.Instrs)-1].(*ssa.If)
		}
		for i, s := range b.Succs {
			if deadEdge(b, i) {
				continue
			}
			out := map[string]Lit{}
			for k, l := range in[b] {
				out[k] = l
			}
			if ifi != nil && len(b.Succs) == 2 && b.Succs[0] != b.Succs[1] {
				l := m.litOf(ifi.Cond, i == 0, ifi)
				if spec != nil && l.S.Op == "param" {
					if val, ok := spec[strings.TrimPrefix(l.S.Name, "param:")]; ok {
						if val != l.Truth {
							continue // this edge is dead under spec
						}
					}
				}
				out[l.String()] = l
			}
			if in[s] == nil {
				in[s] = out
				work = append(work, s)
				continue
			}
			changed := false
			for k := range in[s] {
				if _, ok := out[k]; !ok {
					delete(in[s], k)
					changed = true
				}
			}
			if changed {
				work = append(work, s)
			}
		}
	}
	m.facts[key] = factResult{in, live}
	return in, live
}

type factKey struct {
	f    *ssa.Function
	spec string
}

type factResult struct {
	in   map[*ssa.BasicBlock]map[string]Lit
	live map[*ssa.BasicBlock]bool
}

func specString(spec map[string]bool) string {
	var parts []string
	for k, v := range spec {
		parts = append(parts, fmt.Sprintf("%s=%v", k, v))
	}
	sort.Strings(parts)
	return strings.Join(parts, ",")
}

// Guards returns the literals that hold on every path to block b.
func (m *Model) Guards(b *ssa.BasicBlock) []Lit {
	if g, ok := m.guards[b]; ok {
		return g
	}
	in, _ := m.Facts(b.Parent(), nil)
	var out []Lit
	for _, l := range in[b] {
		out = append(out, l)
	}
	sort.Slice(out, func(i, j int) bool { return out[i].String() < out[j].String() })
	m.guards[b] = out
	return out
}

// GuardsSpec is Guards under a parameter specialisation; ok is false if b is dead.
func (m *Model) GuardsSpec(b *ssa.BasicBlock, spec map[string]bool) (lits []Lit, ok bool) {
	in, live := m.Facts(b.Parent(), spec)
	if !live[b] {
		return nil, false
	}
	for _, l := range in[b] {
		lits = append(lits, l)
	}
	sort.Slice(lits, func(i, j int) bool { return lits[i].String() < lits[j].String() })
	return lits, true
}

// EdgeLits returns the literals holding on the CFG edge pred -> succ index i.
func (m *Model) EdgeLits(pred *ssa.BasicBlock, i int) []Lit {
	out := append([]Lit{}, m.Guards(pred)...)
	if ifi, ok := pred.Instrs[len(pred.Instrs)-1].(*ssa.If); ok && len(pred.Succs) == 2 && pred.Succs[0] != pred.Succs[1] {
		out = append(out, m.litOf(ifi.Cond, i == 0, ifi))
	}
	return out
}

// GuardsAt returns the guards of the instruction's block.
func (m *Model) GuardsAt(in ssa.Instruction) []Lit { return m.Guards(in.Block()) }

// InheritedGuards returns literals that hold at every static call site of f inside
// the library (transitively, depth-bounded). Only literals over shared-object paths
// and constants survive the intersection meaningfully; "go" sites are included only
// if includeGo (a guard at spawn time is not a guard at run time for mutable state).
func (m *Model) InheritedGuards(f *ssa.Function, includeGo bool, depth int) []Lit {
	if depth > 3 {
		return nil
	}
	var sites []CallSite
	if f.Parent() != nil {
		// closure: its creation site
		if mc := m.Sym.closureOf[f]; mc != nil {
			g := append([]Lit{}, m.Guards(mc.Block())...)
			g = append(g, m.InheritedGuards(mc.Parent(), includeGo, depth+1)...)
			return g
		}
		return nil
	}
	sites = m.callers[f]
	if len(sites) == 0 {
		return nil
	}
	var acc map[string]Lit
	for _, cs := range sites {
		if cs.IsGo && !includeGo {
			return nil
		}
		cur := map[string]Lit{}
		for _, l := range m.GuardsAt(cs.Instr) {
			cur[l.String()] = l
		}
		for _, l := range m.InheritedGuards(cs.Caller, includeGo, depth+1) {
			cur[l.String()] = l
		}
		if acc == nil {
			acc = cur
		} else {
			for k := range acc {
				if _, ok := cur[k]; !ok {
					delete(acc, k)
				}
			}
		}
	}
	var out []Lit
	for _, l := range acc {
		out = append(out, l)
	}
	sort.Slice(out, func(i, j int) bool { return out[i].String() < out[j].String() })
	return out
}

// AllGuards = local guards of the instruction + inherited guards of its function.
func (m *Model) AllGuards(in ssa.Instruction, includeGo bool) []Lit {
	g := append([]Lit{}, m.GuardsAt(in)...)
	return append(g, m.InheritedGuards(in.Parent(), includeGo, 0)...)
}

func litStrings(ls []Lit) []string {
	var out []string
	for _, l := range ls {
		out = append(out, l.String())
	}
	return out
}

// hasLit reports whether a literal with the given truth whose expression satisfies pred is present.
func hasLit(ls []Lit, truth bool, pred func(*Sym) bool) bool {
	for _, l := range ls {
		if l.Truth == truth && pred(l.S) {
			return true
		}
	}
	return false
}

// ---- instruction order / dominance -----------------------------------------

func instrIndex(in ssa.Instruction) int {
	for i, x := range in.Block().Instrs {
		if x == in {
			return i
		}
	}
	return -1
}

// dominatesInstr: a executes before b on every path to b.
func dominatesInstr(a, b ssa.Instruction) bool {
	if a.Parent() != b.Parent() {
		return false
	}
	if a.Block() == b.Block() {
		return instrIndex(a) < instrIndex(b)
	}
	return a.Block().Dominates(b.Block())
}

// ---- must-follow ------------------------------------------------------------

// mustFollow: on every path from just after `start` to a Return of the function, an
// instruction satisfying pred occurs. Edges for which skip(from, succIndex) is true
// count as satisfied (permitted skips); paths ending in panic count as satisfied.
// It returns false together with the position of an offending exit.
func mustFollow(start ssa.Instruction, pred func(ssa.Instruction) bool, skip func(from *ssa.BasicBlock, succ int) bool) (bool, ssa.Instruction) {
	return mustFollowExit(start, pred, skip, nil)
}

// mustFollowExit is mustFollow with permitted exits: a Return for which okExit is true counts as satisfied.
func mustFollowExit(start ssa.Instruction, pred func(ssa.Instruction) bool, skip func(from *ssa.BasicBlock, succ int) bool, okExit func(*ssa.Return) bool) (bool, ssa.Instruction) {
	fn := start.Parent()
	has := map[*ssa.BasicBlock]bool{}
	for _, b := range fn.Blocks {
		for _, in := range b.Instrs {
			if pred(in) {
				has[b] = true
				break
			}
		}
	}
	ok := map[*ssa.BasicBlock]bool{}
	for _, b := range fn.Blocks {
		ok[b] = true
	}
	exitOf := func(b *ssa.BasicBlock) (ssa.Instruction, bool) {
		last := b.Instrs[len(b.Instrs)-1]
		if r, isRet := last.(*ssa.Return); isRet {
			if okExit != nil && okExit(r) {
				return nil, false
			}
			return last, true
		}
		return nil, false
	}
	permitted := func(b *ssa.BasicBlock) bool {
		r, isRet := b.Instrs[len(b.Instrs)-1].(*ssa.Return)
		return isRet && okExit != nil && okExit(r)
	}
	blockOK := func(b *ssa.BasicBlock, from int) bool {
		for i := from; i < len(b.Instrs); i++ {
			if pred(b.Instrs[i]) {
				return true
			}
		}
		if _, isRet := exitOf(b); isRet {
			return false
		}
		if permitted(b) {
			return true
		}
		if _, isPanic := b.Instrs[len(b.Instrs)-1].(*ssa.Panic); isPanic {
			return true
		}
		for i, s := range b.Succs {
			if (skip != nil && skip(b, i)) || deadEdge(b, i) {
				continue
			}
			if !ok[s] {
				return false
			}
		}
		return true
	}
	for changed := true; changed; {
		changed = false
		for _, b := range fn.Blocks {
			if ok[b] && !has[b] && !blockOK(b, 0) {
				ok[b] = false
				changed = true
			}
		}
	}
	sb := start.Block()
	if blockOK(sb, instrIndex(start)+1) {
		return true, nil
	}
	// witness: find a reachable exit through non-ok blocks
	seen := map[*ssa.BasicBlock]bool{}
	var walk func(b *ssa.BasicBlock, from int) ssa.Instruction
	walk = func(b *ssa.BasicBlock, from int) ssa.Instruction {
		for i := from; i < len(b.Instrs); i++ {
			if pred(b.Instrs[i]) {
				return nil
			}
		}
		if r, isRet := exitOf(b); isRet {
			return r
		}
		for i, s := range b.Succs {
			if (skip != nil && skip(b, i)) || seen[s] || deadEdge(b, i) {
				continue
			}
			seen[s] = true
			if w := walk(s, 0); w != nil {
				return w
			}
		}
		return nil
	}
	return false, walk(sb, instrIndex(start)+1)
}

// reachableFromEdge: is an instruction satisfying pred reachable from successor #succ of block b?
func reachableFromEdge(b *ssa.BasicBlock, succ int, pred func(ssa.Instruction) bool) bool {
	seen := map[*ssa.BasicBlock]bool{}
	var walk func(x *ssa.BasicBlock) bool
	walk = func(x *ssa.BasicBlock) bool {
		if seen[x] {
			return false
		}
		seen[x] = true
		for _, in := range x.Instrs {
			if pred(in) {
				return true
			}
		}
		for _, s := range liveSuccs(x) {
			if walk(s) {
				return true
			}
		}
		return false
	}
	if deadEdge(b, succ) {
		return false
	}
	return walk(b.Succs[succ])
}

// reachableAfter: is an instruction satisfying pred reachable after `start` in its function?
func reachableAfter(start ssa.Instruction, pred func(ssa.Instruction) bool) ssa.Instruction {
	b := start.Block()
	for i := instrIndex(start) + 1; i < len(b.Instrs); i++ {
		if pred(b.Instrs[i]) {
			return b.Instrs[i]
		}
	}
	seen := map[*ssa.BasicBlock]bool{}
	var found ssa.Instruction
	var walk func(x *ssa.BasicBlock)
	walk = func(x *ssa.BasicBlock) {
		if seen[x] || found != nil {
			return
		}
		seen[x] = true
		for _, in := range x.Instrs {
			if pred(in) {
				found = in
				return
			}
		}
		for _, s := range liveSuccs(x) {
			walk(s)
		}
	}
	for _, s := range liveSuccs(b) {
		walk(s)
	}
	return found
}

// inLoop reports whether block b lies on a CFG cycle.
func inLoop(b *ssa.BasicBlock) bool {
	seen := map[*ssa.BasicBlock]bool{}
	var walk func(x *ssa.BasicBlock) bool
	walk = func(x *ssa.BasicBlock) bool {
		for _, s := range x.Succs {
			if s == b {
				return true
			}
			if !seen[s] {
				seen[s] = true
				if walk(s) {
					return true
				}
			}
		}
		return false
	}
	return walk(b)
}

// returnValue resolves result #i of a Return through the "defer-spilled" local that
// go/ssa introduces in functions with defers (store; rundefers; load; return).
func returnValue(ret *ssa.Return, i int) ssa.Value {
	v := ret.Results[i]
	u, ok := v.(*ssa.UnOp)
	if !ok || u.Op != token.MUL {
		return v
	}
	al, ok := u.X.(*ssa.Alloc)
	if !ok {
		return v
	}
	// last store to al before the load, scanning backwards through single-predecessor chains
	b := ret.Block()
	idx := instrIndex(u)
	for hops := 0; hops < 8; hops++ {
		for j := idx - 1; j >= 0; j-- {
			if st, ok := b.Instrs[j].(*ssa.Store); ok && st.Addr == al {
				return st.Val
			}
		}
		if len(b.Preds) != 1 {
			return v
		}
		b = b.Preds[0]
		idx = len(b.Instrs)
	}
	return v
}

// deadBlocks holds the blocks that cannot execute because a branch condition is a constant
// (`if false && ...`, `const debug = false; if debug {...}`). Rules never look into them.
var deadBlocks = map[*ssa.BasicBlock]bool{}
var deadDone = map[*ssa.Function]bool{}

func markDead(f *ssa.Function) {
	if deadDone[f] || len(f.Blocks) == 0 {
		return
	}
	deadDone[f] = true
	live := map[*ssa.BasicBlock]bool{}
	var walk func(b *ssa.BasicBlock)
	walk = func(b *ssa.BasicBlock) {
		if live[b] {
			return
		}
		live[b] = true
		if ifi, ok := b.Instrs[len(b.Instrs)-1].(*ssa.If); ok && len(b.Succs) == 2 {
			if k, isC := constBool(ifi.Cond); isC {
				if k {
					walk(b.Succs[0])
				} else {
					walk(b.Succs[1])
				}
				return
			}
		}
		for _, s := range b.Succs {
			walk(s)
		}
	}
	walk(f.Blocks[0])
	if f.Recover != nil {
		walk(f.Recover)
	}
	for _, b := range f.Blocks {
		if !live[b] {
			deadBlocks[b] = true
		}
	}
}

// liveSuccs returns the successors of b that can execute.
func liveSuccs(b *ssa.BasicBlock) []*ssa.BasicBlock {
	markDead(b.Parent())
	if ifi, ok := b.Instrs[len(b.Instrs)-1].(*ssa.If); ok && len(b.Succs) == 2 {
		if k, isC := constBool(ifi.Cond); isC {
			if k {
				return b.Succs[:1]
			}
			return b.Succs[1:]
		}
	}
	return b.Succs
}

// deadEdge: the edge b -> Succs[i] can never be taken.
func deadEdge(b *ssa.BasicBlock, i int) bool {
	if ifi, ok := b.Instrs[len(b.Instrs)-1].(*ssa.If); ok && len(b.Succs) == 2 {
		if k, isC := constBool(ifi.Cond); isC {
			return (i == 0) != k
		}
	}
	return false
}

// calls iterates over the call instructions (call, go, defer) of a function.
func eachCall(f *ssa.Function, fn func(ci ssa.CallInstruction)) {
	for _, b := range f.Blocks {
		for _, in := range b.Instrs {
			if ci, ok := in.(ssa.CallInstruction); ok {
				fn(ci)
			}
		}
	}
}

func eachInstr(f *ssa.Function, fn func(in ssa.Instruction)) {
	markDead(f)
	for _, b := range f.Blocks {
		if deadBlocks[b] {
			continue
		}
		for _, in := range b.Instrs {
			fn(in)
		}
	}
}

// withClosures returns f and all functions nested in it.
func withClosures(f *ssa.Function) []*ssa.Function {
	out := []*ssa.Function{f}
	for _, a := range f.AnonFuncs {
		out = append(out, withClosures(a)...)
	}
	return out
}

func fmtLits(ls []Lit) string {
	s := litStrings(ls)
	sort.Strings(s)
	return "{" + strings.Join(s, "; ") + "}"
}

var _ = fmt.Sprintf

// reachAvoid: is an instruction satisfying pred reachable from successor #succ of b without
// entering a block for which stop is true?
func reachAvoid(b *ssa.BasicBlock, succ int, pred func(ssa.Instruction) bool, stop func(*ssa.BasicBlock) bool) ssa.Instruction {
	seen := map[*ssa.BasicBlock]bool{}
	var found ssa.Instruction
	var walk func(x *ssa.BasicBlock)
	walk = func(x *ssa.BasicBlock) {
		if seen[x] || found != nil || (stop != nil && stop(x)) {
			return
		}
		seen[x] = true
		for _, in := range x.Instrs {
			if pred(in) {
				found = in
				return
			}
		}
		for _, s := range liveSuccs(x) {
			walk(s)
		}
	}
	if deadEdge(b, succ) {
		return nil
	}
	walk(b.Succs[succ])
	return found
}

// selectCaseOf decodes a literal "(k == select#0)": the select instruction and the chosen state.
func selectCaseOf(l Lit) (*ssa.Select, int, bool) {
	s := l.S
	if s.Op != "bin" || s.Name != "==" || !l.Truth {
		return nil, 0, false
	}
	for i := 0; i < 2; i++ {
		k, ok := s.Args[i].ConstInt()
		other := s.Args[1-i]
		if ok && other.Op == "extract" && other.Name == "0" {
			if sel, ok := other.Args[0].V.(*ssa.Select); ok {
				return sel, int(k), true
			}
		}
	}
	return nil, 0, false
}

// edgeDemotesAndExits: from successor #succ of b every path reaches a may-demote call before
// any Return and before the next blocking select (the next tick of a loop).
func (m *Model) edgeDemotesAndExits(b *ssa.BasicBlock, succ int) bool {
	hasDemote := func(x *ssa.BasicBlock) bool {
		for _, in := range x.Instrs {
			if call, ok := in.(*ssa.Call); ok {
				if g := call.Call.StaticCallee(); g != nil && m.isLib(g) && m.mayDemote(g, specFor(call, g), 0) {
					return true
				}
			}
		}
		return false
	}
	// some demote must be reachable at all
	if reachAvoid(b, succ, func(in ssa.Instruction) bool {
		call, ok := in.(*ssa.Call)
		if !ok {
			return false
		}
		g := call.Call.StaticCallee()
		return g != nil && m.isLib(g) && m.mayDemote(g, specFor(call, g), 0)
	}, nil) == nil {
		return false
	}
	escape := reachAvoid(b, succ, func(in ssa.Instruction) bool {
		if _, isRet := in.(*ssa.Return); isRet {
			return true
		}
		if s, ok := in.(*ssa.Select); ok && s.Blocking {
			return true
		}
		return false
	}, hasDemote)
	if escape != nil {
		return false
	}
	// after the demotion the function must return without another tick
	ok := true
	seen := map[*ssa.BasicBlock]bool{}
	var walk func(x *ssa.BasicBlock, demoted bool)
	walk = func(x *ssa.BasicBlock, demoted bool) {
		key := x
		if seen[key] && !demoted {
			return
		}
		if demoted {
			if seen[key] {
				return
			}
		}
		seen[key] = true
		d := demoted
		for _, in := range x.Instrs {
			if call, isCall := in.(*ssa.Call); isCall {
				if g := call.Call.StaticCallee(); g != nil && m.isLib(g) && m.mayDemote(g, specFor(call, g), 0) {
					d = true
				}
			}
			if s, isSel := in.(*ssa.Select); isSel && s.Blocking && d {
				ok = false
			}
		}
		for _, sx := range x.Succs {
			walk(sx, d)
		}
	}
	walk(b.Succs[succ], false)
	return ok
}

// liveBlocks returns the blocks of f that can execute (see deadBlocks).
func liveBlocks(f *ssa.Function) []*ssa.BasicBlock {
	markDead(f)
	var out []*ssa.BasicBlock
	for _, b := range f.Blocks {
		if !deadBlocks[b] {
			out = append(out, b)
		}
	}
	return out
}
