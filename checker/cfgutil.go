package main

import (
	"go/constant"
	"fmt"
	"go/token"
	"go/types"
	"sort"
	"strings"

	"golang.org/x/tools/go/ssa"
)

// Lit is a literal known to hold in a block: the expression S evaluates to Truth.
// Comparisons are normalised to ==, <, <= (the others by negation / operand swap).
type Lit struct {
	S     *Sym
	Truth bool
	If    *ssa.If
	// Derived: the literal was not tested on this path itself; it is implied by the tested
	// result of a library function (see resultFacts). Rules that enumerate the conditions a
	// statement depends on ignore derived literals (the tested result is the condition).
	Derived bool
}

func (l Lit) String() string {
	if l.Truth {
		return l.S.String()
	}
	return "NOT " + l.S.String()
}

// normLit strips negations and turns != into NOT ==.
func normLit(s *Sym, truth bool) (*Sym, bool) {
	for {
		switch {
		case s.Op == "not":
			s, truth = s.Args[0], !truth
		case s.Op == "bin" && s.Name == "!=":
			s, truth = &Sym{Op: "bin", Name: "==", Args: s.Args, V: s.V, Typ: s.Typ}, !truth
		case s.Op == "bin" && !truth && (s.Name == "<" || s.Name == "<=") && isIntegerSym(s.Args[0]) && isIntegerSym(s.Args[1]):
			// integers are totally ordered: NOT (a < b) == (b <= a), NOT (a <= b) == (b < a)
			op := "<="
			if s.Name == "<=" {
				op = "<"
			}
			s, truth = &Sym{Op: "bin", Name: op, Args: []*Sym{s.Args[1], s.Args[0]}, V: s.V, Typ: s.Typ}, true
		default:
			return s, truth
		}
	}
}

// isIntegerSym: the expression has an integer type (so comparisons on it can be negated by swapping).
func isIntegerSym(s *Sym) bool {
	var t types.Type
	if s.V != nil {
		t = s.V.Type()
	} else if s.Typ != nil {
		t = s.Typ
	}
	if t == nil {
		return false
	}
	b, ok := t.Underlying().(*types.Basic)
	return ok && b.Info()&types.IsInteger != 0
}

// litOfRaw is litOf without the integer rewriting NOT (a < b) -> (b <= a): the literal keeps the
// comparison of its value, so that its truth can be compared with an assumption about that value.
func (m *Model) litOfRaw(cond ssa.Value, truth bool) Lit {
	s := m.Sym.Of(cond)
	for {
		switch {
		case s.Op == "not":
			s, truth = s.Args[0], !truth
			continue
		case s.Op == "bin" && s.Name == "!=":
			s, truth = &Sym{Op: "bin", Name: "==", Args: s.Args, V: s.V, Typ: s.Typ}, !truth
			continue
		}
		break
	}
	return Lit{S: s, Truth: truth}
}

func (m *Model) litOf(cond ssa.Value, truth bool, ifi *ssa.If) Lit {
	s, t := normLit(m.Sym.Of(cond), truth)
	return Lit{S: s, Truth: t, If: ifi}
}

// Facts computes, for every block of f, the literals that hold on every path from
// the entry to that block (forward must-dataflow over branch conditions). With a
// non-nil spec (parameter name -> constant bool) branches on those parameters are
// resolved and dead edges pruned, which specialises the function for a call site
// that passes constants. live reports the blocks reachable under spec.
func (m *Model) Facts(f *ssa.Function, spec map[string]bool) (map[*ssa.BasicBlock]map[string]Lit, map[*ssa.BasicBlock]bool) {
	key := factKey{f, specString(spec)}
	if r, ok := m.facts[key]; ok {
		return r.in, r.live
	}
	// the facts imported from tested helper results are computed under the same specialisation
	// (a constant argument handed on to the helper prunes the helper's paths too)
	prevSpec := m.curSpec
	m.curSpec = spec
	defer func() { m.curSpec = prevSpec }()
	in := map[*ssa.BasicBlock]map[string]Lit{}
	live := map[*ssa.BasicBlock]bool{}
	if len(f.Blocks) == 0 {
		return in, live
	}
	in[f.Blocks[0]] = map[string]Lit{}
	work := []*ssa.BasicBlock{f.Blocks[0]}
	hasPhiCond := false
	for _, b := range f.Blocks {
		if len(b.Instrs) > 0 {
			if ifi, ok := b.Instrs[len(b.Instrs)-1].(*ssa.If); ok {
				v := ifi.Cond
				if u, isU := v.(*ssa.UnOp); isU && u.Op == token.NOT {
					v = u.X
				}
				if ph, isPhi := v.(*ssa.Phi); isPhi && ph.Block() == b {
					hasPhiCond = true
				}
			}
		}
	}
	for pass := 0; pass < 6; pass++ {
	if pass > 0 {
		// conditions threaded through a phi read the facts of the predecessors: run the transfer
		// again over every live block until nothing shrinks any more
		if !hasPhiCond {
			break
		}
		for _, b := range f.Blocks {
			if live[b] {
				work = append(work, b)
			}
		}
	}
	changedAny := false
	for len(work) > 0 {
		b := work[0]
		work = work[1:]
		live[b] = true
		var ifi *ssa.If
		if len(b.Instrs) > 0 {
			ifi, _ = b.Instrs[len(b.Instrs)-1].(*ssa.If)
		}
		for i, s := range b.Succs {
			if deadEdge(b, i) {
				continue
			}
			out := map[string]Lit{}
			for k, l := range in[b] {
				out[k] = l
			}
			if ifi != nil && len(b.Succs) == 2 && b.Succs[0] != b.Succs[1] {
				l := m.litOf(ifi.Cond, i == 0, ifi)
				if spec != nil && l.S.Op == "param" {
					if val, ok := spec[strings.TrimPrefix(l.S.Name, "param:")]; ok {
						if val != l.Truth {
							continue // this edge is dead under spec
						}
					}
				}
				out[l.String()] = l
				if thr, isPhiCond, feasible := m.threadBoolPhi(b, ifi, i == 0, in, spec); isPhiCond {
					// the condition is a boolean variable (a phi of constants and comparisons defined
					// in this block): the facts on this edge are those common to the incoming edges
					// whose value agrees with the branch taken
					if !feasible {
						continue
					}
					for k, tl := range thr {
						if _, own := out[k]; !own {
							out[k] = tl
						}
					}
				}
				if m.excludesEveryResult(out, l) {
					continue // the helper returns none but the constants this path has ruled out
				}
				for _, rl := range m.resultFacts(l) {
					// a literal the branch itself establishes keeps its If (and is not "derived")
					if _, own := out[rl.String()]; !own {
						out[rl.String()] = rl
					}
				}
			}
			if in[s] == nil {
				in[s] = out
				work = append(work, s)
				changedAny = true
				continue
			}
			changed := false
			for k := range in[s] {
				if _, ok := out[k]; !ok {
					delete(in[s], k)
					changed = true
				}
			}
			if changed {
				changedAny = true
				work = append(work, s)
			}
		}
	}
	if pass > 0 && !changedAny {
		break
	}
	}
	m.facts[key] = factResult{in, live}
	return in, live
}

// threadBoolPhi: the If of block b tests a boolean phi defined in b (possibly negated). For the
// successor taken when the test is `taken`, it returns the literals that hold on every incoming edge
// of b on which the phi's value agrees with that outcome (edge facts of the predecessor, its own
// branch literal, and the literal of the edge value), and whether any such edge exists.
func (m *Model) threadBoolPhi(b *ssa.BasicBlock, ifi *ssa.If, taken bool, in map[*ssa.BasicBlock]map[string]Lit, spec map[string]bool) (map[string]Lit, bool, bool) {
	v := ifi.Cond
	want := taken
	for d := 0; d < 3; d++ {
		u, isU := v.(*ssa.UnOp)
		if !isU || u.Op != token.NOT {
			break
		}
		v = u.X
		want = !want
	}
	ph, ok := v.(*ssa.Phi)
	if !ok || ph.Block() != b || len(ph.Edges) != len(b.Preds) {
		return nil, false, false
	}
	specDead := func(l Lit) bool {
		if spec != nil && l.S.Op == "param" {
			if val, has := spec[strings.TrimPrefix(l.S.Name, "param:")]; has && val != l.Truth {
				return true
			}
		}
		return false
	}
	var merged map[string]Lit
	any := false
	for j, e := range ph.Edges {
		pred := b.Preds[j]
		if in[pred] == nil {
			continue // not (yet) live
		}
		sj := -1
		for k, sx := range pred.Succs {
			if sx == b && !deadEdge(pred, k) {
				sj = k
			}
		}
		if sj < 0 {
			continue
		}
		ef := map[string]Lit{}
		for k, l := range in[pred] {
			ef[k] = l
		}
		if pif, ok := pred.Instrs[len(pred.Instrs)-1].(*ssa.If); ok && len(pred.Succs) == 2 && pred.Succs[0] != pred.Succs[1] {
			pl := m.litOf(pif.Cond, sj == 0, pif)
			if specDead(pl) {
				continue
			}
			ef[pl.String()] = pl
		}
		if c, isC := e.(*ssa.Const); isC {
			if c.Value == nil || constant.BoolVal(c.Value) != want {
				continue
			}
		} else {
			el := m.litOf(e, want, nil)
			if specDead(el) {
				continue
			}
			ef[el.String()] = el
		}
		if !any {
			merged, any = ef, true
			continue
		}
		for k := range merged {
			if _, ok := ef[k]; !ok {
				delete(merged, k)
			}
		}
	}
	return merged, true, any
}

type factKey struct {
	f    *ssa.Function
	spec string
}

type factResult struct {
	in   map[*ssa.BasicBlock]map[string]Lit
	live map[*ssa.BasicBlock]bool
}

func specString(spec map[string]bool) string {
	var parts []string
	for k, v := range spec {
		parts = append(parts, fmt.Sprintf("%s=%v", k, v))
	}
	sort.Strings(parts)
	return strings.Join(parts, ",")
}

// Guards returns the literals that hold on every path to block b.
func (m *Model) Guards(b *ssa.BasicBlock) []Lit {
	if g, ok := m.guards[b]; ok {
		return g
	}
	in, _ := m.Facts(b.Parent(), nil)
	var out []Lit
	for _, l := range in[b] {
		out = append(out, l)
	}
	sort.Slice(out, func(i, j int) bool { return out[i].String() < out[j].String() })
	m.guards[b] = out
	return out
}

// GuardsSpec is Guards under a parameter specialisation; ok is false if b is dead.
func (m *Model) GuardsSpec(b *ssa.BasicBlock, spec map[string]bool) (lits []Lit, ok bool) {
	in, live := m.Facts(b.Parent(), spec)
	if !live[b] {
		return nil, false
	}
	for _, l := range in[b] {
		lits = append(lits, l)
	}
	sort.Slice(lits, func(i, j int) bool { return lits[i].String() < lits[j].String() })
	return lits, true
}

// EdgeLits returns the literals holding on the CFG edge pred -> succ index i.
func (m *Model) EdgeLits(pred *ssa.BasicBlock, i int) []Lit {
	out := append([]Lit{}, m.Guards(pred)...)
	if ifi, ok := pred.Instrs[len(pred.Instrs)-1].(*ssa.If); ok && len(pred.Succs) == 2 && pred.Succs[0] != pred.Succs[1] {
		out = append(out, m.litOf(ifi.Cond, i == 0, ifi))
	}
	return out
}

// GuardsAt returns the guards of the instruction's block.
func (m *Model) GuardsAt(in ssa.Instruction) []Lit { return m.Guards(in.Block()) }

// InheritedGuards returns literals that hold at every static call site of f inside
// the library (transitively, depth-bounded). Only literals over shared-object paths
// and constants survive the intersection meaningfully; "go" sites are included only
// if includeGo (a guard at spawn time is not a guard at run time for mutable state).
func (m *Model) InheritedGuards(f *ssa.Function, includeGo bool, depth int) []Lit {
	if depth > 3 {
		return nil
	}
	var sites []CallSite
	if f.Parent() != nil {
		// closure: its creation site
		if mc := m.Sym.closureOf[f]; mc != nil {
			g := append([]Lit{}, m.Guards(mc.Block())...)
			g = append(g, m.InheritedGuards(mc.Parent(), includeGo, depth+1)...)
			return g
		}
		return nil
	}
	sites = m.callers[f]
	if len(sites) == 0 {
		return nil
	}
	var acc map[string]Lit
	for _, cs := range sites {
		if cs.IsGo && !includeGo {
			return nil
		}
		cur := map[string]Lit{}
		// a caller that is itself called from one place only: its parameters read as the arguments
		// of that call (`if notify { ... }` in a helper is `if wasLeader && hasCallback` at its site)
		var sub map[string]*Sym
		if h := cs.Caller; h.Parent() == nil {
			if hs := m.callers[h]; len(hs) == 1 && !hs[0].IsGo && !hs[0].IsDef {
				args := hs[0].Instr.Common().Args
				sub = map[string]*Sym{}
				for j, p := range h.Params {
					if j < len(args) {
						sub["param:"+p.Name()] = m.Sym.Of(args[j])
					}
				}
			}
		}
		for _, l := range m.GuardsAt(cs.Instr) {
			if sub != nil {
				l.S = substSym(l.S, sub)
			}
			cur[l.String()] = l
		}
		for _, l := range m.InheritedGuards(cs.Caller, includeGo, depth+1) {
			cur[l.String()] = l
		}
		if acc == nil {
			acc = cur
		} else {
			for k := range acc {
				if _, ok := cur[k]; !ok {
					delete(acc, k)
				}
			}
		}
	}
	var out []Lit
	for _, l := range acc {
		out = append(out, l)
	}
	sort.Slice(out, func(i, j int) bool { return out[i].String() < out[j].String() })
	return out
}

// AllGuards = local guards of the instruction + inherited guards of its function.
func (m *Model) AllGuards(in ssa.Instruction, includeGo bool) []Lit {
	g := append([]Lit{}, m.GuardsAt(in)...)
	return append(g, m.InheritedGuards(in.Parent(), includeGo, 0)...)
}

func litStrings(ls []Lit) []string {
	var out []string
	for _, l := range ls {
		out = append(out, l.String())
	}
	return out
}

// hasLit reports whether a literal with the given truth whose expression satisfies pred is present.
func hasLit(ls []Lit, truth bool, pred func(*Sym) bool) bool {
	for _, l := range ls {
		if l.Truth == truth && pred(l.S) {
			return true
		}
	}
	return false
}

// ---- instruction order / dominance -----------------------------------------

func instrIndex(in ssa.Instruction) int {
	for i, x := range in.Block().Instrs {
		if x == in {
			return i
		}
	}
	return -1
}

// dominatesInstr: a executes before b on every path to b.
func dominatesInstr(a, b ssa.Instruction) bool {
	if a.Parent() != b.Parent() {
		return false
	}
	if a.Block() == b.Block() {
		return instrIndex(a) < instrIndex(b)
	}
	return a.Block().Dominates(b.Block())
}

// ---- must-follow ------------------------------------------------------------

// mustFollow: on every path from just after `start` to a Return of the function, an
// instruction satisfying pred occurs. Edges for which skip(from, succIndex) is true
// count as satisfied (permitted skips); paths ending in panic count as satisfied.
// It returns false together with the position of an offending exit.
func mustFollow(start ssa.Instruction, pred func(ssa.Instruction) bool, skip func(from *ssa.BasicBlock, succ int) bool) (bool, ssa.Instruction) {
	return mustFollowExit(start, pred, skip, nil)
}

// mustFollowExit is mustFollow with permitted exits: a Return for which okExit is true counts as satisfied.
func mustFollowExit(start ssa.Instruction, pred func(ssa.Instruction) bool, skip func(from *ssa.BasicBlock, succ int) bool, okExit func(*ssa.Return) bool) (bool, ssa.Instruction) {
	fn := start.Parent()
	has := map[*ssa.BasicBlock]bool{}
	for _, b := range fn.Blocks {
		for _, in := range b.Instrs {
			if pred(in) {
				has[b] = true
				break
			}
		}
	}
	ok := map[*ssa.BasicBlock]bool{}
	for _, b := range fn.Blocks {
		ok[b] = true
	}
	exitOf := func(b *ssa.BasicBlock) (ssa.Instruction, bool) {
		last := b.Instrs[len(b.Instrs)-1]
		if r, isRet := last.(*ssa.Return); isRet {
			if okExit != nil && okExit(r) {
				return nil, false
			}
			return last, true
		}
		return nil, false
	}
	permitted := func(b *ssa.BasicBlock) bool {
		r, isRet := b.Instrs[len(b.Instrs)-1].(*ssa.Return)
		return isRet && okExit != nil && okExit(r)
	}
	blockOK := func(b *ssa.BasicBlock, from int) bool {
		for i := from; i < len(b.Instrs); i++ {
			if pred(b.Instrs[i]) {
				return true
			}
		}
		if _, isRet := exitOf(b); isRet {
			return false
		}
		if permitted(b) {
			return true
		}
		if _, isPanic := b.Instrs[len(b.Instrs)-1].(*ssa.Panic); isPanic {
			return true
		}
		for i, s := range b.Succs {
			if (skip != nil && skip(b, i)) || deadEdge(b, i) {
				continue
			}
			if !ok[s] {
				return false
			}
		}
		return true
	}
	for changed := true; changed; {
		changed = false
		for _, b := range fn.Blocks {
			if ok[b] && !has[b] && !blockOK(b, 0) {
				ok[b] = false
				changed = true
			}
		}
	}
	sb := start.Block()
	if blockOK(sb, instrIndex(start)+1) {
		return true, nil
	}
	// witness: find a reachable exit through non-ok blocks
	seen := map[*ssa.BasicBlock]bool{}
	var walk func(b *ssa.BasicBlock, from int) ssa.Instruction
	walk = func(b *ssa.BasicBlock, from int) ssa.Instruction {
		for i := from; i < len(b.Instrs); i++ {
			if pred(b.Instrs[i]) {
				return nil
			}
		}
		if r, isRet := exitOf(b); isRet {
			return r
		}
		for i, s := range b.Succs {
			if (skip != nil && skip(b, i)) || seen[s] || deadEdge(b, i) {
				continue
			}
			seen[s] = true
			if w := walk(s, 0); w != nil {
				return w
			}
		}
		return nil
	}
	return false, walk(sb, instrIndex(start)+1)
}

// reachableFromEdge: is an instruction satisfying pred reachable from successor #succ of block b?
func reachableFromEdge(b *ssa.BasicBlock, succ int, pred func(ssa.Instruction) bool) bool {
	seen := map[*ssa.BasicBlock]bool{}
	var walk func(x *ssa.BasicBlock) bool
	walk = func(x *ssa.BasicBlock) bool {
		if seen[x] {
			return false
		}
		seen[x] = true
		for _, in := range x.Instrs {
			if pred(in) {
				return true
			}
		}
		for _, s := range liveSuccs(x) {
			if walk(s) {
				return true
			}
		}
		return false
	}
	if deadEdge(b, succ) {
		return false
	}
	return walk(b.Succs[succ])
}

// reachableAfter: is an instruction satisfying pred reachable after `start` in its function?
func reachableAfter(start ssa.Instruction, pred func(ssa.Instruction) bool) ssa.Instruction {
	b := start.Block()
	for i := instrIndex(start) + 1; i < len(b.Instrs); i++ {
		if pred(b.Instrs[i]) {
			return b.Instrs[i]
		}
	}
	seen := map[*ssa.BasicBlock]bool{}
	var found ssa.Instruction
	var walk func(x *ssa.BasicBlock)
	walk = func(x *ssa.BasicBlock) {
		if seen[x] || found != nil {
			return
		}
		seen[x] = true
		for _, in := range x.Instrs {
			if pred(in) {
				found = in
				return
			}
		}
		for _, s := range liveSuccs(x) {
			walk(s)
		}
	}
	for _, s := range liveSuccs(b) {
		walk(s)
	}
	return found
}

// inLoop reports whether block b lies on a CFG cycle.
func inLoop(b *ssa.BasicBlock) bool {
	seen := map[*ssa.BasicBlock]bool{}
	var walk func(x *ssa.BasicBlock) bool
	walk = func(x *ssa.BasicBlock) bool {
		for _, s := range x.Succs {
			if s == b {
				return true
			}
			if !seen[s] {
				seen[s] = true
				if walk(s) {
					return true
				}
			}
		}
		return false
	}
	return walk(b)
}

// returnValue resolves result #i of a Return through the "defer-spilled" local that
// go/ssa introduces in functions with defers (store; rundefers; load; return).
func returnValue(ret *ssa.Return, i int) ssa.Value {
	v := ret.Results[i]
	// named results with a defer are spilled twice (`*r = x; t = *r; *r = t; rundefers; t' = *r`)
	for n := 0; n < 4; n++ {
		w := lastStoreBefore(v)
		if w == nil {
			break
		}
		v = w
	}
	return v
}

// lastStoreBefore: v is a load of a local cell; the value of the last store to that cell before
// the load, scanning backwards through single-predecessor chains (nil when there is none or the
// cell escapes into a closure).
func lastStoreBefore(v ssa.Value) ssa.Value {
	u, ok := v.(*ssa.UnOp)
	if !ok || u.Op != token.MUL {
		return nil
	}
	al, ok := u.X.(*ssa.Alloc)
	if !ok {
		return nil
	}
	for _, r := range *al.Referrers() {
		switch r := r.(type) {
		case *ssa.Store:
			if r.Addr != al {
				return nil
			}
		case *ssa.UnOp, *ssa.DebugRef:
		default:
			return nil
		}
	}
	b := u.Block()
	idx := instrIndex(u)
	for hops := 0; hops < 8; hops++ {
		for j := idx - 1; j >= 0; j-- {
			if st, ok := b.Instrs[j].(*ssa.Store); ok && st.Addr == al {
				return st.Val
			}
		}
		if len(b.Preds) != 1 {
			return nil
		}
		b = b.Preds[0]
		idx = len(b.Instrs)
	}
	return nil
}

// deadBlocks holds the blocks that cannot execute because a branch condition is a constant
// (`if false && ...`, `const debug = false; if debug {...}`). Rules never look into them.
var deadBlocks = map[*ssa.BasicBlock]bool{}
var deadDone = map[*ssa.Function]bool{}

func markDead(f *ssa.Function) {
	if deadDone[f] || len(f.Blocks) == 0 {
		return
	}
	deadDone[f] = true
	live := map[*ssa.BasicBlock]bool{}
	var walk func(b *ssa.BasicBlock)
	walk = func(b *ssa.BasicBlock) {
		if live[b] {
			return
		}
		live[b] = true
		if ifi, ok := b.Instrs[len(b.Instrs)-1].(*ssa.If); ok && len(b.Succs) == 2 {
			if k, isC := constBool(ifi.Cond); isC {
				if k {
					walk(b.Succs[0])
				} else {
					walk(b.Succs[1])
				}
				return
			}
		}
		for _, s := range b.Succs {
			walk(s)
		}
	}
	walk(f.Blocks[0])
	if f.Recover != nil {
		walk(f.Recover)
	}
	for _, b := range f.Blocks {
		if !live[b] {
			deadBlocks[b] = true
		}
	}
}

// liveSuccs returns the successors of b that can execute.
func liveSuccs(b *ssa.BasicBlock) []*ssa.BasicBlock {
	markDead(b.Parent())
	if ifi, ok := b.Instrs[len(b.Instrs)-1].(*ssa.If); ok && len(b.Succs) == 2 {
		if k, isC := constBool(ifi.Cond); isC {
			if k {
				return b.Succs[:1]
			}
			return b.Succs[1:]
		}
	}
	return b.Succs
}

// deadEdge: the edge b -> Succs[i] can never be taken.
func deadEdge(b *ssa.BasicBlock, i int) bool {
	if ifi, ok := b.Instrs[len(b.Instrs)-1].(*ssa.If); ok && len(b.Succs) == 2 {
		if k, isC := constBool(ifi.Cond); isC {
			return (i == 0) != k
		}
	}
	return false
}

// calls iterates over the call instructions (call, go, defer) of a function.
func eachCall(f *ssa.Function, fn func(ci ssa.CallInstruction)) {
	for _, b := range f.Blocks {
		for _, in := range b.Instrs {
			if ci, ok := in.(ssa.CallInstruction); ok {
				fn(ci)
			}
		}
	}
}

func eachInstr(f *ssa.Function, fn func(in ssa.Instruction)) {
	markDead(f)
	for _, b := range f.Blocks {
		if deadBlocks[b] {
			continue
		}
		for _, in := range b.Instrs {
			fn(in)
		}
	}
}

// withClosures returns f and all functions nested in it.
func withClosures(f *ssa.Function) []*ssa.Function {
	out := []*ssa.Function{f}
	for _, a := range f.AnonFuncs {
		out = append(out, withClosures(a)...)
	}
	return out
}

func fmtLits(ls []Lit) string {
	s := litStrings(ls)
	sort.Strings(s)
	return "{" + strings.Join(s, "; ") + "}"
}

var _ = fmt.Sprintf

// reachAvoid: is an instruction satisfying pred reachable from successor #succ of b without
// entering a block for which stop is true?
func reachAvoid(b *ssa.BasicBlock, succ int, pred func(ssa.Instruction) bool, stop func(*ssa.BasicBlock) bool) ssa.Instruction {
	seen := map[*ssa.BasicBlock]bool{}
	var found ssa.Instruction
	var walk func(x *ssa.BasicBlock)
	walk = func(x *ssa.BasicBlock) {
		if seen[x] || found != nil || (stop != nil && stop(x)) {
			return
		}
		seen[x] = true
		for _, in := range x.Instrs {
			if pred(in) {
				found = in
				return
			}
		}
		for _, s := range liveSuccs(x) {
			walk(s)
		}
	}
	if deadEdge(b, succ) {
		return nil
	}
	walk(b.Succs[succ])
	return found
}

// selectCaseOf decodes a literal "(k == select#0)": the select instruction and the chosen state.
func selectCaseOf(l Lit) (*ssa.Select, int, bool) {
	s := l.S
	if s.Op != "bin" || s.Name != "==" || !l.Truth {
		return nil, 0, false
	}
	for i := 0; i < 2; i++ {
		k, ok := s.Args[i].ConstInt()
		other := s.Args[1-i]
		if ok && other.Op == "extract" && other.Name == "0" {
			if sel, ok := other.Args[0].V.(*ssa.Select); ok {
				return sel, int(k), true
			}
		}
	}
	return nil, 0, false
}

// edgeDemotesAndExits: from successor #succ of b every path reaches a may-demote call before
// any Return and before the next blocking select (the next tick of a loop).
func (m *Model) edgeDemotesAndExits(b *ssa.BasicBlock, succ int) bool {
	isDemote := func(in ssa.Instruction) bool {
		call, ok := in.(*ssa.Call)
		if !ok {
			return false
		}
		g := call.Call.StaticCallee()
		return g != nil && m.isLib(g) && m.mayDemote(g, specFor(call, g), 0)
	}
	ok, ends := true, 0
	m.explore(b, succ, 0, func(in ssa.Instruction, flag int) (int, bool) {
		if isDemote(in) {
			return 1, false
		}
		if s, isSel := in.(*ssa.Select); isSel && s.Blocking {
			// the next tick: before a demotion (escaped) or after it (the loop goes on)
			ok = false
			return flag, true
		}
		return flag, false
	}, func(last ssa.Instruction, flag int) {
		ends++
		if flag == 0 {
			ok = false // returned without a demotion
		}
	})
	return ok && ends > 0
}

// liveBlocks returns the blocks of f that can execute (see deadBlocks).
func liveBlocks(f *ssa.Function) []*ssa.BasicBlock {
	markDead(f)
	var out []*ssa.BasicBlock
	for _, b := range f.Blocks {
		if !deadBlocks[b] {
			out = append(out, b)
		}
	}
	return out
}


// resultFacts: what a branch on the result of a library function implies about that function's
// execution. If l compares the result of a static call of a library function h with a constant
// (or is a boolean result itself), the returns of h that are consistent with l are collected;
// the literals that hold at all of them (with h's parameters replaced by the arguments) and the
// event "a may-demote call was passed on every path to them" hold at the branch too.
// This keeps guard-based rules indifferent to extracting a piece of a function into a helper
// that reports the outcome through its result.
func (m *Model) resultFacts(l Lit) []Lit {
	paths, ok := m.resultPaths(l)
	if !ok || len(paths) == 0 {
		return nil
	}
	var out []Lit
	for k, x := range paths[0] {
		inAll := true
		for _, p := range paths[1:] {
			if _, ok := p[k]; !ok {
				inAll = false
			}
		}
		if inAll {
			out = append(out, x)
		}
	}
	sort.Slice(out, func(i, j int) bool { return out[i].String() < out[j].String() })
	return out
}

// resultPaths: for a literal that tests the result of a static call of a library function, the
// facts of each return path of that function consistent with the test (keyed by their text):
// the literals holding at the return, with the callee's parameters replaced by the arguments and
// marked Derived, plus the event "passed-may-demote" if every path to that return passes a
// may-demote call. ok is false if l is not such a test (or the callee is being analysed already).
func (m *Model) resultPaths(l Lit) ([]map[string]Lit, bool) {
	call, idx, want, neg, ok := m.resultTest(l)
	if !ok {
		return nil, false
	}
	h := call.Call.StaticCallee()
	if h == nil || !m.isLib(h) || h.Blocks == nil || m.rfOnStack[h] {
		return nil, false
	}
	// constants (and specialised parameters of the caller) handed to the helper
	var hspec map[string]bool
	for i, p := range h.Params {
		if i >= len(call.Call.Args) {
			break
		}
		a := call.Call.Args[i]
		if b, isC := constBool(a); isC {
			if hspec == nil {
				hspec = map[string]bool{}
			}
			hspec[p.Name()] = b
		} else if ap, isP := a.(*ssa.Parameter); isP && m.curSpec != nil {
			if b, has := m.curSpec[ap.Name()]; has {
				if hspec == nil {
					hspec = map[string]bool{}
				}
				hspec[p.Name()] = b
			}
		}
	}
	key := fmt.Sprintf("%p|%d|%s|%v|%s", call, idx, want, neg, specString(hspec))
	if m.rfOnStack == nil {
		m.rfOnStack = map[*ssa.Function]bool{}
		m.rpMemo = map[string][]map[string]Lit{}
	}
	if r, ok := m.rpMemo[key]; ok {
		return r, true
	}
	m.rfOnStack[h] = true
	defer delete(m.rfOnStack, h)

	sub := map[string]*Sym{}
	for i, p := range h.Params {
		if i < len(call.Call.Args) {
			sub["param:"+p.Name()] = m.Sym.Of(call.Call.Args[i])
		}
	}
	var curBlock *ssa.BasicBlock // the block whose return (or phi edge) is being judged
	consistent := func(v ssa.Value) bool {
		k, isC := v.(*ssa.Const)
		if !isC {
			// a value that cannot be nil is inconsistent with "result == nil"
			if want == "nil" && m.knownNonNil(v, curBlock) {
				return neg
			}
			return true
		}
		return (constString(k) == want) != neg
	}
	hasDemote := func(x *ssa.BasicBlock) bool {
		for _, in := range x.Instrs {
			if c2, ok := in.(*ssa.Call); ok {
				if g := c2.Call.StaticCallee(); g != nil && m.isLib(g) && m.mayDemote(g, specFor(c2, g), 0) {
					return true
				}
			}
		}
		return false
	}
	passesDemote := func(b *ssa.BasicBlock) bool {
		if hasDemote(b) {
			return true
		}
		return !cutReach(b, func(pred *ssa.BasicBlock, succ int) bool { return hasDemote(pred) })
	}
	export := func(lits []Lit, demote bool) map[string]Lit {
		out := map[string]Lit{}
		for _, x := range lits {
			if x.S.Op == "event" {
				x.Derived = true
				out[x.String()] = x
				continue
			}
			ns := substSym(x.S, sub)
			if symMentions(ns, "param:") && ns == x.S {
				continue // a parameter of the callee that cannot be expressed in the caller
			}
			nl := Lit{S: ns, Truth: x.Truth, If: x.If, Derived: true}
			out[nl.String()] = nl
		}
		if demote {
			e := Lit{S: &Sym{Op: "event", Name: "passed-may-demote"}, Truth: true, Derived: true}
			out[e.String()] = e
		}
		return out
	}
	// withValue: a boolean result that is not a constant carries its own truth: returning `a && b`
	// as true means b held on that path
	wantBool, isBoolWant := false, false
	if want == "true" || want == "false" {
		isBoolWant = true
		wantBool = (want == "true") != neg
	}
	withValue := func(lits []Lit, v ssa.Value) []Lit {
		if !isBoolWant || v == nil || !isBoolType(v.Type()) {
			return lits
		}
		if _, isC := v.(*ssa.Const); isC {
			return lits
		}
		return append(append([]Lit{}, lits...), m.litOf(v, wantBool, nil))
	}
	// ... and a result that is handed on unchanged (return payload, err with err the error of the
	// decode): "result == nil" is "that value == nil"
	withValue0 := withValue
	withValue = func(lits []Lit, v ssa.Value) []Lit {
		lits = withValue0(lits, v)
		if want != "nil" || v == nil {
			return lits
		}
		if _, isC := v.(*ssa.Const); isC {
			return lits
		}
		if _, isPhi := v.(*ssa.Phi); isPhi {
			return lits
		}
		sv := m.Sym.Of(v)
		if sv.V == nil {
			sv.V = v
		}
		return append(append([]Lit{}, lits...), Lit{S: &Sym{Op: "bin", Name: "==", Args: []*Sym{sv, {Op: "const", Name: "nil"}}}, Truth: !neg})
	}
	var paths []map[string]Lit
	hfacts, live := m.Facts(h, hspec)
	guardsOf := func(b *ssa.BasicBlock) []Lit {
		if hspec == nil {
			return m.Guards(b)
		}
		var lits []Lit
		for _, x := range hfacts[b] {
			lits = append(lits, x)
		}
		sort.Slice(lits, func(i, j int) bool { return lits[i].String() < lits[j].String() })
		return lits
	}
	edgeLitsOf := func(pred *ssa.BasicBlock, si int) []Lit {
		if hspec == nil {
			return m.EdgeLits(pred, si)
		}
		out := guardsOf(pred)
		if ifi, ok := pred.Instrs[len(pred.Instrs)-1].(*ssa.If); ok && len(pred.Succs) == 2 && pred.Succs[0] != pred.Succs[1] {
			out = append(out, m.litOf(ifi.Cond, si == 0, ifi))
		}
		return out
	}
	specDead := func(pred *ssa.BasicBlock, si int) bool {
		if hspec == nil {
			return false
		}
		if ifi, ok := pred.Instrs[len(pred.Instrs)-1].(*ssa.If); ok && len(pred.Succs) == 2 {
			l := m.litOf(ifi.Cond, si == 0, ifi)
			if l.S.Op == "param" {
				if val, has := hspec[strings.TrimPrefix(l.S.Name, "param:")]; has && val != l.Truth {
					return true
				}
			}
		}
		return false
	}
	for _, b := range h.Blocks {
		if !live[b] || b == h.Recover {
			continue
		}
		ret, isRet := b.Instrs[len(b.Instrs)-1].(*ssa.Return)
		if !isRet || idx >= len(ret.Results) {
			continue
		}
		v := returnValue(ret, idx)
		curBlock = b
		if phi, isPhi := v.(*ssa.Phi); isPhi && phi.Block() == b {
			for i, e := range phi.Edges {
				curBlock = b.Preds[i]
				if !consistent(e) {
					continue
				}
				pred := b.Preds[i]
				si := 0
				for j, sx := range pred.Succs {
					if sx == b {
						si = j
					}
				}
				if deadEdge(pred, si) || !live[pred] || specDead(pred, si) {
					continue
				}
				paths = append(paths, export(withValue(edgeLitsOf(pred, si), e), passesDemote(pred) || hasDemote(b)))
			}
			continue
		}
		if !consistent(v) {
			continue
		}
		if len(b.Preds) > 1 && !hasDemote(b) {
			// one path per incoming edge: a return shared by several conditions (a || b) keeps
			// the condition of each
			for _, pred := range b.Preds {
				for si, sx := range pred.Succs {
					if sx == b && !deadEdge(pred, si) && live[pred] && !specDead(pred, si) {
						paths = append(paths, export(withValue(edgeLitsOf(pred, si), v), passesDemote(pred)))
					}
				}
			}
			continue
		}
		paths = append(paths, export(withValue(guardsOf(b), v), passesDemote(b)))
	}
	m.rpMemo[key] = paths
	return paths, true
}

// resultTest recognises a literal over the result of a static call: the boolean result itself,
// result == constant, or the same over one component of a tuple result.
func (m *Model) resultTest(l Lit) (call *ssa.Call, idx int, want string, neg bool, ok bool) {
	asCall := func(s *Sym) (*ssa.Call, int, bool) {
		if s == nil || s.V == nil {
			return nil, 0, false
		}
		v := s.V
		for {
			switch x := v.(type) {
			case *ssa.Convert:
				v = x.X
				continue
			case *ssa.ChangeType:
				v = x.X
				continue
			}
			break
		}
		if ex, isEx := v.(*ssa.Extract); isEx {
			if c, isCall := ex.Tuple.(*ssa.Call); isCall && c.Call.StaticCallee() != nil {
				return c, ex.Index, true
			}
			return nil, 0, false
		}
		if c, isCall := v.(*ssa.Call); isCall && c.Call.StaticCallee() != nil {
			return c, 0, true
		}
		return nil, 0, false
	}
	if c, i, isCall := asCall(l.S); isCall {
		if b, isBasic := l.S.V.Type().Underlying().(*types.Basic); isBasic && b.Info()&types.IsBoolean != 0 {
			return c, i, "true", !l.Truth, true
		}
	}
	if l.S.Op == "bin" && l.S.Name == "==" && len(l.S.Args) == 2 {
		for i := 0; i < 2; i++ {
			if c, ix, isCall := asCall(l.S.Args[i]); isCall && l.S.Args[1-i].Op == "const" {
				return c, ix, l.S.Args[1-i].Name, !l.Truth, true
			}
		}
	}
	return nil, 0, "", false, false
}

// constResults: the constants a library function returns at result #idx, when every return
// (of a function without a recover block) returns a constant there.
func (m *Model) constResults(f *ssa.Function, idx int) (map[string]bool, bool) {
	if f == nil || f.Blocks == nil || f.Recover != nil || !m.isLib(f) {
		return nil, false
	}
	out := map[string]bool{}
	for _, b := range liveBlocks(f) {
		ret, ok := b.Instrs[len(b.Instrs)-1].(*ssa.Return)
		if !ok {
			continue
		}
		if idx >= len(ret.Results) {
			return nil, false
		}
		k, isC := returnValue(ret, idx).(*ssa.Const)
		if !isC {
			return nil, false
		}
		out[constString(k)] = true
	}
	return out, len(out) > 0
}

// excludesEveryResult: l (just added to facts) says "result of call f(...) != c", and with the other
// literals of that kind in facts every constant f can return is excluded: the edge is infeasible
// (the default branch of an exhaustive switch over a helper's enum result).
func (m *Model) excludesEveryResult(facts map[string]Lit, l Lit) bool {
	call, idx, _, neg, ok := m.resultTest(l)
	if !ok || !neg {
		return false
	}
	cands, ok := m.constResults(call.Call.StaticCallee(), idx)
	if !ok {
		return false
	}
	excluded := map[string]bool{}
	for _, x := range facts {
		if c2, i2, w2, n2, ok := m.resultTest(x); ok && n2 && c2 == call && i2 == idx {
			excluded[w2] = true
		}
	}
	for c := range cands {
		if !excluded[c] {
			return false
		}
	}
	return true
}

// hasEvent: the guards contain the event pseudo-literal.
func hasEvent(gs []Lit, name string) bool {
	for _, l := range gs {
		if l.S.Op == "event" && l.S.Name == name {
			return true
		}
	}
	return false
}

// ---- path exploration that follows a helper's return into its only caller ------------------

// explore walks every path from successor #succ of block b. step is called for each
// instruction with the path's flag and returns the new flag and whether the path ends there.
// At a Return of a function that has exactly one call site in the library (a plain call, not go
// or defer) the walk continues after that call in the caller, remembering the constant results
// that were returned; branches of the caller that test those results are followed only along
// the edge consistent with them. Where a path cannot be continued (a Return of an entry point,
// a panic) atEnd is called with the last instruction. Extracting a part of a loop body into a
// function that reports its outcome through its result therefore leaves the explored paths unchanged.
func (m *Model) explore(b *ssa.BasicBlock, succ int, flag int, step func(in ssa.Instruction, flag int) (int, bool), atEnd func(last ssa.Instruction, flag int)) {
	m.exploreImpl(b, succ, nil, flag, step, atEnd)
}

// exploreAssuming is exploreFrom under assumed truth values of boolean SSA values: branches on
// them are followed only along the consistent edge, and when one is returned by a helper its
// assumed value is what the caller's test of that result sees.
func (m *Model) exploreAssuming(start ssa.Instruction, assume map[ssa.Value]bool, flag int, step func(in ssa.Instruction, flag int) (int, bool), atEnd func(last ssa.Instruction, flag int)) {
	m.assume = assume
	defer func() { m.assume = nil }()
	m.exploreImpl(nil, 0, start, flag, step, atEnd)
}

// exploreAssumingNil is exploreFrom under the assumption that the given values are nil:
// comparisons of them (or of a phi that takes one of them along the path's incoming edge) with
// nil are followed only along the consistent edge.
func (m *Model) exploreAssumingNil(start ssa.Instruction, nilVals map[ssa.Value]bool, flag int, step func(in ssa.Instruction, flag int) (int, bool), atEnd func(last ssa.Instruction, flag int)) {
	m.assumeNil = nilVals
	defer func() { m.assumeNil = nil }()
	m.exploreImpl(nil, 0, start, flag, step, atEnd)
}

// nilTestUnderAssumption: cond evaluates to condTrue because it compares a value assumed nil with nil.
func (m *Model) nilTestUnderAssumption(cond ssa.Value, cur, cameFrom *ssa.BasicBlock) (condTrue bool, known bool) {
	neg := false
	for {
		if u, ok := cond.(*ssa.UnOp); ok && u.Op == token.NOT {
			cond, neg = u.X, !neg
			continue
		}
		break
	}
	bo, ok := cond.(*ssa.BinOp)
	if !ok || (bo.Op != token.EQL && bo.Op != token.NEQ) {
		return false, false
	}
	var other ssa.Value
	if k, ok := bo.X.(*ssa.Const); ok && k.Value == nil {
		other = bo.Y
	} else if k, ok := bo.Y.(*ssa.Const); ok && k.Value == nil {
		other = bo.X
	}
	if other == nil {
		return false, false
	}
	isNil := false
	for i := 0; i < 4; i++ {
		other = m.traceValue(other)
		if m.assumeNil[other] {
			isNil = true
			break
		}
		ph, isPhi := other.(*ssa.Phi)
		if !isPhi || ph.Block() != cur || cameFrom == nil {
			break
		}
		next := ssa.Value(nil)
		for pi, pp := range cur.Preds {
			if pp == cameFrom && pi < len(ph.Edges) {
				next = ph.Edges[pi]
			}
		}
		if next == nil {
			break
		}
		other = next
	}
	if !isNil {
		return false, false
	}
	res := bo.Op == token.EQL
	if neg {
		res = !res
	}
	return res, true
}

func (m *Model) exploreImpl(b *ssa.BasicBlock, succ int, startAt ssa.Instruction, flag int, step func(in ssa.Instruction, flag int) (int, bool), atEnd func(last ssa.Instruction, flag int)) {
	if startAt == nil && deadEdge(b, succ) {
		return
	}
	type binding map[*ssa.Call][]string
	bindKey := func(bd binding) string {
		var ks []string
		for c, v := range bd {
			ks = append(ks, fmt.Sprintf("%p=%v", c, v))
		}
		sort.Strings(ks)
		return strings.Join(ks, ",")
	}
	seen := map[string]bool{}
	var walkFrom func(x, cameFrom *ssa.BasicBlock, from int, flag int, bd binding, depth int)
	walk := func(x *ssa.BasicBlock, from int, flag int, bd binding, depth int) {
		walkFrom(x, nil, from, flag, bd, depth)
	}
	walkFrom = func(x, cameFrom *ssa.BasicBlock, from int, flag int, bd binding, depth int) {
		if from == 0 {
			k := fmt.Sprintf("%p|%p|%d|%s", x, cameFrom, flag, bindKey(bd))
			if seen[k] {
				return
			}
			seen[k] = true
		}
		for i := from; i < len(x.Instrs); i++ {
			in := x.Instrs[i]
			var stop bool
			flag, stop = step(in, flag)
			if stop {
				return
			}
			switch t := in.(type) {
			case *ssa.Call:
				// descend into a function that is called from here only (its Return comes back here)
				if m.descend != nil {
					if callee := t.Call.StaticCallee(); callee != nil && callee.Blocks != nil && callee.Parent() == nil && depth < 64 && m.descend(callee) {
						if sites := m.callers[callee]; len(sites) == 1 && sites[0].Instr == ssa.CallInstruction(t) {
							walkFrom(callee.Blocks[0], nil, 0, flag, bd, depth+1)
							return
						}
					}
				}
			case *ssa.Return:
				f := x.Parent()
				sites := m.callers[f]
				if f.Parent() == nil && len(sites) == 1 && !sites[0].IsGo && !sites[0].IsDef && depth < 64 {
					if call, ok := sites[0].Instr.(*ssa.Call); ok {
						nb := binding{}
						for k, v := range bd {
							nb[k] = v
						}
						vals := make([]string, len(t.Results))
						for j := range t.Results {
							rv := returnValue(t, j)
							if k, isC := rv.(*ssa.Const); isC {
								vals[j] = constString(k)
							} else if av, ok := m.assumedValue(rv); ok {
								vals[j] = fmt.Sprint(av)
							} else if m.knownNonNil(rv, x) {
								vals[j] = "!nil" // differs from the constant nil in every comparison
							} else if ph, isPhi := rv.(*ssa.Phi); isPhi && ph.Block() == x && cameFrom != nil {
								// the value returned along the edge this path took
								for pi, pp := range x.Preds {
									if pp == cameFrom && pi < len(ph.Edges) {
										if k, isC := ph.Edges[pi].(*ssa.Const); isC {
											vals[j] = constString(k)
										} else if av, ok := m.assumedValue(ph.Edges[pi]); ok {
											vals[j] = fmt.Sprint(av)
										}
									}
								}
							}
						}
						nb[call] = vals
						walk(call.Block(), instrIndex(call)+1, flag, nb, depth+1)
						return
					}
				}
				if atEnd != nil {
					atEnd(in, flag)
				}
				return
			case *ssa.Panic:
				return
			}
		}
		for i, s := range x.Succs {
			if deadEdge(x, i) {
				continue
			}
			if ifi, ok := x.Instrs[len(x.Instrs)-1].(*ssa.If); ok && len(x.Succs) == 2 && len(bd) > 0 {
				l := m.litOf(ifi.Cond, i == 0, ifi)
				if call, idx, want, neg, ok := m.resultTest(l); ok {
					if vals, bound := bd[call]; bound && idx < len(vals) && vals[idx] != "" {
						if (vals[idx] == want) == neg {
							continue // this edge contradicts the returned constant
						}
					}
				}
			}
			if ifi, ok := x.Instrs[len(x.Instrs)-1].(*ssa.If); ok && len(x.Succs) == 2 && len(m.assumeNil) > 0 {
				if isNil, known := m.nilTestUnderAssumption(ifi.Cond, x, cameFrom); known {
					// cond is (X == nil) or (X != nil) with X assumed nil
					if (i == 0) != isNil {
						continue
					}
				}
			}
			if ifi, ok := x.Instrs[len(x.Instrs)-1].(*ssa.If); ok && len(x.Succs) == 2 && len(m.assume) > 0 {
				l := m.litOfRaw(ifi.Cond, i == 0)
				if l.S.V != nil {
					if av, ok := m.assume[l.S.V]; ok && av != l.Truth {
						continue // this edge contradicts an assumption
					}
				}
			}
			nflag := flag
			if m.edgeHook != nil {
				if l, ok := m.edgeLit(x, i); ok {
					var stop bool
					nflag, stop = m.edgeHook(l, flag)
					if stop {
						continue
					}
				}
			}
			walkFrom(s, x, 0, nflag, bd, depth)
		}
	}
	if startAt != nil {
		walk(startAt.Block(), instrIndex(startAt), flag, nil, 0)
		return
	}
	walk(b.Succs[succ], 0, flag, nil, 0)
}

// exploreFrom is explore starting at (and including) an instruction.
func (m *Model) exploreFrom(start ssa.Instruction, flag int, step func(in ssa.Instruction, flag int) (int, bool), atEnd func(last ssa.Instruction, flag int)) {
	m.exploreImpl(nil, 0, start, flag, step, atEnd)
}

// returnLeadsToDemotion: the Return ends a function with a single call site, and in the caller
// every path that continues from this return (with the returned constants) passes a may-demote call.
func (m *Model) returnLeadsToDemotion(ret *ssa.Return) bool {
	f := ret.Parent()
	if sites := m.callers[f]; f.Parent() != nil || len(sites) != 1 || sites[0].IsGo || sites[0].IsDef {
		return false
	}
	ok, ends := true, 0
	m.exploreFrom(ret, 0, func(in ssa.Instruction, flag int) (int, bool) {
		if call, isCall := in.(*ssa.Call); isCall {
			if g := call.Call.StaticCallee(); g != nil && m.isLib(g) && m.mayDemote(g, specFor(call, g), 0) {
				ends++
				return 1, true
			}
		}
		return flag, false
	}, func(last ssa.Instruction, flag int) {
		ends++
		ok = false
	})
	return ok && ends > 0
}

// loopCallees: f and the library functions with exactly one call site that are called (plain
// calls) from f or from such functions: the code that makes up f's body after extract-function
// refactorings.
func (m *Model) bodyFns(f *ssa.Function) []*ssa.Function {
	out := []*ssa.Function{f}
	seen := map[*ssa.Function]bool{f: true}
	for i := 0; i < len(out); i++ {
		eachInstr(out[i], func(in ssa.Instruction) {
			call, ok := in.(*ssa.Call)
			if !ok {
				return
			}
			g := call.Call.StaticCallee()
			if g == nil || !m.isLib(g) || seen[g] || g.Blocks == nil || g.Parent() != nil {
				return
			}
			if sites := m.callers[g]; len(sites) == 1 && !sites[0].IsGo && !sites[0].IsDef {
				seen[g] = true
				out = append(out, g)
			}
		})
	}
	return out
}


// liftTo returns the instruction of root that stands for `in`: in itself if it is in root, else
// the call in root through which the (single-call-site) function containing `in` is reached.
func (m *Model) liftTo(root *ssa.Function, in ssa.Instruction) ssa.Instruction {
	for i := 0; i < 8 && in != nil; i++ {
		f := in.Parent()
		if f == root {
			return in
		}
		if f.Parent() != nil {
			return nil
		}
		sites := m.callers[f]
		if len(sites) != 1 || sites[0].IsGo || sites[0].IsDef {
			return nil
		}
		in = sites[0].Instr
	}
	return nil
}

// dominatesLifted: a dominates b, where both are in root or in single-call-site functions
// called from it. Inside one function this is plain dominance; across functions the
// instructions are lifted to the lowest function that contains both.
func (m *Model) dominatesLifted(root *ssa.Function, a, b ssa.Instruction) bool {
	if a.Parent() == b.Parent() {
		return dominatesInstr(a, b)
	}
	// lift b into a's function, or a into b's function, or both into root
	if lb := m.liftTo(a.Parent(), b); lb != nil {
		return dominatesInstr(a, lb)
	}
	if la := m.liftTo(b.Parent(), a); la != nil {
		// a lies inside a call that precedes b: everything in that call happened if the call
		// dominates b and a dominates every return of its function
		return la != b && dominatesInstr(la, b) && m.dominatesReturns(a)
	}
	la, lb := m.liftTo(root, a), m.liftTo(root, b)
	if la != nil && la == lb {
		// both lie inside the same call of root: compare inside the callee
		if ci, ok := la.(ssa.CallInstruction); ok {
			if g := ci.Common().StaticCallee(); g != nil && g != root && g.Blocks != nil {
				return m.dominatesLifted(g, a, b)
			}
		}
		return false
	}
	return la != nil && lb != nil && la != lb && dominatesInstr(la, lb) && m.dominatesReturns(a)
}

// dominatesReturns: the instruction is on every path from its function's entry to a Return.
func (m *Model) dominatesReturns(a ssa.Instruction) bool {
	f := a.Parent()
	for _, b := range liveBlocks(f) {
		if ret, ok := b.Instrs[len(b.Instrs)-1].(*ssa.Return); ok && b != f.Recover {
			if !dominatesInstr(a, ret) {
				return false
			}
		}
	}
	return true
}


// assumedValue: the truth value of a boolean SSA value under the current assumptions (which are
// keyed by the value of the normalised literal, see litOf).
func (m *Model) assumedValue(v ssa.Value) (bool, bool) {
	if len(m.assume) == 0 || !isBoolType(v.Type()) {
		return false, false
	}
	l := m.litOfRaw(v, true)
	if l.S.V == nil {
		return false, false
	}
	av, ok := m.assume[l.S.V]
	if !ok {
		return false, false
	}
	return av == l.Truth, true
}

// controlConds: the branch conditions of at's function that decide whether `at` executes: the
// conditions of every If from one successor of which `at` is reachable while from the other it
// is not, or from both of which it is reachable but only one of which can still avoid it.
// Unlike the must-guards of a block this also sees conditions that are combined by || (none of
// which holds on every path). The literals are returned with Truth = true (polarity is not meaningful).
func (m *Model) controlConds(at ssa.Instruction) []Lit {
	f := at.Parent()
	target := at.Block()
	reach := func(from *ssa.BasicBlock) bool {
		seen := map[*ssa.BasicBlock]bool{}
		var walk func(b *ssa.BasicBlock) bool
		walk = func(b *ssa.BasicBlock) bool {
			if b == target {
				return true
			}
			if seen[b] {
				return false
			}
			seen[b] = true
			for i, s := range b.Succs {
				if !deadEdge(b, i) && walk(s) {
					return true
				}
			}
			return false
		}
		return walk(from)
	}
	avoid := func(from *ssa.BasicBlock) bool {
		// a Return (or panic) is reachable without entering the target block
		seen := map[*ssa.BasicBlock]bool{}
		var walk func(b *ssa.BasicBlock) bool
		walk = func(b *ssa.BasicBlock) bool {
			if b == target || seen[b] {
				return false
			}
			seen[b] = true
			if len(b.Succs) == 0 {
				return true
			}
			for i, s := range b.Succs {
				if !deadEdge(b, i) && walk(s) {
					return true
				}
			}
			return false
		}
		return walk(from)
	}
	var out []Lit
	seenLit := map[string]bool{}
	for _, b := range liveBlocks(f) {
		ifi, ok := b.Instrs[len(b.Instrs)-1].(*ssa.If)
		if !ok || len(b.Succs) != 2 || b.Succs[0] == b.Succs[1] || b == target && instrIndex(at) < len(b.Instrs)-1 {
			continue
		}
		if deadEdge(b, 0) || deadEdge(b, 1) {
			continue
		}
		r0, r1 := reach(b.Succs[0]), reach(b.Succs[1])
		if !r0 && !r1 {
			continue
		}
		decides := r0 != r1
		if !decides {
			decides = avoid(b.Succs[0]) != avoid(b.Succs[1])
		}
		if !decides {
			continue
		}
		l := m.litOf(ifi.Cond, true, ifi)
		l.Truth = true
		if !seenLit[l.S.String()] {
			seenLit[l.S.String()] = true
			out = append(out, l)
		}
		// a condition kept in a boolean variable (stale := a != nil && b != c; if stale {...}) is a
		// phi of constants and comparisons: the comparisons, and the tests that select among the
		// phi's edges (the short-circuit tests), decide as well
		var expand func(v ssa.Value, d int)
		expand = func(v ssa.Value, d int) {
			if d > 3 {
				return
			}
			if u, isU := v.(*ssa.UnOp); isU && u.Op == token.NOT {
				v = u.X
			}
			ph, isPhi := v.(*ssa.Phi)
			if !isPhi {
				return
			}
			for i, e := range ph.Edges {
				if i < len(ph.Block().Preds) {
					pb := ph.Block().Preds[i]
					if pif, ok := pb.Instrs[len(pb.Instrs)-1].(*ssa.If); ok && len(pb.Succs) == 2 && pb.Succs[0] != pb.Succs[1] {
						pl := m.litOf(pif.Cond, true, pif)
						pl.Truth = true
						if !seenLit[pl.S.String()] {
							seenLit[pl.S.String()] = true
							out = append(out, pl)
						}
						expand(pif.Cond, d+1)
					}
				}
				if _, isC := e.(*ssa.Const); isC {
					continue
				}
				if _, isP := e.(*ssa.Phi); isP {
					expand(e, d+1)
					continue
				}
				el := m.litOf(e, true, nil)
				el.Truth = true
				if !seenLit[el.S.String()] {
					seenLit[el.S.String()] = true
					out = append(out, el)
				}
			}
		}
		expand(ifi.Cond, 0)
	}
	sort.Slice(out, func(i, j int) bool { return out[i].S.String() < out[j].S.String() })
	return out
}


// definitelyNonNil: a freshly allocated object (or an interface holding one).
func definitelyNonNil(v ssa.Value) bool {
	for i := 0; i < 4; i++ {
		switch x := v.(type) {
		case *ssa.Alloc:
			return true
		case *ssa.MakeInterface:
			v = x.X
		case *ssa.ChangeInterface:
			v = x.X
		case *ssa.MakeClosure, *ssa.MakeChan, *ssa.MakeMap, *ssa.MakeSlice:
			return true
		case *ssa.Call:
			// documented never to return nil
			if g := x.Call.StaticCallee(); g != nil {
				switch g.String() {
				case "fmt.Errorf", "errors.New":
					return true
				}
			}
			return false
		default:
			return false
		}
	}
	return false
}


// loopCounterBound recognises the test of a counted loop: lit compares (< or <=) a loop-carried
// counter - a header phi that enters the loop with a constant and is advanced by a positive
// constant on every back edge - with a constant. It returns the largest number of iterations.
func (m *Model) loopCounterBound(l Lit) (trips int64, ok bool) {
	s := l.S
	if !l.Truth || s.Op != "bin" || (s.Name != "<" && s.Name != "<=") || len(s.Args) != 2 || s.Args[0].V == nil {
		return 0, false
	}
	ph, isPhi := s.Args[0].V.(*ssa.Phi)
	if !isPhi || !inLoop(ph.Block()) {
		return 0, false
	}
	kc, isC := s.Args[1].V.(*ssa.Const)
	if s.Args[1].V == nil || !isC {
		return 0, false
	}
	limit, isInt := constInt(kc)
	if !isInt {
		return 0, false
	}
	start, step := int64(0), int64(0)
	haveStart := false
	for i, e := range ph.Edges {
		if inLoopFrom(ph.Block().Preds[i], ph.Block()) {
			bo, isBin := e.(*ssa.BinOp)
			if !isBin || bo.Op != token.ADD {
				return 0, false
			}
			var k int64
			var kOK bool
			switch {
			case bo.X == ssa.Value(ph):
				k, kOK = constInt(bo.Y)
			case bo.Y == ssa.Value(ph):
				k, kOK = constInt(bo.X)
			}
			if !kOK || k <= 0 || (step != 0 && step != k) {
				return 0, false
			}
			step = k
			continue
		}
		n, isK := constInt(e)
		if !isK || (haveStart && n != start) {
			return 0, false
		}
		start, haveStart = n, true
	}
	if !haveStart || step == 0 {
		return 0, false
	}
	if s.Name == "<=" {
		limit++
	}
	if limit <= start {
		return 0, true
	}
	return (limit - start + step - 1) / step, true
}


// knownNonNil: the value cannot be nil where it is returned: an allocation, a call documented
// never to return nil (fmt.Errorf, errors.New), or ctx.Err() evaluated in the branch of a select
// that received from ctx.Done() (the context contract: Err is non-nil once Done is closed).
func (m *Model) knownNonNil(v ssa.Value, b *ssa.BasicBlock) bool {
	if definitelyNonNil(v) {
		return true
	}
	v0 := v
	for i := 0; i < 3; i++ {
		if mi, isMI := v.(*ssa.MakeInterface); isMI {
			v = mi.X
		} else if ci, isCI := v.(*ssa.ChangeInterface); isCI {
			v = ci.X
		}
	}
	// a value returned under its own non-nil test (if err != nil { return nil, err })
	if b != nil {
		for _, l := range m.Guards(b) {
			if !l.Truth && l.S.Op == "bin" && l.S.Name == "==" && len(l.S.Args) == 2 {
				for i := 0; i < 2; i++ {
					if l.S.Args[i].String() == "nil" && l.S.Args[1-i].V == v0 {
						return true
					}
				}
			}
		}
	}
	call, ok := v.(*ssa.Call)
	// an error constructor of the library: every return hands back a freshly built value
	// (func (e *T) validationError(...) error { return &ValidationError{...} })
	if ok && !call.Call.IsInvoke() {
		if h := call.Call.StaticCallee(); h != nil && m.isLib(h) && h.Blocks != nil && h.Signature.Results().Len() == 1 && m.nonNilDepth < 3 {
			m.nonNilDepth++
			all, n := true, 0
			for _, hb := range liveBlocks(h) {
				if ret, isRet := hb.Instrs[len(hb.Instrs)-1].(*ssa.Return); isRet && hb != h.Recover {
					n++
					if !m.knownNonNil(returnValue(ret, 0), hb) {
						all = false
					}
				}
			}
			m.nonNilDepth--
			if all && n > 0 {
				return true
			}
		}
	}
	if !ok || !call.Call.IsInvoke() || call.Call.Method.Name() != "Err" || !isNamed(call.Call.Value.Type(), "context", "Context") || b == nil {
		return false
	}
	ctxSym := m.Sym.Of(call.Call.Value).String()
	for _, l := range m.Guards(b) {
		if sel, k, ok := selectCaseOf(l); ok && l.Truth && k < len(sel.States) {
			if s := m.Sym.Of(sel.States[k].Chan); s.Op == "invoke" && strings.HasSuffix(s.Name, "Context.Done") && len(s.Args) == 1 && s.Args[0].String() == ctxSym {
				return true
			}
		}
	}
	return false
}


// controlCondsDeep is controlConds looking through tests of helper results: where a deciding
// condition tests the result of a library function called from that one place (a phase of the
// function's body that reports through its results), the conditions that decide which value the
// helper returns are deciding conditions too (with the helper's parameters read as the arguments).
func (m *Model) controlCondsDeep(at ssa.Instruction, depth int) []Lit {
	out := m.controlConds(at)
	if depth > 2 {
		return out
	}
	seen := map[*ssa.Call]bool{}
	for _, l := range append(append([]Lit{}, out...), m.GuardsAt(at)...) {
		call, ridx, _, _, ok := m.resultTest(l)
		if !ok || seen[call] {
			continue
		}
		seen[call] = true
		h := call.Call.StaticCallee()
		if h == nil || !m.isLib(h) || h.Blocks == nil || len(m.callers[h]) != 1 {
			continue
		}
		sub := map[string]*Sym{}
		for j, p := range h.Params {
			if j < len(call.Call.Args) {
				sub["param:"+p.Name()] = m.Sym.Of(call.Call.Args[j])
			}
		}
		for _, b := range liveBlocks(h) {
			ret, isRet := b.Instrs[len(b.Instrs)-1].(*ssa.Return)
			if !isRet || b == h.Recover {
				continue
			}
			for _, hl := range m.controlCondsDeep(ret, depth+1) {
				hl.S = substSym(hl.S, sub)
				hl.Derived = true
				out = append(out, hl)
			}
			// a predicate that returns a comparison itself (return a == nil || b == c): the
			// non-constant boolean values it can return decide as well
			if ridx < len(ret.Results) {
				var vals func(v ssa.Value, d int)
				vals = func(v ssa.Value, d int) {
					if d > 3 {
						return
					}
					switch x := v.(type) {
					case *ssa.Const:
						return
					case *ssa.Phi:
						for _, e := range x.Edges {
							vals(e, d+1)
						}
						return
					}
					if bt, isB := v.Type().Underlying().(*types.Basic); !isB || bt.Info()&types.IsBoolean == 0 {
						return
					}
					hl := m.litOf(v, true, nil)
					hl.Truth = true
					hl.S = substSym(hl.S, sub)
					hl.Derived = true
					out = append(out, hl)
				}
				vals(returnValue(ret, ridx), 0)
			}
		}
	}
	return out
}
