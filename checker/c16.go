package main

import (
	"fmt"
	"go/types"
	"sort"
	"strings"

	"golang.org/x/tools/go/ssa"
)

func init() {
	register(&PropertySpec{
		ID:    "C16",
		Level: "proof",
		Run:   checkC16,
		Explanation: "Decides C16 completely for all field values (modulo int64 overflow of 3*HeartbeatInterval / 2*HeartbeatInterval, i.e. beyond ~97 years, outside the property's one-year lattice): the validator is loop-free; (R1) the set of (reject cube, field name) pairs extracted from the validator's control flow equals the documented table, each cube contains no condition beyond the documented one and the fall-through negations of the other cubes, and every other return yields nil - hence the accepted set is exactly the conjunction of the negated cubes; " +
			"(R2) in the function that allocates the election object the validator call on the configuration parameter dominates every call on the provider interfaces and every go statement, its non-nil result is returned, and every exported constructor obtains the object only through that function.",
		NotDecided: []string{"integer overflow of HeartbeatInterval*3 and *2 for durations above math.MaxInt64/3 ns"},
		Assumptions: []string{"go/types constant folding; ElectionConfig is passed by value (no aliasing)"},
		Rules: map[string]string{
			"R1": "validator loop-free; {(cube, field)} == documented table: Bucket==\"\", Group==\"\", InstanceID==\"\", TTL<=0, H<=0, TTL<3*H, VI!=0&&VI<H, DGP!=0&&DGP<2*H, MCF<0, APT&&Priority<=0; every other return is nil; no extra conjunct in any cube",
			"R2": "validator call dominates all provider-interface calls and go statements in the allocating function; err != nil edge returns it; exported constructors delegate",
		},
	})
}

type reject struct {
	ret   *ssa.Return
	field string
	lits  []string // canonical literal strings with the configuration rooted at "cfg."
}

// validatorFn: the func(ElectionConfig) error called by the constructor on its config parameter.
func (m *Model) validatorFn() (*ssa.Function, *ssa.Call) {
	if m.Ctor == nil {
		return nil, nil
	}
	var vf *ssa.Function
	var site *ssa.Call
	eachInstr(m.Ctor, func(in ssa.Instruction) {
		call, ok := in.(*ssa.Call)
		if !ok || vf != nil {
			return
		}
		g := call.Call.StaticCallee()
		if g == nil || !m.isValidatorLike(g) {
			return
		}
		vf, site = g, call
	})
	return vf, site
}

// isValidatorLike: a library func(ElectionConfig) error.
func (m *Model) isValidatorLike(g *ssa.Function) bool {
	if g == nil || !m.isLib(g) || g.Blocks == nil || g.Signature.Params().Len() != 1 || g.Signature.Results().Len() != 1 {
		return false
	}
	if n := namedOf(g.Signature.Params().At(0).Type()); n == nil || n.Obj().Name() != "ElectionConfig" {
		return false
	}
	return isErrorType(g.Signature.Results().At(0).Type())
}

// cfgNorm roots the configuration accesses of a validator-like function at "cfg.".
func cfgNorm(s string, f *ssa.Function) string {
	p := f.Params[0].Name()
	s = strings.ReplaceAll(s, "local:"+f.Name()+"/"+p+".", "cfg.")
	s = strings.ReplaceAll(s, "param:"+p+".", "cfg.")
	return s
}

// rejectTable extracts every (condition, field) under which the validator returns a non-nil
// error, following helper validators (func(ElectionConfig) error called on the same
// configuration whose non-nil result is returned). accept = literals holding at the accepting exits.
func (m *Model) rejectTable() ([]reject, []string, *ssa.Function) {
	vf, _ := m.validatorFn()
	if vf == nil {
		return nil, []string{"no validator func(ElectionConfig) error called by the constructor"}, nil
	}
	var problems []string
	var out []reject
	m.validatorAccept = map[string]bool{}
	var visit func(f *ssa.Function, prefix []string, depth int)
	visit = func(f *ssa.Function, prefix []string, depth int) {
		if depth > 3 {
			problems = append(problems, "validator helpers nested deeper than 3")
			return
		}
		if len(cfgLoops(f)) > 0 {
			problems = append(problems, "the validator "+shortFn(f)+" contains a loop: its reject table cannot be read off its control flow")
		}
		isHelperNil := func(l Lit) (*ssa.Function, bool) {
			// (call h(cfg) == nil)
			if l.S.Op == "bin" && l.S.Name == "==" {
				for i := 0; i < 2; i++ {
					if l.S.Args[i].String() == "nil" {
						if call, ok := l.S.Args[1-i].V.(*ssa.Call); ok {
							if h := call.Call.StaticCallee(); h != nil && h != f && m.isValidatorLike(h) {
								return h, true
							}
						}
					}
				}
			}
			return nil, false
		}
		for _, b := range liveBlocks(f) {
			ret, ok := b.Instrs[len(b.Instrs)-1].(*ssa.Return)
			if !ok || b == f.Recover {
				continue
			}
			v := returnValue(ret, 0)
			var lits []string
			lits = append(lits, prefix...)
			var helperRejecting *ssa.Function
			for _, l := range m.Guards(b) {
				if h, ok := isHelperNil(l); ok {
					if !l.Truth {
						helperRejecting = h // this exit passes on h's error
					}
					continue // helper outcomes are expanded, not kept as literals
				}
				lits = append(lits, cfgNorm(l.String(), f))
			}
			if k, isConst := v.(*ssa.Const); isConst && k.Value == nil {
				if depth == 0 || true {
					cur := map[string]bool{}
					for _, x := range lits {
						cur[x] = true
					}
					// helpers that returned nil on the way contribute their accept facts
					for _, l := range m.Guards(b) {
						if h, ok := isHelperNil(l); ok && l.Truth {
							for k := range m.acceptFactsOf(h) {
								cur[k] = true
							}
						}
					}
					if f == vf {
						if len(m.validatorAccept) == 0 {
							m.validatorAccept = cur
						} else {
							for k := range m.validatorAccept {
								if !cur[k] {
									delete(m.validatorAccept, k)
								}
							}
						}
					}
				}
				continue
			}
			// tail delegation: `return h(cfg)` (not `if err := h(cfg); err != nil { return err }`)
			if call, ok := v.(*ssa.Call); ok && helperRejecting == nil {
				if h := call.Call.StaticCallee(); h != nil && h != f && m.isValidatorLike(h) {
					var pre []string
					pre = append(pre, lits...)
					for _, l := range m.Guards(b) {
						if h2, ok := isHelperNil(l); ok && l.Truth {
							for k := range m.acceptFactsOf(h2) {
								pre = append(pre, k)
							}
						}
					}
					if f == vf {
						cur := map[string]bool{}
						for _, x := range pre {
							cur[x] = true
						}
						for k := range m.acceptFactsOf(h) {
							cur[k] = true
						}
						if len(m.validatorAccept) == 0 {
							m.validatorAccept = cur
						} else {
							for k := range m.validatorAccept {
								if !cur[k] {
									delete(m.validatorAccept, k)
								}
							}
						}
					}
					visit(h, pre, depth+1)
					continue
				}
			}
			if helperRejecting != nil {
				// facts of the helpers that accepted before it are fall-through facts
				var pre []string
				pre = append(pre, lits...)
				for _, l := range m.Guards(b) {
					if h, ok := isHelperNil(l); ok && l.Truth {
						for k := range m.acceptFactsOf(h) {
							pre = append(pre, k)
						}
					}
				}
				visit(helperRejecting, pre, depth+1)
				continue
			}
			// the error value: NewValidationError(field, ...) (possibly wrapped)
			field := ""
			x := v
			for {
				switch y := x.(type) {
				case *ssa.MakeInterface:
					x = y.X
					continue
				case *ssa.ChangeInterface:
					x = y.X
					continue
				}
				break
			}
			if call, ok := x.(*ssa.Call); ok && len(call.Call.Args) > 0 {
				if sv, ok := constStr(call.Call.Args[0]); ok {
					field = sv
				}
			}
			if field == "" {
				problems = append(problems, fmt.Sprintf("reject at %s does not name a field through a constant first argument", m.P.pos(ret.Pos())))
			}
			out = append(out, reject{ret: ret, field: field, lits: lits})
		}
	}
	visit(vf, nil, 0)
	return out, problems, vf
}

// acceptFactsOf: literals (rooted at cfg.) holding at every nil-returning exit of a validator-like function.
func (m *Model) acceptFactsOf(f *ssa.Function) map[string]bool {
	var acc map[string]bool
	for _, b := range liveBlocks(f) {
		ret, ok := b.Instrs[len(b.Instrs)-1].(*ssa.Return)
		if !ok || b == f.Recover {
			continue
		}
		if k, isConst := returnValue(ret, 0).(*ssa.Const); !isConst || k.Value != nil {
			continue
		}
		cur := map[string]bool{}
		for _, l := range m.Guards(b) {
			cur[cfgNorm(l.String(), f)] = true
		}
		if acc == nil {
			acc = cur
		} else {
			for k := range acc {
				if !cur[k] {
					delete(acc, k)
				}
			}
		}
	}
	if acc == nil {
		acc = map[string]bool{}
	}
	return acc
}

func (m *Model) expectedRejects(vf *ssa.Function) map[string]string {
	f := func(n string) string { return "cfg." + n }
	cube := func(lits ...string) string {
		sort.Strings(lits)
		return "{" + strings.Join(lits, "; ") + "}"
	}
	_ = cube
	return map[string]string{
		fmt.Sprintf("{(\"\" == %s)}", f("Bucket")):                                          "Bucket",
		fmt.Sprintf("{(\"\" == %s)}", f("Group")):                                           "Group",
		fmt.Sprintf("{(\"\" == %s)}", f("InstanceID")):                                      "InstanceID",
		fmt.Sprintf("{(%s <= 0)}", f("TTL")):                                               "TTL",
		fmt.Sprintf("{(%s <= 0)}", f("HeartbeatInterval")):                                 "HeartbeatInterval",
		fmt.Sprintf("{(%s < (3 * %s))}", f("TTL"), f("HeartbeatInterval")):                  "TTL",
		cube(fmt.Sprintf("(%s < %s)", f("ValidationInterval"), f("HeartbeatInterval")), fmt.Sprintf("NOT (0 == %s)", f("ValidationInterval"))):                 "ValidationInterval",
		cube(fmt.Sprintf("(%s < (2 * %s))", f("DisconnectGracePeriod"), f("HeartbeatInterval")), fmt.Sprintf("NOT (0 == %s)", f("DisconnectGracePeriod"))): "DisconnectGracePeriod",
		fmt.Sprintf("{(%s < 0)}", f("MaxConsecutiveFailures")):                             "MaxConsecutiveFailures",
		cube(fmt.Sprintf("(%s <= 0)", f("Priority")), f("AllowPriorityTakeover")): "Priority",
	}
}

// cubeOf returns a reject's own condition: its facts minus the facts that also hold at the
// validator's accepting return (the fall-through negations of the single-condition rejects).
func cubeOf(r reject, acceptFacts map[string]bool) (cube string, extras []string) {
	var lits []string
	for _, l := range r.lits {
		if acceptFacts[l] {
			continue
		}
		lits = append(lits, l)
	}
	sort.Strings(lits)
	lits = uniq(lits)
	return "{" + strings.Join(lits, "; ") + "}", nil
}

func checkC16(c *Ctx) {
	m := c.M
	rejects, problems, vf := m.rejectTable()
	for _, p := range problems {
		c.undecided("R1", "validator shape: "+p, nil, "%s", p)
	}
	if vf == nil {
		return
	}
	want := m.expectedRejects(vf)
	allPos := m.validatorAccept
	seen := map[string]bool{}
	for _, r := range rejects {
		cube, extras := cubeOf(r, allPos)
		wantField, ok := want[cube]
		key := "reject " + r.field + " when " + cube
		switch {
		case !ok:
			c.viol("R1", key, r.ret, "this reject is not in the documented table (a configuration the documentation accepts is refused, or a boundary moved). Documented cubes: %s. Fall-through facts: %v", strings.Join(sortedKeys(want), " | "), keys(allPos))
		case wantField != r.field:
			c.viol("R1", key, r.ret, "the error names field %q; the offending field is %q", r.field, wantField)
		case len(extras) > 0:
			c.viol("R1", key, r.ret, "the reject is additionally conditioned on %v, which is not the fall-through of another documented check: some documented-invalid configurations are accepted", extras)
		default:
			seen[cube] = true
			c.ok("R1", key, r.ret, "matches the documented table")
		}
	}
	for cube, field := range want {
		if !seen[cube] {
			c.viol("R1", "documented reject missing: "+field+" when "+cube, firstInstr(vf), "no return of a non-nil error under exactly this condition: configurations with %s are accepted (or the condition changed)", cube)
		}
	}
	c.ok("R1", "validator is loop-free and every other return is nil", firstInstr(vf), "%d rejecting returns extracted from %s", len(rejects), shortFn(vf))

	// ---- R2 ---------------------------------------------------------------------
	_, site := m.validatorFn()
	ctor := m.Ctor
	// argument is the constructor's own config parameter
	argOK := false
	for _, p := range ctor.Params {
		if site.Call.Args[0] == ssa.Value(p) {
			argOK = true
		}
		if u, ok := site.Call.Args[0].(*ssa.UnOp); ok {
			if al, ok := u.X.(*ssa.Alloc); ok {
				// the cell must hold the parameter and nothing else (no `cfg = withDefaults(cfg)`
				// before validation: the validator would see a rewritten configuration)
				sts := storesTo(al)
				if len(sts) == 1 && sts[0] == ssa.Value(p) {
					argOK = true
				}
			}
		}
	}
	c.check(argOK, "R2", "validator receives the constructor's config parameter", site, "argument %s is the unmodified parameter: %v (a configuration rewritten before validation - defaults filled in, values clamped - makes documented-invalid inputs pass)", m.Sym.Of(site.Call.Args[0]), argOK)
	nContacts := 0
	// provider contacts inside constructor helpers: the helper call must come after the validator
	eachInstr(ctor, func(in ssa.Instruction) {
		call, ok := in.(*ssa.Call)
		if !ok {
			return
		}
		g := call.Call.StaticCallee()
		if g == nil || !m.isLib(g) || g == vf || !m.isCtorCode(g) {
			return
		}
		contacts := false
		for _, h := range sortedFns(m.staticReach(g, true)) {
			eachInstr(h, func(x ssa.Instruction) {
				if c2, ok := x.(*ssa.Call); ok && c2.Call.IsInvoke() {
					if n := namedOf(c2.Call.Value.Type()); n != nil && n.Obj().Pkg() == m.P.Leader.Pkg && (n.Obj().Name() == "JetStreamProvider" || n.Obj().Name() == "JetStreamContext" || n.Obj().Name() == "NATSConnectionProvider" || n == m.KVIface) {
						contacts = true
					}
				}
				if _, isGo := x.(*ssa.Go); isGo {
					contacts = true
				}
			})
		}
		if contacts {
			nContacts++
			gs := m.GuardsAt(in)
			errNil := hasLit(gs, true, func(s *Sym) bool {
				return s.Op == "bin" && s.Name == "==" && symMentions(s, "nil") && symMentions(s, funcName(vf)+"(")
			})
			c.check(dominatesInstr(site, in) && errNil, "R2", fmt.Sprintf("validation before constructor helper %s", shortFn(g)), in, "validator call dominates: %v; reached only with its result == nil: %v", dominatesInstr(site, in), errNil)
		}
	})
	eachInstr(ctor, func(in ssa.Instruction) {
		switch x := in.(type) {
		case *ssa.Go:
			nContacts++
			c.check(dominatesInstr(site, in), "R2", "validation before go statement in "+shortFn(ctor), in, "validator call dominates: %v", dominatesInstr(site, in))
		case *ssa.Call:
			if x.Call.IsInvoke() {
				n := namedOf(x.Call.Value.Type())
				if n != nil && n.Obj().Pkg() == m.P.Leader.Pkg && (n.Obj().Name() == "JetStreamProvider" || n.Obj().Name() == "JetStreamContext" || n.Obj().Name() == "NATSConnectionProvider" || n == m.KVIface) {
					nContacts++
					gs := m.GuardsAt(in)
					errNil := hasLit(gs, true, func(s *Sym) bool {
						return s.Op == "bin" && s.Name == "==" && symMentions(s, "nil") && symMentions(s, funcName(vf)+"(")
					})
					c.check(dominatesInstr(site, in) && errNil, "R2", fmt.Sprintf("validation before %s.%s in %s", n.Obj().Name(), x.Call.Method.Name(), shortFn(ctor)), in,
						"validator call dominates: %v; reached only with its result == nil: %v", dominatesInstr(site, in), errNil)
				}
			}
		}
	})
	if nContacts < 2 {
		c.undecided("R2", "instance-floor", nil, "only %d provider contacts found in %s; 3 on the reference tree", nContacts, shortFn(ctor))
	}
	// exported constructors delegate
	elIface := m.P.Leader.Type("Election").Type()
	returnsElection := func(g *ssa.Function) bool {
		if g.Signature.Results().Len() != 2 || !isErrorType(g.Signature.Results().At(1).Type()) {
			return false
		}
		r0 := g.Signature.Results().At(0).Type()
		return types.Identical(r0, elIface) || types.Identical(r0, m.implPtr())
	}
	isProviderInvoke := func(x ssa.Instruction) bool {
		c2, ok := x.(*ssa.Call)
		if !ok || !c2.Call.IsInvoke() {
			return false
		}
		n := namedOf(c2.Call.Value.Type())
		return n != nil && n.Obj().Pkg() == m.P.Leader.Pkg && (n.Obj().Name() == "JetStreamProvider" || n.Obj().Name() == "JetStreamContext" || n.Obj().Name() == "NATSConnectionProvider" || n == m.KVIface)
	}
	// delegation: f hands the construction on to the validating constructor, directly or through
	// functions that return the election themselves; everything else it calls on the way must not
	// contact a provider or start a goroutine
	var deleg func(f *ssa.Function, depth int) (delegates, contacts bool, via string)
	deleg = func(f *ssa.Function, depth int) (delegates, contacts bool, via string) {
		if depth > 4 {
			return false, false, ""
		}
		eachInstr(f, func(in ssa.Instruction) {
			if _, isGo := in.(*ssa.Go); isGo {
				contacts, via = true, " (go statement in "+shortFn(f)+")"
			}
			call, ok := in.(*ssa.Call)
			if !ok {
				return
			}
			if call.Call.IsInvoke() {
				contacts, via = true, " (interface call in "+shortFn(f)+")"
				return
			}
			g := call.Call.StaticCallee()
			if g == nil || !m.isLib(g) || g == vf {
				return
			}
			if g == ctor {
				delegates = true
				return
			}
			if returnsElection(g) {
				d, c2, v2 := deleg(g, depth+1)
				delegates = delegates || d
				if c2 {
					contacts, via = true, v2
				}
				return
			}
			for _, h := range sortedFns(m.staticReach(g, true)) {
				eachInstr(h, func(x ssa.Instruction) {
					if isProviderInvoke(x) {
						contacts, via = true, " (through "+shortFn(h)+")"
					}
				})
			}
		})
		return
	}
	for _, mem := range m.P.Leader.Members {
		f, ok := mem.(*ssa.Function)
		if !ok || f.Object() == nil || !f.Object().Exported() || f.Signature.Results().Len() != 2 || !types.Identical(f.Signature.Results().At(0).Type(), elIface) {
			continue
		}
		delegates, contacts, via := deleg(f, 0)
		c.check(delegates && !contacts, "R2", "exported constructor "+shortFn(f)+" delegates", firstInstr(f), "delegates to the validating constructor: %v; contacts a provider itself: %v%s", delegates, contacts, via)
	}
}

func sortedKeys(m map[string]string) []string {
	var out []string
	for k := range m {
		out = append(out, k)
	}
	sort.Strings(out)
	return out
}

// ttlMarginEnforced is C07-R3: the TTL >= 3*H cube is part of the reject table.
func ttlMarginEnforced(c *Ctx) (bool, string) {
	m := c.M
	rejects, _, vf := m.rejectTable()
	if vf == nil {
		return false, "validator not found"
	}
	want := "(cfg.TTL < (3 * cfg.HeartbeatInterval))"
	for _, r := range rejects {
		for _, l := range r.lits {
			if l == want {
				return true, "validator rejects " + want
			}
		}
	}
	return false, "no reject under " + want + " found in the validator: the heartbeat/TTL margin is not enforced"
}
