package main

import (
	"go/constant"
	"fmt"
	"go/token"
	"go/types"
	"strings"

	"golang.org/x/tools/go/ssa"
)

func init() {
	register(&PropertySpec{
		ID:    "C17",
		Level: "other",
		Run:   checkC17,
		Explanation: "The numeric clause (CalculateBackoff within +/-Jitter of the capped exponential, never negative, for every float input) needs an abstract interpretation of IEEE arithmetic through math.Pow and is NOT decided. Decided: (R1) an acquisition round first waits time.After(10 ms + rand*(90 ms)) in a select with ctx.Done(), makes at most 4 attempts (loop bound 0..3 inclusive, step 1), calls the acquisition function once per iteration and waits CalculateBackoff(DefaultBackoffConfig(), i) between iterations in a select with ctx.Done(); " +
			"(R2) CircuitBreaker.Call runs under its mutex; while the state is Open and the cooldown has not elapsed the operation is not reachable; an error increments failures by 1 and opens the breaker at failures >= threshold; a success resets failures and closes it; " +
			"(R4) in CalculateBackoff the exponential term reaches a conversion to an integer duration only through a clamp of the form `value <= MaxBackoff` that HOLDS (its NaN-blind negation and the builtin min let 0 * +Inf = NaN through; one structural necessary condition of the numeric clause); (R3) RetryWithBackoff, explored path by path through whatever helpers its body is split into: with the invocation's result nil, or IsPermanentError(err) true, or ctx.Err() != nil, or the wait's ctx.Done() case taken, or attempt >= MaxAttempts-1 under MaxAttempts > 0, or MaxAttempts < 0, no further invocation is reachable; every path from one invocation to the next passes the single backoff wait CalculateBackoff(cfg.BackoffConfig, attempt) on a counter that starts at 0 and advances by 1.",
		NotDecided: []string{"CalculateBackoff's numeric range for all float inputs (IEEE arithmetic through math.Pow)", "that rand.Float64 is uniform on [0,1)", "observed rounds in simulated elections (a runtime notion)"},
		Assumptions: []string{"math/rand/v2.Float64 returns a value in [0,1)", "time.After semantics"},
		Rules: map[string]string{
			"R1": "initial wait == time.After(10ms + Duration(rand.Float64()*90ms)) in a select with ctx.Done(); loop test `i <= 3` on a counter starting at 0 with step 1; exactly one call of the acquisition function per iteration; inter-attempt wait == time.After(CalculateBackoff(DefaultBackoffConfig(), i)) in a select with ctx.Done()",
			"R2": "fn() is under the breaker mutex; unreachable from the edge state==Open && since<cooldown; failures+1 on error; state=Open iff threshold <= failures (non-strict); failures=0 and state=Closed on success",
			"R6": "every store to a field of CircuitBreaker (other than its mutex) is in Call, in a function reached only from Call, or on an object allocated in the storing function (constructor)",
			"R4": "in CalculateBackoff every float->integer conversion is applied to a value that depends on math.Pow only through a phi edge on which (value <= MaxBackoff) or (value < MaxBackoff) holds; calls (builtin min, math.Abs, helpers) pass the dependence on (one necessary condition of the numeric clause: no int64 overflow of the unclamped exponential, no NaN)",
			"R5": "at the float->integer conversion in CalculateBackoff: the converted value is, through its phis, a constant in [0, 2^63) or a value v with a holding literal `K <= v` (K >= 0) among the edge's guards; and the guards at the conversion contain NOT (K <= v) or (v < K) for a constant K <= 2^63",
			"R3": "invocations = calls of the function parameter / CircuitBreaker.Call(it) in RetryWithBackoff and its single-call-site helpers; path exploration (following helper returns into the caller with the returned constants, under the stated assumption) finds no second invocation after: result nil | IsPermanentError true | ctx.Err() != nil edge | ctx.Done() case of the wait | MaxAttempts-1 <= attempt under 0 < MaxAttempts | MaxAttempts < 0; exactly one bounded wait, CalculateBackoff(cfg.BackoffConfig, counter), on every path between two invocations; counter from 0 step 1",
		},
	})
}

func checkC17(c *Ctx) {
	acquisitionRoundRule(c, "R1")
	breakerRule(c, "R2")
	breakerWritersRule(c, "R6")
	retryLoopRule(c, "R3")
	backoffClampRule(c, "R4")
}

// backoffClampRule: in CalculateBackoff the exponential term (the value computed from
// math.Pow) reaches a float->integer conversion only through the clamp against MaxBackoff:
// an unclamped value overflows int64 for large attempt numbers (negative or huge waits).
// This is one structural necessary condition of the numeric clause, not the clause itself.
func backoffClampRule(c *Ctx, rule string) {
	m := c.M
	f := m.libFunc("CalculateBackoff")
	if f == nil {
		c.undecided(rule, "CalculateBackoff", nil, "function not found")
		return
	}
	isFloat := func(t types.Type) bool {
		b, ok := t.Underlying().(*types.Basic)
		return ok && b.Info()&types.IsFloat != 0
	}
	isInt := func(t types.Type) bool {
		b, ok := t.Underlying().(*types.Basic)
		return ok && b.Info()&types.IsInteger != 0
	}
	// raw = values (transitively) computed from math.Pow without passing a phi
	var pow *ssa.Call
	unitOfF := m.bodyFns(f)
	eachUnitF := func(fn func(in ssa.Instruction)) {
		for _, g := range unitOfF {
			eachInstr(g, fn)
		}
	}
	// retOf: the values a single-call-site phase of the computation returns
	retsOf := func(call *ssa.Call) ([]ssa.Value, []*ssa.BasicBlock) {
		g := call.Call.StaticCallee()
		if g == nil || !containsFn(unitOfF, g) || g == f || g.Signature.Results().Len() != 1 {
			return nil, nil
		}
		var vs []ssa.Value
		var bs []*ssa.BasicBlock
		for _, b := range liveBlocks(g) {
			if ret, ok := b.Instrs[len(b.Instrs)-1].(*ssa.Return); ok && b != g.Recover {
				vs = append(vs, returnValue(ret, 0))
				bs = append(bs, b)
			}
		}
		return vs, bs
	}
	eachUnitF(func(in ssa.Instruction) {
		if call, ok := isCallTo(valueOf(in), "math.Pow"); ok {
			pow = call
		}
	})
	if pow == nil {
		c.undecided(rule, "exponential term", firstInstr(f), "no math.Pow call found in CalculateBackoff: the accepted shape (InitialBackoff * Multiplier^n, clamp, jitter, convert) was not recognised")
		return
	}
	// unclamped(v): v depends on pow through arithmetic only, or through a phi edge that is not the clamp's pass-through edge
	var unclamped func(v ssa.Value, depth int) bool
	unclamped = func(v ssa.Value, depth int) bool {
		if depth > 12 {
			return false
		}
		switch x := v.(type) {
		case *ssa.Parameter:
			if tv := m.traceValue(x); tv != ssa.Value(x) {
				return unclamped(tv, depth+1)
			}
			return false
		case *ssa.Call:
			if x == pow {
				return true
			}
			// a phase of the computation in a function of its own: what it returns
			if vs, bs := retsOf(x); vs != nil {
				for i, rv := range vs {
					if !unclamped(rv, depth+1) {
						continue
					}
					// a phase that clamps by early return (if b <= cap { return b }; return cap): the
					// return of the raw value must be guarded by "value <= MaxBackoff" HOLDING
					es := m.Sym.Of(rv).String()
					clamped := false
					last := bs[i].Instrs[len(bs[i].Instrs)-1]
					for _, l := range m.GuardsAt(last) {
						if l.S.Op == "bin" && symMentions(l.S, "MaxBackoff") && (l.S.Name == "<=" || l.S.Name == "<") && l.S.Args[0].String() == es && l.Truth {
							clamped = true
						}
					}
					if !clamped {
						return true
					}
				}
				return false
			}
			// any other call passes its arguments on (math.Abs, a helper); the builtin min
			// propagates NaN, so it is no clamp for 0 * +Inf either
			for _, a := range x.Call.Args {
				if unclamped(a, depth+1) {
					return true
				}
			}
			return false
		case *ssa.BinOp:
			return unclamped(x.X, depth+1) || unclamped(x.Y, depth+1)
		case *ssa.UnOp:
			return unclamped(x.X, depth+1)
		case *ssa.Convert:
			return unclamped(x.X, depth+1)
		case *ssa.Phi:
			for i, e := range x.Edges {
				if !unclamped(e, depth+1) {
					continue
				}
				// the edge must carry "e is not above the cap": NOT (cap < e) or (e <= cap)
				pred := x.Block().Preds[i]
				succIdx := 0
				for j, sx := range pred.Succs {
					if sx == x.Block() {
						succIdx = j
					}
				}
				es := m.Sym.Of(e).String()
				okEdge := false
				for _, l := range m.EdgeLits(pred, succIdx) {
					if l.S.Op != "bin" || !symMentions(l.S, "MaxBackoff") {
						continue
					}
					a0 := l.S.Args[0].String()
					// only a comparison that HOLDS bounds the value: NOT (cap < e) is also true for
					// NaN (0 * +Inf), which then reaches the conversion
					if (l.S.Name == "<=" || l.S.Name == "<") && a0 == es && l.Truth {
						okEdge = true
					}
				}
				if !okEdge {
					return true
				}
			}
			return false
		}
		return false
	}
	n := 0
	eachUnitF(func(in ssa.Instruction) {
		cv, ok := in.(*ssa.Convert)
		if !ok || !isFloat(cv.X.Type()) || !isInt(cv.Type()) {
			return
		}
		n++
		bad := unclamped(cv.X, 0)
		c.check(!bad, rule, fmt.Sprintf("float->integer conversion #%d in CalculateBackoff is applied after the MaxBackoff clamp", n), in,
			"the converted value %s depends on the exponential term without passing a clamp of the form `value <= MaxBackoff` that holds: %v (InitialBackoff * Multiplier^n overflows int64 from n of about 38, and 0 * +Inf is NaN, which passes `!(value > cap)` and the builtin min: negative or absurd waits)", clip(m.Sym.Of(cv.X).String(), 120), bad)
		// the value that is converted - after the jitter - lies in [0, 2^63): below by a comparison
		// that HOLDS (so it is not NaN either), above by a test against a constant <= 2^63. The
		// conversion of a float outside the int64 range is implementation-defined (amd64: MinInt64).
		const two63 = 9223372036854775808.0
		constFloat := func(v ssa.Value) (float64, bool) {
			k, ok := v.(*ssa.Const)
			if !ok || k.Value == nil {
				return 0, false
			}
			fv, _ := constant.Float64Val(constant.ToFloat(k.Value))
			return fv, constant.ToFloat(k.Value).Kind() == constant.Float
		}
		var nonNeg func(v ssa.Value, lits []Lit, depth int) bool
		nonNeg = func(v ssa.Value, lits []Lit, depth int) bool {
			if depth > 10 {
				return false
			}
			if fv, ok := constFloat(v); ok {
				return fv >= 0 && fv < two63
			}
			for _, l := range lits {
				// 0 <= v, holding
				if l.Truth && l.S.Op == "bin" && l.S.Name == "<=" && l.S.Args[1].V == v {
					if fv, ok := constFloat(l.S.Args[0].V); ok && fv >= 0 {
						return true
					}
				}
			}
			if p, ok := v.(*ssa.Parameter); ok {
				if tv := m.traceValue(p); tv != ssa.Value(p) {
					var at []Lit
					if in, isIn := tv.(ssa.Instruction); isIn {
						at = m.GuardsAt(in)
					}
					return nonNeg(tv, at, depth+1)
				}
				return false
			}
			if call, ok := v.(*ssa.Call); ok {
				if vs, bs := retsOf(call); vs != nil {
					for i, rv := range vs {
						if !nonNeg(rv, m.Guards(bs[i]), depth+1) {
							return false
						}
					}
					return true
				}
			}
			if ph, ok := v.(*ssa.Phi); ok {
				for i, e := range ph.Edges {
					pred := ph.Block().Preds[i]
					succIdx := 0
					for j, sx := range pred.Succs {
						if sx == ph.Block() {
							succIdx = j
						}
					}
					if !nonNeg(e, m.EdgeLits(pred, succIdx), depth+1) {
						return false
					}
				}
				return true
			}
			return false
		}
		gsCv := m.GuardsAt(in)
		lower := nonNeg(cv.X, gsCv, 0)
		upper := false
		for _, l := range gsCv {
			if l.S.Op != "bin" {
				continue
			}
			// NOT (K <= v)  or  (v < K), K <= 2^63
			if !l.Truth && l.S.Name == "<=" && l.S.Args[1].V == cv.X {
				if fv, ok := constFloat(l.S.Args[0].V); ok && fv <= two63 {
					upper = true
				}
			}
			if l.Truth && l.S.Name == "<" && l.S.Args[0].V == cv.X {
				if fv, ok := constFloat(l.S.Args[1].V); ok && fv <= two63 {
					upper = true
				}
			}
		}
		c.check(lower && upper, "R5", fmt.Sprintf("float->integer conversion #%d in CalculateBackoff is applied to a value in [0, 2^63)", n), in,
			"converted value %s: at least 0 by a comparison that holds on every path (so not NaN): %v; below 2^63 by a test against a constant: %v. The jitter is added AFTER the MaxBackoff clamp: with MaxBackoff near the largest duration the sum exceeds 2^63, a NaN or infinite Jitter makes it NaN, a negative InitialBackoff makes it negative - each converts to a negative wait.", clip(m.Sym.Of(cv.X).String(), 100), lower, upper)
	})
	if n == 0 {
		c.undecided(rule, "conversion to Duration", firstInstr(f), "no float->integer conversion found in CalculateBackoff")
	}
}

// acquisitionFn: the function issuing Create.
func (m *Model) acquisitionFn() *ssa.Function {
	for _, op := range m.StoreOps() {
		if op.Method == "Create" {
			return topFunc(op.Fn)
		}
	}
	return nil
}

func acquisitionRoundRule(c *Ctx, rule string) {
	m := c.M
	acq := m.acquisitionFn()
	if acq == nil {
		c.undecided(rule, "acquisition function", nil, "no Create store operation found")
		return
	}
	// the round: a function with a loop that calls acq
	var round *ssa.Function
	// leadsToAcq: the call is the attempt, or a call of a function the round's body was split into
	// (one call site) that makes the attempt
	leadsToAcq := func(f *ssa.Function, call *ssa.Call) bool {
		g := call.Call.StaticCallee()
		if g == nil {
			return false
		}
		if g == acq {
			return true
		}
		return g != f && containsFn(m.bodyFns(f), g) && m.staticReach(g, false)[acq]
	}
	for _, f := range m.Funcs {
		if f.Parent() != nil {
			continue
		}
		for _, loop := range cfgLoops(f) {
			for _, b := range loop {
				for _, in := range b.Instrs {
					if call, ok := in.(*ssa.Call); ok && leadsToAcq(f, call) {
						round = f
					}
				}
			}
		}
	}
	if round == nil {
		c.undecided(rule, "acquisition round", nil, "no loop calling %s found", shortFn(acq))
		return
	}
	rn := shortFn(round)
	var jitterSel, backoffSel ssa.Instruction
	var jitterDur, backoffDur ssa.Value
	done := map[ssa.Instruction]bool{}
	hasDone := func(in ssa.Instruction) bool { return done[in] }
	var roundWaits []WaitSite
	for _, g := range m.bodyFns(round) {
		for _, w := range m.waitSites(g) {
			// a select inside a wait helper is represented by the helper's call site
			if _, isSel := w.At.(*ssa.Select); isSel && g != round {
				dup := false
				for _, h := range m.bodyFns(round) {
					for _, o := range m.waitSites(h) {
						if call, ok := o.At.(*ssa.Call); ok && call.Call.StaticCallee() == g {
							dup = true
						}
					}
				}
				if dup {
					continue
				}
			}
			roundWaits = append(roundWaits, w)
		}
	}
	for _, w := range roundWaits {
		done[w.At] = w.Done
		lifted := m.liftTo(round, w.At)
		if lifted != nil && inLoop(lifted.Block()) {
			backoffSel, backoffDur = w.At, w.Dur
		} else {
			jitterSel, jitterDur = w.At, w.Dur
		}
	}
	if jitterSel == nil {
		c.viol(rule, "initial jitter wait in "+rn, firstInstr(round), "no select on time.After before the attempt loop: all followers that see the vacancy create at the same instant")
	} else {
		s := m.Sym.Of(jitterDur)
		// (10000000 + (9e+07 * rand.Float64()))
		ok := false
		lo, span := int64(-1), ""
		if s.Op == "bin" && s.Name == "+" {
			for i := 0; i < 2; i++ {
				if k, isC := s.Args[i].ConstInt(); isC {
					lo = k
					o := s.Args[1-i]
					if o.Op == "bin" && o.Name == "*" {
						for j := 0; j < 2; j++ {
							if o.Args[j].Op == "const" && strings.HasSuffix(o.Args[1-j].Name, "rand/v2.Float64") || (o.Args[j].Op == "const" && o.Args[1-j].Op == "call" && strings.Contains(o.Args[1-j].Name, "rand") && strings.HasSuffix(o.Args[1-j].Name, "Float64")) {
								span = o.Args[j].Name
							}
						}
					}
				}
			}
		}
		if lo == 10_000_000 && (span == "9e+07" || span == "90000000") {
			ok = true
		}
		c.check(ok, rule, "initial jitter is 10 ms + rand * 90 ms in "+rn, jitterSel, "wait expression %s (required 10000000 + 9e+07 * rand.Float64())", s)
		c.check(hasDone(jitterSel), rule, "initial jitter wait observes the context in "+rn, jitterSel, "ctx.Done() case: %v", hasDone(jitterSel))
	}
	// loop bound: the tests of the loop counter against a constant that leave the loop and that
	// every iteration passes. A test that precedes the attempt admits the attempt for the counter
	// values it lets through; a test after the attempt admits one more.
	boundOK, boundDesc := false, "no loop-counter test against a constant leaves the attempt loop"
	var counter *ssa.Phi
	var acqCall *ssa.Call
	eachInstr(round, func(in ssa.Instruction) {
		if call, ok := in.(*ssa.Call); ok && leadsToAcq(round, call) && inLoop(in.Block()) {
			acqCall = call
		}
	})
	best := int64(-1)
	eachInstr(round, func(in ssa.Instruction) {
		ifi, ok := in.(*ssa.If)
		if !ok || !inLoop(in.Block()) || acqCall == nil {
			return
		}
		var loop []*ssa.BasicBlock
		for _, l := range cfgLoops(round) {
			for _, b := range l {
				if b == acqCall.Block() {
					loop = l
				}
			}
		}
		inSet := map[*ssa.BasicBlock]bool{}
		for _, b := range loop {
			inSet[b] = true
		}
		if !inSet[in.Block()] {
			return
		}
		// which edge leaves the loop
		exit := -1
		for i, s := range in.Block().Succs {
			if !inSet[s] {
				if exit >= 0 {
					return
				}
				exit = i
			}
		}
		if exit < 0 {
			return
		}
		// every iteration passes the test: it dominates every source of a back edge
		head := loop[0]
		for _, p := range head.Preds {
			if inSet[p] && !in.Block().Dominates(p) && in.Block() != p {
				return
			}
		}
		// literal that holds when the loop continues
		l := m.litOf(ifi.Cond, exit != 0, ifi)
		if l.S.Op != "bin" || len(l.S.Args) != 2 {
			return
		}
		var ph *ssa.Phi
		var k int64
		phLeft := false
		for i := 0; i < 2; i++ {
			if p, ok := l.S.Args[i].V.(*ssa.Phi); ok && p.Block() == head {
				if n, isC := l.S.Args[1-i].ConstInt(); isC {
					ph, k, phLeft = p, n, i == 0
				}
			}
		}
		if ph == nil {
			return
		}
		start, step := int64(-1), int64(-1)
		for i, e := range ph.Edges {
			if n, isC := constInt(e); isC && !inLoopFrom(ph.Block().Preds[i], ph.Block()) {
				start = n
			}
			if bo, ok := e.(*ssa.BinOp); ok && bo.Op == token.ADD && bo.X == ssa.Value(ph) {
				if n, isC := constInt(bo.Y); isC {
					step = n
				}
			}
		}
		if start < 0 || step <= 0 {
			return
		}
		// last counter value for which the loop continues past this test
		last := int64(-1)
		switch {
		case l.Truth && phLeft && l.S.Name == "<=":
			last = k
		case l.Truth && phLeft && l.S.Name == "<":
			last = k - 1
		case !l.Truth && !phLeft && l.S.Name == "<": // !(k < i)
			last = k
		case !l.Truth && !phLeft && l.S.Name == "<=": // !(k <= i)
			last = k - 1
		case !l.Truth && l.S.Name == "==" && k >= start && (k-start)%step == 0:
			last = k - step
		default:
			return
		}
		if last < start-step {
			last = start - step
		}
		trips := (last-start)/step + 1
		where := "before the attempt"
		if !(in.Block().Dominates(acqCall.Block()) && in.Block() != acqCall.Block()) {
			trips++
			where = "after the attempt"
		}
		if best < 0 || trips < best {
			best = trips
			counter = ph
			boundDesc = fmt.Sprintf("counter from %d step %d, loop left at %s unless %s (%s): %d attempts", start, step, c.posOf(ifi), l, where, trips)
			boundOK = trips == 4 && step == 1 && start == 0
		}
	})
	// the attempt itself (in the round function or in the function the loop body was moved to)
	var acqInner *ssa.Call
	m.eachUnitInstr(round, func(in ssa.Instruction) {
		if call, ok := in.(*ssa.Call); ok && call.Call.StaticCallee() == acq {
			if l := m.liftTo(round, in); l != nil && inLoop(l.Block()) {
				acqInner = call
			}
		}
	})
	if best < 0 && acqCall != nil && acqInner != nil {
		// the counter test sits in a function the loop body was moved to and leaves the loop through
		// that function's result: identify the comparison as a value and explore under assumptions
		var head *ssa.BasicBlock
		for _, l := range cfgLoops(round) {
			for _, b := range l {
				if b == acqCall.Block() {
					head = l[0]
				}
			}
		}
		unit := m.bodyFns(round)
		reachesSecondAttempt := func(assume map[ssa.Value]bool, mustPass ssa.Instruction) (again bool, skipped bool) {
			first := true
			m.descend = func(g *ssa.Function) bool { return containsFn(unit, g) }
			m.exploreAssuming(acqInner, assume, 0, func(in ssa.Instruction, flag int) (int, bool) {
				if first {
					first = false
					return flag, false
				}
				if in == mustPass {
					flag = 1
				}
				if in == ssa.Instruction(acqInner) {
					again = true
					if flag == 0 {
						skipped = true
					}
					return flag, true
				}
				return flag, false
			}, nil)
			m.descend = nil
			return
		}
		m.eachUnitInstr(round, func(in ssa.Instruction) {
			bo, ok := in.(*ssa.BinOp)
			if !ok || head == nil {
				return
			}
			var ph *ssa.Phi
			var k int64
			phLeft := false
			for i, x := range []ssa.Value{bo.X, bo.Y} {
				if p, isPhi := m.traceValue(x).(*ssa.Phi); isPhi && p.Block() == head {
					other := bo.Y
					if i == 1 {
						other = bo.X
					}
					if n, isC := constInt(other); isC {
						ph, k, phLeft = p, n, i == 0
					}
				}
			}
			if ph == nil {
				return
			}
			start, step := int64(-1), int64(-1)
			for i, e := range ph.Edges {
				if n, isC := constInt(e); isC && !inLoopFrom(ph.Block().Preds[i], ph.Block()) {
					start = n
				}
				if b2, ok := e.(*ssa.BinOp); ok && b2.Op == token.ADD && b2.X == ssa.Value(ph) {
					if n, isC := constInt(b2.Y); isC {
						step = n
					}
				}
			}
			if start < 0 || step <= 0 {
				return
			}
			// which value of the comparison ends the round: under it no second attempt is reachable
			exitTruth, found := false, false
			for _, t := range []bool{true, false} {
				if again, _ := reachesSecondAttempt(map[ssa.Value]bool{ssa.Value(bo): t}, nil); !again {
					exitTruth, found = t, true
				}
			}
			if !found {
				return
			}
			// every way from one attempt to the next evaluates it
			if _, skipped := reachesSecondAttempt(nil, in); skipped {
				return
			}
			// last counter value for which the round continues past this comparison
			cont := !exitTruth
			last := int64(-1)
			op := bo.Op
			if !phLeft { // constant on the left: mirror
				switch op {
				case token.LSS:
					op = token.GTR
				case token.LEQ:
					op = token.GEQ
				case token.GTR:
					op = token.LSS
				case token.GEQ:
					op = token.LEQ
				}
			}
			switch {
			case op == token.LSS && cont: // i < k continues
				last = k - 1
			case op == token.LEQ && cont:
				last = k
			case op == token.GEQ && !cont: // exit when i >= k
				last = k - 1
			case op == token.GTR && !cont:
				last = k
			case op == token.EQL && !cont && k >= start && (k-start)%step == 0: // exit when i == k
				last = k - step
			case op == token.NEQ && cont && k >= start && (k-start)%step == 0:
				last = k - step
			default:
				return
			}
			if last < start-step {
				last = start - step
			}
			trips := (last-start)/step + 1
			where := "before the attempt"
			if m.dominatesLifted(round, acqInner, in) {
				trips++
				where = "after the attempt"
			}
			if best < 0 || trips < best {
				best = trips
				counter = ph
				boundDesc = fmt.Sprintf("counter from %d step %d, round left when %s is %v (%s, in %s): %d attempts", start, step, m.Sym.Of(bo), exitTruth, where, shortFn(in.Parent()), trips)
				boundOK = trips == 4 && step == 1 && start == 0
			}
		})
	}
	c.check(boundOK, rule, "at most four attempts per round in "+rn, firstInstr(round), "%s (required 4)", boundDesc)
	// one acquisition per iteration
	nCalls := 0
	m.eachUnitInstr(round, func(in ssa.Instruction) {
		if call, ok := in.(*ssa.Call); ok && call.Call.StaticCallee() == acq {
			if l := m.liftTo(round, in); l != nil && inLoop(l.Block()) {
				nCalls++
			}
		}
	})
	c.check(nCalls == 1, rule, "one acquisition attempt per iteration in "+rn, firstInstr(round), "%d calls of %s in the loop", nCalls, shortFn(acq))
	if backoffSel == nil {
		c.viol(rule, "backoff wait between attempts in "+rn, firstInstr(round), "no select on time.After inside the attempt loop: retries hammer the store")
	} else {
		s := m.Sym.Of(backoffDur)
		ok := s.Op == "call" && strings.HasSuffix(s.Name, "CalculateBackoff") && len(s.Args) == 2 && s.Args[0].Op == "call" && strings.HasSuffix(s.Args[0].Name, "DefaultBackoffConfig") && counter != nil && s.Args[1].V != nil && m.traceValue(s.Args[1].V) == ssa.Value(counter)
		c.check(ok, rule, "backoff wait is CalculateBackoff(DefaultBackoffConfig(), attempt) in "+rn, backoffSel, "wait expression %s", s)
		c.check(hasDone(backoffSel), rule, "backoff wait observes the context in "+rn, backoffSel, "ctx.Done() case: %v", hasDone(backoffSel))
	}
	// DefaultBackoffConfig constants (the documented 50ms / 5s / 2.0 / 0.1)
	if dbc := m.libFunc("DefaultBackoffConfig"); dbc != nil {
		for _, b := range liveBlocks(dbc) {
			if ret, ok := b.Instrs[len(b.Instrs)-1].(*ssa.Return); ok {
				v := returnValue(ret, 0)
				want := map[string]string{"InitialBackoff": "const:50000000", "MaxBackoff": "const:5000000000", "BackoffMultiplier": "const:2", "Jitter": "const:0.1"}
				for f, w := range want {
					o := m.FieldOrigins(v, f)
					c.check(len(o) == 1 && o[w], rule, "DefaultBackoffConfig."+f, ret, "origins %s (required %s)", o, w)
				}
			}
		}
	}
}

func breakerRule(c *Ctx, rule string) {
	m := c.M
	la := m.Locks()
	var callFn *ssa.Function
	for _, f := range m.Funcs {
		if f.Name() == "Call" && f.Signature.Recv() != nil && namedOf(f.Signature.Recv().Type()) != nil && namedOf(f.Signature.Recv().Type()).Obj().Name() == "CircuitBreaker" {
			callFn = f
		}
	}
	if callFn == nil {
		c.undecided(rule, "CircuitBreaker.Call", nil, "method not found")
		return
	}
	// the operation call: call of the function parameter
	var op *ssa.Call
	eachInstr(callFn, func(in ssa.Instruction) {
		if call, ok := in.(*ssa.Call); ok && !call.Call.IsInvoke() && call.Call.StaticCallee() == nil {
			if p, ok := call.Call.Value.(*ssa.Parameter); ok && p.Parent() == callFn {
				op = call
			}
		}
	})
	if op == nil {
		c.viol(rule, "breaker invokes the operation", firstInstr(callFn), "no call of the function parameter found")
		return
	}
	// the roles of the breaker's fields, by type and use (not by name): the state word (its own named
	// integer type), the time of the last failure (time.Time), the cooldown (time.Duration), and of
	// the two plain integers the one the Call unit stores (count) and the one it does not (threshold)
	fState, fLast, fCool, fCount, fThresh := "state", "lastFailureTime", "cooldownPeriod", "failures", "failureThreshold"
	if bt := namedOf(callFn.Signature.Recv().Type()); bt != nil {
		if stt, ok := bt.Underlying().(*types.Struct); ok {
			storedInUnit := map[string]bool{}
			for _, uf := range m.bodyFns(callFn) {
				eachInstr(uf, func(in ssa.Instruction) {
					if st, ok := in.(*ssa.Store); ok {
						if fa, ok := st.Addr.(*ssa.FieldAddr); ok && namedOf(fa.X.Type()) == bt {
							storedInUnit[stt.Field(fa.Field).Name()] = true
						}
					}
				})
			}
			for i := 0; i < stt.NumFields(); i++ {
				fd := stt.Field(i)
				switch {
				case isNamed(fd.Type(), "time", "Time"):
					fLast = fd.Name()
				case isNamed(fd.Type(), "time", "Duration"):
					fCool = fd.Name()
				case namedOf(fd.Type()) != nil && namedOf(fd.Type()).Obj().Pkg() == m.P.Leader.Pkg:
					if b, ok := fd.Type().Underlying().(*types.Basic); ok && b.Info()&types.IsInteger != 0 {
						fState = fd.Name()
					}
				default:
					if b, ok := fd.Type().(*types.Basic); ok && b.Info()&types.IsInteger != 0 {
						if storedInUnit[fd.Name()] {
							fCount = fd.Name()
						} else {
							fThresh = fd.Name()
						}
					}
				}
			}
		}
	}
	pState, pLast, pCool, pCount, pThresh := "CircuitBreaker."+fState, "CircuitBreaker."+fLast, "CircuitBreaker."+fCool, "CircuitBreaker."+fCount, "CircuitBreaker."+fThresh
	c.check(len(la.MustBefore(op)) > 0, rule, "operation runs under the breaker mutex", op, "must-lockset %s", la.MustBefore(op))
	// gating
	gated := false
	eachUnit := func(fn func(in ssa.Instruction)) {
		for _, uf := range m.unitFns(callFn) {
			eachInstr(uf, fn)
		}
	}
	eachUnit(func(in ssa.Instruction) {
		ifi, ok := in.(*ssa.If)
		if !ok {
			return
		}
		l := m.litOf(ifi.Cond, true, ifi)
		// since < cooldown, or its complement cooldown <= since (if !cooledDown): `within` is the truth
		// value of the literal on the edge where the cooldown has not elapsed
		formA := l.S.Op == "bin" && l.S.Name == "<" && symMentions(l.S.Args[0], "time.Since("+pLast+")") && l.S.Args[1].String() == pCool
		formB := l.S.Op == "bin" && l.S.Name == "<=" && symMentions(l.S.Args[1], "time.Since("+pLast+")") && l.S.Args[0].String() == pCool
		if formB {
			l.Truth = !l.Truth
		}
		if formA || formB {
			gs := m.AllGuards(in, false)
			open := hasLit(gs, true, func(s *Sym) bool {
				return s.Op == "bin" && s.Name == "==" && symMentions(s, pState) && (s.Args[0].String() == "1" || s.Args[1].String() == "1")
			})
			edge := map[bool]int{true: 0, false: 1}[l.Truth]
			reach := false
			m.explore(in.Block(), edge, 0, func(x ssa.Instruction, flag int) (int, bool) {
				if x == ssa.Instruction(op) {
					reach = true
					return flag, true
				}
				return flag, false
			}, nil)
			gated = true
			c.check(open && !reach, rule, "no invocation while open within the cooldown", in, "test is under state==Open: %v; operation reachable from the since<cooldown edge: %v", open, reach)
		}
	})
	if !gated {
		c.viol(rule, "no invocation while open within the cooldown", firstInstr(callFn), "no `time.Since(lastFailureTime) < cooldownPeriod` test found")
	}
	// a setter shared by several places of the unit (transitionLocked(to)): a store of its parameter
	// to the state word counts, at each call site in the unit, as a store of the argument
	stateSetter := map[*ssa.Function]int{}
	for _, f := range m.Funcs {
		if f.Parent() != nil || f == callFn {
			continue
		}
		idx, n := -1, 0
		eachInstr(f, func(in ssa.Instruction) {
			if st, ok := in.(*ssa.Store); ok {
				n++
				if m.Sym.Of(st.Addr).String() == "&"+pState {
					if par, ok := st.Val.(*ssa.Parameter); ok {
						for i, q := range f.Params {
							if q == par {
								idx = i
							}
						}
					}
				}
			}
		})
		if idx >= 0 && n == 1 {
			stateSetter[f] = idx
		}
	}
	// state updates
	var failStores, stateStores []string
	eachUnit(func(in ssa.Instruction) {
		st, ok := in.(*ssa.Store)
		if !ok {
			return
		}
		a := m.Sym.Of(st.Addr).String()
		if _, isSetter := stateSetter[st.Parent()]; isSetter && a == "&"+pState {
			return // judged at the setter's call sites
		}
		gs := m.unitGuardsSubst(callFn, in)
		errLit := "?"
		for _, l := range gs {
			if l.S.Op == "bin" && l.S.Name == "==" && symMentions(l.S, "nil") && symMentions(l.S, "callv") {
				errLit = map[bool]string{true: "success", false: "error"}[l.Truth]
			}
		}
		switch a {
		case "&" + pCount:
			failStores = append(failStores, errLit+": "+m.Sym.Of(st.Val).String())
		case "&" + pState:
			extra := ""
			for _, l := range gs {
				if symMentions(l.S, pThresh) {
					extra = " when " + l.String()
				}
			}
			stateStores = append(stateStores, errLit+": "+m.Sym.Of(st.Val).String()+extra)
		}
	})
	eachUnit(func(in ssa.Instruction) {
		call, ok := in.(*ssa.Call)
		if !ok {
			return
		}
		idx, ok := stateSetter[call.Call.StaticCallee()]
		if !ok || idx >= len(call.Call.Args) {
			return
		}
		gs := m.unitGuardsSubst(callFn, in)
		errLit, extra := "?", ""
		for _, l := range gs {
			if l.S.Op == "bin" && l.S.Name == "==" && symMentions(l.S, "nil") && symMentions(l.S, "callv") {
				errLit = map[bool]string{true: "success", false: "error"}[l.Truth]
			}
			if symMentions(l.S, pThresh) {
				extra = " when " + l.String()
			}
		}
		stateStores = append(stateStores, errLit+": "+m.Sym.Of(call.Call.Args[idx]).String()+extra)
	})
	wantFail := map[string]bool{"error: (1 + " + pCount + ")": true, "success: 0": true}
	okFail := len(failStores) == 2
	for _, s := range failStores {
		if !wantFail[s] {
			okFail = false
		}
	}
	c.check(okFail, rule, "failure counting", firstInstr(callFn), "stores to failures: %q (required: +1 on error, 0 on success)", failStores)
	okState := false
	hasOpen, hasClose := false, false
	for _, s := range stateStores {
		if s == "error: 1 when ("+pThresh+" <= "+pCount+")" {
			hasOpen = true
		}
		if s == "success: 0" {
			hasClose = true
		}
	}
	okState = hasOpen && hasClose
	c.check(okState, rule, "opens at failures >= threshold, closes on success", firstInstr(callFn), "stores to state: %q (required: Open(1) on error when threshold <= failures; Closed(0) on success)", stateStores)
	// EVERY successful invocation resets the count and closes the breaker - also the probe that
	// went through in the half-open state: with the operation's result nil, every path from the
	// invocation to the return of Call passes failures = 0 and state = Closed
	{
		unit := m.unitFns(callFn)
		resetMissing, closeMissing := false, false
		first := true
		m.descend = func(g *ssa.Function) bool { return containsFn(unit, g) }
		m.exploreAssumingNil(op, map[ssa.Value]bool{ssa.Value(op): true}, 0, func(in ssa.Instruction, flag int) (int, bool) {
			if first {
				first = false
				return flag, false
			}
			if st, ok := in.(*ssa.Store); ok {
				a := m.Sym.Of(st.Addr).String()
				if k, isC := constInt(st.Val); isC && k == 0 {
					if a == "&"+pCount {
						flag |= 1
					}
					if a == "&"+pState {
						flag |= 2
					}
				}
			}
			if call, ok := in.(*ssa.Call); ok {
				if idx, ok := stateSetter[call.Call.StaticCallee()]; ok && idx < len(call.Call.Args) {
					if k, isC := constInt(call.Call.Args[idx]); isC && k == 0 {
						flag |= 2
					}
				}
			}
			if ret, ok := in.(*ssa.Return); ok && ret.Parent() == callFn {
				// the end of Call (the exploration would go on in Call's caller)
				if flag&1 == 0 {
					resetMissing = true
				}
				if flag&2 == 0 {
					closeMissing = true
				}
				return flag, true
			}
			return flag, false
		}, nil)
		m.descend = nil
		c.check(!resetMissing && !closeMissing, rule, "every success resets the count and closes the breaker", op, "with the operation's result nil a path reaches the return of Call without failures = 0: %v; without state = Closed: %v (a breaker that closes after a half-open probe but keeps its count re-opens on the next single failure)", resetMissing, closeMissing)
	}
}

// breakerWritersRule: the breaker's state evolves only through Call. "Opens after exactly
// failureThreshold consecutive failures" and "never invokes the operation while open within its
// cooldown" are statements about the sequence of Call results; they can hold for every history only
// if nothing else (a getter that "refreshes" the state, a metrics hook) writes the count, the state
// or the time of the last failure.
func breakerWritersRule(c *Ctx, rule string) {
	m := c.M
	var callFn *ssa.Function
	for _, f := range m.Funcs {
		if f.Name() == "Call" && f.Signature.Recv() != nil && namedOf(f.Signature.Recv().Type()) != nil && namedOf(f.Signature.Recv().Type()).Obj().Name() == "CircuitBreaker" {
			callFn = f
		}
	}
	if callFn == nil {
		c.undecided(rule, "CircuitBreaker.Call", nil, "method not found")
		return
	}
	memo := map[*ssa.Function]int{} // 1 only from Call, 2 not
	var onlyFromCall func(g *ssa.Function, depth int) bool
	onlyFromCall = func(g *ssa.Function, depth int) bool {
		if g == callFn {
			return true
		}
		if v, ok := memo[g]; ok {
			return v == 1
		}
		memo[g] = 2 // cycles: not from Call alone
		if depth > 6 {
			return false
		}
		if g.Parent() != nil {
			if onlyFromCall(g.Parent(), depth+1) {
				memo[g] = 1
				return true
			}
			return false
		}
		if obj := g.Object(); obj == nil || obj.Exported() {
			return false
		}
		sites := m.callers[g]
		if len(sites) == 0 {
			return false
		}
		for _, s := range sites {
			if !onlyFromCall(s.Caller, depth+1) {
				return false
			}
		}
		memo[g] = 1
		return true
	}
	n := 0
	for _, f := range m.Funcs {
		eachInstr(f, func(in ssa.Instruction) {
			st, ok := in.(*ssa.Store)
			if !ok {
				return
			}
			fa, ok := st.Addr.(*ssa.FieldAddr)
			if !ok {
				return
			}
			nt := namedOf(fa.X.Type())
			if nt == nil || nt.Obj().Name() != "CircuitBreaker" || nt.Obj().Pkg() != m.P.Leader.Pkg {
				return
			}
			stt, _ := nt.Underlying().(*types.Struct)
			if stt == nil {
				return
			}
			field := stt.Field(fa.Field)
			if fn := namedOf(field.Type()); fn != nil && fn.Obj().Pkg() != nil && fn.Obj().Pkg().Path() == "sync" {
				return
			}
			if _, fresh := fa.X.(*ssa.Alloc); fresh {
				return
			}
			n++
			c.check(onlyFromCall(f, 0), rule, fmt.Sprintf("store to CircuitBreaker.%s in %s", field.Name(), shortFn(f)), in,
				"the storing function is Call or reached only from Call: %v (a getter, hook or reset that writes the breaker's count/state changes after how many consecutive failures it opens and whether a failed probe re-opens it)", onlyFromCall(f, 0))
		})
	}
	if n == 0 {
		c.undecided(rule, "stores to the breaker's fields", firstInstr(callFn), "none found: the breaker's state is kept somewhere this rule does not see")
	}
}

func retryLoopRule(c *Ctx, rule string) {
	m := c.M
	rb := m.libFunc("RetryWithBackoff")
	if rb == nil {
		c.undecided(rule, "RetryWithBackoff", nil, "function not found")
		return
	}
	unit := m.unitFns(rb)
	eachUnit := func(fn func(in ssa.Instruction)) {
		for _, uf := range unit {
			eachInstr(uf, fn)
		}
	}
	// the function parameter of RetryWithBackoff, wherever it was handed on to
	isOpValue := func(v ssa.Value) bool {
		t := m.traceValue(v)
		p, ok := t.(*ssa.Parameter)
		return ok && p.Parent() == rb && isFuncType(p.Type())
	}
	// operation invocations: a call of that function value, or CircuitBreaker.Call(it)
	var invocations []*ssa.Call
	nDirect, nBreaker := 0, 0
	eachUnit(func(in ssa.Instruction) {
		call, ok := in.(*ssa.Call)
		if !ok {
			return
		}
		if !call.Call.IsInvoke() && call.Call.StaticCallee() == nil && isOpValue(call.Call.Value) {
			nDirect++
			invocations = append(invocations, call)
		}
		if g := call.Call.StaticCallee(); g != nil && g.Name() == "Call" && strings.Contains(g.String(), "CircuitBreaker") && len(call.Call.Args) == 2 && isOpValue(call.Call.Args[1]) {
			nBreaker++
			invocations = append(invocations, call)
		}
	})
	c.check(nDirect == 1 && nBreaker == 1, rule, "one invocation per iteration", firstInstr(rb), "direct calls of fn: %d, calls through the breaker: %d (alternative branches of one iteration)", nDirect, nBreaker)
	if len(invocations) == 0 {
		return
	}
	isInvocation := func(in ssa.Instruction) bool {
		for _, iv := range invocations {
			if in == ssa.Instruction(iv) {
				return true
			}
		}
		return false
	}
	// derivesFromInvocation: the value is (a phi over) the result of an invocation
	var fromInv func(v ssa.Value, depth int) bool
	fromInv = func(v ssa.Value, depth int) bool {
		if depth > 6 {
			return false
		}
		v = m.traceValue(v)
		switch x := v.(type) {
		case *ssa.Call:
			if isInvocation(x) {
				return true
			}
			// the result of a unit function that returns an invocation's result
			if g := x.Call.StaticCallee(); g != nil && containsFn(unit, g) {
				for _, b := range liveBlocks(g) {
					if ret, ok := b.Instrs[len(b.Instrs)-1].(*ssa.Return); ok && len(ret.Results) == 1 && fromInv(returnValue(ret, 0), depth+1) {
						return true
					}
				}
			}
		case *ssa.Extract:
			if call, ok := x.Tuple.(*ssa.Call); ok {
				if g := call.Call.StaticCallee(); g != nil && containsFn(unit, g) {
					for _, b := range liveBlocks(g) {
						if ret, ok := b.Instrs[len(b.Instrs)-1].(*ssa.Return); ok && x.Index < len(ret.Results) && fromInv(returnValue(ret, x.Index), depth+1) {
							return true
						}
					}
				}
			}
		case *ssa.Phi:
			for _, e := range x.Edges {
				if fromInv(e, depth+1) {
					return true
				}
			}
		}
		return false
	}
	// reachesInvocation: from `start`, under the assumptions, can another invocation be reached?
	reaches := func(start ssa.Instruction, assume map[ssa.Value]bool) ssa.Instruction {
		var hit ssa.Instruction
		first := true
		m.exploreAssuming(start, assume, 0, func(in ssa.Instruction, flag int) (int, bool) {
			if first {
				first = false
				return flag, false // the starting instruction itself
			}
			if isInvocation(in) {
				if hit == nil {
					hit = in
				}
				return flag, true
			}
			return flag, false
		}, nil)
		return hit
	}
	// S1: with the invocation's result nil no further invocation is reachable
	for i, iv := range invocations {
		var hit ssa.Instruction
		first := true
		m.exploreAssumingNil(iv, map[ssa.Value]bool{ssa.Value(iv): true}, 0, func(in ssa.Instruction, flag int) (int, bool) {
			if first {
				first = false
				return flag, false
			}
			if isInvocation(in) {
				if hit == nil {
					hit = in
				}
				return flag, true
			}
			return flag, false
		}, nil)
		c.check(hit == nil, rule, fmt.Sprintf("no invocation after success #%d", i+1), iv, "with the result of the invocation at %s nil, another invocation is reachable: %v (%s)", c.posOf(iv), hit != nil, c.posOf(hit))
	}
	// S2: a permanent error ends the loop
	nPerm := 0
	perm := m.libFunc("IsPermanentError")
	eachUnit(func(in ssa.Instruction) {
		switch x := in.(type) {
		case *ssa.Call:
			if perm != nil && x.Call.StaticCallee() == perm && len(x.Call.Args) == 1 && fromInv(x.Call.Args[0], 0) {
				nPerm++
				hit := reaches(in, map[ssa.Value]bool{ssa.Value(x): true})
				c.check(hit == nil, rule, fmt.Sprintf("no invocation after a permanent error #%d", nPerm), in, "with IsPermanentError(err) == true another invocation is reachable: %v (%s)", hit != nil, c.posOf(hit))
			}
		}
	})
	if nPerm == 0 {
		c.viol(rule, "no invocation after a permanent error", firstInstr(rb), "IsPermanentError is never applied to the invocation's error: a permanent error is retried")
	}
	// S3: ctx.Err() != nil is tested on every path from the loop head to an invocation
	nCtx := 0
	eachUnit(func(in ssa.Instruction) {
		ifi, ok := in.(*ssa.If)
		if !ok {
			return
		}
		l := m.litOf(ifi.Cond, true, ifi)
		if l.S.Op == "bin" && l.S.Name == "==" && symMentions(l.S, "Context.Err(param:ctx)") && symMentions(l.S, "nil") {
			nCtx++
			cancelledEdge := map[bool]int{true: 1, false: 0}[l.Truth]
			var hit ssa.Instruction
			m.explore(in.Block(), cancelledEdge, 0, func(x ssa.Instruction, flag int) (int, bool) {
				if isInvocation(x) {
					hit = x
					return flag, true
				}
				return flag, false
			}, nil)
			c.check(hit == nil, rule, "no invocation once ctx.Err() != nil", in, "an invocation is reachable from the cancelled edge: %v", hit != nil)
			for _, iv := range invocations {
				if iv.Parent() == in.Parent() {
					c.check(dominatesInstr(in, iv), rule, "ctx.Err() is tested before every invocation", iv, "the test dominates the invocation at %s: %v", c.posOf(iv), dominatesInstr(in, iv))
				} else if lifted := m.liftTo(in.Parent(), iv); lifted != nil {
					c.check(dominatesInstr(in, lifted), rule, "ctx.Err() is tested before every invocation", iv, "the test dominates the call leading to the invocation at %s: %v", c.posOf(iv), dominatesInstr(in, lifted))
				}
			}
		}
	})
	if nCtx == 0 {
		c.viol(rule, "no invocation once ctx.Err() != nil", firstInstr(rb), "ctx.Err() is never tested in the retry loop")
	}
	// S4/S6: between two invocations lies the backoff wait; its ctx.Done() case ends the loop
	waits := []WaitSite{}
	for _, uf := range unit {
		waits = append(waits, m.waitSites(uf)...)
	}
	// keep only wait sites in functions of the unit (a helper's own select is reported at its call site)
	var loopWaits []WaitSite
	for _, w := range waits {
		if _, isSel := w.At.(*ssa.Select); isSel {
			// a select inside a wait helper is represented by the helper's call site
			dup := false
			for _, o := range waits {
				if call, ok := o.At.(*ssa.Call); ok && call.Call.StaticCallee() == w.At.Parent() {
					dup = true
				}
			}
			if dup {
				continue
			}
		}
		loopWaits = append(loopWaits, w)
	}
	okWait := len(loopWaits) == 1
	var counter *ssa.Phi
	if okWait {
		w := loopWaits[0]
		s := m.Sym.Of(w.Dur)
		form := s.Op == "call" && strings.HasSuffix(s.Name, "CalculateBackoff") && len(s.Args) == 2 && strings.HasSuffix(s.Args[0].String(), "cfg.BackoffConfig")
		if form {
			if ph, ok := s.Args[1].V.(*ssa.Phi); ok && inLoop(ph.Block()) {
				counter = ph
			}
		}
		c.check(form && counter != nil && w.Done, rule, "backoff wait is CalculateBackoff(cfg.BackoffConfig, attempt) and observes the context", w.At, "wait expression %s; attempt is a loop-carried counter: %v; ctx.Done() case: %v", s, counter != nil, w.Done)
		// every path from an invocation to the next one passes the wait
		for _, iv := range invocations {
			var hit ssa.Instruction
			first := true
			m.exploreFrom(iv, 0, func(x ssa.Instruction, flag int) (int, bool) {
				if first {
					first = false
					return flag, false
				}
				if x == w.At {
					return flag, true
				}
				if isInvocation(x) {
					hit = x
					return flag, true
				}
				return flag, false
			}, nil)
			c.check(hit == nil, rule, "every retry waits the backoff first: after "+c.posOf(iv), iv, "another invocation is reachable without passing the wait at %s: %v", c.posOf(w.At), hit != nil)
		}
	} else {
		c.viol(rule, "backoff wait between invocations", firstInstr(rb), "%d bounded waits found in the retry loop (required exactly 1)", len(loopWaits))
	}
	// S4: the ctx.Done() case of the wait ends the loop
	nDone := 0
	eachUnit(func(in ssa.Instruction) {
		ifi, ok := in.(*ssa.If)
		if !ok {
			return
		}
		for edge := 0; edge < 2; edge++ {
			l := m.litOf(ifi.Cond, edge == 0, ifi)
			sel, k, ok := selectCaseOf(l)
			if !ok || k >= len(sel.States) {
				continue
			}
			if _, isWait := m.selectWait(sel); !isWait {
				continue
			}
			if x := m.Sym.Of(sel.States[k].Chan); x.Op == "invoke" && strings.HasSuffix(x.Name, "Context.Done") {
				nDone++
				var hit ssa.Instruction
				m.explore(in.Block(), edge, 0, func(x ssa.Instruction, flag int) (int, bool) {
					if isInvocation(x) {
						hit = x
						return flag, true
					}
					return flag, false
				}, nil)
				c.check(hit == nil, rule, "cancellation during the backoff wait ends the loop", in, "an invocation is reachable from the ctx.Done() case: %v", hit != nil)
			}
		}
	})
	if nDone == 0 {
		c.viol(rule, "cancellation during the backoff wait ends the loop", firstInstr(rb), "no ctx.Done() case of a backoff wait found")
	}
	// the counter: starts at 0, +1 per iteration
	if counter != nil {
		start, step := int64(-1), int64(-1)
		for i, e := range counter.Edges {
			if n, isC := constInt(e); isC && !inLoopFrom(counter.Block().Preds[i], counter.Block()) {
				start = n
			}
			if bo, ok := e.(*ssa.BinOp); ok && bo.Op == token.ADD && bo.X == ssa.Value(counter) {
				if n, isC := constInt(bo.Y); isC {
					step = n
				}
			}
		}
		c.check(start == 0 && step == 1 && len(counter.Edges) == 2, rule, "attempt counter starts at 0 and advances by one per retry", counter, "start %d, step %d, %d reaching definitions", start, step, len(counter.Edges))
		// max attempts: with MaxAttempts > 0 and attempt >= MaxAttempts-1 no further invocation is
		// reachable from an invocation (the comparison is identified as a value, wherever the body
		// was split, and the paths are explored under the assumption that it holds)
		nMax := 0
		var cmpPos []ssa.Value
		eachUnit(func(in ssa.Instruction) {
			bo, ok := in.(*ssa.BinOp)
			if !ok {
				return
			}
			l := m.litOf(bo, true, nil)
			ls := m.symInUnit(rb, bo) // with the helper's parameters read as the arguments
			if l.Truth && l.S.V != nil && ls.Op == "bin" && ls.Name == "<" && ls.Args[0].String() == "0" && strings.HasSuffix(ls.Args[1].String(), ".MaxAttempts") {
				cmpPos = append(cmpPos, l.S.V)
			}
		})
		eachUnit(func(in ssa.Instruction) {
			bo, ok := in.(*ssa.BinOp)
			if !ok {
				return
			}
			l := m.litOf(bo, true, nil)
			ls := m.symInUnit(rb, bo)
			if !(l.Truth && l.S.V != nil && l.S.Op == "bin" && l.S.Name == "<=" && ls.Op == "bin" && strings.HasSuffix(ls.Args[0].String(), ".MaxAttempts - 1)") && l.S.Args[1].V != nil && m.traceValue(l.S.Args[1].V) == ssa.Value(counter)) {
				return
			}
			nMax++
			// evaluated only under MaxAttempts > 0 (0 = unbounded)
			gs := m.unitGuards(rb, in)
			pos := hasLit(gs, true, func(s *Sym) bool { return s.Op == "bin" && s.Name == "<" && s.Args[0].String() == "0" && strings.HasSuffix(s.Args[1].String(), ".MaxAttempts") })
			if !pos {
				// the same test on a helper's parameter that stands for cfg.MaxAttempts
				for _, v := range cmpPos {
					if pv, ok := v.(ssa.Instruction); ok && pv.Parent() == in.Parent() && hasLit(gs, true, func(s *Sym) bool { return s.V == v }) {
						pos = true
					}
				}
			}
			assume := map[ssa.Value]bool{l.S.V: true}
			for _, v := range cmpPos {
				assume[v] = true
			}
			var hit ssa.Instruction
			m.descend = func(g *ssa.Function) bool { return containsFn(unit, g) }
			for _, iv := range invocations {
				if h := reaches(iv, assume); h != nil && hit == nil {
					hit = h
				}
			}
			m.descend = nil
			c.check(pos && hit == nil, rule, "at most MaxAttempts invocations (0 = unbounded)", in, "test %s is evaluated under MaxAttempts > 0: %v; with it true another invocation is reachable from an invocation: %v (%s)", l, pos, hit != nil, c.posOf(hit))
		})
		if nMax == 0 {
			c.viol(rule, "at most MaxAttempts invocations (0 = unbounded)", firstInstr(rb), "no test `attempt >= cfg.MaxAttempts-1` on the loop counter found")
		}
		// a negative limit is not "unbounded"
		nNeg := 0
		eachUnit(func(in ssa.Instruction) {
			ifi, ok := in.(*ssa.If)
			if !ok {
				return
			}
			l := m.litOf(ifi.Cond, true, ifi)
			a0 := ""
			if l.S.Op == "bin" && len(l.S.Args) == 2 {
				a0 = l.S.Args[0].String()
				if l.S.Args[0].V != nil && l.S.Args[0].V.Parent() != nil {
					a0 = m.symInUnit(rb, l.S.Args[0].V).String() // the limit handed to a checking helper
				}
			}
			if l.S.Op == "bin" && l.S.Name == "<" && strings.HasSuffix(a0, ".MaxAttempts") && l.S.Args[1].String() == "0" {
				nNeg++
				edge := map[bool]int{true: 0, false: 1}[l.Truth]
				var hit ssa.Instruction
				m.descend = func(g *ssa.Function) bool { return containsFn(unit, g) }
				defer func() { m.descend = nil }()
				m.explore(in.Block(), edge, 0, func(x ssa.Instruction, flag int) (int, bool) {
					if isInvocation(x) {
						hit = x
						return flag, true
					}
					return flag, false
				}, nil)
				c.check(hit == nil, rule, "a negative MaxAttempts invokes nothing", in, "an invocation is reachable from the MaxAttempts < 0 edge: %v", hit != nil)
			}
		})
		if nNeg == 0 {
			c.viol(rule, "a negative MaxAttempts invokes nothing", firstInstr(rb), "the limit is only applied under MaxAttempts > 0 and MaxAttempts < 0 is not tested: a negative limit retries without bound, like 0")
		}
	}
}

func isFuncType(t types.Type) bool {
	_, ok := t.Underlying().(*types.Signature)
	return ok
}


// retryInvocations: the calls in RetryWithBackoff (and the functions its body was split into)
// that invoke the supplied operation: a call of the function parameter or CircuitBreaker.Call(it).
func (m *Model) retryInvocations() (rb *ssa.Function, invocations []*ssa.Call) {
	rb = m.libFunc("RetryWithBackoff")
	if rb == nil {
		return nil, nil
	}
	isOpValue := func(v ssa.Value) bool {
		p, ok := m.traceValue(v).(*ssa.Parameter)
		return ok && p.Parent() == rb && isFuncType(p.Type())
	}
	for _, uf := range m.unitFns(rb) {
		eachInstr(uf, func(in ssa.Instruction) {
			call, ok := in.(*ssa.Call)
			if !ok {
				return
			}
			if !call.Call.IsInvoke() && call.Call.StaticCallee() == nil && isOpValue(call.Call.Value) {
				invocations = append(invocations, call)
			}
			if g := call.Call.StaticCallee(); g != nil && g.Name() == "Call" && strings.Contains(g.String(), "CircuitBreaker") && len(call.Call.Args) == 2 && isOpValue(call.Call.Args[1]) {
				invocations = append(invocations, call)
			}
		})
	}
	return
}
