package main

import (
	"fmt"
	"go/types"
	"go/token"
	"sort"
	"strings"

	"golang.org/x/tools/go/ssa"
)

// lockRules implements C11-R5 (shared with C09-R4): no self-relock, no lock-order
// cycle, no user callback invoked with a library mutex held, over the whole library.
func lockRules(c *Ctx, rule string) {
	m := c.M
	la := m.Locks()
	edges, self := la.Edges()

	// (a) self-relock: any acquisition of a lock that may already be held. sync.RWMutex
	// and sync.Mutex are not reentrant; read-under-read deadlocks when a writer waits.
	nLockOps := 0
	for _, f := range la.funcs {
		eachInstr(f, func(in ssa.Instruction) {
			if call, ok := in.(*ssa.Call); ok {
				if op, ok := m.lockOpOf(&call.Call); ok && (op.Kind == "Lock" || op.Kind == "RLock") {
					nLockOps++
					bad := false
					for _, e := range self {
						if e.At == in {
							bad = true
							c.viol(rule, fmt.Sprintf("self-relock %s in %s (held %s, wants %s)", op.ID, shortFn(f), e.FromMode, e.ToMode), in,
								"%s is acquired (%s) while it may already be held (%s): %s. sync mutexes are not reentrant: this path deadlocks with the mutex held.",
								op.ID, e.ToMode, e.FromMode, la.chain(f, e.From+"/"+e.FromMode))
						}
					}
					if !bad {
						c.ok(rule, fmt.Sprintf("acquire %s/%s in %s", op.ID, op.Kind, shortFn(f)), in, "not held on entry (may-set %s)", la.MayBefore(in))
					}
				}
			}
		})
	}

	// (b) lock order: the lock graph must be acyclic
	graph := map[string]map[string]LockEdge{}
	for _, e := range edges {
		if graph[e.From] == nil {
			graph[e.From] = map[string]LockEdge{}
		}
		if _, ok := graph[e.From][e.To]; !ok {
			graph[e.From][e.To] = e
		}
	}
	var froms []string
	for k := range graph {
		froms = append(froms, k)
	}
	sort.Strings(froms)
	reach := func(from, to string) bool {
		seen := map[string]bool{}
		var walk func(x string) bool
		walk = func(x string) bool {
			if x == to {
				return true
			}
			if seen[x] {
				return false
			}
			seen[x] = true
			for y := range graph[x] {
				if walk(y) {
					return true
				}
			}
			return false
		}
		return walk(from)
	}
	for _, a := range froms {
		var tos []string
		for b := range graph[a] {
			tos = append(tos, b)
		}
		sort.Strings(tos)
		for _, b := range tos {
			e := graph[a][b]
			if reach(b, a) {
				c.viol(rule, fmt.Sprintf("lock-order cycle %s -> %s", a, b), e.At,
					"%s is acquired in %s while %s may be held (%s), and elsewhere %s is (transitively) acquired while %s is held: opposite nested acquisitions can deadlock.",
					b, shortFn(e.Fn), a, la.chain(e.Fn, e.From+"/"+e.FromMode), a, b)
			} else {
				c.ok(rule, fmt.Sprintf("lock-order edge %s -> %s", a, b), e.At, "no path back from %s to %s in the lock graph", b, a)
			}
		}
	}

	// (c) user callbacks are never invoked with a library mutex held
	for _, f := range m.Funcs {
		eachInstr(f, func(in ssa.Instruction) {
			for _, cb := range []string{m.OnDemote, m.OnPromote} {
				if m.invokesFieldValue(in, cb) {
					if _, isGo := in.(*ssa.Go); isGo {
						c.ok(rule, fmt.Sprintf("callback %s spawned in %s", cb, shortFn(f)), in, "runs in its own goroutine")
						continue
					}
					h := la.MayBefore(in)
					if len(h) > 0 {
						k := h.list()[0]
						c.viol(rule, fmt.Sprintf("callback %s under lock in %s", cb, shortFn(f)), in,
							"user callback %s is invoked while %s may be held (%s): a callback that calls Stop/Status or any API method deadlocks.", cb, h, la.chain(f, k))
					} else {
						c.ok(rule, fmt.Sprintf("callback %s invoked in %s", cb, shortFn(f)), in, "no library mutex held (may-set empty)")
					}
				}
			}
		})
	}
	if nLockOps < 10 {
		c.undecided(rule, "instance-floor lock operations", nil, "only %d lock acquisitions found in the library; at least 10 were confirmed on the reference tree", nLockOps)
	}
}

func init() {
	register(&PropertySpec{
		ID:    "C11",
		Level: "other",
		Run:   checkC11,
		Explanation: "Decides the structural part of C11, not the timing: (R1) the duration handed to the grace timer is, as a guarded expression over the configuration, DGP if DGP != 0 else max(3*HeartbeatInterval, 5s); " +
			"(R2) the disconnect handler arms the timer only while the claim stands, under the handler's mutex, after stopping the previous timer; (R3) the timer callback acts only for the arming that started it: it compares, under the handler mutex, an arming counter captured when it was armed with the current one and cannot reach a demotion when they differ; the counter is advanced by every arming and by every stop of the timer (reconnect notification, Stop), so the demotion depends on the notifications alone; " +
			"(R4) the reconnect handler stops the timer and, under a standing claim, starts a WaitGroup-tracked verification every path of which either demotes or is dominated by a successful Get and a (true, nil) verdict of the token validation; " +
			"(R5) over the whole library: no mutex is acquired while it may already be held, the lock-order graph is acyclic, and no user callback is invoked with a library mutex held (interprocedural may-lockset analysis).",
		NotDecided: []string{"that the demotion happens at the very moment the grace period elapses (runtime timer behaviour)", "the result of the fresh read itself (store behaviour); keeps-leadership-iff is reduced to C04-R1 for the validation function"},
		Assumptions: []string{"objects are identified by type (one election / handler / monitor per election)", "time.AfterFunc and time.Timer.Stop behave as documented"},
		Rules: map[string]string{
			"R1": "the duration argument of time.AfterFunc in the disconnect handler equals select(DGP==0 ? max(3*H, 5s) : DGP) over cfg.DisconnectGracePeriod / cfg.HeartbeatInterval; no store to either field of an existing ElectionConfig anywhere in the library (composite literals aside): the expression is read over the caller's values",
			"R2": "time.AfterFunc is called under claim==true and under the handler mutex; the previous timer is stopped before; the new timer is stored in the handler",
			"R3": "timer callback: an If on (captured G == current handler field G), the captured value tracing to a load of G in the arming function; the comparison has the handler mutex in its must-lockset; no may-demote call reachable from the differs edge; a demotion is reachable from the callback; G = G+1 dominates time.AfterFunc in the arming function and occurs in every function that calls Stop on the timer field",
			"R4": "the reconnect root stops the grace timer; under claim==true it spawns a tracked verification; in the verification every return is preceded by a demotion or dominated by Get err==nil, validate err==nil and verdict true",
			"R5": "no self-relock; lock graph acyclic; no OnDemote/OnPromote invocation with a library mutex in the may-lockset",
			"R6": "in every type implementing ConnectionMonitor, each call of a handler stored in a func-typed field (registered through OnDisconnect / OnReconnect) is controlled by nothing but the nil test of that handler: every notification of the client reaches the election (the grace period counts from the latest disconnect; every reconnect cancels the timer)",
		},
	})
}

// monitorForwardsRule (C11-R6): the connection monitor hands every notification of the client on
// to the registered handler. A monitor that "de-duplicates" notifications by its own status word
// drops the reconnect that should cancel the grace timer whenever somebody else (the reconnect
// verification) has written that word in between.
func monitorForwardsRule(c *Ctx, rule string) {
	m := c.M
	obj, _ := m.P.Leader.Pkg.Scope().Lookup("ConnectionMonitor").(*types.TypeName)
	if obj == nil {
		c.undecided(rule, "ConnectionMonitor", nil, "interface not found")
		return
	}
	iface, _ := obj.Type().(*types.Named)
	n := 0
	handled := map[string]bool{}
	for _, t := range m.implementers(iface) {
		st, _ := t.Underlying().(*types.Struct)
		if st == nil {
			continue
		}
		// the handler fields: those stored by the interface's registration methods (one func parameter)
		registered := map[string]bool{}
		it := iface.Underlying().(*types.Interface)
		for i := 0; i < it.NumMethods(); i++ {
			sig := it.Method(i).Type().(*types.Signature)
			if sig.Params().Len() != 1 {
				continue
			}
			if _, isFn := sig.Params().At(0).Type().Underlying().(*types.Signature); !isFn {
				continue
			}
			if reg := m.methodOf(t, it.Method(i).Name()); reg != nil {
				eachInstr(reg, func(x ssa.Instruction) {
					if sto, ok := x.(*ssa.Store); ok {
						if fa, ok := sto.Addr.(*ssa.FieldAddr); ok && namedOf(fa.X.Type()) == t {
							registered[st.Field(fa.Field).Name()] = true
						}
					}
					// ... or hands the field's address to a setter helper (setCallback(&m.onDisconnect, fn))
					if ci, ok := x.(ssa.CallInstruction); ok {
						for _, a := range ci.Common().Args {
							if fa, ok := m.traceValue(a).(*ssa.FieldAddr); ok && namedOf(fa.X.Type()) == t {
								if _, isSig := st.Field(fa.Field).Type().Underlying().(*types.Signature); isSig {
									registered[st.Field(fa.Field).Name()] = true
								}
							}
						}
					}
				})
			}
		}
		// the handler fields a called function value may come from: a load of the field, directly
		// or through a getter that returns it
		var fieldsOf func(v ssa.Value, depth int) ([]string, bool)
		fieldsOf = func(v ssa.Value, depth int) ([]string, bool) {
			if depth > 3 {
				return nil, false
			}
			v = m.traceValue(v)
			switch x := v.(type) {
			case *ssa.UnOp:
				if fa, ok := x.X.(*ssa.FieldAddr); ok && x.Op == token.MUL && namedOf(fa.X.Type()) == t {
					if _, isSig := st.Field(fa.Field).Type().Underlying().(*types.Signature); isSig && registered[st.Field(fa.Field).Name()] {
						return []string{st.Field(fa.Field).Name()}, true
					}
				}
				// a load through a pointer parameter: the slot the callers pass (&m.onDisconnect)
				if par, ok := x.X.(*ssa.Parameter); ok && x.Op == token.MUL {
					idx := -1
					for i, q := range par.Parent().Params {
						if q == par {
							idx = i
						}
					}
					var out []string
					for _, site := range m.callers[par.Parent()] {
						args := site.Instr.Common().Args
						if idx < 0 || idx >= len(args) {
							return nil, false
						}
						fa, ok := m.traceValue(args[idx]).(*ssa.FieldAddr)
						if !ok || namedOf(fa.X.Type()) != t || !registered[st.Field(fa.Field).Name()] {
							return nil, false
						}
						out = append(out, st.Field(fa.Field).Name())
					}
					return out, len(out) > 0
				}
			case *ssa.Phi:
				var out []string
				for _, e := range x.Edges {
					if cst, ok := e.(*ssa.Const); ok && cst.IsNil() {
						continue
					}
					r, ok := fieldsOf(e, depth+1)
					if !ok {
						return nil, false
					}
					out = append(out, r...)
				}
				return out, len(out) > 0
			case *ssa.Call:
				g := x.Call.StaticCallee()
				if g == nil || !m.isLib(g) || g.Blocks == nil || g.Signature.Results().Len() != 1 {
					return nil, false
				}
				var out []string
				for _, blk := range liveBlocks(g) {
					if ret, ok := blk.Instrs[len(blk.Instrs)-1].(*ssa.Return); ok && blk != g.Recover {
						rv := returnValue(ret, 0)
						if cst, ok := rv.(*ssa.Const); ok && cst.IsNil() {
							continue
						}
						r, ok := fieldsOf(rv, depth+1)
						if !ok {
							return nil, false
						}
						out = append(out, r...)
					}
				}
				return out, len(out) > 0
			}
			return nil, false
		}
		for _, f := range m.Funcs {
			eachInstr(f, func(in ssa.Instruction) {
				call, ok := in.(*ssa.Call)
				if !ok || call.Call.IsInvoke() || call.Call.StaticCallee() != nil {
					return
				}
				v := m.traceValue(call.Call.Value)
				fields, ok := fieldsOf(v, 0)
				if !ok {
					return
				}
				sort.Strings(fields)
				for _, fn := range fields {
					handled[fn] = true
				}
				n++
				hs := m.Sym.Of(v).String()
				var extra []string
				for _, l := range m.controlCondsDeep(call, 0) {
					str := l.S.String()
					if strings.Contains(str, hs) {
						continue // the nil test of the handler
					}
					// a test of the notification's own arguments (which handler belongs to this
					// status) is not a filter; a test of the monitor's state is
					if strings.Contains(str, t.Obj().Name()) {
						extra = append(extra, str)
					}
				}
				c.check(len(extra) == 0, rule, fmt.Sprintf("%s forwards every notification to %s", shortFn(f), strings.Join(dedupStrings(fields), "/")), in,
					"conditions on the monitor's own state (other than the handler's nil test) that decide whether the handler is called: %v", extra)
			})
		}
	}
	if len(handled) < 2 {
		c.undecided(rule, "handler calls of the connection monitor", nil, "calls of %d registered handler fields found in the implementations of ConnectionMonitor (%d call sites); a disconnect and a reconnect handler are expected", len(handled), n)
	}
}

func checkC11(c *Ctx) {
	m := c.M
	la := m.Locks()
	monitorForwardsRule(c, "R6")

	// anchors: the time.AfterFunc call sites of the library
	type afterSite struct {
		fn   *ssa.Function
		call *ssa.Call
	}
	var sites []afterSite
	for _, f := range m.Funcs {
		eachInstr(f, func(in ssa.Instruction) {
			if call, ok := isCallTo(valueOf(in), "time.AfterFunc"); ok {
				sites = append(sites, afterSite{f, call})
			}
		})
	}
	if len(sites) == 0 {
		c.undecided("R1", "grace timer", nil, "no time.AfterFunc call found in the library: the grace-period mechanism was not located")
		return
	}
	// R1 reads cfg.DisconnectGracePeriod / cfg.HeartbeatInterval as the values the caller configured.
	// That holds only while the library never rewrites them: a default resolved early (the constructor
	// sets the grace period to 3*H when it is 0) turns the `== 0` branch that applies the 5 s floor
	// into dead code although the expression at the timer still looks right.
	nRewrite := 0
	for _, f := range m.Funcs {
		eachInstr(f, func(in ssa.Instruction) {
			st, ok := in.(*ssa.Store)
			if !ok {
				return
			}
			fa, ok := st.Addr.(*ssa.FieldAddr)
			if !ok {
				return
			}
			fn := fieldName(fa.X.Type(), fa.Field)
			if fn != "DisconnectGracePeriod" && fn != "HeartbeatInterval" {
				return
			}
			pt, ok := fa.X.Type().Underlying().(*types.Pointer)
			if !ok || !isNamed(pt.Elem(), m.P.Leader.Pkg.Path(), "ElectionConfig") {
				return
			}
			// the fields of a composite literal are stores into a fresh cell that never receives a
			// whole configuration: that is construction, not a rewrite
			if al, isAl := fa.X.(*ssa.Alloc); isAl {
				whole := false
				for _, v := range storesTo(al) {
					if _, isC := v.(*ssa.Const); !isC {
						whole = true
					}
				}
				if !whole {
					return
				}
			}
			nRewrite++
			c.viol("R1", "configured grace period and heartbeat interval are never rewritten: "+shortFn(f), in, "%s stores to the %s field of a configuration that came from elsewhere (%s): the duration armed at the timer is computed from this value, not from what the caller configured - a default resolved here makes the `== 0` branch (and its 5 s floor) at the timer dead", shortFn(f), fn, clip(m.Sym.Of(fa.X).String(), 80))
		})
	}
	if nRewrite == 0 {
		c.ok("R1", "configured grace period and heartbeat interval are never rewritten", nil, "no store to the DisconnectGracePeriod / HeartbeatInterval field of an existing ElectionConfig in the library (composite literals aside)")
	}
	armGen, armTimer := "", "" // arming counter and timer field of the (last) grace timer site
	var armFn *ssa.Function
	H := m.cfgPath("HeartbeatInterval")
	D := m.cfgPath("DisconnectGracePeriod")
	want := fmt.Sprintf("select[(3 * %s) if {(0 == %s); (5000000000 <= (3 * %s))} | 5000000000 if {((3 * %s) < 5000000000); (0 == %s)} | %s if {NOT (0 == %s)}]", H, D, H, H, D, D, D)
	for _, s := range sites {
		fn := shortFn(s.fn)
		got := m.Gated(s.call.Call.Args[0])
		altMax := []string{
			fmt.Sprintf("select[%s if {NOT (0 == %s)} | call builtin.max((3 * %s), 5000000000) if {(0 == %s)}]", D, D, H, D),
			fmt.Sprintf("select[%s if {NOT (0 == %s)} | call builtin.max(5000000000, (3 * %s)) if {(0 == %s)}]", D, D, H, D),
		}
		for _, a := range altMax {
			if sortSelect(got) == sortSelect(a) {
				got = want
			}
		}
		c.check(got == want, "R1", "grace duration in "+fn, s.call,
			"duration expression is %s; required (DESIGN C11-R1) %s", got, want)

		// R2
		g := m.AllGuards(s.call, false)
		c.check(m.claimLit(g, true), "R2", "timer armed only while leader in "+fn, s.call, "guards at time.AfterFunc: %s", fmtLits(g))
		must := la.MustBefore(s.call)
		handlerLocks := []string{}
		for k := range must {
			if !strings.HasPrefix(k, m.path(m.Mu)) {
				handlerLocks = append(handlerLocks, k)
			}
		}
		c.check(len(handlerLocks) > 0, "R2", "timer armed under the handler mutex in "+fn, s.call, "must-lockset at time.AfterFunc: %s", must)
		// the result is stored in a field; the previous value of that field is stopped before
		var timerField string
		if refs := s.call.Referrers(); refs != nil {
			for _, r := range *refs {
				if st, ok := r.(*ssa.Store); ok && st.Val == s.call {
					a := m.Sym.Of(st.Addr)
					if a.Op == "addr" {
						timerField = a.Name
					}
				}
			}
		}
		if timerField == "" {
			c.viol("R2", "timer stored in "+fn, s.call, "the *time.Timer returned by time.AfterFunc is not stored in a field: it can be neither stopped on reconnect nor on stop")
		} else {
			c.ok("R2", "timer stored in "+fn, s.call, "stored to %s", timerField)
			stopped := false
			// ... in a helper the arming function calls before it re-arms (stopTimerLocked)
			for _, bf := range m.bodyFns(s.fn) {
				if bf == s.fn {
					continue
				}
				eachInstr(bf, func(in ssa.Instruction) {
					if call, ok := isCallTo(valueOf(in), "(*time.Timer).Stop"); ok {
						if a := m.Sym.Of(call.Call.Args[0]); a.Op == "path" && a.Name == timerField {
							eachInstr(s.fn, func(y ssa.Instruction) {
								if c2, ok := y.(*ssa.Call); ok && c2.Call.StaticCallee() != nil && (c2.Call.StaticCallee() == bf || m.staticReach(c2.Call.StaticCallee(), false)[bf]) {
									if reachableAfter(c2, func(x ssa.Instruction) bool { return x == ssa.Instruction(s.call) }) != nil || dominatesInstr(c2, s.call) {
										stopped = true
									}
								}
							})
						}
					}
				})
			}
			eachInstr(s.fn, func(in ssa.Instruction) {
				if call, ok := isCallTo(valueOf(in), "(*time.Timer).Stop"); ok {
					if a := m.Sym.Of(call.Call.Args[0]); a.Op == "path" && a.Name == timerField && dominatesInstr(call, s.call) == false {
						// the Stop sits in a conditional (timer != nil) block: require it to precede in block order and be on a path to AfterFunc
						if reachableAfter(call, func(x ssa.Instruction) bool { return x == ssa.Instruction(s.call) }) != nil {
							stopped = true
						}
					} else if ok && a.Op == "path" && a.Name == timerField {
						stopped = true
					}
				}
			})
			c.check(stopped, "R2", "previous timer stopped in "+fn, s.call, "a (*time.Timer).Stop on %s before re-arming: %v", timerField, stopped)
		}

		// R3: the callback chain
		var cbRoots []*ssa.Function
		cbRoots = append(cbRoots, m.funcValueTargets(s.call.Call.Args[1])...)
		if len(cbRoots) == 0 {
			c.undecided("R3", "timer callback of "+fn, s.call, "callback argument of time.AfterFunc is not a closure or function: %s", m.Sym.Of(s.call.Call.Args[1]))
			continue
		}
		// The callback acts only for the arming that started it: a value captured at arming time
		// (a load of a handler field G made under the handler mutex, after G was advanced) is
		// compared in the callback with the current G; from the "differs" edge no demotion is
		// reachable. G is advanced by the arming function and by every function that stops the
		// timer (reconnect, Stop). A test of the monitor's status does not do: other events
		// overwrite the status (a verification that succeeds after a newer disconnect, a closed
		// connection), and Timer.Stop cannot recall a callback that has already fired.
		nGen, nDemote := 0, 0
		genField := ""
		isDemoteCall := func(x ssa.Instruction) bool {
			ci, ok := x.(*ssa.Call)
			if !ok {
				return false
			}
			callee := ci.Common().StaticCallee()
			return callee != nil && m.isLib(callee) && m.mayDemote(callee, specFor(ci, callee), 0)
		}
		for _, g := range sortedFns(m.staticReach(cbRoots[0], false)) {
			eachInstr(g, func(in ssa.Instruction) {
				if isDemoteCall(in) {
					nDemote++
				}
				ifi, ok := in.(*ssa.If)
				if !ok {
					return
				}
				// the condition may be computed under the mutex and tested after unlocking, or in a
				// helper that returns it: the candidates are the tested literal and what it implies
				cond := m.traceValue(ifi.Cond)
				l0 := m.litOf(cond, true, ifi)
				type cand struct {
					l     Lit
					truth bool // truth of the tested literal under which l holds
				}
				var cands []cand
				cands = append(cands, cand{l0, true})
				for _, t := range []bool{true, false} {
					tested := Lit{S: l0.S, Truth: l0.Truth == t, If: ifi}
					for _, d := range m.resultFacts(tested) {
						cands = append(cands, cand{d, t})
					}
				}
				for _, cd := range cands {
					l := cd.l
					if l.S.Op != "bin" || l.S.Name != "==" || len(l.S.Args) != 2 {
						continue
					}
					for i := 0; i < 2; i++ {
						cur, captured := l.S.Args[i], l.S.Args[1-i]
						if cur.Op != "path" || captured.V == nil {
							continue
						}
						// captured: traces back to a load of the same field in the arming function
						tv := m.traceValue(captured.V)
						ts := m.Sym.Of(tv)
						if ts.Op != "path" || ts.Name != cur.Name {
							continue
						}
						if in2, ok := tv.(ssa.Instruction); !ok || in2.Parent() != s.fn {
							continue
						}
						nGen++
						genField = cur.Name
						// the edge of this If on which "captured == current" is false
						equalWhenCondTrue := l.Truth == cd.truth
						differsEdge := 1
						if !equalWhenCondTrue {
							differsEdge = 0
						}
						if !l0.Truth {
							differsEdge = 1 - differsEdge
						}
						if cd.l.S == l0.S {
							// the tested literal itself
							differsEdge = 1
							if !l.Truth {
								differsEdge = 0
							}
						}
						bad := reachableFromEdge(in.Block(), differsEdge, isDemoteCall)
						c.check(!bad, "R3", "no demotion by a superseded or cancelled timer in "+shortFn(g), in, "demotion reachable from the edge where the captured %s differs from the current one: %v", cur.Name, bad)
						// the comparison is made under the handler mutex
						var cmpAt ssa.Instruction
						if ci, ok := l.S.V.(ssa.Instruction); ok {
							cmpAt = ci
						} else if ci, ok := cond.(ssa.Instruction); ok {
							cmpAt = ci
						}
						if cmpAt != nil {
							locks := la.MustBefore(cmpAt)
							c.check(len(locks) > 0, "R3", "generation compared under the handler mutex in "+shortFn(g), cmpAt, "must-lockset %s", locks)
						}
					}
				}
			})
		}
		if nGen == 0 {
			c.viol("R3", "generation test in timer callback of "+fn, s.call,
				"the timer callback does not compare a value captured when the timer was armed with the handler's current arming counter: it cannot tell whether a reconnect or a newer disconnect notification arrived since (the monitor's status is overwritten by other events, and Timer.Stop does not recall a callback that has already fired), so it demotes too early, or not at all")
		} else {
			// advanced in the arming function before AfterFunc, and wherever the timer is stopped
			advances := func(f *ssa.Function) ssa.Instruction {
				var at ssa.Instruction
				eachInstr(f, func(in ssa.Instruction) {
					if st, ok := in.(*ssa.Store); ok {
						if a := m.Sym.Of(st.Addr); a.Op == "addr" && a.Name == genField {
							if v := m.Sym.Of(st.Val); v.Op == "bin" && v.Name == "+" && symMentions(v, genField) {
								at = in
							}
						}
					}
				})
				return at
			}
			armGen, armTimer, armFn = genField, timerField, s.fn
			adv := advances(s.fn)
			c.check(adv != nil && dominatesInstr(adv, s.call), "R3", "arming advances the generation in "+fn, s.call, "%s is incremented before time.AfterFunc: %v", genField, adv != nil && dominatesInstr(adv, s.call))
			for _, f := range m.Funcs {
				if f == s.fn || m.ownerOf(f) == s.fn {
					continue
				}
				var stopCall ssa.Instruction
				eachInstr(f, func(in ssa.Instruction) {
					if call, ok := isCallTo(valueOf(in), "(*time.Timer).Stop"); ok && timerField != "" {
						if a := m.Sym.Of(call.Call.Args[0]); a.Op == "path" && a.Name == timerField {
							stopCall = in
						}
					}
				})
				if stopCall == nil {
					continue
				}
				adv := advances(f)
				if own := m.ownerOf(f); adv == nil && own != f {
					// a stop helper called from this one place: the place advances the counter
					for _, bf := range m.bodyFns(own) {
						if a2 := advances(bf); a2 != nil {
							adv = a2
						}
					}
				}
				c.check(adv != nil, "R3", "stopping the timer advances the generation in "+shortFn(f), stopCall, "%s is incremented in the function that stops %s: %v (a callback that has already fired is not recalled by Timer.Stop)", genField, timerField, adv != nil)
			}
		}
		if nDemote == 0 {
			c.viol("R3", "expiry demotes in timer callback of "+fn, s.call, "no demotion is reachable from the timer callback: an expired grace period has no effect")
		}
	}

	// R4: reconnect root(s): functions registered through ConnectionMonitor.OnReconnect
	var roots []*ssa.Function
	for _, f := range m.Funcs {
		eachInstr(f, func(in ssa.Instruction) {
			if call, ok := in.(*ssa.Call); ok && call.Call.IsInvoke() && call.Call.Method.Name() == "OnReconnect" && namedOf(call.Call.Value.Type()) != nil && namedOf(call.Call.Value.Type()).Obj().Name() == "ConnectionMonitor" {
				roots = append(roots, m.funcValueTargets(call.Call.Args[0])...)
			}
		})
	}
	if len(roots) == 0 {
		c.undecided("R4", "reconnect root", nil, "no function registered with ConnectionMonitor.OnReconnect found")
	}
	for _, r := range roots {
		rn := shortFn(r)
		// stops the timer: a (*time.Timer).Stop reachable through static calls
		stops := false
		for _, g := range sortedFns(m.staticReach(r, false)) {
			eachInstr(g, func(in ssa.Instruction) {
				if _, ok := isCallTo(valueOf(in), "(*time.Timer).Stop"); ok {
					stops = true
				}
			})
		}
		c.check(stops, "R4", "reconnect stops the grace timer in "+rn, firstInstr(r), "(*time.Timer).Stop reachable from the reconnect handler: %v", stops)
		// ... on every path: the reconnect notification cancels the pending expiry whatever the
		// instance's role is at that moment (leader at disconnect time, follower at reconnect time,
		// leader again at expiry time are three independent facts)
		if armGen != "" {
			isAdvance := func(in ssa.Instruction) bool {
				if st, ok := in.(*ssa.Store); ok {
					if a := m.Sym.Of(st.Addr); a.Op == "addr" && a.Name == armGen {
						if v := m.Sym.Of(st.Val); v.Op == "bin" && v.Name == "+" && symMentions(v, armGen) {
							return true
						}
					}
				}
				return false
			}
			var always func(g *ssa.Function, depth int) bool
			always = func(g *ssa.Function, depth int) bool {
				if g == nil || g.Blocks == nil || depth > 3 {
					return false
				}
				pred := func(in ssa.Instruction) bool {
					if isAdvance(in) {
						return true
					}
					if call, ok := in.(*ssa.Call); ok {
						if h := call.Call.StaticCallee(); h != nil && h != g && m.isLib(h) && always(h, depth+1) {
							return true
						}
					}
					return false
				}
				first := g.Blocks[0].Instrs[0]
				if pred(first) {
					return true
				}
				// permitted skip: there is no disconnect handler at all
				okAll, _ := mustFollow(first, pred, func(from *ssa.BasicBlock, succ int) bool {
					l, ok := m.edgeLit(from, succ)
					if !ok || !l.Truth || l.S.Op != "bin" || l.S.Name != "==" || len(l.S.Args) != 2 {
						return false
					}
					// `handler == nil` (the handler object is rendered by its type name)
					owner := armGen
					if i := strings.IndexByte(owner, '.'); i >= 0 {
						owner = owner[:i]
					}
					for _, a := range l.S.Args {
						if a.V != nil {
							if n := namedOf(a.V.Type()); n != nil && n.Obj().Name() == owner {
								if k, isC := l.S.Args[0].V.(*ssa.Const); isC && k.Value == nil {
									return true
								}
								if k, isC := l.S.Args[1].V.(*ssa.Const); isC && k.Value == nil {
									return true
								}
							}
						}
					}
					return false
				})
				return okAll
			}
			uncond := always(r, 0)
			c.check(uncond, "R4", "reconnect cancels the pending expiry on every path in "+rn, firstInstr(r), "every path through the reconnect handler advances the arming counter %s (unless no disconnect handler exists): %v. If the cancel is skipped for a follower, an instance that led at disconnect time, lost leadership during the outage and was re-elected before the grace period ended is demoted by the old timer although a reconnect notification arrived.", armGen, uncond)
		}
		// spawns the verification under claim, tracked
		var verify []*ssa.Function
		eachInstr(r, func(in ssa.Instruction) {
			if sp := m.spawnAt(in); sp != nil {
				for _, t := range sp.Targets {
					verify = append(verify, t)
					gs := m.GuardsAt(in)
					c.check(m.claimLit(gs, true), "R4", "verification only for a leader in "+rn, in, "guards at go: %s", fmtLits(gs))
					c.check(sp.Tracked, "R4", "verification goroutine tracked in "+rn, in, "wg.Add(1) before go and deferred wg.Done in the goroutine")
				}
			}
		})
		if len(verify) == 0 {
			c.viol("R4", "reconnect verification spawned in "+rn, firstInstr(r), "the reconnect handler starts no verification goroutine")
		}
		verify = dedupFns(verify)
		for _, vf := range verify {
			// find the function that actually holds the Get (the closure calls it)
			for _, g := range sortedFns(m.staticReach(vf, false)) {
				hasGet := false
				eachInstr(g, func(in ssa.Instruction) {
					if _, ok := m.isKVCall(valueOf(in), "Get"); ok {
						hasGet = true
					}
				})
				if !hasGet || g == m.ValidateFn() || m.staticReach(m.ValidateFn(), true)[g] {
					continue
				}
				c.verifyFunctionShape("R4", g)
			}
		}
	}
	// who may cancel a pending expiry: the arming itself, the reconnect notification (synchronously,
	// in the handler that receives it) and the stop units. A cancel issued later by a goroutine (the
	// outcome of an asynchronous verification, a periodic task) cancels whatever is pending THEN - also
	// the timer of a newer disconnect notification that no reconnect has followed.
	if armGen != "" {
		for _, f := range m.Funcs {
			if f == armFn || m.ownerOf(f) == armFn {
				continue
			}
			var cancelAt ssa.Instruction
			eachInstr(f, func(in ssa.Instruction) {
				if st, ok := in.(*ssa.Store); ok {
					if a := m.Sym.Of(st.Addr); a.Op == "addr" && a.Name == armGen {
						cancelAt = in
					}
				}
				if call, ok := isCallTo(valueOf(in), "(*time.Timer).Stop"); ok && armTimer != "" {
					if a := m.Sym.Of(call.Call.Args[0]); a.Op == "path" && a.Name == armTimer {
						cancelAt = in
					}
				}
			})
			if cancelAt == nil || m.isCtorCode(f) {
				continue
			}
			var bad []string
			seen := map[*ssa.Function]bool{}
			var up func(g *ssa.Function, depth int)
			up = func(g *ssa.Function, depth int) {
				if seen[g] || depth > 8 {
					return
				}
				seen[g] = true
				if containsFn(roots, g) || containsFn(m.StopUnits, g) {
					return
				}
				if g.Parent() != nil {
					// a closure: who runs it? a go statement or timer makes the cancel asynchronous
					for _, sp := range m.Spawns() {
						if containsFn(sp.Targets, g) {
							bad = append(bad, "goroutine started in "+shortFn(sp.Fn))
							return
						}
					}
					up(g.Parent(), depth+1)
					return
				}
				sites := m.callers[g]
				if len(sites) == 0 {
					bad = append(bad, "root "+shortFn(g))
					return
				}
				for _, cs := range sites {
					if cs.IsGo {
						bad = append(bad, "goroutine started in "+shortFn(cs.Caller))
						continue
					}
					up(cs.Caller, depth+1)
				}
			}
			up(f, 0)
			sort.Strings(bad)
			c.check(len(bad) == 0, "R4", "pending expiry cancelled only by a reconnect notification or a stop: "+shortFn(f), cancelAt, "%s advances the arming counter / stops the grace timer and is reached from: %v (allowed: the reconnect handler itself, synchronously, and the stop units). The latest notification being a disconnect, the leader would never be demoted.", shortFn(f), uniq(bad))
		}
	}
	c.floor("R4", 4)

	lockRules(c, "R5")
}

// verifyFunctionShape: every return of g is preceded by a demotion call or dominated by
// Get err==nil, validation err==nil, verdict==true.
func (c *Ctx) verifyFunctionShape(rule string, g *ssa.Function) {
	m := c.M
	vfn := m.ValidateFn()
	for _, b := range liveBlocks(g) {
		if b == g.Recover {
			continue
		}
		ret, ok := b.Instrs[len(b.Instrs)-1].(*ssa.Return)
		if !ok {
			continue
		}
		// preceded by a demotion on every path? (a demoting call dominates the return)
		demoted := false
		eachInstr(g, func(in ssa.Instruction) {
			if ci, ok := in.(*ssa.Call); ok {
				if callee := ci.Common().StaticCallee(); callee != nil && m.isLib(callee) && m.mayDemote(callee, specFor(ci, callee), 0) && dominatesInstr(in, ret) {
					demoted = true
				}
			}
		})
		key := fmt.Sprintf("verification exit #%d of %s", exitOrdinal(g, b), shortFn(g))
		if demoted {
			c.ok(rule, key, ret, "a demotion dominates this return")
			continue
		}
		if m.returnLeadsToDemotion(ret) {
			c.ok(rule, key, ret, "in the only caller every path that continues from this return (with the returned constants) passes a demotion")
			continue
		}
		gs := m.Guards(b)
		getOK := hasLit(gs, true, func(s *Sym) bool {
			return s.Op == "bin" && s.Name == "==" && symMentions(s, "KeyValue.Get(") && symMentions(s, "nil") && strings.Contains(s.String(), "#1")
		})
		valErrOK, verdictOK := false, false
		if vfn != nil {
			vn := funcName(vfn)
			valErrOK = hasLit(gs, true, func(s *Sym) bool {
				return s.Op == "bin" && s.Name == "==" && symMentions(s, vn) && strings.Contains(s.String(), "#1") && symMentions(s, "nil")
			})
			verdictOK = hasLit(gs, true, func(s *Sym) bool { return s.Op == "extract" && s.Name == "0" && symMentions(s, vn) })
		}
		c.check(getOK && valErrOK && verdictOK, rule, key, ret,
			"leadership is kept on this exit: Get err==nil %v, validation err==nil %v, verdict true %v; guards %s", getOK, valErrOK, verdictOK, fmtLits(gs))
	}
}

func exitOrdinal(f *ssa.Function, b *ssa.BasicBlock) int {
	n := 0
	for _, x := range f.Blocks {
		if x == f.Recover {
			continue
		}
		if _, ok := x.Instrs[len(x.Instrs)-1].(*ssa.Return); ok {
			n++
			if x == b {
				return n
			}
		}
	}
	return 0
}

func valueOf(in ssa.Instruction) ssa.Value {
	v, _ := in.(ssa.Value)
	return v
}

func firstInstr(f *ssa.Function) ssa.Instruction {
	if f == nil || len(f.Blocks) == 0 || len(f.Blocks[0].Instrs) == 0 {
		return nil
	}
	for _, in := range f.Blocks[0].Instrs {
		if in.Pos().IsValid() {
			return in
		}
	}
	return f.Blocks[0].Instrs[0]
}


func dedupFns(fs []*ssa.Function) []*ssa.Function {
	seen := map[*ssa.Function]bool{}
	var out []*ssa.Function
	for _, f := range fs {
		if !seen[f] {
			seen[f] = true
			out = append(out, f)
		}
	}
	return out
}

func dedupStrings(in []string) []string {
	var out []string
	seen := map[string]bool{}
	for _, x := range in {
		if !seen[x] {
			seen[x] = true
			out = append(out, x)
		}
	}
	return out
}
