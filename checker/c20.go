package main

import (
	"go/token"
	"fmt"
	"go/types"
	"sort"
	"strings"

	"golang.org/x/tools/go/ssa"
)

func init() {
	register(&PropertySpec{
		ID:    "C20",
		Level: "other",
		Run:   checkC20,
		Explanation: "A static lockset discipline is a SUFFICIENT condition for the absence of data races on the fields it covers; it is not the Go memory model (happens-before through channels, go statements and WaitGroups is ignored except for sync.Once), so a failure is a candidate that is triaged by hand and a pass covers exactly the fields listed. Decided: (R1) for every plain (non-atomic, non-sync) field of the library's shared objects that is written outside its constructor, all accesses hold one common mutex (write mode at the writes); " +
			"(R2) all other plain fields are written only in the function that allocates the object; (R3) no field is accessed under two different mutexes in different places.",
		NotDecided: []string{"races that involve only atomics used inconsistently (atomic fields are assumed race-free by construction)", "races in user-supplied callbacks, loggers, metrics and health checkers", "the race detector's runtime verdict (not a static notion)"},
		Assumptions: []string{"objects are identified by type", "sync.Once.Do orders the initialisation before every later read in a function that called Do"},
		Rules: map[string]string{
			"R1": "types all of whose objects are locals handed on only as receiver / argument of ordinary library calls (never stored, captured, sent, converted to an interface or given to a go statement) are goroutine-confined and skipped; for each field with a write outside the allocating function: the intersection over all its accesses (anywhere in the library, constructor excluded) of the must-lockset is non-empty, with write mode at writes",
			"R2": "fields without such writes are init-only (reported as OK with the count of reads)",
			"R4": "no append whose first operand is a slice loaded from a field of a shared object (election, handler, monitor, adapter) unless that operand was re-sliced with a capacity limit (s[:n:n]) first: append writes into the shared backing array when it has spare capacity, from whichever goroutine gets there",
			"R3": "if the intersection is empty although every access holds some mutex, the field is guarded by different mutexes in different places",
		},
	})
}

func isSyncType(t types.Type) bool {
	n := namedOf(t)
	if n == nil || n.Obj().Pkg() == nil {
		return false
	}
	p := n.Obj().Pkg().Path()
	return p == "sync" || p == "sync/atomic"
}

type fieldAccess struct {
	in    ssa.Instruction
	write bool
	fn    *ssa.Function
}

func checkC20(c *Ctx) {
	m := c.M
	la := m.Locks()
	type access = fieldAccess
	type fieldKey struct {
		typ   *types.Named
		field string
	}
	acc := map[fieldKey][]access{}
	// shared object types of the library package
	var shared []*types.Named
	for n := range m.Sym.rootTypes {
		if n.Obj().Pkg() == m.P.Leader.Pkg {
			shared = append(shared, n)
		}
	}
	sort.Slice(shared, func(i, j int) bool { return shared[i].Obj().Name() < shared[j].Obj().Name() })
	isShared := map[*types.Named]bool{}
	for _, n := range shared {
		isShared[n] = true
	}
	// allocating functions per type
	allocs := map[*types.Named]map[*ssa.Function]bool{}
	for _, f := range m.Funcs {
		eachInstr(f, func(in ssa.Instruction) {
			if al, ok := in.(*ssa.Alloc); ok {
				if n := namedOf(al.Type()); n != nil && isShared[n] {
					if allocs[n] == nil {
						allocs[n] = map[*ssa.Function]bool{}
					}
					allocs[n][f] = true
				}
			}
		})
	}
	// a type every object of which is a local of one function activation that is handed on only as
	// the receiver / argument of ordinary calls (never stored, captured, sent or given to a go
	// statement) is confined to the goroutine that allocated it: its fields are not shared
	confined := map[*types.Named]bool{}
	{
		allocsOf := map[*types.Named][]*ssa.Alloc{}
		makes := map[*types.Named]bool{} // objects that arise otherwise (results of calls are covered by their own Alloc)
		for _, f := range m.Funcs {
			eachInstr(f, func(in ssa.Instruction) {
				if al, ok := in.(*ssa.Alloc); ok {
					if n := namedOf(al.Type()); n != nil && isShared[n] {
						allocsOf[n] = append(allocsOf[n], al)
					}
				}
				// a pointer to the type read from memory or received: it was stored somewhere
				if v, ok := in.(ssa.Value); ok {
					if _, isAl := in.(*ssa.Alloc); !isAl {
						if pt, ok := v.Type().Underlying().(*types.Pointer); ok {
							if n := namedOf(pt.Elem()); n != nil && isShared[n] {
								switch in.(type) {
								case *ssa.UnOp, *ssa.Extract, *ssa.Phi, *ssa.TypeAssert, *ssa.Lookup, *ssa.Index, *ssa.Field:
									makes[n] = true
								}
							}
						}
					}
				}
			})
		}
		for n, als := range allocsOf {
			if makes[n] || n == m.Impl {
				continue
			}
			ok := true
			for _, al := range als {
				if !confinedPtr(m, al, map[ssa.Value]bool{}, 0) {
					ok = false
				}
			}
			confined[n] = ok
		}
	}
	for _, f := range m.Funcs {
		eachInstr(f, func(in ssa.Instruction) {
			fa, ok := in.(*ssa.FieldAddr)
			if !ok {
				return
			}
			n := namedOf(fa.X.Type())
			if n == nil || !isShared[n] || confined[n] {
				return
			}
			st := n.Underlying().(*types.Struct)
			fld := st.Field(fa.Field)
			if isSyncType(fld.Type()) {
				return
			}
			if n == m.Impl && m.isCtorCode(f) {
				return // constructor code of the election object: before publication
			}
			if allocs[n][f] || allocs[n][topFunc(f)] {
				// constructor: before publication (accesses through the fresh object)
				if _, isAlloc := fa.X.(*ssa.Alloc); isAlloc {
					return
				}
				if derivesFromAlloc(fa.X) {
					return
				}
			}
			k := fieldKey{n, fld.Name()}
			if refs := fa.Referrers(); refs != nil {
				for _, r := range *refs {
					switch x := r.(type) {
					case *ssa.Store:
						if x.Addr == ssa.Value(fa) {
							acc[k] = append(acc[k], access{x, true, f})
						}
					case *ssa.UnOp:
						acc[k] = append(acc[k], access{x, false, f})
					case *ssa.FieldAddr:
						// nested struct field (e.g. cfg.X): a read of the outer field
						acc[k] = append(acc[k], access{x, false, f})
					case *ssa.DebugRef:
					default:
						// the address handed to a library function: the accesses are the loads and
						// stores through that pointer parameter in the callee (taking the address is
						// no access)
						if ci, ok := r.(ssa.CallInstruction); ok {
							if callee := ci.Common().StaticCallee(); callee != nil && m.isLib(callee) && callee.Blocks != nil {
								resolved := false
								for ai, a := range ci.Common().Args {
									if a != ssa.Value(fa) || ai >= len(callee.Params) {
										continue
									}
									p := callee.Params[ai]
									escapes := false
									if prefs := p.Referrers(); prefs != nil {
										for _, pr := range *prefs {
											switch y := pr.(type) {
											case *ssa.Store:
												if y.Addr == ssa.Value(p) {
													acc[k] = append(acc[k], access{y, true, callee})
												} else {
													escapes = true
												}
											case *ssa.UnOp:
												acc[k] = append(acc[k], access{y, false, callee})
											case *ssa.DebugRef:
											default:
												escapes = true
											}
										}
									}
									if !escapes {
										resolved = true
									}
								}
								if resolved {
									continue
								}
							}
						}
						if ri, ok := r.(ssa.Instruction); ok {
							// address taken (passed to a call): both
							acc[k] = append(acc[k], access{ri, true, f})
						}
					}
				}
			}
		})
	}
	var keys []fieldKey
	for k := range acc {
		keys = append(keys, k)
	}
	sort.Slice(keys, func(i, j int) bool {
		if keys[i].typ.Obj().Name() != keys[j].typ.Obj().Name() {
			return keys[i].typ.Obj().Name() < keys[j].typ.Obj().Name()
		}
		return keys[i].field < keys[j].field
	})
	nFields := 0
	for _, k := range keys {
		as := acc[k]
		name := k.typ.Obj().Name() + "." + k.field
		nW := 0
		for _, a := range as {
			if a.write {
				nW++
			}
		}
		nFields++
		if nW == 0 {
			c.ok("R2", "field "+name+" is init-only", as[0].in, "%d reads, no write outside the allocating function", len(as))
			continue
		}
		// once idiom: all writes inside a sync.Once.Do closure, all reads after a Do call
		if m.onceGuarded(as) {
			c.ok("R1", "field "+name, as[0].in, "written only inside sync.Once.Do; every read follows a Do call (%d accesses)", len(as))
			continue
		}
		// candidate locks
		var common map[string]bool
		allLocked := true
		var unlocked []string
		for _, a := range as {
			h := la.MustBefore(a.in)
			cur := map[string]bool{}
			for lk := range h {
				id, mode, _ := strings.Cut(lk, "/")
				if a.write && mode != "W" {
					continue
				}
				cur[id] = true
			}
			if len(cur) == 0 {
				allLocked = false
				if len(unlocked) < 6 {
					kind := "read"
					if a.write {
						kind = "write"
					}
					unlocked = append(unlocked, fmt.Sprintf("%s in %s at %s", kind, shortFn(a.fn), c.posOf(a.in)))
				}
			}
			if common == nil {
				common = cur
			} else {
				for id := range common {
					if !cur[id] {
						delete(common, id)
					}
				}
			}
		}
		switch {
		case len(common) > 0:
			var ids []string
			for id := range common {
				ids = append(ids, id)
			}
			sort.Strings(ids)
			c.ok("R1", "field "+name, as[0].in, "all %d accesses (%d writes) hold %v", len(as), nW, ids)
		case allLocked:
			c.viol("R3", "field "+name, as[0].in, "every access holds a mutex, but not a common one: the field is guarded by different mutexes in different places (%d accesses)", len(as))
		default:
			c.viol("R1", "field "+name, as[0].in,
				"%d accesses, %d writes outside the constructor, no common mutex: unlocked accesses e.g. %s. A concurrent API call (Start / StopWithContext / callback registration) or a goroutine surviving a stop races with them.", len(as), nW, strings.Join(unlocked, "; "))
		}
	}
	if nFields < 15 {
		c.undecided("R1", "instance-floor", nil, "only %d plain fields of shared objects found; more than 20 on the reference tree", nFields)
	}
	sharedSliceAppendRule(c, "R4")
}

func derivesFromAlloc(v ssa.Value) bool {
	switch x := v.(type) {
	case *ssa.Alloc:
		return true
	case *ssa.UnOp:
		if al, ok := x.X.(*ssa.Alloc); ok {
			for _, s := range storesTo(al) {
				if _, isAlloc := s.(*ssa.Alloc); isAlloc {
					return true
				}
			}
		}
	case *ssa.FreeVar:
		return false
	}
	return false
}

// onceGuarded: every write is inside a closure passed to sync.Once.Do and every read is
// dominated by a call of Once.Do in its function (or is inside such a closure).
func (m *Model) onceGuarded(as []fieldAccess) bool {
	for _, a := range as {
		if m.insideOnceAny(a.fn) {
			continue
		}
		if a.write {
			return false
		}
		dominated := false
		eachInstr(a.fn, func(x ssa.Instruction) {
			if call, ok := isCallTo(valueOf(x), "(*sync.Once).Do"); ok && dominatesInstr(call, a.in) {
				dominated = true
			}
		})
		if !dominated {
			return false
		}
	}
	return true
}


// sharedSliceAppendRule (C20-R4): the field-level lockset discipline does not see the elements of
// a slice. A slice kept in a shared object and read without a lock is fine as long as nobody writes
// its backing array - and append does, silently, whenever the slice has spare capacity.
func sharedSliceAppendRule(c *Ctx, rule string) {
	m := c.M
	n := 0
	var fromSharedField func(v ssa.Value, depth int) (string, bool)
	fromSharedField = func(v ssa.Value, depth int) (string, bool) {
		if depth > 6 || v == nil {
			return "", false
		}
		switch x := m.traceValue(v).(type) {
		case *ssa.UnOp:
			if x.Op == token.MUL {
				a := m.Sym.Of(x.X)
				if a.Op == "addr" && !strings.HasPrefix(a.Name, "local:") && strings.Contains(a.Name, ".") {
					return a.Name, true
				}
			}
		case *ssa.Slice:
			if x.Max != nil {
				return "", false // capacity limited: append copies
			}
			return fromSharedField(x.X, depth+1)
		case *ssa.Phi:
			for _, e := range x.Edges {
				if f, ok := fromSharedField(e, depth+1); ok {
					return f, true
				}
			}
		case *ssa.ChangeType:
			return fromSharedField(x.X, depth+1)
		}
		return "", false
	}
	for _, f := range m.Funcs {
		if m.isCtorCode(f) {
			continue
		}
		eachInstr(f, func(in ssa.Instruction) {
			call, ok := in.(*ssa.Call)
			if !ok {
				return
			}
			b, isB := call.Call.Value.(*ssa.Builtin)
			if !isB || b.Name() != "append" || len(call.Call.Args) == 0 {
				return
			}
			n++
			if fld, shared := fromSharedField(call.Call.Args[0], 0); shared {
				c.viol(rule, fmt.Sprintf("append to the shared slice %s in %s", fld, shortFn(f)), call, "the first operand of append is the slice stored in %s, read without limiting its capacity: when the slice has spare capacity append writes into the backing array that every other reader of the field shares (two goroutines logging at once overwrite each other's element; the race detector reports a write/write)", fld)
			}
		})
	}
	c.ok(rule, "no append to a slice held in a shared object", nil, "%d append calls examined outside the constructor", n)
}

// confinedPtr: the pointer v (a local object or a parameter holding one) is used only for field
// accesses and as an argument of ordinary calls of library functions that use it the same way.
func confinedPtr(m *Model, v ssa.Value, seen map[ssa.Value]bool, depth int) bool {
	if seen[v] {
		return true
	}
	seen[v] = true
	if depth > 6 {
		return false
	}
	refs := v.Referrers()
	if refs == nil {
		return true
	}
	for _, r := range *refs {
		switch x := r.(type) {
		case *ssa.DebugRef:
		case *ssa.FieldAddr:
			if x.X != v {
				return false
			}
			if frefs := x.Referrers(); frefs != nil {
				for _, fr := range *frefs {
					switch y := fr.(type) {
					case *ssa.Store:
						if y.Addr != ssa.Value(x) {
							return false
						}
					case *ssa.UnOp, *ssa.DebugRef:
					default:
						return false
					}
				}
			}
		case *ssa.Store:
			if x.Addr != v {
				return false // the pointer itself is stored somewhere
			}
		case *ssa.UnOp:
			// a copy of the whole value
		case *ssa.Call:
			callee := x.Call.StaticCallee()
			if callee == nil || !m.isLib(callee) || callee.Blocks == nil || x.Call.IsInvoke() {
				return false
			}
			for ai, a := range x.Call.Args {
				if a == v {
					if ai >= len(callee.Params) || !confinedPtr(m, callee.Params[ai], seen, depth+1) {
						return false
					}
				}
			}
		default:
			return false // go, defer, closure capture, phi, send, conversion to an interface ...
		}
	}
	return true
}
