package main

import (
	"fmt"
	"go/constant"
	"go/token"
	"go/types"
	"sort"
	"strconv"
	"strings"

	"golang.org/x/tools/go/ssa"
)

// Sym is a canonical symbolic description of an SSA value: an expression tree over
// access paths (fields of the shared objects, identified by type), constants, calls
// and locals. Two values with equal Sym strings denote the same expression.
type Sym struct {
	Op   string // const path addr call invoke callv bin not neg extract phi assert lookup index local param closure global make unknown
	Name string
	Args []*Sym
	V    ssa.Value
	Typ  types.Type
	str  string
}

func (s *Sym) String() string {
	if s == nil {
		return "<nil>"
	}
	if s.str != "" {
		return s.str
	}
	var b strings.Builder
	switch s.Op {
	case "const", "path", "local", "param", "global", "unknown":
		b.WriteString(s.Name)
	case "addr":
		b.WriteString("&" + s.Name)
	case "bin":
		fmt.Fprintf(&b, "(%s %s %s)", s.Args[0], s.Name, s.Args[1])
	case "not":
		fmt.Fprintf(&b, "!%s", s.Args[0])
	case "neg":
		fmt.Fprintf(&b, "-%s", s.Args[0])
	case "extract":
		fmt.Fprintf(&b, "%s#%s", s.Args[0], s.Name)
	case "phi":
		parts := make([]string, len(s.Args))
		for i, a := range s.Args {
			parts[i] = a.String()
		}
		sort.Strings(parts)
		parts = uniq(parts)
		fmt.Fprintf(&b, "phi[%s]", strings.Join(parts, " | "))
	default:
		b.WriteString(s.Op)
		if s.Name != "" {
			b.WriteString(" " + s.Name)
		}
		b.WriteString("(")
		for i, a := range s.Args {
			if i > 0 {
				b.WriteString(", ")
			}
			b.WriteString(a.String())
		}
		b.WriteString(")")
	}
	s.str = b.String()
	return s.str
}

func uniq(ss []string) []string {
	out := ss[:0]
	for i, s := range ss {
		if i == 0 || s != ss[i-1] {
			out = append(out, s)
		}
	}
	return out
}

func (s *Sym) IsConst() bool { return s != nil && s.Op == "const" }

// ConstInt returns the integer value of a constant Sym.
func (s *Sym) ConstInt() (int64, bool) {
	if s == nil || s.Op != "const" {
		return 0, false
	}
	if c, ok := s.V.(*ssa.Const); ok && c.Value != nil && c.Value.Kind() == constant.Int {
		return c.Int64(), true
	}
	return 0, false
}

// Symbolizer turns SSA values into Syms. Objects of the shared struct types are
// identified by type (DESIGN §3.1): any pointer to such a struct is the root "<TypeName>".
type Symbolizer struct {
	prog      *Program
	rootTypes map[*types.Named]bool // struct types identified by type
	cache     map[ssa.Value]*Sym
	busy      map[ssa.Value]bool
	closureOf map[*ssa.Function]*ssa.MakeClosure
	loopHits  int
	inlining  map[*ssa.Function]bool
	inlOK     map[*ssa.Function]bool
}

func newSymbolizer(p *Program) *Symbolizer {
	s := &Symbolizer{prog: p, rootTypes: map[*types.Named]bool{}, cache: map[ssa.Value]*Sym{}, busy: map[ssa.Value]bool{}, closureOf: map[*ssa.Function]*ssa.MakeClosure{}, inlining: map[*ssa.Function]bool{}, inlOK: map[*ssa.Function]bool{}}
	for _, pkg := range []*ssa.Package{p.Leader, p.Mock} {
		if pkg == nil {
			continue
		}
		for _, m := range pkg.Members {
			if t, ok := m.(*ssa.Type); ok {
				if n, ok := t.Type().(*types.Named); ok {
					if _, ok := n.Underlying().(*types.Struct); ok && isSharedObjectType(n) {
						s.rootTypes[n] = true
					}
				}
			}
		}
		for _, f := range p.pkgFuncs(pkg) {
			for _, b := range f.Blocks {
				for _, in := range b.Instrs {
					if mc, ok := in.(*ssa.MakeClosure); ok {
						if fn, ok := mc.Fn.(*ssa.Function); ok {
							s.closureOf[fn] = mc
						}
					}
				}
			}
		}
	}
	return s
}

// isSharedObjectType: a struct type with pointer-receiver methods that is not an
// error type. Such objects (the election, the disconnect handler, the monitor, the
// breaker, the adapters) exist once per election and are identified by type; plain
// data structs (payloads, configs, status snapshots) are not.
func isSharedObjectType(n *types.Named) bool {
	ptr := types.NewPointer(n)
	ms := types.NewMethodSet(ptr)
	if ms.Len() == 0 {
		return false
	}
	errT := types.Universe.Lookup("error").Type().Underlying().(*types.Interface)
	if types.Implements(ptr, errT) || types.Implements(n, errT) {
		return false
	}
	return true
}

// rootName returns the type-identity root for a pointer (or value) of a shared struct type.
func (s *Symbolizer) rootName(t types.Type) (string, bool) {
	if p, ok := t.Underlying().(*types.Pointer); ok {
		t = p.Elem()
	}
	if n, ok := t.(*types.Named); ok && s.rootTypes[n] {
		return n.Obj().Name(), true
	}
	return "", false
}

func constString(c *ssa.Const) string {
	if c.Value == nil {
		return "nil"
	}
	switch c.Value.Kind() {
	case constant.String:
		return fmt.Sprintf("%q", constant.StringVal(c.Value))
	case constant.Bool:
		if constant.BoolVal(c.Value) {
			return "true"
		}
		return "false"
	case constant.Float:
		f, _ := constant.Float64Val(c.Value)
		return strconv.FormatFloat(f, 'g', -1, 64)
	}
	return c.Value.ExactString()
}

func (s *Symbolizer) Of(v ssa.Value) *Sym {
	if v == nil {
		return &Sym{Op: "unknown", Name: "?nil"}
	}
	if r, ok := s.cache[v]; ok {
		return r
	}
	if s.busy[v] {
		s.loopHits++
		return &Sym{Op: "unknown", Name: "@loop", V: v}
	}
	s.busy[v] = true
	before := s.loopHits
	r := s.of(v)
	delete(s.busy, v)
	if r.V != nil && r.V != v {
		// a shared Sym of another value (transparent conversion): copy before re-labelling
		cp := *r
		r = &cp
	}
	r.V = v
	if r.Typ == nil {
		r.Typ = v.Type()
	}
	// A value whose description was cut short by a cycle placeholder is cached only
	// when it was the outermost query: nested ones would otherwise depend on which
	// member of the cycle happened to be asked about first.
	if s.loopHits == before || len(s.busy) == 0 {
		s.cache[v] = r
	}
	return r
}

func (s *Symbolizer) of(v ssa.Value) *Sym {
	// type identity for shared objects (not for allocation sites themselves: a fresh
	// &T{} in a constructor is still that object)
	if _, isAlloc := v.(*ssa.Alloc); !isAlloc {
		if _, isPtr := v.Type().Underlying().(*types.Pointer); isPtr {
			if name, ok := s.rootName(v.Type()); ok {
				return &Sym{Op: "path", Name: name}
			}
		}
	}
	switch v := v.(type) {
	case *ssa.Const:
		return &Sym{Op: "const", Name: constString(v)}
	case *ssa.Parameter:
		return &Sym{Op: "param", Name: "param:" + v.Name()}
	case *ssa.FreeVar:
		if mc := s.closureOf[v.Parent()]; mc != nil {
			for i, fv := range v.Parent().FreeVars {
				if fv == v && i < len(mc.Bindings) {
					return s.Of(mc.Bindings[i])
				}
			}
		}
		return &Sym{Op: "unknown", Name: "freevar:" + v.Name()}
	case *ssa.Global:
		return &Sym{Op: "addr", Name: "global:" + v.String()}
	case *ssa.Function:
		return &Sym{Op: "const", Name: "func:" + v.String()}
	case *ssa.Builtin:
		return &Sym{Op: "const", Name: "builtin:" + v.Name()}
	case *ssa.Alloc:
		if name, ok := s.rootName(v.Type()); ok {
			// a freshly allocated shared object
			return &Sym{Op: "path", Name: name}
		}
		return &Sym{Op: "addr", Name: "local:" + allocName(v)}
	case *ssa.FieldAddr:
		base := s.Of(v.X)
		fname := fieldName(v.X.Type(), v.Field)
		switch base.Op {
		case "path":
			return &Sym{Op: "addr", Name: base.Name + "." + fname}
		case "addr":
			return &Sym{Op: "addr", Name: base.Name + "." + fname}
		}
		return &Sym{Op: "addr", Name: "(" + base.String() + ")." + fname}
	case *ssa.Field:
		base := s.Of(v.X)
		fname := fieldName(v.X.Type(), v.Field)
		if base.Op == "path" || base.Op == "param" || base.Op == "local" {
			return &Sym{Op: "path", Name: base.Name + "." + fname}
		}
		return &Sym{Op: "path", Name: "(" + base.String() + ")." + fname}
	case *ssa.UnOp:
		switch v.Op {
		case token.MUL:
			a := s.Of(v.X)
			if a.Op == "addr" {
				if strings.HasPrefix(a.Name, "local:") && !strings.Contains(a.Name, ".") {
					// a local cell: if it has exactly one store, the load is that value
					if al := s.resolveCell(v.X); al != nil {
						if st := singleStore(al, s); st != nil {
							return s.Of(st)
						}
					}
					// a cell that is only stored and loaded (a named result kept in memory because of
					// a defer): the value of the last store before this load on a straight line
					if w := lastStoreBefore(v); w != nil {
						return s.Of(w)
					}
					return &Sym{Op: "local", Name: strings.TrimPrefix(a.Name, "")}
				}
				return &Sym{Op: "path", Name: a.Name}
			}
			return &Sym{Op: "load", Args: []*Sym{a}}
		case token.NOT:
			return &Sym{Op: "not", Args: []*Sym{s.Of(v.X)}}
		case token.SUB:
			return &Sym{Op: "neg", Args: []*Sym{s.Of(v.X)}}
		case token.ARROW:
			return &Sym{Op: "recv", Args: []*Sym{s.Of(v.X)}}
		}
		return &Sym{Op: "unop", Name: v.Op.String(), Args: []*Sym{s.Of(v.X)}}
	case *ssa.BinOp:
		x, y := s.Of(v.X), s.Of(v.Y)
		op := v.Op
		switch op {
		case token.GTR:
			op, x, y = token.LSS, y, x
		case token.GEQ:
			op, x, y = token.LEQ, y, x
		case token.EQL, token.NEQ, token.ADD, token.MUL, token.AND, token.OR, token.XOR:
			if x.String() > y.String() {
				x, y = y, x
			}
		}
		return &Sym{Op: "bin", Name: op.String(), Args: []*Sym{x, y}}
	case *ssa.Convert:
		return s.Of(v.X)
	case *ssa.ChangeType:
		return s.Of(v.X)
	case *ssa.ChangeInterface:
		return s.Of(v.X)
	case *ssa.MakeInterface:
		return s.Of(v.X)
	case *ssa.Extract:
		return &Sym{Op: "extract", Name: fmt.Sprint(v.Index), Args: []*Sym{s.Of(v.Tuple)}}
	case *ssa.Phi:
		var args []*Sym
		for _, e := range v.Edges {
			args = append(args, s.Of(e))
		}
		return &Sym{Op: "phi", Args: args}
	case *ssa.Call:
		return s.ofCall(&v.Call)
	case *ssa.TypeAssert:
		op := "assert"
		if v.CommaOk {
			op = "assertok"
		}
		return &Sym{Op: op, Name: types.TypeString(v.AssertedType, shortQual), Args: []*Sym{s.Of(v.X)}}
	case *ssa.Lookup:
		op := "lookup"
		if v.CommaOk {
			op = "lookupok"
		}
		return &Sym{Op: op, Args: []*Sym{s.Of(v.X), s.Of(v.Index)}}
	case *ssa.IndexAddr:
		return &Sym{Op: "indexaddr", Args: []*Sym{s.Of(v.X), s.Of(v.Index)}}
	case *ssa.Index:
		return &Sym{Op: "index", Args: []*Sym{s.Of(v.X), s.Of(v.Index)}}
	case *ssa.Slice:
		return &Sym{Op: "slice", Args: []*Sym{s.Of(v.X)}}
	case *ssa.MakeClosure:
		return &Sym{Op: "closure", Name: v.Fn.String()}
	case *ssa.MakeChan:
		return &Sym{Op: "makechan", Args: []*Sym{s.Of(v.Size)}}
	case *ssa.MakeMap:
		return &Sym{Op: "makemap", Name: v.Name()}
	case *ssa.MakeSlice:
		return &Sym{Op: "makeslice", Name: v.Name()}
	case *ssa.Select:
		return &Sym{Op: "select", Name: v.Name()}
	case *ssa.Next:
		return &Sym{Op: "next", Args: []*Sym{s.Of(v.Iter)}}
	case *ssa.Range:
		return &Sym{Op: "range", Args: []*Sym{s.Of(v.X)}}
	}
	return &Sym{Op: "unknown", Name: fmt.Sprintf("%T:%s", v, v.Name())}
}

func shortQual(p *types.Package) string { return p.Name() }

func (s *Symbolizer) ofCall(c *ssa.CallCommon) *Sym {
	var args []*Sym
	if c.IsInvoke() {
		args = append(args, s.Of(c.Value))
		for _, a := range c.Args {
			args = append(args, s.Of(a))
		}
		recv := c.Value.Type()
		return &Sym{Op: "invoke", Name: types.TypeString(recv, shortQual) + "." + c.Method.Name(), Args: args}
	}
	for _, a := range c.Args {
		args = append(args, s.Of(a))
	}
	if f := c.StaticCallee(); f != nil {
		if s.inlinable(f) && !s.inlining[f] && len(s.inlining) < 3 {
			// a small pure helper of the library: describe the value it returns, with its
			// parameters replaced by the arguments (extract-method refactorings keep their canonical form)
			s.inlining[f] = true
			defer delete(s.inlining, f)
			var rets []*Sym
			for _, b := range f.Blocks {
				if b == f.Recover {
					continue
				}
				if ret, ok := b.Instrs[len(b.Instrs)-1].(*ssa.Return); ok && len(ret.Results) == 1 {
					rets = append(rets, s.Of(returnValue(ret, 0)))
				}
			}
			if len(rets) > 0 {
				sub := map[string]*Sym{}
				for i, p := range f.Params {
					if i < len(args) {
						sub["param:"+p.Name()] = args[i]
					}
				}
				var out *Sym
				if len(rets) == 1 {
					out = substSym(rets[0], sub)
				} else {
					var as []*Sym
					for _, r := range rets {
						as = append(as, substSym(r, sub))
					}
					out = &Sym{Op: "phi", Args: as}
				}
				cp := *out
				cp.str = ""
				return &cp
			}
		}
		return &Sym{Op: "call", Name: funcName(f), Args: args}
	}
	if b, ok := c.Value.(*ssa.Builtin); ok {
		return &Sym{Op: "call", Name: "builtin." + b.Name(), Args: args}
	}
	return &Sym{Op: "callv", Args: append([]*Sym{s.Of(c.Value)}, args...)}
}

// funcName is a stable qualified name: pkgpath.Func or (*pkgpath.T).Method, closures as parent$N.
func funcName(f *ssa.Function) string {
	n := f.String()
	if modPrefix != "" {
		n = strings.ReplaceAll(n, modPrefix, "")
	}
	return n
}

// modPrefix is the analysed module's path + "/" (stripped from names for readability).
var modPrefix string

func fieldName(t types.Type, i int) string {
	if p, ok := t.Underlying().(*types.Pointer); ok {
		t = p.Elem()
	}
	if st, ok := t.Underlying().(*types.Struct); ok && i < st.NumFields() {
		return st.Field(i).Name()
	}
	return fmt.Sprintf("f%d", i)
}

func allocName(a *ssa.Alloc) string {
	n := a.Comment
	if n == "" {
		n = a.Name()
	}
	fn := ""
	if a.Parent() != nil {
		fn = a.Parent().Name()
	}
	return fn + "/" + n
}

// resolveCell follows conversions and closure captures to the local cell an address denotes.
func (s *Symbolizer) resolveCell(v ssa.Value) *ssa.Alloc {
	for i := 0; i < 8; i++ {
		switch x := stripAddr(v).(type) {
		case *ssa.Alloc:
			return x
		case *ssa.FreeVar:
			mc := s.closureOf[x.Parent()]
			if mc == nil {
				return nil
			}
			found := false
			for j, fv := range x.Parent().FreeVars {
				if fv == x && j < len(mc.Bindings) {
					v = mc.Bindings[j]
					found = true
				}
			}
			if !found {
				return nil
			}
		default:
			return nil
		}
	}
	return nil
}

func stripAddr(v ssa.Value) ssa.Value {
	for {
		switch x := v.(type) {
		case *ssa.ChangeType:
			v = x.X
		case *ssa.Convert:
			v = x.X
		default:
			return v
		}
	}
}

// storesTo returns every value stored to a local cell, in its function and in the
// closures that capture it.
func storesTo(al *ssa.Alloc) []ssa.Value {
	var out []ssa.Value
	var visitRefs func(addr ssa.Value, depth int)
	visitRefs = func(addr ssa.Value, depth int) {
		refs := addr.Referrers()
		if refs == nil || depth > 4 {
			return
		}
		for _, r := range *refs {
			switch r := r.(type) {
			case *ssa.Store:
				if r.Addr == addr {
					out = append(out, r.Val)
				}
			case *ssa.MakeClosure:
				if fn, ok := r.Fn.(*ssa.Function); ok {
					for i, b := range r.Bindings {
						if b == addr && i < len(fn.FreeVars) {
							visitRefs(fn.FreeVars[i], depth+1)
						}
					}
				}
			}
		}
	}
	visitRefs(al, 0)
	return out
}

func singleStore(al *ssa.Alloc, s *Symbolizer) ssa.Value {
	// the address must not escape to calls (other than closures) for the single-store claim
	if refs := al.Referrers(); refs != nil {
		for _, r := range *refs {
			switch r.(type) {
			case *ssa.Store, *ssa.UnOp, *ssa.MakeClosure, *ssa.DebugRef:
			default:
				return nil
			}
		}
	}
	st := storesTo(al)
	if len(st) == 1 {
		return st[0]
	}
	return nil
}

// ---- matching helpers -------------------------------------------------------

// isCallTo reports whether v is a static call to one of the named functions
// (names as printed by ssa.Function.String, e.g. "time.After" or "(*sync.Mutex).Lock").
func isCallTo(v ssa.Value, names ...string) (*ssa.Call, bool) {
	c, ok := v.(*ssa.Call)
	if !ok {
		return nil, false
	}
	f := c.Call.StaticCallee()
	if f == nil {
		return nil, false
	}
	n := f.String()
	for _, want := range names {
		if n == want {
			return c, true
		}
	}
	return nil, false
}

func calleeName(c *ssa.CallCommon) string {
	if c.IsInvoke() {
		return "invoke " + types.TypeString(c.Value.Type(), shortQual) + "." + c.Method.Name()
	}
	if f := c.StaticCallee(); f != nil {
		return funcName(f)
	}
	if b, ok := c.Value.(*ssa.Builtin); ok {
		return "builtin." + b.Name()
	}
	return "dynamic"
}

// inlinable: a small, loop-free, single-result function of the library that only reads
// (no stores to shared memory, no goroutines, no channel operations, no store operations).
func (s *Symbolizer) inlinable(f *ssa.Function) bool {
	if v, ok := s.inlOK[f]; ok {
		return v
	}
	ok := func() bool {
		if f == nil || f.Blocks == nil || f.Parent() != nil || f.Pkg == nil || f.Pkg != s.prog.Leader {
			return false
		}
		if f.Signature.Results().Len() != 1 || len(f.Blocks) > 16 {
			return false
		}
		// functions returning an error are operations, not value helpers
		if types.Identical(f.Signature.Results().At(0).Type(), types.Universe.Lookup("error").Type()) {
			return false
		}
		// exported package-level functions are API with their own rules (CalculateBackoff, ...)
		if f.Signature.Recv() == nil && f.Object() != nil && f.Object().Exported() {
			return false
		}
		// loop-free
		seen := map[*ssa.BasicBlock]int{}
		var cyc bool
		var dfs func(b *ssa.BasicBlock)
		dfs = func(b *ssa.BasicBlock) {
			seen[b] = 1
			for _, x := range b.Succs {
				if seen[x] == 1 {
					cyc = true
				} else if seen[x] == 0 {
					dfs(x)
				}
			}
			seen[b] = 2
		}
		dfs(f.Blocks[0])
		if cyc {
			return false
		}
		for _, b := range f.Blocks {
			for _, in := range b.Instrs {
				switch x := in.(type) {
				case *ssa.Go, *ssa.Send, *ssa.Select, *ssa.MapUpdate, *ssa.Panic:
					return false
				case *ssa.Defer:
					if c := x.Call.StaticCallee(); c == nil || c.Pkg == nil || c.Pkg.Pkg.Path() != "sync" {
						return false
					}
				case *ssa.Store:
					if _, isLocal := x.Addr.(*ssa.Alloc); !isLocal {
						if fa, ok := x.Addr.(*ssa.FieldAddr); ok {
							if _, isLocal := fa.X.(*ssa.Alloc); isLocal {
								continue
							}
						}
						if ia, ok := x.Addr.(*ssa.IndexAddr); ok {
							if _, isLocal := ia.X.(*ssa.Alloc); isLocal {
								continue
							}
						}
						return false
					}
				case *ssa.Call:
					if x.Call.IsInvoke() {
						n := namedOf(x.Call.Value.Type())
						if n != nil && n.Obj().Pkg() == s.prog.Leader.Pkg {
							return false // store / logger / metrics / monitor operations are not pure reads
						}
					}
					if c := x.Call.StaticCallee(); c != nil && c.Pkg != nil {
						switch c.Pkg.Pkg.Path() {
						case "sync/atomic":
							if c.Name() != "Load" {
								return false
							}
						case "encoding/json":
							return false
						}
					}
				}
			}
		}
		return true
	}()
	s.inlOK[f] = ok
	return ok
}

// substSym replaces parameter leaves by the argument expressions.
func substSym(x *Sym, sub map[string]*Sym) *Sym {
	if x == nil {
		return nil
	}
	switch x.Op {
	case "param":
		if a, ok := sub[x.Name]; ok {
			return a
		}
		return x
	case "path", "addr", "local":
		for k, a := range sub {
			if x.Name == k {
				return a
			}
			if strings.HasPrefix(x.Name, k+".") {
				base := a.String()
				if a.Op != "path" && a.Op != "param" && a.Op != "local" {
					base = "(" + base + ")"
				}
				base = strings.TrimPrefix(base, "&")
				return &Sym{Op: x.Op, Name: base + strings.TrimPrefix(x.Name, k), V: x.V, Typ: x.Typ}
			}
		}
		return x
	}
	if len(x.Args) == 0 {
		return x
	}
	changed := false
	args := make([]*Sym, len(x.Args))
	for i, a := range x.Args {
		args[i] = substSym(a, sub)
		if args[i] != a {
			changed = true
		}
	}
	if !changed {
		return x
	}
	return &Sym{Op: x.Op, Name: x.Name, Args: args, V: x.V, Typ: x.Typ}
}
