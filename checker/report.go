package main

import (
	"crypto/sha1"
	"encoding/json"
	"fmt"
	"os"
	"path/filepath"
	"sort"
	"strings"
	"time"
)

type Verdict string

const (
	OK        Verdict = "OK"
	VIOLATION Verdict = "VIOLATION"
	UNDECIDED Verdict = "UNDECIDED"
)

// Obligation is one instance of one rule: a construct of the analysed program
// (a call site, a function, a field, a path) together with the verdict.
// Construct is a stable key (rule + function + semantic discriminator, never a
// line number); known_findings.json matches on it.
type Obligation struct {
	Property  string  `json:"property"`
	Rule      string  `json:"rule"`
	Construct string  `json:"construct"`
	Pos       string  `json:"pos"`
	Verdict   Verdict `json:"verdict"`
	Detail    string  `json:"detail,omitempty"`
}

func (o Obligation) Key() string { return o.Rule + " :: " + o.Construct }

type RunOptions struct {
	Tier          string
	VerifDir      string
	WriteEvidence bool
	ListAll       bool
	Start         time.Time
	Quiet         bool
}

// KnownFinding is an entry of /verif/known_findings.json (committed, never written at run time).
type KnownFinding struct {
	Property  string `json:"property"`
	Status    string `json:"status"` // "open" or "fixed"
	Rule      string `json:"rule"`
	Construct string `json:"construct,omitempty"` // open findings: exact obligation construct
	Commit    string `json:"commit,omitempty"`    // fixed findings: the fix commit in /repo
	What      string `json:"what"`
	Line      string `json:"line,omitempty"` // fixed findings: "fixed: property=<id> <commit> <what failed>"
}

type knownFile struct {
	Comment  string         `json:"comment"`
	Findings []KnownFinding `json:"findings"`
}

func loadKnown(vdir string) ([]KnownFinding, error) {
	b, err := os.ReadFile(filepath.Join(vdir, "known_findings.json"))
	if err != nil {
		if os.IsNotExist(err) {
			return nil, nil
		}
		return nil, err
	}
	var kf knownFile
	if err := json.Unmarshal(b, &kf); err != nil {
		return nil, fmt.Errorf("known_findings.json: %w", err)
	}
	return kf.Findings, nil
}

func defaultVerifDir() string {
	exe, err := os.Executable()
	if err == nil {
		d := filepath.Dir(filepath.Dir(exe)) // <verif>/bin/electlint
		if _, err := os.Stat(filepath.Join(d, "properties.jsonl")); err == nil {
			return d
		}
	}
	if wd, err := os.Getwd(); err == nil {
		for d := wd; d != "/"; d = filepath.Dir(d) {
			if _, err := os.Stat(filepath.Join(d, "properties.jsonl")); err == nil {
				return d
			}
		}
	}
	return "/verif"
}

// PropertyResult is what one property's rules produced on one load of the repository.
type PropertyResult struct {
	Property string
	Obls     []Obligation
	Err      error // load / anchor failure (reported as UNDECIDED)
}

func (r *PropertyResult) failing() []Obligation {
	var out []Obligation
	for _, o := range r.Obls {
		if o.Verdict != OK {
			out = append(out, o)
		}
	}
	return out
}

func sortObls(obls []Obligation) {
	sort.SliceStable(obls, func(i, j int) bool {
		if obls[i].Rule != obls[j].Rule {
			return obls[i].Rule < obls[j].Rule
		}
		return obls[i].Construct < obls[j].Construct
	})
}

type evidenceFile struct {
	PropertyID  string         `json:"property_id"`
	Tier        string         `json:"tier"`
	Seed        int            `json:"seed"`
	Level       string         `json:"level"`
	Coverage    map[string]any `json:"coverage"`
	Assumptions []string       `json:"assumptions"`
	WallS       float64        `json:"wall_s"`
	Violations  int            `json:"violations"`
}

func shortHash(s string) string {
	h := sha1.Sum([]byte(s))
	return fmt.Sprintf("%x", h[:5])
}

// writeReplay records one failing obligation so that it can be inspected and re-run.
func writeReplay(vdir string, cfg LoadConfig, o Obligation) string {
	dir := filepath.Join(vdir, "replay")
	_ = os.MkdirAll(dir, 0o755)
	path := filepath.Join(dir, fmt.Sprintf("%s-%s.json", o.Property, shortHash(o.Key())))
	b, _ := json.MarshalIndent(map[string]any{
		"property":   o.Property,
		"rule":       o.Rule,
		"construct":  o.Construct,
		"pos":        o.Pos,
		"verdict":    o.Verdict,
		"detail":     o.Detail,
		"repo":       cfg.Dir,
		"config":     cfg.String(),
		"rule_text":  ruleText(o.Property, o.Rule),
		"how_to_run": fmt.Sprintf("./bin/electlint -p %s -obligations", o.Property),
	}, "", " ")
	_ = os.WriteFile(path, append(b, '\n'), 0o644)
	return path
}

func runReplay(path, vdir string) int {
	b, err := os.ReadFile(path)
	if err != nil {
		fmt.Fprintln(os.Stderr, err)
		return 2
	}
	fmt.Printf("%s\n", b)
	var r struct {
		Property  string `json:"property"`
		Rule      string `json:"rule"`
		Construct string `json:"construct"`
		Repo      string `json:"repo"`
	}
	if err := json.Unmarshal(b, &r); err != nil {
		fmt.Fprintln(os.Stderr, err)
		return 2
	}
	repo := r.Repo
	if repo == "" {
		repo = "/repo"
	}
	if _, err := os.Stat(repo); err != nil {
		repo = "/repo"
	}
	fmt.Printf("--- re-running %s on %s\n", r.Property, repo)
	prog, err := loadProgram(LoadConfig{Dir: repo, Toolchain: "local"})
	if err != nil {
		fmt.Println("load failed:", err)
		return 1
	}
	res := evalProperty(prog, r.Property)
	for _, o := range res.Obls {
		if o.Rule == r.Rule && o.Construct == r.Construct {
			fmt.Printf("%s  %s  %s\n   %s\n", o.Verdict, o.Pos, o.Key(), o.Detail)
			if o.Verdict != OK {
				fmt.Printf("VIOLATION property=%s replay=%s\n", r.Property, path)
				return 1
			}
			return 0
		}
	}
	fmt.Println("the recorded construct no longer exists in the analysed tree (rule instance gone)")
	return 0
}

func clip(s string, n int) string {
	s = strings.Join(strings.Fields(s), " ")
	if len(s) > n {
		return s[:n] + "…"
	}
	return s
}
