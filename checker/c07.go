package main

import (
	"regexp"
	"sort"
	"strings"

	"golang.org/x/tools/go/ssa"
)

func init() {
	register(&PropertySpec{
		ID:    "C07",
		Level: "other",
		Run:   checkC07,
		Explanation: "C07 quantifies over schedules; what is decided is its structural necessary condition: every way the code can turn a standing claim into false (other than Stop) carries a justification that cannot arise in fault-free operation. " +
			"(R1) every call site of a function that may demote lies, on every path, behind an edge carrying one of the enumerated justifications: an own store operation / validation / encoding step of this activation failed (error non-nil), the validation verdict was negative, the health-failure threshold was reached, the grace timer fired (C11-R3), or a watch event names another instance AND its revision is greater than the instance's own latest revision; a failed acquisition (Create) is NOT a justification. " +
			"(R2) the revision a leader presents on refresh cannot be overwritten with an observed one (C01-R4, shared). (R3) the TTL >= 3 x heartbeat margin is enforced by validation (C16, shared); (R4) the per-attempt time-out is never below H/2 and (R5) refreshes are issued every H (C03-R1/R8, shared); (R6) the refresh loop of a term ends with that term, so that two refreshers of the same instance never collide (the loser of a collision sees a revision conflict, a permanent error, and would demote a healthy leader; C03-R9, shared); (R7) the periodic validation's per-read time-out is never below H/2 either, so a store that is healthy by the heartbeat's standard cannot fail two validations in a row.",
		NotDecided: []string{"that the record never lapses under latencies below H/2 (timing: TTL vs. refresh period)", "that no justification literal can become true in fault-free runs because of message reordering inside the NATS client"},
		Assumptions: []string{"in fault-free operation Update/Get/validation/Marshal of a leader do not fail and health checks are healthy"},
		Rules: map[string]string{
			"R1": "for every non-stop call site of a may-demote function: after removing the CFG edges that carry a justification literal the site is unreachable from the function entry, or every call site of the enclosing function is justified (recursively); acquisition failures (errors of Create / attemptAcquire) are not justifications",
			"R2": "see C01-R4",
			"R3": "see C16-R1 (TTL < 3*H is rejected)",
			"R5": "the refresh ticker's period is cfg.HeartbeatInterval (C03-R8, shared): together with R3 the record is refreshed three times per TTL",
			"R9": "every may-demote call in a term loop (refresh, validation: the ticker loops the claim-set unit starts) and the functions it is split into calls a term-bound function with the loop's own context: a function whose claim clear is decided by the comparison of that parameter with the field holding the current term's context, or that passes it on to one",
			"R8": "see C02-R5: the revision (and token, leader id) stores dominate the claim Store(true); the watcher demotes on a foreign event only if its revision exceeds the term's, read without the mutex under a lock-free claim test",
			"R7": "in every loop that calls the validation function periodically, the context passed to it comes from context.WithTimeout(_, d) with d == max(K, H/2) for a constant K (if-chain or builtin max): a read answered within H/2 never counts as a validation failure",
			"R6": "shared with C03-R9: the refresh loop of a term runs under that term's context (no refresher of an earlier term survives into a later term and collides with it)",
			"R4": "the refresh attempt's time-out expression is max(H/2, 1s) (C03-R1, shared): never below H/2, so latencies below H/2 cause no refresh failure",
		},
	})
}

// justification classifies an edge literal; "" = none.
func (m *Model) justification(l Lit) string {
	if j := m.justification1(l); j != "" {
		return j
	}
	// the tested result of a library function: every return of that function consistent with
	// the test carries a justification among its own guards
	if m.justDepth > 3 {
		return ""
	}
	m.justDepth++
	defer func() { m.justDepth-- }()
	paths, ok := m.resultPaths(l)
	if !ok || len(paths) == 0 {
		return ""
	}
	var why []string
	for _, p := range paths {
		found := ""
		var keys []string
		for k := range p {
			keys = append(keys, k)
		}
		sort.Strings(keys)
		for _, k := range keys {
			if j := m.justification(p[k]); j != "" {
				found = j
				break
			}
		}
		if found == "" {
			return ""
		}
		why = append(why, found)
	}
	return "every return consistent with " + clip(l.String(), 60) + ": " + strings.Join(uniqStrings(why), " / ")
}

func (m *Model) justification1(l Lit) string {
	s := l.S
	vfn := ""
	if f := m.ValidateFn(); f != nil {
		vfn = funcName(f)
	}
	api := ""
	if f := m.method("ValidateToken"); f != nil {
		api = funcName(f)
	}
	// J1: an error of this activation's own refresh / read / validation / encoding is non-nil
	if !l.Truth && s.Op == "bin" && s.Name == "==" {
		var x *Sym
		if s.Args[0].String() == "nil" {
			x = s.Args[1]
		} else if s.Args[1].String() == "nil" {
			x = s.Args[0]
		}
		if x != nil && x.Typ != nil && isErrorType(x.Typ) {
			if symMentions(x, "KeyValue.Create(") {
				return ""
			}
			names := []string{"KeyValue.Update(", "KeyValue.Get(", "NewTimeoutError(", "encoding/json.Marshal("}
			if vfn != "" {
				names = append(names, vfn+"(")
			}
			if api != "" {
				names = append(names, api+"(")
			}
			if symMentions(x, names...) {
				return "own operation failed: " + clip(x.String(), 80)
			}
		}
	}
	// J2: negative validation verdict
	if !l.Truth && s.Op == "extract" && s.Name == "0" && ((vfn != "" && symMentions(s, vfn+"(")) || (api != "" && symMentions(s, api+"("))) {
		return "validation verdict negative"
	}
	// J3: health threshold reached: threshold <= count, or NOT (count < threshold)
	if s.Op == "bin" && symMentions(s, "(*sync/atomic.Int32).Add(&"+m.path(m.HealthCounter)) {
		addOn := func(a *Sym) bool { return strings.Contains(a.String(), "Int32).Add(&"+m.path(m.HealthCounter)) }
		if (s.Name == "<=" && l.Truth && addOn(s.Args[1])) || (s.Name == "<" && !l.Truth && addOn(s.Args[0])) {
			return "health failure threshold reached"
		}
	}
	// J6: the context the goroutine runs under is done (the term or the election has ended, or
	// the caller cancelled the context it gave to Start): not an event of fault-free operation
	if sel, k, ok := selectCaseOf(l); ok && k < len(sel.States) {
		if x := m.Sym.Of(sel.States[k].Chan); x.Op == "invoke" && strings.HasSuffix(x.Name, "Context.Done") && len(x.Args) == 1 && x.Args[0].Op == "param" {
			return "the goroutine's context is done"
		}
	}
	// J5: a watch event with a revision greater than our own latest one
	if l.Truth && s.Op == "bin" && s.Name == "<" && strings.Contains(s.Args[0].String(), "(*sync/atomic.Uint64).Load(&"+m.path(m.Revision)+")") && strings.Contains(s.Args[1].String(), "Entry.Revision(") {
		return "observed record is newer than own latest write"
	}
	return ""
}

func checkC07(c *Ctx) {
	m := c.M
	// timer-callback roots (justified by C11-R3)
	timerRoots := map[*ssa.Function]bool{}
	for _, f := range m.Funcs {
		eachInstr(f, func(in ssa.Instruction) {
			if call, ok := isCallTo(valueOf(in), "time.AfterFunc"); ok {
				for _, t := range m.funcValueTargets(call.Call.Args[1]) {
					timerRoots[t] = true
				}
			}
		})
	}

	// Start at every claim-clearing store of a non-stop unit and move outwards: a frame
	// is justified if, after removing the edges that carry a justification, the site is
	// unreachable from the frame's entry; otherwise the obligation moves to every call
	// site of the frame (for which the callee, specialised to the constants passed, may
	// demote). A root reached without justification is a violation.
	n := 0
	seen := map[string]bool{}
	var explore func(f *ssa.Function, at ssa.Instruction, chain []string, depth int)
	explore = func(f *ssa.Function, at ssa.Instruction, chain []string, depth int) {
		key := "demotion chain " + strings.Join(append(append([]string{}, chain...), shortFn(f)), " <- ")
		if seen[key] {
			return
		}
		seen[key] = true
		var why []string
		reach := cutReach(at.Block(), func(pred *ssa.BasicBlock, i int) bool {
			l, ok := m.edgeLit(pred, i)
			if !ok {
				return false
			}
			if j := m.justification(l); j != "" {
				why = append(why, j)
				return true
			}
			return false
		})
		if !reach {
			n++
			c.ok("R1", key, at, "justified in %s: %s", shortFn(f), strings.Join(uniqStrings(why), "; "))
			return
		}
		if timerRoots[f] {
			n++
			c.ok("R1", key, at, "grace-timer callback (its demotion condition is C11-R3)")
			return
		}
		var sites []CallSite
		root := ""
		if f.Parent() != nil {
			root = "closure " + shortFn(f) + " (runs as its own goroutine or deferred: no caller's guard holds when it runs)"
		}
		for _, cs := range m.callers[f] {
			if !m.mayDemote(f, specFor(cs.Instr, f), 0) {
				continue
			}
			if cs.IsGo {
				root = "goroutine entry " + shortFn(f) + " spawned in " + shortFn(cs.Caller)
				continue
			}
			sites = append(sites, cs)
		}
		if len(sites) == 0 && root == "" {
			root = "API / root function " + shortFn(f)
		}
		if root != "" || depth > 6 {
			n++
			c.viol("R1", key, at,
				"this path can end a leader's term and reaches %s without passing any of the enumerated justifications (own refresh/read/validation failed, verdict negative, health threshold, grace timer, newer foreign record). In fault-free operation - a leftover or concurrent acquisition round of the same instance, a late or duplicated watch event - it demotes a healthy leader.", root)
			return
		}
		for _, cs := range sites {
			explore(cs.Caller, cs.Instr, append(append([]string{}, chain...), shortFn(f)), depth+1)
		}
	}
	for _, f := range m.Funcs {
		if m.isCtorCode(f) || containsFn(m.StopCores, f) {
			continue
		}
		eachInstr(f, func(in ssa.Instruction) {
			if val, isConst, ok := m.claimStore(in); ok && (!isConst || !val) {
				explore(f, in, nil, 0)
			}
		})
	}
	if n < 6 {
		c.undecided("R1", "instance-floor", nil, "only %d demotion chains found; at least 6 were confirmed on the reference tree", n)
	}

	// R4: shared with C03-R1: the per-attempt time-out is never shorter than half a heartbeat
	// interval (a store that answers within H/2 must not produce refresh failures)
	attemptTimeoutRule(c, "R4")
	// R5: shared with C03-R8: refreshes are issued every HeartbeatInterval (with TTL >= 3H, R3)
	refreshPeriodRule(c, "R5")
	// R6: shared with C03-R9: no second refresh loop of an earlier term collides with this term's
	termLoopRule(c, "R6")
	// R8: shared with C02-R5: the watcher's stale-event filter compares an event's revision with the
	// term's own under a claim it reads lock-free: the revision must be published before the claim
	claimPublishedLastRule(c, "R8")
	termBoundDemotionRule(c, "R9")
	// R7: the background validation gives the store as long as the heartbeat does
	validationTimeoutRule(c, "R7")
	// R2 shared with C01-R4
	ownRevisionRule(c, "R2")
	// R3 shared with C16-R1: the TTL margin cube is in the reject table
	if ok, detail := ttlMarginEnforced(c); ok {
		c.ok("R3", "TTL >= 3*HeartbeatInterval enforced", nil, "%s", detail)
	} else {
		c.viol("R3", "TTL >= 3*HeartbeatInterval enforced", nil, "%s", detail)
	}
}

func uniqStrings(ss []string) []string {
	seen := map[string]bool{}
	var out []string
	for _, s := range ss {
		if !seen[s] {
			seen[s] = true
			out = append(out, s)
		}
	}
	return out
}


// validationTimeoutRule (C07-R7): the periodic validation's read time-out is max(K, H/2).
func validationTimeoutRule(c *Ctx, rule string) {
	m := c.M
	vf := m.ValidateFn()
	if vf == nil {
		c.undecided(rule, "validation function", nil, "not found")
		return
	}
	H := m.cfgPath("HeartbeatInterval")
	half := "(" + H + " / 2)"
	n := 0
	for _, f := range m.Funcs {
		if f.Parent() != nil || len(cfgLoops(f)) == 0 {
			continue
		}
		for _, g := range m.bodyFns(f) {
			eachInstr(g, func(in ssa.Instruction) {
				call, ok := in.(*ssa.Call)
				if !ok || call.Call.StaticCallee() != vf || !(inLoop(in.Block()) || g != f) {
					return
				}
				// the context argument and the WithTimeout call it comes from
				for _, a := range call.Call.Args {
					if !isNamed(a.Type(), "context", "Context") {
						continue
					}
					chain, _ := m.ctxAncestors(a)
					var wt *ssa.Call
					for _, k := range chain {
						if k.Call.StaticCallee().Name() == "WithTimeout" && wt == nil {
							wt = k
						}
					}
					n++
					key := "periodic validation read time-out in " + shortFn(g)
					if wt == nil {
						c.viol(rule, key, call, "the validation read is not bounded by a context.WithTimeout created for it")
						continue
					}
					g0, changed := m.gatedInvariant(wt.Call.Args[1])
					got := sortSelect(g0)
					if changed != "" {
						got = "modified inside the loop: " + changed
					}
					ok := false
					// accepted: max(K, H/2) as builtin max or as an if-chain in either orientation
					re := regexp.MustCompile(`^call builtin\.max\((\d+), ` + regexp.QuoteMeta(half) + `\)$|^call builtin\.max\(` + regexp.QuoteMeta(half) + `, (\d+)\)$`)
					if re.MatchString(got) {
						ok = true
					}
					sel := regexp.MustCompile(`^select\[(.*)\]$`).FindStringSubmatch(got)
					if sel != nil {
						parts := strings.Split(sel[1], " | ")
						if len(parts) == 2 {
							var k string
							halfCase, constCase := "", ""
							for _, p := range parts {
								if strings.HasPrefix(p, half+" if ") {
									halfCase = strings.TrimPrefix(p, half+" if ")
								} else if mm := regexp.MustCompile(`^(\d+) if (.*)$`).FindStringSubmatch(p); mm != nil {
									k, constCase = mm[1], mm[2]
								}
							}
							if k != "" && halfCase != "" {
								// H/2 is chosen exactly when K < H/2 (or K <= H/2), the constant otherwise
								hc := []string{"{(" + k + " < " + half + ")}", "{(" + k + " <= " + half + ")}"}
								cc := []string{"{(" + half + " <= " + k + ")}", "{(" + half + " < " + k + ")}"}
								for i := range hc {
									if halfCase == hc[i] && constCase == cc[i] {
										ok = true
									}
								}
							}
						}
					}
					c.check(ok, rule, key, wt, "time-out expression %s; required max(K, %s) for a constant K: with a fixed time-out below H/2 (H > 2K) a store that answers within H/2 - healthy by the heartbeat's standard - fails every validation, and two failures demote the leader", got, half)
				}
			})
		}
	}
	if n == 0 {
		c.undecided(rule, "periodic validation", firstInstr(vf), "no loop calling %s found", shortFn(vf))
	}
}
