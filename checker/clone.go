package main

import (
	"bytes"
	"fmt"
	"go/ast"
	"go/token"
	"go/types"
	"os"
	"sort"

	"golang.org/x/tools/go/packages"
	"golang.org/x/tools/go/ssa"
)

// Context-sensitivity by cloning.
//
// The rules follow values through a helper's parameters only when the helper has one call
// site (its parameter then *is* the argument). A blocking helper shared by several waits of
// one function (`awaitPhase(ctx, done, deadline)` called three times) has no such reading:
// its channel parameter stands for three channels. go/ssa offers no inliner and no clone of
// a function, so the analysed *source* is given one: every unexported, non-recursive library
// function that
//   - blocks (select / channel operation / call of a function-typed parameter) or is a
//     "future" style plumbing helper, i.e. is about control flow, not about the record,
//   - can reach neither a store operation nor a store of the leadership claim,
//   - has 2..4 call sites, all of them plain calls by name (never used as a value),
// is replaced, in an in-memory overlay of its file, by one copy per call site
// (`name_site1`, `name_site2`, ...; `//line` directives keep the reported positions on the
// original lines) and the program is loaded again from that overlay. Every analysis then
// sees single-call-site helpers. The transformation preserves behaviour by construction
// (each call runs an identical copy). On a tree without such helpers nothing is rewritten.

type cloneEdit struct {
	start, end int
	text       []byte
}

// sharedHelperOverlay returns the overlay (file name -> rewritten content) and the names of
// the helpers that were cloned; both empty when there is nothing to clone.
func (p *Program) sharedHelperOverlay(leaves bool) (map[string][]byte, []string) {
	var pk *packages.Package
	for _, x := range p.Pkgs {
		if x.Types == p.Leader.Pkg {
			pk = x
		}
	}
	if pk == nil || pk.TypesInfo == nil {
		return nil, nil
	}
	m := p.model()

	// callee identifiers of call expressions, and every function declaration
	calleeIdent := map[*ast.Ident]*ast.CallExpr{}
	enclosing := map[*ast.Ident]*ast.FuncDecl{}
	var decls []*ast.FuncDecl
	for _, file := range pk.Syntax {
		for _, d := range file.Decls {
			fd, ok := d.(*ast.FuncDecl)
			if !ok || fd.Body == nil {
				continue
			}
			decls = append(decls, fd)
			ast.Inspect(fd, func(n ast.Node) bool {
				switch x := n.(type) {
				case *ast.CallExpr:
					fun := x.Fun
					for {
						if pe, ok := fun.(*ast.ParenExpr); ok {
							fun = pe.X
							continue
						}
						break
					}
					switch f := fun.(type) {
					case *ast.Ident:
						calleeIdent[f] = x
					case *ast.SelectorExpr:
						calleeIdent[f.Sel] = x
					}
				case *ast.Ident:
					enclosing[x] = fd
				}
				return true
			})
		}
	}
	uses := map[types.Object][]*ast.Ident{}
	for id, obj := range pk.TypesInfo.Uses {
		if _, ok := obj.(*types.Func); ok {
			uses[obj] = append(uses[obj], id)
		}
	}

	edits := map[string][]cloneEdit{}
	appendix := map[string][]byte{}
	var cloned []string
	for _, fd := range decls {
		obj, _ := pk.TypesInfo.Defs[fd.Name].(*types.Func)
		if obj == nil || obj.Exported() || fd.Type.TypeParams != nil {
			continue
		}
		sig := obj.Type().(*types.Signature)
		if sig.RecvTypeParams().Len() > 0 || (sig.Params().Len() == 0 && sig.Recv() == nil) {
			continue
		}
		fn := p.Prog.FuncValue(obj)
		if fn == nil || fn.Blocks == nil || !p.isPlumbingHelper(m, fn, leaves) {
			continue
		}
		ids := uses[obj]
		if len(ids) < 2 || len(ids) > 4 {
			continue
		}
		ok := true
		for _, id := range ids {
			if calleeIdent[id] == nil || enclosing[id] == fd {
				ok = false // used as a value, or recursive
			}
		}
		if !ok {
			continue
		}
		sort.Slice(ids, func(i, j int) bool { return ids[i].Pos() < ids[j].Pos() })
		tf := p.Fset.File(fd.Pos())
		if tf == nil {
			continue
		}
		fname := tf.Name()
		src, err := os.ReadFile(fname)
		if err != nil {
			continue
		}
		off := func(pos token.Pos) int { return tf.Offset(pos) }
		// the declaration is blanked (line structure kept), a copy per call site is appended
		dstart := fd.Pos()
		if fd.Doc != nil {
			dstart = fd.Doc.Pos()
		}
		blank := bytes.Map(func(r rune) rune {
			if r == '\n' {
				return r
			}
			return ' '
		}, src[off(dstart):off(fd.End())])
		edits[fname] = append(edits[fname], cloneEdit{off(dstart), off(fd.End()), blank})
		body := src[off(fd.Pos()):off(fd.End())]
		nameAt := off(fd.Name.Pos()) - off(fd.Pos())
		line := p.Fset.Position(fd.Pos()).Line
		for i, id := range ids {
			name := fmt.Sprintf("%s_site%d", fd.Name.Name, i+1)
			utf := p.Fset.File(id.Pos())
			edits[utf.Name()] = append(edits[utf.Name()], cloneEdit{utf.Offset(id.Pos()), utf.Offset(id.End()), []byte(name)})
			var b bytes.Buffer
			fmt.Fprintf(&b, "\n//line %s:%d\n", fname, line)
			b.Write(body[:nameAt])
			b.WriteString(name)
			b.Write(body[nameAt+len(fd.Name.Name):])
			b.WriteString("\n")
			appendix[fname] = append(appendix[fname], b.Bytes()...)
		}
		cloned = append(cloned, fmt.Sprintf("%s (%d call sites)", shortFn(fn), len(ids)))
	}
	if len(cloned) == 0 {
		return nil, nil
	}
	overlay := map[string][]byte{}
	for fname, es := range edits {
		src, err := os.ReadFile(fname)
		if err != nil {
			return nil, nil
		}
		sort.Slice(es, func(i, j int) bool { return es[i].start > es[j].start })
		for _, e := range es {
			src = append(append(append([]byte{}, src[:e.start]...), e.text...), src[e.end:]...)
		}
		overlay[fname] = src
	}
	for fname, app := range appendix {
		src, ok := overlay[fname]
		if !ok {
			var err error
			if src, err = os.ReadFile(fname); err != nil {
				return nil, nil
			}
		}
		overlay[fname] = append(append(src, '\n'), app...)
	}
	sort.Strings(cloned)
	return overlay, cloned
}

// isPlumbingHelper: fn blocks (or calls a function-typed parameter) and can reach neither a
// store operation nor a store of the leadership claim.
func (p *Program) isPlumbingHelper(m *Model, fn *ssa.Function, leaves bool) bool {
	blocks := false
	for _, b := range fn.Blocks {
		for _, in := range b.Instrs {
			switch x := in.(type) {
			case *ssa.Select:
				if x.Blocking {
					blocks = true
				}
			case *ssa.UnOp:
				if x.Op == token.ARROW {
					blocks = true
				}
			case *ssa.Send:
				blocks = true
			case *ssa.Call:
				if par, ok := x.Call.Value.(*ssa.Parameter); ok && !x.Call.IsInvoke() && par.Parent() == fn {
					blocks = true
				}
			}
		}
	}
	if !blocks && !leaves {
		return false
	}
	if !blocks {
		// ... or a small leaf: a few statements on the receiver's fields shared by two to four
		// places (stopTimerLocked, transitionLocked): no library call, no go statement, no loop
		n, leaf := 0, true
		for _, b := range fn.Blocks {
			for _, in := range b.Instrs {
				n++
				switch x := in.(type) {
				case *ssa.Go, *ssa.Defer:
					leaf = false
				case *ssa.Call:
					if g := x.Call.StaticCallee(); g != nil && m.isLib(g) {
						leaf = false
					}
					if _, isLock := m.lockOpOf(&x.Call); isLock {
						leaf = false
					}
				}
			}
		}
		if !leaf || n > 40 || len(cfgLoops(fn)) > 0 || len(fn.AnonFuncs) > 0 {
			return false
		}
	}
	for g := range m.staticReach(fn, true) {
		if containsFn(m.ClaimStoreFns, g) {
			return false
		}
		bad := false
		eachInstr(g, func(in ssa.Instruction) {
			if _, ok := m.isKVCall(valueOf(in), ""); ok {
				bad = true
			}
			if call, ok := in.(*ssa.Call); ok {
				if fld, _, ok := m.atomicStore(call); ok && fld == m.Claim {
					bad = true
				}
			}
		})
		if bad {
			return false
		}
	}
	return true
}
