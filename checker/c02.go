package main

import (
	"go/token"
	"fmt"
	"strings"

	"golang.org/x/tools/go/ssa"
)

func init() {
	register(&PropertySpec{
		ID:    "C02",
		Level: "other",
		Run:   checkC02,
		Explanation: "Mutual exclusion across processes is a statement about time (TTL vs. refresh) and the store and is not decided. Decided are the structural necessary conditions on each instance: (R1) the claim is set only on the success edge of the instance's own Create/Update, with exactly that operation's revision and the token written in that operation's payload; " +
			"(R2) the claim is set inside a write-locked section of the election mutex and, inside that section, only after a run-liveness test (context not nil and not cancelled, or state != STOPPED) - Stop clears the claim and cancels under the same mutex, so no claim can appear after Stop; " +
			"(R3) on shutdown the claim is cleared before the key is deleted (C01-R6); (R4) there is exactly one claim-set unit and the claim never receives a non-constant value; (R5) the claim is the last thing the claim-set unit publishes: IsLeader(), Token() and LeaderID() are lock-free, and a reader that sees the claim must see the token and revision of that term (the second sentence of C02, and the watcher's stale-event filter).",
		NotDecided: []string{"at most one IsLeader()==true across instances at every instant (needs TTL/latency reasoning and the store's semantics)", "that the live record names the claimant at every instant (C03 bounds the window)"},
		Assumptions: []string{"a successful Create/Update means the record names this instance with this token (C14)"},
		Rules: map[string]string{
			"R1": "every call site of a claim-set unit is guarded by (err of a KeyValue Create/Update in this activation) == nil; its revision argument has origin ownwrite of that call; its token argument has the same origins as payload.Token of that call's value argument",
			"R2": "claim Store(true) has the election mutex (write) in its must-lockset and is guarded by a run-liveness literal established in the same function",
			"R3": "see C01-R6 (claim Store(false) dominates Delete)",
			"R6": "shared with C03-R4: on every ctx.Done() exit of the refresh loop the claim is false or a call that reaches the claim-clearing unit on each of its paths dominates the exit (a claim must not outlive the loop that refreshes its record)",
			"R5": "in the claim-set unit the atomic stores of the token, revision and leader-id fields dominate the claim Store(true) (sequentially consistent atomics: a lock-free reader that sees the claim sees the term's values)",
			"R4": "exactly one function stores true to the claim; every store to the claim is a constant",
		},
	})
}

// livenessGuard: the guards contain a run-liveness test.
func (m *Model) livenessGuard(gs []Lit) (bool, string) {
	ok, how, _ := m.livenessLits(gs)
	return ok, how
}

// livenessLits returns the literals that make up the run-liveness test among the guards.
func (m *Model) livenessLits(gs []Lit) (bool, string, []Lit) {
	var ctxNotNil, errNil, notStopped []Lit
	stopped := m.StateConsts["StateStopped"]
	for _, l := range gs {
		s := l.S
		if s.Op != "bin" || s.Name != "==" {
			continue
		}
		switch {
		case !l.Truth && symMentions(s, "nil") && symMentions(s, m.path(m.Ctx)) && !symMentions(s, ".Err("):
			ctxNotNil = append(ctxNotNil, l)
		case l.Truth && symMentions(s, "nil") && symMentions(s, "Context.Err("+m.path(m.Ctx)+")"):
			errNil = append(errNil, l)
		case !l.Truth && symMentions(s, fmt.Sprintf("%q", stopped)) && symMentions(s, m.path(m.State)):
			notStopped = append(notStopped, l)
		}
	}
	if len(ctxNotNil) > 0 && len(errNil) > 0 {
		return true, "ctx != nil && ctx.Err() == nil", append(ctxNotNil, errNil...)
	}
	if len(notStopped) > 0 {
		return true, "state != STOPPED", notStopped
	}
	return false, "", nil
}

// readsUnderLock: the shared state a literal tests was read inside function f with the given
// lock in the must-lockset (the topmost instruction of f in each branch of the literal's
// expression: the load itself, or the call of the accessor that performs it). A test made
// before the lock is taken says nothing about the state inside the critical section.
func (m *Model) readsUnderLock(l Lit, f *ssa.Function, la *LockAnalysis, lock string) (bool, ssa.Instruction) {
	return m.readsUnderLockAt(l, f, la, lock, nil)
}

// readsUnderLockAt: as readsUnderLock; with a use point `at` the reads made in at's function must
// also belong to the lock hold that is current at `at` (no release between the read and the use).
func (m *Model) readsUnderLockAt(l Lit, f *ssa.Function, la *LockAnalysis, lock string, at ssa.Instruction) (bool, ssa.Instruction) {
	// a fact imported from a predicate helper (if !e.runningLocked() { return }): the reads are made
	// inside the helper, i.e. at the call - which must sit in the lock hold
	if l.Derived {
		var h *ssa.Function
		if l.If != nil {
			if call, _, _, _, ok := m.resultTest(m.litOf(l.If.Cond, true, l.If)); ok {
				h = call.Call.StaticCallee()
			}
		}
		if vi, ok := l.S.V.(ssa.Instruction); ok && h == nil && vi.Parent() != f {
			h = vi.Parent()
		}
		if h != nil && m.isLib(h) {
			n := 0
			var bad ssa.Instruction
			for _, g := range m.bodyFns(f) {
				eachInstr(g, func(in ssa.Instruction) {
					call, ok := in.(*ssa.Call)
					if !ok || call.Call.StaticCallee() != h {
						return
					}
					n++
					must := la.MustBefore(call)
					if !must[lock+"/W"] && !must[lock+"/R"] {
						bad = call
					} else if at != nil && call.Parent() == at.Parent() && !m.sameHold(call, at, lock) {
						bad = call
					}
				})
			}
			if n > 0 {
				return bad == nil, bad
			}
		}
	}
	found, okAll := false, true
	var bad ssa.Instruction
	var walk func(s *Sym)
	walk = func(s *Sym) {
		if s == nil {
			return
		}
		if in, ok := s.V.(ssa.Instruction); ok && (in.Parent() == f || containsFn(m.bodyFns(f), in.Parent())) {
			switch x := s.V.(type) {
			case *ssa.Call:
				found = true
				must := la.MustBefore(x)
				if !must[lock+"/W"] && !must[lock+"/R"] {
					okAll = false
					bad = x
				} else if at != nil && x.Parent() == at.Parent() && !m.sameHold(x, at, lock) {
					okAll = false
					bad = x
				}
				return
			case *ssa.UnOp:
				if x.Op == token.MUL {
					found = true
					must := la.MustBefore(x)
					if !must[lock+"/W"] && !must[lock+"/R"] {
						okAll = false
						bad = x
					} else if at != nil && x.Parent() == at.Parent() && !m.sameHold(x, at, lock) {
						okAll = false
						bad = x
					}
					return
				}
			}
		}
		for _, a := range s.Args {
			walk(a)
		}
	}
	walk(l.S)
	return found && okAll, bad
}

func checkC02(c *Ctx) {
	m := c.M
	la := m.Locks()

	// ---- R4 -------------------------------------------------------------------------
	c.check(len(m.ClaimSet) == 1, "R4", "single claim-set unit", nil, "claim-set units: %v", fnNames(m.ClaimSet))
	for _, f := range m.Funcs {
		eachInstr(f, func(in ssa.Instruction) {
			if _, isConst, ok := m.claimStore(in); ok && !isConst {
				c.viol("R4", "non-constant claim store in "+shortFn(f), in, "the claim receives a computed value; every transition must be an explicit true/false under the mutex")
			}
		})
	}

	// ---- R1 -------------------------------------------------------------------------
	nSites := 0
	for _, unit := range m.ClaimSet {
		// which parameters of the unit feed the revision and token fields?
		revIdx, tokIdx := -1, -1
		m.eachUnitInstr(unit, func(in ssa.Instruction) {
			if call, ok := in.(*ssa.Call); ok {
				if fld, v, ok := m.atomicStore(call); ok {
					v = m.traceValueUntil(v, func(x ssa.Value) bool {
						p, ok := x.(*ssa.Parameter)
						return ok && p.Parent() == unit
					})
					for i, p := range unit.Params {
						if v == ssa.Value(p) || derivesFromParam(v, p) {
							if fld == m.Revision {
								revIdx = i
							}
							if fld == m.Token {
								tokIdx = i
							}
						}
					}
				}
			}
		})
		// effective call sites: a helper that only forwards its own parameters to the unit
		// (claimOrDiscard(token, rev)) is transparent - the obligation is on its call sites
		type claimSite struct {
			instr  ssa.CallInstruction
			caller *ssa.Function
			args   []ssa.Value
			isGo   bool
			via    string
		}
		findWrite := func(cs claimSite) (*ssa.Call, []Lit) {
			gs := m.AllGuards(cs.instr, false)
			var write *ssa.Call
			for _, l := range gs {
				if l.Truth && l.S.Op == "bin" && l.S.Name == "==" && symMentions(l.S, "nil") {
					for _, a := range l.S.Args {
						if a.Op == "extract" && a.Name == "1" {
							if kv, ok := m.isKVCall(a.Args[0].V, ""); ok && (kv.Call.Method.Name() == "Create" || kv.Call.Method.Name() == "Update") && kv.Parent() == cs.caller {
								write = kv
							}
						}
					}
				}
			}
			return write, gs
		}
		var sites []claimSite
		var expand func(cs claimSite, depth int)
		expand = func(cs claimSite, depth int) {
			if w, _ := findWrite(cs); w == nil && !cs.isGo && depth < 2 && cs.caller.Parent() == nil {
				if obj := cs.caller.Object(); obj == nil || !obj.Exported() {
					// are the relevant arguments parameters of the calling function?
					idxOf := func(v ssa.Value) int {
						v = m.traceValue(v)
						for i, p := range cs.caller.Params {
							if v == ssa.Value(p) {
								return i
							}
						}
						return -1
					}
					forwards := true
					for _, ix := range []int{revIdx, tokIdx} {
						if ix >= 0 && ix < len(cs.args) && idxOf(cs.args[ix]) < 0 {
							forwards = false
						}
					}
					outer := m.callers[cs.caller]
					if forwards && len(outer) > 0 {
						for _, o := range outer {
							oargs := o.Instr.Common().Args
							nargs := append([]ssa.Value{}, cs.args...)
							for _, ix := range []int{revIdx, tokIdx} {
								if ix >= 0 && ix < len(cs.args) {
									if pi := idxOf(cs.args[ix]); pi >= 0 && pi < len(oargs) {
										nargs[ix] = oargs[pi]
									}
								}
							}
							expand(claimSite{instr: o.Instr, caller: o.Caller, args: nargs, isGo: o.IsGo, via: " via " + shortFn(cs.caller) + cs.via}, depth+1)
						}
						return
					}
				}
			}
			sites = append(sites, cs)
		}
		for _, cs := range m.callers[unit] {
			expand(claimSite{instr: cs.Instr, caller: cs.Caller, args: cs.Instr.Common().Args, isGo: cs.IsGo}, 0)
		}
		for _, cs := range sites {
			nSites++
			caller := shortFn(cs.caller)
			key := "claim after own successful write: " + caller + cs.via + " -> " + shortFn(unit)
			if cs.isGo {
				c.viol("R1", key, cs.instr, "the claim-set unit is spawned with `go`: its guards do not hold when it runs")
				continue
			}
			write, gs := findWrite(cs)
			if write == nil {
				c.viol("R1", key, cs.instr, "the call is not guarded by the success (err == nil) of a Create/Update issued in the same activation (guards: %s): the instance would claim leadership without owning the record", fmtLits(gs))
				continue
			}
			c.ok("R1", key, cs.instr, "guarded by the success of %s at %s", write.Call.Method.Name(), c.posOf(write))
			args := cs.args
			if revIdx >= 0 && revIdx < len(args) {
				o := m.Origins(args[revIdx])
				want := fmt.Sprintf("ownwrite:%s@%s", write.Call.Method.Name(), m.P.pos(write.Pos()))
				c.check(len(o) == 1 && o[want], "R1", "claimed revision is that write's result: "+caller, cs.instr, "origins of the revision argument %s; required {%s}", o, want)
			} else {
				c.undecided("R1", "claimed revision is that write's result: "+caller, cs.instr, "the parameter of %s feeding the revision field was not identified", shortFn(unit))
			}
			if tokIdx >= 0 && tokIdx < len(args) {
				o := m.Origins(args[tokIdx])
				p := m.FieldOrigins(write.Call.Args[1], "Token")
				c.check(o.equal(p) && o.all(func(k string) bool { return strings.HasPrefix(k, "fresh:") }), "R1", "claimed token is the written token: "+caller, cs.instr, "origins of the token argument %s; origins of the written payload's Token %s", o, p)
			} else {
				c.undecided("R1", "claimed token is the written token: "+caller, cs.instr, "the parameter of %s feeding the token field was not identified", shortFn(unit))
			}
		}
	}
	if nSites < 2 {
		c.undecided("R1", "instance-floor", nil, "only %d call sites of claim-set units; 2 on the reference tree", nSites)
	}

	// ---- R2 -------------------------------------------------------------------------
	for _, unit := range m.ClaimSet {
		m.eachUnitInstr(unit, func(in ssa.Instruction) {
			val, isConst, ok := m.claimStore(in)
			if !ok || !isConst || !val {
				return
			}
			key := "claim set in " + shortFn(unit)
			c.check(la.MustBefore(in)[m.implMuW()], "R2", key+" under the election mutex", in, "must-lockset %s", la.MustBefore(in))
			gs := m.unitGuards(unit, in)
			live, how, lits := m.livenessLits(gs)
			for _, l := range lits {
				if ok, at := m.readsUnderLockAt(l, unit, la, m.path(m.Mu), in); !ok {
					live = false
					how = fmt.Sprintf("%s, but %s is read outside the critical section (at %s)", how, clip(l.S.String(), 80), c.posOf(at))
				}
			}
			if live {
				c.ok("R2", key+" only while the election runs", in, "guarded by %s inside the critical section", how)
			} else if how != "" {
				c.viol("R2", key+" only while the election runs", in, "the run-liveness test is not made inside the critical section that sets the claim: %s. Stop can complete between the test and the lock.", how)
			} else {
				c.viol("R2", key+" only while the election runs", in,
					"no run-liveness test (ctx != nil && ctx.Err() == nil, or state != STOPPED) guards the claim inside the critical section (guards: %s). An acquisition that completes after Stop has returned sets IsLeader()==true for good: nothing refreshes the record or clears the claim any more.", fmtLits(gs))
			}
		})
	}

	// ---- R5: the claim is published last ------------------------------------------------------
	claimPublishedLastRule(c, "R5")
	ctxDoneDemotionRule(c, "R6")

	// ---- R3 (shared with C01-R6) --------------------------------------------------------
	for _, op := range m.StoreOps() {
		if op.Method != "Delete" {
			continue
		}
		for _, fr := range m.opFrames(op.Call) {
			if !fr.Stop {
				// the removal of an unclaimed own write (C01-R6): the claim was refused, there is none to clear
				if ok, _ := m.discardsOwnWrite(op, fr); ok {
					continue
				}
			}
			clear := m.clearPoint(fr.Root, fr.At)
			c.check(clear != nil, "R3", "claim cleared before Delete in "+shortFn(op.Fn)+" via "+shortFn(fr.Root), op.Call, "claim Store(false) (or a call of a function that always clears it) dominates the Delete: %v", clear != nil)
		}
	}
}

// derivesFromParam: v is p, or a load of the cell p was spilled to.
func derivesFromParam(v ssa.Value, p *ssa.Parameter) bool {
	if v == ssa.Value(p) {
		return true
	}
	if u, ok := v.(*ssa.UnOp); ok {
		if al, ok := u.X.(*ssa.Alloc); ok {
			st := storesTo(al)
			return len(st) == 1 && st[0] == ssa.Value(p)
		}
	}
	return false
}


// claimPublishedLastRule (C02-R5, shared as C05-R5): the stores of token, revision and leader id
// dominate the claim Store(true).
func claimPublishedLastRule(c *Ctx, rule string) {
	m := c.M
	for _, unit := range m.ClaimSet {
		var claim ssa.Instruction
		m.eachUnitInstr(unit, func(in ssa.Instruction) {
			if val, isConst, ok := m.claimStore(in); ok && isConst && val {
				claim = in
			}
		})
		if claim == nil {
			c.undecided(rule, "claim store in "+shortFn(unit), firstInstr(unit), "not found")
			continue
		}
		for _, fld := range []struct{ name, f string }{{"token", m.Token}, {"revision", m.Revision}, {"leader id", m.LeaderID}} {
			var st ssa.Instruction
			m.eachUnitInstr(unit, func(in ssa.Instruction) {
				if call, ok := in.(*ssa.Call); ok {
					if g, _, ok := m.atomicStore(call); ok && g == fld.f {
						st = in
					}
				}
			})
			c.check(st != nil && m.dominatesLifted(unit, st, claim), rule, "the "+fld.name+" of the term is published before the claim in "+shortFn(unit), claim,
				"the store of %s dominates the claim Store(true): %v. IsLeader(), Token(), LeaderID() and the watcher's revision filter read these fields without the mutex: with the claim stored first a reader sees IsLeader()==true together with the previous term's (or no) %s.", m.path(fld.f), st != nil && m.dominatesLifted(unit, st, claim), fld.name)
		}
	}
}


// ctxDoneDemotionRule (C02-R6, the ctx.Done() part of C03-R4): the refresh loop never ends on its
// context while the claim stands. A claim without a refresh loop is a claim on a record that
// lapses: the next instance to create the key is a second leader.
func ctxDoneDemotionRule(c *Ctx, rule string) {
	m := c.M
	rf := m.refreshLoopFn()
	if rf == nil {
		c.undecided(rule, "refresh loop", nil, "not found")
		return
	}
	n := 0
	for _, b := range liveBlocks(rf) {
		ret, ok := b.Instrs[len(b.Instrs)-1].(*ssa.Return)
		if !ok || b == rf.Recover {
			continue
		}
		gs := m.Guards(b)
		ctxDone := false
		for _, l := range gs {
			if sel, k, ok := selectCaseOf(l); ok && k < len(sel.States) {
				if s := m.Sym.Of(sel.States[k].Chan); s.Op == "invoke" && strings.HasSuffix(s.Name, "Context.Done") {
					ctxDone = true
				}
			}
		}
		if !ctxDone {
			continue
		}
		n++
		must := m.claimLit(gs, false) || hasEvent(gs, "passed-may-demote")
		eachInstr(rf, func(in ssa.Instruction) {
			if call, ok := in.(*ssa.Call); ok && dominatesInstr(call, ret) {
				if g := call.Call.StaticCallee(); g != nil && m.isLib(g) && m.alwaysReachesClearUnit(g, 0) {
					must = true
				}
			}
		})
		c.check(must, rule, fmt.Sprintf("refresh loop exit #%d (context done) does not leave a claim behind", exitOrdinal(rf, b)), ret, "the claim is false here, or a call that reaches the claim-clearing unit on every one of its paths dominates the exit: %v. Otherwise a cancelled Start context (followed, say, by Start again) leaves IsLeader()==true with nothing refreshing the record; once it lapses the next Create makes a second leader.", must)
	}
	if n == 0 {
		c.undecided(rule, "instance-floor", firstInstr(rf), "the refresh loop has no exit on its context's Done channel")
	}
}
