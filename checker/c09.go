package main

import (
	"fmt"
	"strings"

	"golang.org/x/tools/go/ssa"
)

func init() {
	register(&PropertySpec{
		ID:    "C09",
		Level: "other",
		Run:   checkC09,
		Explanation: "The numeric bounds (5 s + callback) are timing and are not decided. Decided, for every stop point: (R0) each stop unit clears the claim, stores STOPPED and cancels the election context under one write-lock hold, and only waits after releasing it; (R1) finality: every other writer of the claim or the state tests run-liveness inside its critical section (C02-R2 for the claim-set unit; state != STOPPED for the follower transition), so nothing can undo a stop; " +
			"(R2) every goroutine of the election that can issue a store operation is registered with the WaitGroup (wg.Add(1) before go, deferred wg.Done first), or is a bounded detached attempt (loop-free, one store operation, one send on a buffered channel); (R3) every blocking operation in a stop unit is a select with a timer case (and a ctx.Done() case in StopWithContext), and nothing blocks while the election mutex is held; " +
			"(R4) no self-relock, lock-order cycle or callback under a lock anywhere (C11-R5, shared); (R5) with DeleteKey and ownership the Delete is on every path to the successful return; its guards are only DeleteKey, was-leader, ownership and the wait outcome; (R6) a value read from the context field outside the election mutex only flows to nil-safe uses, or is read in code that runs only inside WaitGroup-tracked goroutines while the nil store happens after the wait.",
		NotDecided: []string{"Stop returns within 5 s plus the callback's duration (timing)", "behaviour when Delete itself fails", "that operations already in flight return (store liveness)"},
		Assumptions: []string{"sync.WaitGroup / context cancellation semantics"},
		Rules: map[string]string{
			"R0": "in each stop unit claim.Store(false), state.Store(STOPPED) and the call of the cancel field have the election mutex (W) in their must-lockset and all precede the first Unlock; the goroutine that waits for the WaitGroup is started after that Unlock",
			"R10": "for the conditional (revision-checked) shutdown delete: from the call that leads to it, the ownership verdict call of the same function is reachable again (a bounded read-then-delete loop)",
			"R9": "every tracked go statement (wg.Add + go) outside tracked goroutines and the start/stop units has the election mutex in its must-lockset and is guarded by run-liveness (ctx != nil && ctx.Err() == nil, or state != STOPPED) or by claim == true, the tested state being read under that lock hold",
			"R8": "in an API stop unit that takes a context / time-out: no KeyValue operation reachable by plain calls (each must be issued from a goroutine whose result is awaited with the remaining time); no blocking wait on time.After(d) reachable after another wait on the same d",
			"R7": "at every test of the claim-set unit's result after an own write: must-follow from the refused (false) edge of a call that reaches a Delete-class store operation (its conditions are C01-R6: shutdown with key deletion under way, own revision)",
			"R1": "every store to the state field outside stop units, the constructor and the start unit is guarded by state != STOPPED in its critical section; the claim-set unit by C02-R2",
			"R2": "classification of every `go` statement of the election code: tracked | bounded-detached | waiter/callback (no store operation reachable) | adapter forwarding; anything else reaching a store operation is a violation",
			"R3": "every blocking Select in a stop unit has a time.After state (StopWithContext: also ctx.Done()); no receive / WaitGroup.Wait / Sleep outside a select or a spawned waiter; no blocking instruction or store operation with the election mutex in the may-lockset",
			"R4": "see C11-R5",
			"R5": "the Delete's guard literals mention only DeleteKey, the was-leader claim load, the ownership verdict and select outcomes; a Delete exists in a stop unit",
			"R6": "every load of the context field outside the election mutex: compared with nil | passed to a parameter that the callee only uses under a nil test (or passes on likewise) | in a function reachable only from tracked goroutines; the nil store is guarded by the completed wait",
		},
	})
}

func checkC09(c *Ctx) {
	m := c.M
	la := m.Locks()
	stopped := m.StateConsts["StateStopped"]

	// ---- R0 -----------------------------------------------------------------------
	nAPI := 0
	for _, su := range m.StopUnits {
		if su.Object() != nil && su.Object().Exported() {
			nAPI++
		}
	}
	if nAPI < 2 || len(m.StopCores) < 1 {
		c.undecided("R0", "instance-floor", nil, "%d exported stop methods / %d stop cores found (functions clearing the claim and calling the cancel field); 2 exported methods on the reference tree", nAPI, len(m.StopCores))
	}
	isAPI := func(f *ssa.Function) bool { return f.Object() != nil && f.Object().Exported() }
	// every exported stop method: in one write-lock hold the claim is cleared, STOPPED is stored and
	// the election context is cancelled (directly or through a shared helper)
	for _, su := range m.StopUnits {
		if !isAPI(su) {
			continue
		}
		fn := shortFn(su)
		var clear, stop, cancel []ssa.Instruction
		for _, g := range sortedFns(m.staticReach(su, false)) {
			eachInstr(g, func(in ssa.Instruction) {
				if val, isConst, ok := m.claimStore(in); ok && isConst && !val {
					clear = append(clear, in)
				}
				if call, ok := in.(*ssa.Call); ok {
					if fld, v, ok := m.atomicStore(call); ok && fld == m.State {
						if sv, ok := constStr(v); ok && sv == stopped {
							stop = append(stop, in)
						}
					}
					if !call.Call.IsInvoke() && call.Call.StaticCallee() == nil {
						if sy := m.Sym.Of(call.Call.Value); sy.Op == "path" && sy.Name == m.path(m.Cancel) {
							cancel = append(cancel, in)
						}
					}
				}
			})
		}
		allHeld := func(ins []ssa.Instruction) bool {
			if len(ins) == 0 {
				return false
			}
			for _, in := range ins {
				if !la.MustBefore(in)[m.implMuW()] {
					return false
				}
			}
			return true
		}
		c.check(allHeld(clear) && allHeld(stop) && allHeld(cancel), "R0", "stop unit "+fn+": clear, STOPPED and cancel under the write lock", firstInstr(su),
			"claim cleared under %s: %v (%d sites), STOPPED stored: %v (%d), cancel called: %v (%d)", m.implMuW(), allHeld(clear), len(clear), allHeld(stop), len(stop), allHeld(cancel), len(cancel))
		// one hold: the mutex is not released between the first of these operations and the last in the method body
		var ops []ssa.Instruction
		eachInstr(su, func(in ssa.Instruction) {
			if val, isConst, ok := m.claimStore(in); ok && isConst && !val {
				ops = append(ops, in)
			}
			if call, ok := in.(*ssa.Call); ok {
				if g := call.Call.StaticCallee(); g != nil && m.isLib(g) && containsFn(m.StopCores, g) {
					ops = append(ops, in)
				}
				if !call.Call.IsInvoke() && call.Call.StaticCallee() == nil {
					if sy := m.Sym.Of(call.Call.Value); sy.Op == "path" && sy.Name == m.path(m.Cancel) {
						ops = append(ops, in)
					}
				}
				if fld, v, ok := m.atomicStore(call); ok && fld == m.State {
					if sv, ok := constStr(v); ok && sv == stopped {
						ops = append(ops, in)
					}
				}
			}
		})
		split := false
		eachInstr(su, func(x ssa.Instruction) {
			if c2, ok := x.(*ssa.Call); ok {
				if op, ok := m.lockOpOf(&c2.Call); ok && op.ID == m.path(m.Mu) && op.Kind == "Unlock" {
					before, after := false, false
					for _, o := range ops {
						if dominatesInstr(o, x) {
							before = true
						}
						if dominatesInstr(x, o) {
							after = true
						}
					}
					if before && after {
						split = true
					}
				}
			}
		})
		c.check(!split, "R0", "stop unit "+fn+": one critical section", firstInstr(su), "the mutex is released between the clear / STOPPED / cancel operations: %v", split)
	}
	for _, su := range m.StopUnits {
		if !isAPI(su) {
			continue
		}
		fn := shortFn(su)
		// waiter started after the unlock
		var waiter ssa.Instruction
		for _, g0 := range sortedFns(m.staticReach(su, false)) {
			eachInstr(g0, func(in ssa.Instruction) {
				if sp := m.spawnAt(in); sp != nil {
					g := in
					for _, t := range sp.Targets {
						isWait := false
						eachInstr(t, func(x ssa.Instruction) {
							if m.isWGCall(x, "Wait") {
								isWait = true
							}
						})
						if isWait {
							waiter = g
						}
					}
				}
			})
		}
		held := true
		if waiter != nil {
			held = la.MayBefore(waiter).hasLock(m.path(m.Mu))
		}
		c.check(waiter != nil && !held, "R0", "stop unit "+fn+": waits only after releasing the mutex", waiterOrFirst(waiter, su), "waiter goroutine found: %v; election mutex possibly held there: %v", waiter != nil, held)
	}

	// ---- R1 -----------------------------------------------------------------------
	startUnit := m.method("Start")
	nState := 0
	for _, f := range m.Funcs {
		if m.isCtorCode(f) || containsFn(m.StopUnits, f) || f == startUnit {
			continue
		}
		eachInstr(f, func(in ssa.Instruction) {
			call, ok := in.(*ssa.Call)
			if !ok {
				return
			}
			fld, v, ok := m.atomicStore(call)
			if !ok || fld != m.State {
				return
			}
			nState++
			s, _ := constStr(v)
			key := fmt.Sprintf("state := %s in %s", s, shortFn(f))
			own := m.ownerOf(f)
			gs := m.unitGuards(own, in)
			live, how, lits := m.livenessLits(gs)
			lock := la.MustBefore(in)[m.implMuW()]
			for _, l := range lits {
				if ok, at := m.readsUnderLockAt(l, own, la, m.path(m.Mu), in); !ok && live {
					live = false
					c.viol("R1", key, in, "the run-liveness test (%s) is made before the election mutex is taken (%s read at %s): Stop can store STOPPED between the test and the lock, and this store then turns STOPPED back into %s", how, clip(l.S.String(), 80), c.posOf(at), s)
					return
				}
			}
			if live && lock {
				c.ok("R1", key, in, "under the election mutex, guarded by %s", how)
			} else {
				c.viol("R1", key, in, "a state change outside the stop units is not guarded by run-liveness inside its critical section (under the mutex: %v; guards: %s): a goroutine that outlives Stop turns STOPPED back into %s (and may start a watcher)", lock, clip(fmtLits(gs), 300), s)
			}
		})
	}
	if nState < 2 {
		c.undecided("R1", "instance-floor", nil, "only %d state stores outside stop/start/constructor; 2 on the reference tree", nState)
	}

	// ---- R2 goroutine inventory -------------------------------------------------------
	nGo := 0
	goOrd := map[*ssa.Function]int{}
	for _, sp := range m.Spawns() {
		func() {
			f, in, g := sp.Fn, sp.At, sp.Go
			_ = g
			targets := sp.Targets
			goOrd[f]++
			desc := "function value"
			if len(targets) > 0 {
				desc = shortFn(targets[0])
			}
			key := fmt.Sprintf("go #%d in %s (%s)", goOrd[f], shortFn(f), desc)
			// adapters and helpers that do not belong to the election object
			recvName := ""
			if t := topFunc(f); t.Signature.Recv() != nil {
				if n := namedOf(t.Signature.Recv().Type()); n != nil {
					recvName = n.Obj().Name()
				}
			}
			nGo++
			reachStore := false
			for _, t := range targets {
				for _, h := range sortedFns(m.staticReach(t, true)) {
					if m.reachesStoreOp(h) {
						reachStore = true
					}
				}
			}
			switch {
			case len(targets) == 0 && m.invokesFieldValue(in, m.OnDemote):
				c.ok("R2", key, in, "callback goroutine (no store operation of the library reachable)")
			case containsFn(m.StopUnits, topFunc(f)) && m.awaitedBySpawner(sp):
				c.ok("R2", key, in, "awaited by the stop call that starts it: the goroutine signals its end on a channel the stop unit waits for, and every other case of that wait returns an error (after a successful stop it has finished)")
			case sp.Tracked:
				c.ok("R2", key, in, "tracked: wg.Add(1) before go, deferred wg.Done first in the goroutine")
			case !reachStore:
				c.ok("R2", key, in, "waiter / callback / forwarding goroutine: no store operation reachable")
			case recvName != m.ImplName && recvName != "":
				c.ok("R2", key, in, "not part of the election object (%s)", recvName)
			default:
				// bounded detached attempt
				bounded := len(targets) == 1 && func() bool {
					t := targets[0]
					nOps, nSend := 0, 0
					bufOK := false
					eachInstr(t, func(x ssa.Instruction) {
						if _, ok := m.isKVCall(valueOf(x), ""); ok {
							nOps++
						}
						if s, ok := x.(*ssa.Send); ok {
							nSend++
							cs := m.Sym.Of(m.traceValue(s.Chan))
							if cs.Op == "makechan" && len(cs.Args) == 1 {
								if n, ok := cs.Args[0].ConstInt(); ok && n >= 1 {
									bufOK = true
								}
							}
						}
					})
					onlyLocalCalls := true
					eachInstr(t, func(x ssa.Instruction) {
						if call, ok := x.(*ssa.Call); ok {
							if callee := call.Call.StaticCallee(); callee != nil && m.isLib(callee) {
								onlyLocalCalls = false
							}
						}
					})
					return len(cfgLoops(t)) == 0 && nOps == 1 && nSend == 1 && bufOK && onlyLocalCalls
				}()
				if bounded {
					c.ok("R2", key, in, "bounded detached attempt: loop-free, one store operation, one send on a buffered channel (ends as soon as the operation in flight returns)")
				} else {
					c.viol("R2", key, in,
						"this goroutine can issue store operations and is not registered with the election's WaitGroup: Stop/StopWithContext return while it is still running, and it issues Create/Get/Update after Stop has returned (it may have passed its ctx.Done() test just before the stop)")
				}
			}
		}()
	}
	if nGo < 8 {
		c.undecided("R2", "instance-floor", nil, "only %d go statements found; at least 8 on the reference tree", nGo)
	}

	// ---- R3 -----------------------------------------------------------------------
	for _, su := range m.StopUnits {
		fn := shortFn(su)
		hasCtx := false
		for _, p := range su.Params {
			if isNamed(p.Type(), "context", "Context") {
				hasCtx = true
			}
		}
		nSel := 0
		body := m.bodyFns(su)
		// the stop unit and the functions its body is split into (a wait helper with one call site
		// - or one copy per call site, clone.go - is part of the stop call)
		m.eachUnitInstr(su, func(in ssa.Instruction) {
			switch x := in.(type) {
			case *ssa.Select:
				if !x.Blocking {
					return
				}
				nSel++
				timer, done := false, false
				for _, st := range x.States {
					if _, ok := isCallTo(st.Chan, "time.After"); ok {
						timer = true
					}
					if s := m.symInUnit(su, st.Chan); s.Op == "invoke" && strings.HasSuffix(s.Name, "Context.Done") && len(s.Args) == 1 && s.Args[0].Op == "param" {
						done = true
					}
				}
				key := fmt.Sprintf("wait #%d in %s is bounded", nSel, fn)
				c.check(timer && (done || !hasCtx), "R3", key, in, "timer case: %v; ctx.Done() case: %v (required: %v)", timer, done, hasCtx)
				// the bound itself: 5 s in Stop; the option / the context's deadline / 5 s in StopWithContext
				for _, st := range x.States {
					if call, ok := isCallTo(st.Chan, "time.After"); ok {
						d := call.Call.Args[0]
						if !hasCtx {
							n, isC := constInt(m.traceValue(d))
							c.check(isC && n == 5_000_000_000, "R3", fmt.Sprintf("wait #%d in %s is bounded by 5 s", nSel, fn), in, "timer duration %s", m.Sym.Of(d))
						} else {
							g := m.gatedInUnit(su, d)
							okT := strings.Contains(g, ".Timeout") && strings.Contains(g, "time.Until(") && strings.Contains(g, "5000000000")
							c.check(okT, "R3", fmt.Sprintf("wait #%d in %s is bounded by the caller's time-out", nSel, fn), in, "timer duration %s (required: opts.Timeout, else the context's deadline, else 5 s)", clip(g, 300))
						}
					}
				}
			case *ssa.UnOp:
				if m.isBlockingInstr(in) {
					c.viol("R3", "bare channel receive in "+fn, in, "a receive outside a select with a timer case can block the stop for ever")
				}
			case *ssa.Call:
				if g := x.Call.StaticCallee(); g != nil && g != su && containsFn(body, g) {
					return // part of the stop unit: its blocking instructions are judged above
				}
				if m.isBlockingInstr(in) {
					c.viol("R3", "blocking call in "+fn, in, "%s in a stop unit is not bounded by a timer", calleeName(&x.Call))
				}
			}
		})
		if nSel == 0 && isAPI(su) {
			c.viol("R3", "stop unit "+fn+" waits for background work", firstInstr(su), "no blocking select found: the stop does not wait for goroutines at all")
		}
	}
	// nothing blocking while the election mutex is held (whole library)
	nHeld := 0
	for _, f := range m.Funcs {
		eachInstr(f, func(in ssa.Instruction) {
			if !la.MayBefore(in).hasLock(m.path(m.Mu)) {
				return
			}
			_, isKV := m.isKVCall(valueOf(in), "")
			if m.isBlockingInstr(in) || isKV {
				nHeld++
				c.viol("R3", "blocking under the election mutex in "+shortFn(f), in, "%s may run while %s is held (%s): every API call and every transition then waits behind it", m.Sym.Of(valueOf(in)), m.path(m.Mu), la.MayBefore(in))
			}
		})
	}
	if nHeld == 0 {
		c.ok("R3", "nothing blocks while the election mutex is held", nil, "no select / receive / Wait / Sleep / store operation has %s in its may-lockset", m.path(m.Mu))
	}

	// ---- R4 -----------------------------------------------------------------------
	lockRules(c, "R4")

	// ---- R5 -----------------------------------------------------------------------
	nDel := 0
	for _, op := range m.StoreOps() {
		if op.Method != "Delete" {
			continue
		}
		inStop := false
		var stopFr OpFrame
		for _, fr := range m.opFrames(op.Call) {
			if fr.Stop {
				inStop, stopFr = true, fr
			}
		}
		if !inStop {
			continue
		}
		nDel++
		var foreign []string
		conds := append(m.frameGuards(stopFr, op.Call), m.controlConds(op.Call)...)
		for _, ci := range stopFr.Chain {
			conds = append(conds, m.controlConds(ci)...)
		}
		for _, l := range conds {
			s := l.S.String()
			switch {
			case l.Derived:
			case strings.Contains(s, "DeleteKey"):
			case m.isClaimValueSym(l.S), m.prevClaimLit(l, true):
			case strings.Contains(s, "select "):
			case func() bool { t, ok := m.loopCounterBound(l); return ok && t <= 8 }():
				// the header test of a small counted retry loop around the deletion
			case m.resultOfFrameFunction(l, stopFr, op.Call):
				// the outcome of an earlier cycle of the read-and-delete itself (a retry loop that
				// switches on the status its own helper returned)
			case m.isWaitHelperResult(l):
				// the outcome of a wait helper: which case of its select was taken
			case m.verdictCall(Lit{S: l.S, Truth: true}) != nil:
			case strings.HasPrefix(s, "assertok ") && strings.HasSuffix(s, "("+m.path(m.KV)+")#1"):
				// "does the store offer the conditional delete": chooses between two forms of the same deletion
			case strings.Contains(s, m.path(m.Ctx)): // the already-stopped test at entry
			default:
				foreign = append(foreign, l.String())
			}
		}
		c.check(len(foreign) == 0, "R5", "Delete depends only on DeleteKey, ownership and the completed wait in "+shortFn(op.Fn), op.Call, "other conditions on the way to Delete: %v", foreign)
		for _, l := range m.frameGuards(stopFr, op.Call) {
			if vc := m.verdictCall(l); vc != nil {
				g := vc.Call.StaticCallee()
				m.ownershipExtras[g] = nil
				m.isOwnershipCheck1(g)
				extras := uniqStrings(m.ownershipExtras[g])
				c.check(len(extras) == 0, "R5", "ownership verdict demands nothing beyond id and term token in "+shortFn(g), op.Call,
					"additional conditions for a positive verdict: %v. The record's owner can then fail its own ownership check (e.g. while a heartbeat is in flight) and the key is not deleted although DeleteKey was requested.", extras)
				// R10: a refused conditional delete is followed by a fresh ownership read. The read and
				// the delete are two operations; this instance's own heartbeat Update, in flight when
				// the stop began, can land between them: the delete of the revision that was read is
				// refused although the record is still the instance's own.
				if op.Extension != "" {
					// the retry may sit in the function that reads and deletes, or in a caller that
					// repeats a read-and-delete-once helper: look at each level of the frame
					retried := false
					delPos := c.posOf(op.Call)
					g := vc.Parent()
					for lvl := 0; lvl < 4 && g != nil && !retried; lvl++ {
						ld, lv := m.liftTo(g, op.Call), m.liftTo(g, vc)
						if ld == nil {
							for _, ci := range stopFr.Chain {
								if ci.Parent() == g {
									ld = ci
								}
							}
						}
						if ld != nil && lv != nil && reachableAfter(ld, func(x ssa.Instruction) bool { return x == lv }) != nil {
							retried = true
							delPos = c.posOf(ld)
							// a counted loop around the read must allow a second cycle
							for _, l := range m.GuardsAt(lv) {
								if trips, ok := m.loopCounterBound(l); ok && trips < 2 {
									retried = false
								}
							}
						}
						sites := m.callers[g]
						if g.Parent() != nil || len(sites) != 1 || sites[0].IsGo {
							break
						}
						g = sites[0].Caller
					}
					del := op.Call
					_ = del
					c.check(retried, "R10", "a refused conditional delete is followed by a new ownership read in "+shortFn(vc.Parent()), op.Call,
						"from the conditional delete (or the call that leads to it, %s) the ownership read %s is reachable again: %v. Without a retry a heartbeat Update that was in flight when the stop began and lands between the read and the delete leaves the owner's record in the store (no longer refreshed) while StopWithContext{DeleteKey} returns nil: the successor waits for the expiry.", delPos, shortFn(vc.Call.StaticCallee()), retried)
				}
			}
		}
		// on the success path: every `return nil` reachable after the ownership verdict passes the Delete or the verdict's negative edge
	}
	if nDel == 0 {
		c.viol("R5", "shutdown deletion exists", nil, "no Delete in a stop unit: with DeleteKey set the record stays until it expires")
	}

	// ---- R7: a write that lands after the stop began is not left behind ------------------
	// An acquisition whose Create/Update succeeds while the election is being stopped is refused
	// the claim (C02-R2). The record then names an instance that will never lead. The stop
	// cannot remove it (it was not leader when the stop began), so the refused acquisition must:
	// on the refusal edge every path reaches a deletion of the record (C01-R6 decides that this
	// deletion is conditioned on a shutdown that asked for it and presents the own revision).
	n7 := 0
	reachesDelete := func(g *ssa.Function) bool {
		for _, h := range sortedFns(m.staticReach(g, false)) {
			found := false
			eachInstr(h, func(in ssa.Instruction) {
				if _, ok := m.isKVCall(valueOf(in), "Delete"); ok {
					found = true
				}
			})
			if found {
				return true
			}
		}
		return false
	}
	for _, unit := range m.ClaimSet {
		for _, cs := range m.callers[unit] {
			if cs.IsGo {
				continue
			}
			call, ok := cs.Instr.(*ssa.Call)
			if !ok {
				continue
			}
			// the If on the unit's result
			eachInstr(cs.Caller, func(in ssa.Instruction) {
				ifi, ok := in.(*ssa.If)
				if !ok {
					return
				}
				l := m.litOf(ifi.Cond, true, ifi)
				if l.S.V != ssa.Value(call) {
					return
				}
				n7++
				refusedEdge := 1
				if !l.Truth {
					refusedEdge = 0
				}
				first := ifi.Block().Succs[refusedEdge].Instrs[0]
				isDiscard := func(x ssa.Instruction) bool {
					c2, ok := x.(*ssa.Call)
					if !ok {
						return false
					}
					if _, ok := m.isKVCall(c2, "Delete"); ok {
						return true
					}
					g := c2.Call.StaticCallee()
					return g != nil && m.isLib(g) && reachesDelete(g)
				}
				ok2 := isDiscard(first)
				var exit ssa.Instruction
				if !ok2 {
					ok2, exit = mustFollow(first, isDiscard, nil)
				}
				c.check(ok2, "R7", "a refused claim does not leave the record just written behind: "+shortFn(cs.Caller), in,
					"every path from the edge where %s returned false reaches a deletion of the record: %v (exit without one: %s). Otherwise a StopWithContext{DeleteKey} that lands while this write is in flight returns with the instance's own record still in the store, and a successor waits for its expiry.", shortFn(unit), ok2, c.posOf(exit))
			})
		}
	}
	if n7 < 1 {
		c.undecided("R7", "instance-floor", nil, "no test of the claim-set unit's result found (2 on the reference tree: create, takeover)")
	}

	// ---- R8: the stop call itself never waits for the store without a bound ---------------
	// StopWithContext promises to return within its time-out. Every store operation issued on
	// the calling goroutine (reached from the stop unit by plain calls) blocks it for as long
	// as the store takes; and waits that each take the full time-out add up.
	for _, su := range m.StopUnits {
		if !isAPI(su) {
			continue
		}
		hasBound := false
		for _, p := range su.Params {
			if isNamed(p.Type(), "context", "Context") {
				hasBound = true
			}
		}
		if !hasBound {
			continue // Stop(): 5 s plus the callback; it issues no store operation (checked by R5's absence of Delete there)
		}
		for _, g := range sortedFns(m.staticReach(su, false)) {
			eachInstr(g, func(in ssa.Instruction) {
				kv, ok := m.isKVCall(valueOf(in), "")
				if !ok {
					return
				}
				via := ""
				if g != su {
					via = " via " + shortFn(g)
				}
				c.viol("R8", "store operation on the goroutine of "+shortFn(su)+": "+kv.Call.Method.Name()+via, in,
					"%s is called synchronously by %s after its bounded wait: a store that answers slowly holds the call beyond its time-out (observed: Timeout 300 ms, Delete taking 1.2 s, return after 1.2 s)", kv.Call.Method.Name(), shortFn(su))
			})
		}
		// waits with the full time-out, one after the other
		var waits, waitAt []ssa.Instruction // the selects, and the instructions of su that stand for them
		m.eachUnitInstr(su, func(in ssa.Instruction) {
			if sel, ok := in.(*ssa.Select); ok && sel.Blocking {
				if _, isWait := m.selectWait(sel); isWait {
					if at := m.liftTo(su, in); at != nil {
						waits = append(waits, in)
						waitAt = append(waitAt, at)
					}
				}
			}
		})
		for i := 0; i < len(waits); i++ {
			d1, _ := m.selectWait(waits[i].(*ssa.Select))
			s1 := m.symInUnit(su, d1.Dur).String()
			full := false
			for j := 0; j < len(waits); j++ {
				if j == i || waitAt[j] == waitAt[i] || reachableAfter(waitAt[j], func(x ssa.Instruction) bool { return x == waitAt[i] }) == nil {
					continue
				}
				d0, _ := m.selectWait(waits[j].(*ssa.Select))
				s0 := m.symInUnit(su, d0.Dur).String()
				// time.Until(deadline) on a common deadline is the remaining time; the full time-out
				// again is either the same expression as an earlier full wait, or the very duration
				// an earlier wait's deadline was computed from
				if strings.HasPrefix(s1, "call time.Until(") {
					continue
				}
				if s0 == s1 || (strings.HasPrefix(s0, "call time.Until(") && strings.Contains(s0, s1)) {
					full = true
				}
			}
			c.check(!full, "R8", fmt.Sprintf("waits of %s share one deadline: wait #%d", shortFn(su), i+1), waits[i],
				"this wait takes the full time-out (%s) although it follows an earlier wait on the same time-out: the call can take twice its time-out", clip(s1, 80))
		}
	}

	// ---- R9: no background goroutine is registered after the stop's wait can have ended ------------
	// A go statement that registers with the WaitGroup is safe in a goroutine that is itself
	// registered (the stop still waits for it) and in the start / stop units. Anywhere else - a
	// callback of the connection, an API method - it must sit in a critical section of the election
	// mutex that has just read, under that very lock hold, that the election runs (run-liveness) or
	// that the claim stands (Stop clears the claim and cancels under the same mutex).
	{
		trackedFns := m.trackedOnlyFuncs()
		nSp := 0
		for _, sp := range m.Spawns() {
			if !sp.Tracked || sp.At == nil {
				continue
			}
			f := topFunc(sp.Fn)
			if trackedFns[f] || containsFn(m.StopUnits, f) || f == m.method("Start") {
				continue
			}
			nSp++
			own := m.ownerOf(f)
			gs := m.unitGuards(own, sp.At)
			live, how, lits := m.livenessLits(gs)
			if !live {
				for _, l := range gs {
					if l.Truth && m.isClaimLoadSym(l.S) {
						live, how, lits = true, "claim == true", []Lit{l}
					}
				}
			}
			locked := la.MustBefore(sp.At)[m.implMuW()] || la.MustBefore(sp.At)[m.implMuR()]
			fresh := true
			var at ssa.Instruction
			for _, l := range lits {
				if ok, bad := m.readsUnderLockAt(l, own, la, m.path(m.Mu), sp.At); !ok {
					fresh, at = false, bad
				}
			}
			key := fmt.Sprintf("go #%d in %s registers a goroutine only while the election runs", ordinalOf(sp.Fn, sp.At, func(x ssa.Instruction) bool { _, ok := x.(*ssa.Go); return ok }), shortFn(sp.Fn))
			switch {
			case live && locked && fresh:
				c.ok("R9", key, sp.At, "under the election mutex, guarded by %s read under that lock hold", how)
			case live && locked:
				c.viol("R9", key, sp.At, "the test that guards this go statement (%s) reads its state before the election mutex is taken (at %s): a Stop / StopWithContext that runs in between completes - claim cleared, WaitGroup wait over - and this goroutine is then started for a stopped instance: it issues store operations after the stop call has returned", how, c.posOf(at))
			default:
				c.viol("R9", key, sp.At, "%s can run at any time (connection callback / API) and registers a background goroutine without a run-liveness or claim test inside a critical section of the election mutex (locked: %v, test: %v): after Stop has returned it starts new background activity", shortFn(f), locked, live)
			}
		}
		if nSp == 0 {
			c.undecided("R9", "instance-floor", nil, "no tracked go statement outside tracked goroutines and the start/stop units found; 2 on the reference tree (follower loop, reconnect verification)")
		}
	}

	// ---- R6 -----------------------------------------------------------------------
	tracked := m.trackedOnlyFuncs()
	nCtx := 0
	for _, f := range m.Funcs {
		eachInstr(f, func(in ssa.Instruction) {
			u, ok := in.(*ssa.UnOp)
			if !ok {
				return
			}
			if fld, ok := m.implField(u.X); !ok || fld != m.Ctx {
				return
			}
			if la.MustBefore(in).hasLock(m.path(m.Mu)) {
				return
			}
			nCtx++
			bad := ""
			if refs := u.Referrers(); refs != nil {
				for _, r := range *refs {
					switch x := r.(type) {
					case *ssa.BinOp, *ssa.DebugRef:
					case *ssa.Store, *ssa.Phi:
						// copied into a local: follow is out of scope; accept only if the function is tracked-only
						if !tracked[topFunc(f)] {
							bad = "copied to a local in a function that may run outside tracked goroutines"
						}
					case ssa.CallInstruction:
						cc := x.Common()
						if cc.IsInvoke() && cc.Value == ssa.Value(u) {
							if !tracked[topFunc(f)] {
								bad = "method " + cc.Method.Name() + " is invoked on it"
							}
							continue
						}
						callee := cc.StaticCallee()
						idx := -1
						for i, a := range cc.Args {
							if a == ssa.Value(u) {
								idx = i
							}
						}
						if callee != nil && m.isLib(callee) && idx >= 0 && m.paramNilSafe(callee, idx, 0) {
							continue
						}
						if !tracked[topFunc(f)] {
							bad = "passed to " + calleeName(cc) + ", which uses it without a nil test"
						}
					default:
						if !tracked[topFunc(f)] {
							bad = fmt.Sprintf("used by %T", r)
						}
					}
				}
			}
			key := fmt.Sprintf("context field read outside the mutex in %s #%d", shortFn(f), ordinalOf(f, in, func(y ssa.Instruction) bool {
				uu, ok := y.(*ssa.UnOp)
				if !ok {
					return false
				}
				fld, ok := m.implField(uu.X)
				return ok && fld == m.Ctx && !la.MustBefore(y).hasLock(m.path(m.Mu))
			}))
			if bad == "" {
				c.ok("R6", key, in, "only nil-safe uses (or inside tracked goroutines, which finish before the field is cleared)")
			} else {
				c.viol("R6", key, in, "a stop unit stores nil to %s; this read happens without the mutex and the value is %s: after a successful StopWithContext a goroutine still finishing crashes the process (nil context)", m.path(m.Ctx), bad)
			}
		})
	}
	if nCtx < 5 {
		c.undecided("R6", "instance-floor", nil, "only %d unlocked reads of the context field found; more than 10 on the reference tree", nCtx)
	}
	// the nil store happens only after the completed wait
	for _, su := range m.StopUnits {
		eachInstr(su, func(in ssa.Instruction) {
			st, ok := in.(*ssa.Store)
			if !ok {
				return
			}
			if fld, ok := m.implField(st.Addr); !ok || fld != m.Ctx {
				return
			}
			if k, isC := st.Val.(*ssa.Const); !isC || k.Value != nil {
				return
			}
			afterWait := false
			for _, l := range m.GuardsAt(in) {
				if sel, k, ok := selectCaseOf(l); ok && k < len(sel.States) {
					if _, isTimer := isCallTo(sel.States[k].Chan, "time.After"); !isTimer {
						afterWait = true
					}
				}
			}
			c.check(afterWait, "R6", "context field cleared only after the wait completed in "+shortFn(su), in, "the nil store is in the branch where the WaitGroup wait finished: %v", afterWait)
		})
	}
}

func waiterOrFirst(g ssa.Instruction, f *ssa.Function) ssa.Instruction {
	if g != nil {
		return g
	}
	return firstInstr(f)
}

func calleeOfSym(s *Sym) *ssa.Function {
	if call, ok := s.V.(*ssa.Call); ok {
		return call.Call.StaticCallee()
	}
	return nil
}

// paramNilSafe: parameter #idx of f is only compared with nil, used under a `p != nil`
// guard, or passed to another nil-safe parameter.
func (m *Model) paramNilSafe(f *ssa.Function, idx int, depth int) bool {
	if f.Blocks == nil || idx >= len(f.Params) || depth > 3 {
		return false
	}
	p := f.Params[idx]
	refs := p.Referrers()
	if refs == nil {
		return true
	}
	notNil := func(in ssa.Instruction) bool {
		return hasLit(m.GuardsAt(in), false, func(s *Sym) bool {
			return s.Op == "bin" && s.Name == "==" && symMentions(s, "nil") && symMentions(s, "param:"+p.Name())
		})
	}
	for _, r := range *refs {
		switch x := r.(type) {
		case *ssa.BinOp, *ssa.DebugRef:
		case ssa.CallInstruction:
			if notNil(x) {
				continue
			}
			cc := x.Common()
			callee := cc.StaticCallee()
			j := -1
			for i, a := range cc.Args {
				if a == ssa.Value(p) {
					j = i
				}
			}
			if callee != nil && m.isLib(callee) && j >= 0 && m.paramNilSafe(callee, j, depth+1) {
				continue
			}
			return false
		case *ssa.Store:
			// spilled for closures: conservative
			return false
		default:
			if in, ok := r.(ssa.Instruction); ok && notNil(in) {
				continue
			}
			return false
		}
	}
	return true
}

// trackedOnlyFuncs: top-level functions all of whose call chains start in a goroutine that
// is registered with the WaitGroup (they finish before a successful StopWithContext clears the context).
func (m *Model) trackedOnlyFuncs() map[*ssa.Function]bool {
	// roots: closures spawned by tracked go statements; direct targets of tracked go
	trackedRoot := map[*ssa.Function]bool{}
	untrackedRoot := map[*ssa.Function]bool{}
	for _, sp := range m.Spawns() {
		for _, t := range sp.Targets {
			if sp.Tracked {
				trackedRoot[t] = true
			} else {
				untrackedRoot[t] = true
			}
		}
	}
	res := map[*ssa.Function]bool{}
	var isTracked func(f *ssa.Function, seen map[*ssa.Function]bool) bool
	isTracked = func(f *ssa.Function, seen map[*ssa.Function]bool) bool {
		if seen[f] {
			return true
		}
		seen[f] = true
		if untrackedRoot[f] {
			return false
		}
		if trackedRoot[f] && len(m.callers[f]) == 0 {
			return true
		}
		if f.Parent() != nil {
			if trackedRoot[f] {
				return true
			}
			return isTracked(f.Parent(), seen)
		}
		sites := m.callers[f]
		if len(sites) == 0 {
			// exported API, callbacks registered with other components: callable at any time
			return false
		}
		for _, cs := range sites {
			if cs.IsGo {
				if sp := m.spawnAt(cs.Instr); sp == nil || !sp.Tracked {
					return false
				}
				continue
			}
			if !isTracked(cs.Caller, seen) {
				return false
			}
		}
		return true
	}
	for _, f := range m.Funcs {
		if f.Parent() == nil {
			res[f] = isTracked(f, map[*ssa.Function]bool{})
		}
	}
	return res
}
