package main

import (
	"fmt"
	"go/types"
	"strings"

	"golang.org/x/tools/go/ssa"
)

func init() {
	register(&PropertySpec{
		ID:    "C19",
		Level: "other",
		Run:   checkC19,
		Explanation: "Decides the cancellation structure, not promptness in wall-clock terms: (R1) the context handed to OnPromote is a child (context.With*) of a context created in the claim-set activation whose cancel function is stored in a field of the election object; every non-stop claim-clear unit calls that field's value on every path after it cleared the claim (permitted skip: nil), and the stop units cancel an ancestor (the election-wide cancel created together with the election context); " +
			"(R2) nothing else cancels the term context: its cancel field is invoked only by claim-clear units, and the promotion goroutine only cancels its own child after the callback returned - so the context is not cancelled while the instance still leads and the callback runs.",
		NotDecided: []string{"how quickly user code observes ctx.Done() (scheduling)", "cancellation through the caller's own parent context passed to Start (outside the library's control)"},
		Assumptions: []string{"context.WithCancel semantics: cancelling a parent cancels its children"},
		Rules: map[string]string{
			"R1": "ancestors(arg0 of OnPromote) contains a context.With* call K in a claim-set unit whose result #1 is stored to a field TC of the election object; every non-stop claim-clear unit: must-follow of a call of TC's value after the claim Store(false) (skip: TC == nil); the root ancestor is the election context, whose cancel (stored by the same With* call) every stop unit calls",
			"R3": "every value stored in the promotion-callback field is the registering method's parameter, nil, or a wrapper function that invokes the callback on its own goroutine (no go statement between the wrapper and the callback): the deferred cancel of the promotion goroutine runs after the application's callback returned, not before",
			"R2": "the value of TC is invoked only in claim-clear units; the only other cancel invoked in the promotion goroutine is that of its own child context, deferred (after the callback)",
		},
	})
}

// ctxAncestors returns the chain of context.With* calls from v up to its root value.
func (m *Model) ctxAncestors(v ssa.Value) (chain []*ssa.Call, root ssa.Value) {
	seen := map[ssa.Value]bool{}
	for v != nil && !seen[v] {
		seen[v] = true
		v = m.traceValue(v)
		switch x := v.(type) {
		case *ssa.Extract:
			if call, ok := x.Tuple.(*ssa.Call); ok && x.Index == 0 {
				if f := call.Call.StaticCallee(); f != nil && strings.HasPrefix(f.String(), "context.With") {
					chain = append(chain, call)
					v = call.Call.Args[0]
					continue
				}
			}
			return chain, v
		case *ssa.UnOp:
			// load of a local cell (possibly captured): its single store
			if al := m.Sym.resolveCell(x.X); al != nil {
				if st := singleStore(al, m.Sym); st != nil {
					v = st
					continue
				}
			}
			return chain, v
		case *ssa.MakeInterface:
			v = x.X
		case *ssa.ChangeInterface:
			v = x.X
		default:
			return chain, v
		}
	}
	return chain, v
}

// callbackIdentityRule (C19-R3): what the promotion goroutine invokes IS the application's
// callback. The goroutine cancels the promotion context when the invoked value returns (deferred
// cancel, R2): a wrapper installed by the registration method that runs the callback on another
// goroutine and may return before it ("supervision" with a time-out) cancels the context of a
// callback that is still running under a standing term.
func callbackIdentityRule(c *Ctx, rule string) {
	m := c.M
	if m.OnPromote == "" {
		c.undecided(rule, "promotion callback field", nil, "not found")
		return
	}
	n := 0
	for _, f := range m.Funcs {
		eachInstr(f, func(in ssa.Instruction) {
			st, ok := in.(*ssa.Store)
			if !ok {
				return
			}
			fld, ok := m.implField(st.Addr)
			if !ok || fld != m.OnPromote {
				return
			}
			n++
			v := m.traceValue(st.Val)
			why := ""
			switch x := v.(type) {
			case *ssa.Parameter:
			case *ssa.Const:
				if !x.IsNil() {
					why = "a constant that is not nil"
				}
			default:
				targets := m.funcValueTargets(v)
				if len(targets) == 0 {
					why = "the stored value is neither the registering method's parameter nor a function the analysis can resolve: " + m.Sym.Of(v).String()
				}
				sig := st.Val.Type().Underlying()
				for _, t := range targets {
					// a wrapper: the captured callback must run on the wrapper's own goroutine
					for _, sp := range m.Spawns() {
						if !containsFn(m.reachWithFuncArgs(t), sp.Fn) {
							continue
						}
						for _, tg := range sp.Targets {
							for _, h := range sortedFns(m.staticReach(tg, true)) {
								eachInstr(h, func(y ssa.Instruction) {
									if call, ok := y.(*ssa.Call); ok && !call.Call.IsInvoke() && call.Call.StaticCallee() == nil {
										if types.Identical(call.Call.Value.Type().Underlying(), sig) {
											why = fmt.Sprintf("the wrapper %s runs the callback on another goroutine (%s at %s): it can return, and the promotion goroutine cancel the context, while the callback is still running", shortFn(t), shortFn(h), c.posOf(y))
										}
									}
								})
							}
						}
					}
				}
			}
			c.check(why == "", rule, "value stored as the promotion callback in "+shortFn(f), in, "%s", why)
		})
	}
	if n == 0 {
		c.undecided(rule, "stores of the promotion callback", nil, "none found")
	}
}

func checkC19(c *Ctx) {
	callbackIdentityRule(c, "R3")
	m := c.M
	// the OnPromote invocation
	var inv ssa.CallInstruction
	var invFn *ssa.Function
	for _, f := range m.Funcs {
		eachInstr(f, func(in ssa.Instruction) {
			if m.invokesFieldValue(in, m.OnPromote) {
				inv = in.(ssa.CallInstruction)
				invFn = f
			}
		})
	}
	if inv == nil {
		c.undecided("R1", "OnPromote invocation", nil, "not found")
		return
	}
	chain, root := m.ctxAncestors(inv.Common().Args[0])
	var desc []string
	for _, k := range chain {
		desc = append(desc, fmt.Sprintf("%s at %s in %s", k.Call.StaticCallee().Name(), c.posOf(k), shortFn(k.Parent())))
	}
	rootSym := m.Sym.Of(root)
	c.check(rootSym.Op == "path" && rootSym.Name == m.path(m.Ctx), "R1", "promotion context descends from the election context", inv, "ancestors: %v; root %s", desc, rootSym)
	// a With* call in the claim-set unit whose cancel is stored in a field
	var tc string
	var termCall *ssa.Call
	for _, k := range chain {
		if !containsFn(m.ClaimSet, k.Parent()) {
			continue
		}
		if refs := k.Referrers(); refs != nil {
			for _, r := range *refs {
				if ex, ok := r.(*ssa.Extract); ok && ex.Index == 1 {
					if rr := ex.Referrers(); rr != nil {
						for _, u := range *rr {
							if st, ok := u.(*ssa.Store); ok {
								if fld, ok := m.implField(st.Addr); ok {
									tc, termCall = fld, k
								}
							}
						}
					}
				}
			}
		}
	}
	if tc == "" {
		c.viol("R1", "term context has a stored cancel function", inv,
			"no ancestor of the promotion context is created in the claim-set unit with its cancel function stored in the election object (ancestors: %v): nothing can cancel the context when the term ends by demotion, so work bound to it outlives the leadership it was started for", desc)
	} else {
		c.ok("R1", "term context has a stored cancel function", termCall, "cancel of %s stored in %s", desc[len(desc)-1], m.path(tc))
		la := m.Locks()
		for _, u := range m.DemoteUnits {
			eachInstr(u, func(in ssa.Instruction) {
				val, isConst, ok := m.claimStore(in)
				if !ok || !isConst || val {
					return
				}
				isCancel := func(x ssa.Instruction) bool {
					call, ok := x.(*ssa.Call)
					if !ok || call.Call.IsInvoke() || call.Call.StaticCallee() != nil {
						return false
					}
					s := m.Sym.Of(call.Call.Value)
					return s.Op == "path" && s.Name == m.path(tc)
				}
				// ... or a call of a function this critical section was split into that cancels on
				// every one of its paths (unless the cancel function is nil)
				nilSkip := func(b *ssa.BasicBlock, i int) bool {
					l, ok := m.edgeLit(b, i)
					return ok && l.Truth && l.S.Op == "bin" && l.S.Name == "==" && symMentions(l.S, "nil") && symMentions(l.S, m.path(tc))
				}
				cancels := func(x ssa.Instruction) bool {
					// in the critical section that cleared the claim: a cancel issued after the mutex was
					// released can hit the cancel function of a term that began in between
					if !la.MustBefore(x)[m.implMuW()] {
						return false
					}
					if isCancel(x) {
						return true
					}
					call, ok := x.(*ssa.Call)
					if !ok {
						return false
					}
					g := call.Call.StaticCallee()
					if g == nil || g == u || !containsFn(m.bodyFns(u), g) || len(g.Blocks) == 0 {
						return false
					}
					first := g.Blocks[0].Instrs[0]
					if isCancel(first) {
						return true
					}
					okG, _ := mustFollow(first, isCancel, nilSkip)
					return okG
				}
				okF, exit := mustFollow(in, cancels, func(b *ssa.BasicBlock, i int) bool {
					l, ok := m.edgeLit(b, i)
					return ok && l.Truth && l.S.Op == "bin" && l.S.Name == "==" && symMentions(l.S, "nil") && symMentions(l.S, m.path(tc))
				})
				if okF {
					c.ok("R1", "demotion cancels the term context in "+shortFn(u), in, "every path after the claim clear calls %s under the same write-lock hold (skip: nil)", m.path(tc))
				} else {
					c.viol("R1", "demotion cancels the term context in "+shortFn(u), in, "after clearing the claim a path reaches %s without calling %s while the election mutex is still held: the promotion context stays alive after the term ended, or - cancelled after the mutex was released - the cancel hits a term that began in between", c.posOf(exit), m.path(tc))
				}
			})
		}
	}
	// stop units cancel the election context: the cancel field and the ctx field are stored from one With* call
	pair := false
	if st := m.method("Start"); st != nil {
		eachInstr(st, func(in ssa.Instruction) {
			if call, ok := isCallTo(valueOf(in), "context.WithCancel"); ok {
				ctxStored, cancelStored := false, false
				if refs := call.Referrers(); refs != nil {
					for _, r := range *refs {
						if ex, ok := r.(*ssa.Extract); ok {
							if rr := ex.Referrers(); rr != nil {
								for _, u := range *rr {
									if s, ok := u.(*ssa.Store); ok {
										if fld, ok := m.implField(s.Addr); ok {
											if ex.Index == 0 && fld == m.Ctx {
												ctxStored = true
											}
											if ex.Index == 1 && fld == m.Cancel {
												cancelStored = true
											}
										}
									}
								}
							}
						}
					}
				}
				if ctxStored && cancelStored {
					pair = true
				}
			}
		})
	}
	c.check(pair && len(m.StopUnits) >= 2, "R1", "stop units cancel an ancestor of the promotion context", nil, "election context and cancel field come from one context.WithCancel in Start: %v; stop units (they call the cancel field under the mutex: C09-R0): %v", pair, fnNames(m.StopUnits))

	// ---- R2 -----------------------------------------------------------------------
	if tc != "" {
		for _, f := range m.Funcs {
			eachInstr(f, func(in ssa.Instruction) {
				ci, ok := in.(ssa.CallInstruction)
				if !ok || ci.Common().IsInvoke() || ci.Common().StaticCallee() != nil {
					return
				}
				s := m.Sym.Of(ci.Common().Value)
				if s.Op == "path" && s.Name == m.path(tc) {
					inClear := containsFn(m.ClaimClear, f)
					for _, u := range m.ClaimClear {
						if containsFn(m.bodyFns(u), f) {
							inClear = true // a function the clear unit's critical section was split into
						}
					}
					inSet := containsFn(m.ClaimSet, f)
					for _, u := range m.ClaimSet {
						if containsFn(m.bodyFns(u), f) {
							inSet = true // plain single-call-site callees only: not the goroutines the unit starts
						}
					}
					c.check(inClear || inSet, "R2", "term cancel invoked in "+shortFn(f), in, "claim-clear unit: %v (cancelling elsewhere ends the promotion context while the instance still leads)", inClear)
				}
			})
		}
	}
	// in the promotion goroutine: other cancels only deferred (after the callback)
	eachInstr(invFn, func(in ssa.Instruction) {
		ci, ok := in.(ssa.CallInstruction)
		if !ok || ci.Common().IsInvoke() || ci.Common().StaticCallee() != nil || in == ssa.Instruction(inv) {
			return
		}
		v := ci.Common().Value
		if ex, ok := v.(*ssa.Extract); ok && ex.Index == 1 {
			if call, ok := ex.Tuple.(*ssa.Call); ok {
				if f := call.Call.StaticCallee(); f != nil && strings.HasPrefix(f.String(), "context.With") {
					_, isDefer := in.(*ssa.Defer)
					c.check(isDefer, "R2", "promotion goroutine cancels its child context only after the callback", in, "deferred: %v", isDefer)
				}
			}
		}
	})
}
