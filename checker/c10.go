package main

import (
	"fmt"
	"strings"

	"golang.org/x/tools/go/ssa"
)

func init() {
	register(&PropertySpec{
		ID:    "C10",
		Level: "other",
		Run:   checkC10,
		Explanation: "Promptness (three heartbeat intervals) is timing and is not decided. Decided, for all priorities and flags: (R1) every Update that is not the heartbeat refresh is reached only with AllowPriorityTakeover true in the own configuration, after a successful Get in the same activation, after that entry's value decoded into the payload type and names a leader (non-empty id), under the STRICT comparison own priority > stored priority, and presents exactly that entry's revision; " +
			"(R2) the takeover code is reachable from the follower's watch-event handling (the mechanism behind promptness; reachability only); (R3) validation rejects AllowPriorityTakeover with Priority <= 0 (C16); (R4) an acquisition that did not set the claim is reported as a failure (C06-R5, shared); (R5) on a watch event the decision to attempt a takeover depends only on the event, the follower role and the priority comparison (must-guards and deciding conditions), so that a lost attempt is repeated on the incumbent's next heartbeat event.",
		NotDecided: []string{"that a higher-priority instance becomes leader within three heartbeat intervals (timing)", "that leadership then stays with the highest-priority instance (schedule)"},
		Assumptions: []string{"KeyValue.Update is revision-checked (C14)"},
		Rules: map[string]string{
			"R1": "guards (local + inherited from all call sites) of every non-refresh Update include: cfg.AllowPriorityTakeover == true; Get err == nil; Unmarshal(entry.Value(), &cur) == nil; NOT (\"\" == cur.ID); NOT (cfg.Priority <= cur.Priority) [strict]; revision argument == Revision() of that Get's entry",
			"R2": "a non-refresh Update is reachable (static calls and go statements) from the function that calls Watch",
			"R3": "see C16-R1 (AllowPriorityTakeover && Priority <= 0 rejected)",
			"R5": "the go statement in the watch handling that is guarded by the priority comparison and reaches the takeover: its guards are only literals over the event (entry, decoded payload), the claim, cfg.AllowPriorityTakeover / cfg.Priority, the recorded leader id and the context",
			"R4": "see C06-R5: every `return nil` of the acquisition/takeover functions is guarded by the claim-set unit having returned true",
		},
	})
}

func checkC10(c *Ctx) {
	m := c.M
	n := 0
	var takeoverFns []*ssa.Function
	for _, op := range m.StoreOps() {
		if m.classifyOp(op) != "takeover" {
			continue
		}
		n++
		takeoverFns = append(takeoverFns, op.Fn)
		fn := shortFn(op.Fn)
		gs := m.AllGuards(op.Call, false)
		apt := hasLit(gs, true, func(s *Sym) bool { return s.Op == "path" && s.Name == m.cfgPath("AllowPriorityTakeover") })
		c.check(apt, "R1", "takeover only when enabled in "+fn, op.Call, "guards %s", clip(fmtLits(gs), 500))
		// the Get of this activation: the one whose entry's revision the Update presents (a retry
		// that reads again presents the second read's revision - the comparison must be made on
		// that read, not on an earlier one)
		var revGet *ssa.Call
		if rv := m.Sym.Of(m.traceValue(op.Call.Call.Args[2])); rv.Op == "invoke" && strings.HasSuffix(rv.Name, "Entry.Revision") && len(rv.Args) == 1 && rv.Args[0].Op == "extract" && rv.Args[0].Name == "0" {
			if kv, ok := m.isKVCall(rv.Args[0].Args[0].V, "Get"); ok {
				revGet = kv
			}
		}
		var get *ssa.Call
		for _, l := range gs {
			if l.Truth && l.S.Op == "bin" && l.S.Name == "==" && symMentions(l.S, "nil") {
				for _, a := range l.S.Args {
					if a.Op == "extract" && a.Name == "1" {
						if kv, ok := m.isKVCall(a.Args[0].V, "Get"); ok && (kv.Parent() == op.Fn || m.staticReach(kv.Parent(), false)[op.Fn]) {
							if get == nil || kv == revGet {
								get = kv
							}
						}
					}
				}
			}
		}
		if get == nil {
			c.viol("R1", "takeover after a successful read in "+fn, op.Call, "no Get with err == nil in this activation guards the Update")
			continue
		}
		c.ok("R1", "takeover after a successful read in "+fn, op.Call, "Get at %s, err == nil", c.posOf(get))
		// decode of that entry's value
		var target string
		dec := false
		for _, l := range gs {
			if l.Truth && l.S.Op == "bin" && l.S.Name == "==" && symMentions(l.S, "nil") {
				for _, a := range l.S.Args {
					if a.Op == "call" && a.Name == "encoding/json.Unmarshal" && len(a.Args) == 2 && symMentions(a.Args[0], "Entry.Value(") && symMentions(a.Args[0], "KeyValue.Get(") && symHasValue(a.Args[0], get) {
						dec = true
						target = strings.TrimPrefix(a.Args[1].String(), "&")
					}
				}
			}
		}
		c.check(dec, "R1", "takeover after the record decoded in "+fn, op.Call, "json.Unmarshal(entry.Value(), &%s) == nil among the guards: %v", target, dec)
		// the record names a leader: valid JSON that is not a leadership payload (null, {}, another
		// application's record) decodes to the zero payload, "priority 0"
		named := hasLit(gs, false, func(s *Sym) bool {
			return target != "" && s.Op == "bin" && s.Name == "==" && ((s.Args[0].String() == `""` && s.Args[1].String() == target+".ID") || (s.Args[1].String() == `""` && s.Args[0].String() == target+".ID"))
		})
		c.check(named, "R1", "takeover only of a record that names a leader in "+fn, op.Call, "NOT (\"\" == %s.ID) among the guards: %v. A live record that decodes without error but is no leadership payload would be read as priority 0 and overwritten.", target, named)
		// strict priority comparison
		own := m.cfgPath("Priority")
		strict := false
		nonStrict := ""
		for _, l := range gs {
			if l.S.Op != "bin" || target == "" {
				continue
			}
			a0, a1 := l.S.Args[0].String(), l.S.Args[1].String()
			stored := target + ".Priority"
			switch {
			case l.S.Name == "<=" && a0 == own && a1 == stored && !l.Truth: // NOT (own <= stored)
				strict = true
			case l.S.Name == "<" && a0 == stored && a1 == own && l.Truth: // stored < own
				strict = true
			case l.S.Name == "<" && a0 == own && a1 == stored && !l.Truth: // NOT (own < stored) : own >= stored
				nonStrict = l.String()
			case l.S.Name == "<=" && a0 == stored && a1 == own && l.Truth: // stored <= own
				nonStrict = l.String()
			}
		}
		if strict {
			c.ok("R1", "strictly higher priority in "+fn, op.Call, "own priority > stored priority on every path to the Update")
		} else if nonStrict != "" {
			c.viol("R1", "strictly higher priority in "+fn, op.Call, "the comparison is not strict (%s): an instance with EQUAL priority preempts the incumbent; two equal-priority instances then depose each other forever", nonStrict)
		} else {
			c.viol("R1", "strictly higher priority in "+fn, op.Call, "no comparison of %s with the decoded record's priority guards the Update (guards: %s)", own, clip(fmtLits(gs), 400))
		}
		// revision argument
		rev := m.Sym.Of(m.traceValue(op.Call.Call.Args[2]))
		okRev := rev.Op == "invoke" && strings.HasSuffix(rev.Name, "Entry.Revision") && len(rev.Args) == 1 && rev.Args[0].Op == "extract" && rev.Args[0].Name == "0" && rev.Args[0].Args[0].V == ssa.Value(get)
		c.check(okRev, "R1", "takeover presents the read revision in "+fn, op.Call, "revision argument %s; required: Revision() of the entry returned by the Get at %s", rev, c.posOf(get))
	}
	if n < 1 {
		c.undecided("R1", "instance-floor", nil, "no non-refresh Update found (takeover path missing)")
	}
	// R2
	var watchFn *ssa.Function
	for _, op := range m.StoreOps() {
		if op.Method == "Watch" {
			watchFn = m.ownerOf(op.Fn) // the watch handling, however its body is split (openWatch, serveWatch, ...)
		}
	}
	if watchFn == nil {
		c.undecided("R2", "takeover reachable from the watch handling", nil, "no Watch call found")
	} else {
		reach := m.staticReach(watchFn, true)
		ok := false
		for _, f := range takeoverFns {
			if reach[f] {
				ok = true
			}
		}
		c.check(ok, "R2", "takeover reachable from the watch handling", firstInstr(watchFn), "from %s: %v", shortFn(watchFn), ok)
	}
	// R5: on a watch event the decision to attempt a takeover depends on nothing but the event,
	// the follower role and the priority comparison, so that a lost attempt is repeated on the
	// incumbent's next heartbeat event
	if watchFn != nil {
		n5 := 0
		own := m.cfgPath("Priority")
		for _, sp := range m.Spawns() {
			if !m.staticReach(watchFn, false)[topFunc(sp.Fn)] {
				continue
			}
			reachesTakeover := false
			for _, t := range sp.Targets {
				for _, f := range takeoverFns {
					if t == f || m.staticReach(t, true)[f] {
						reachesTakeover = true
					}
				}
			}
			// the conditions inside the event handler (the function that receives the entry)
			gs := append([]Lit{}, m.GuardsAt(sp.At)...)
			gs = append(gs, m.controlConds(sp.At)...)
			for f := sp.Fn; f.Parent() != nil; f = f.Parent() {
				if mc := m.Sym.closureOf[f]; mc != nil {
					gs = append(gs, m.GuardsAt(mc)...)
					gs = append(gs, m.controlConds(mc)...)
				}
			}
			if !reachesTakeover || !hasLit(gs, true, func(s *Sym) bool { return symMentions(s, own) }) && !hasLit(gs, false, func(s *Sym) bool { return symMentions(s, own) }) {
				continue
			}
			n5++
			var foreign []string
			for _, l := range gs {
				str := l.S.String()
				switch {
				case l.Derived:
				case symMentions(l.S, own), strings.Contains(str, m.cfgPath("AllowPriorityTakeover")):
				case m.isClaimLoadSym(l.S), m.isClaimValueSym(l.S):
				case strings.Contains(str, "Entry.Value(") || strings.Contains(str, "param:entry") || strings.Contains(str, "encoding/json.Unmarshal("):
				case strings.Contains(str, "(*sync/atomic.Value).Load(&"+m.path(m.LeaderID)+")") && strings.Contains(str, ".ID"):
					// the "same incumbent as before" test: the first event of a new incumbent only records it
				case strings.Contains(str, m.path(m.Ctx)) || strings.Contains(str, "Context.Err("):
				default:
					foreign = append(foreign, l.String())
				}
			}
			c.check(len(foreign) == 0, "R5", "takeover attempt on a watch event depends only on the event, the role and the priorities in "+shortFn(sp.Fn), sp.At,
				"other conditions at the spawn: %v (a remembered earlier decision, a rate limit or similar state keeps a lost attempt from being repeated while the same lower-priority incumbent lives)", foreign)
		}
		if n5 == 0 {
			c.viol("R5", "takeover attempt on a watch event", firstInstr(watchFn), "no goroutine started from the watch handling under the priority comparison reaches the takeover")
		}
	}
	// R4 (shared with C06-R5): a takeover that did not succeed is reported as a failure, so the
	// caller keeps following and re-evaluates (the promptness mechanism relies on it)
	acquisitionResultRule(c, "R4")
	// R3
	rejects, _, vf := m.rejectTable()
	found := false
	if vf != nil {
		for _, r := range rejects {
			if r.field == "Priority" {
				s := strings.Join(r.lits, "; ")
				if strings.Contains(s, "AllowPriorityTakeover") && strings.Contains(s, "Priority <= 0") {
					found = true
				}
			}
		}
	}
	c.check(found, "R3", "takeover requires a positive priority", nil, "validator rejects AllowPriorityTakeover && Priority <= 0: %v", found)
	_ = fmt.Sprint
}


// takeoverNamesLeaderRule (C13-R6, the same fact as in C10-R1): a takeover is attempted only against
// a record whose decoded payload names a leader.
func takeoverNamesLeaderRule(c *Ctx, rule string) {
	m := c.M
	n := 0
	for _, op := range m.StoreOps() {
		if m.classifyOp(op) != "takeover" {
			continue
		}
		n++
		gs := m.AllGuards(op.Call, false)
		target := ""
		for _, l := range gs {
			if l.Truth && l.S.Op == "bin" && l.S.Name == "==" && symMentions(l.S, "nil") {
				for _, a := range l.S.Args {
					if a.Op == "call" && a.Name == "encoding/json.Unmarshal" && len(a.Args) == 2 && symMentions(a.Args[0], "Entry.Value(") {
						target = strings.TrimPrefix(a.Args[1].String(), "&")
					}
				}
			}
		}
		named := hasLit(gs, false, func(s *Sym) bool {
			return target != "" && s.Op == "bin" && s.Name == "==" && ((s.Args[0].String() == `""` && s.Args[1].String() == target+".ID") || (s.Args[1].String() == `""` && s.Args[0].String() == target+".ID"))
		})
		c.check(named, rule, "no leadership claimed over a live record that names no leader: "+shortFn(op.Fn), op.Call,
			"the takeover Update is guarded by a non-empty id of the decoded record: %v (null, {} or another application's JSON decode without error into the zero payload)", named)
	}
	if n == 0 {
		c.undecided(rule, "takeover path", nil, "no takeover Update found")
	}
}

// symHasValue: does the expression s contain the SSA value v?
func symHasValue(s *Sym, v ssa.Value) bool {
	if s == nil {
		return false
	}
	if s.V == v {
		return true
	}
	for _, a := range s.Args {
		if symHasValue(a, v) {
			return true
		}
	}
	return false
}
